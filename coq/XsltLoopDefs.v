(* C01, mechanism (c): the iterative interpreter loop ElemTemplateElement::execute
   (src/xalanc/XSLT/ElemTemplateElement.cpp:240-283) with the default startElement / endElement /
   getInvoker / getFirstChildElemToExecute / getNextChildElemToExecute protocol, against structural
   recursion over the instruction tree.

   A node carries [reps]: how many times its children are run (0: startElement returns 0 although there
   are children - xsl:if with a false test, xsl:for-each over no node; 1: an ordinary container; k: an
   xsl:for-each over k nodes, whose getNextChildElemToExecute (ElemForEach.cpp:219-247) hands out the first
   child again after the last one). Elements with their own invoker stack (templates reached through
   xsl:call-template / xsl:apply-templates: ElemTemplate::getInvoker) are outside this model.

   The loop, as coded:
       invoker = parent(this); current = this;
       while (current != 0) {
           next = current->startElement();                       -- Outer state
           while (next == 0) {                                   -- Inner state
               current->endElement();
               if (current->getInvoker() == invoker) { next = 0; break; }
               next = current->getInvoker()->getNextChildElemToExecute(current);
               if (next == 0) current = current->getInvoker();
           }
           current = next;
       }
   Definitions only. *)
From Coq Require Import List NArith Arith.
Import ListNotations.

Inductive tree := Node (id : N) (reps : nat) (children : list tree).

Inductive ev := Start (id : N) | End (id : N).

(* structural recursion *)
Fixpoint rep {A} (k : nat) (l : list A) : list A := match k with O => [] | S k' => l ++ rep k' l end.

Fixpoint exec_rec (t : tree) : list ev :=
  match t with
  | Node id reps ch => Start id :: rep reps (flat_map exec_rec ch) ++ [End id]
  end.

(* the element tree with parent links, as a zipper: a frame = the invoker (id), all its children (to start
   over), the runs still to do after the current one, the siblings to the right *)
Definition frame := (N * list tree * nat * list tree)%type.

Inductive state :=
| Outer (t : tree) (c : list frame)        (* about to call t->startElement() *)
| Inner (id : N) (c : list frame)          (* next == 0: about to call endElement() of element id *)
| Done.

Definition step (s : state) : state * list ev :=
  match s with
  | Outer (Node id reps ch) c =>
      (* startElement: getFirstChildElemToExecute *)
      match reps, ch with
      | S r, k :: rest => (Outer k ((id, ch, r, rest) :: c), [Start id])
      | _, _ => (Inner id c, [Start id])
      end
  | Inner id c =>
      (* endElement; the element whose invoker is the caller's invoker ends the loop *)
      match c with
      | [] => (Done, [End id])
      | (p, all, r, rsib) :: c' =>
          (* localInvoker->getNextChildElemToExecute(current) *)
          match rsib with
          | k :: rest => (Outer k ((p, all, r, rest) :: c'), [End id])
          | [] =>
              match r, all with
              | S r', k :: rest => (Outer k ((p, all, r', rest) :: c'), [End id])     (* for-each: next node *)
              | _, _ => (Inner p c', [End id])                                         (* current = invoker *)
              end
          end
      end
  | Done => (Done, [])
  end.

Fixpoint run (fuel : nat) (s : state) : state * list ev :=
  match fuel with
  | O => (s, [])
  | S f => match step s with (s', e) => match run f s' with (s'', e') => (s'', e ++ e') end end
  end.

Definition exec_iter (fuel : nat) (t : tree) : state * list ev := run fuel (Outer t []).

(* number of loop steps the execution of t takes *)
Fixpoint steps (t : tree) : nat :=
  match t with
  | Node _ reps ch => 2 + reps * fold_right (fun x a => steps x + a) 0 ch
  end.
