"""C01, whole-interpreter piece, part 2 (plug-in of props/C01.py: run_part(ctx)).

proof  : coq/Properties_C01core2.v - the machine of coq/XsltCore2Defs.v (XsltCoreDefs.v's explicit-stack interpreter
         extended by xsl:element with a computed name, xsl:comment, xsl:processing-instruction; the output side is
         three stacks: output contexts incl. text collectors, copy-text-nodes-only flags, cached strings) refines the
         reference semantics sem2 for every instantiation of the abstract mechanisms (machine2_refines_sem2, the full
         theorem for the source as repaired by /repo 16b1cb3 + 6d0ffbc; machine2_refines_sem2_this_tree instantiates it
         at the two variant flags regenerated from the source; for the variant before the repair: _partial under the exact
         guard, _refuted without it); the shapes it mirrors are regenerated from the source (coq/GenXsltCore2.v,
         translator/gen_xsltcore2.py);
tie    : for every generated program of the extended language the extracted machine (of the source's variant), instantiated
         with the tables the Python reference interpreter recorded, must produce the tree the REBUILT LIBRARY serializes
         (re-parsed); the extracted sem2 must agree with the machine wherever it is defined (theorem);
oracle : vlib/xsltref.py (the reference interpreter, through vlib/xsltgen_core2.prepare) against the library's tree:
         a difference on a program whose semantics is defined is a VIOLATION; on a stylesheet in error (content of a
         comment / PI creating non-text nodes: the semantics is undefined, the reference recovers by dropping the nodes
         with their content, the library keeps the text of literal result elements) it is counted only.
         corpus/C01core2/k1, k2: the replays of the two repaired findings with the output they must produce."""
import os
import time

from vlib import core, xsltrun, xsltref, xsltgen, xpref, xsltcore
from vlib import xsltgen_core3 as g2        # core2's language + top-level variables / params (a superset)

N_QUICK = 1000
N_THOROUGH = 12000
BATCH = 500
KEY1 = "K-C01-core2-1"
KEY2 = "K-C01-core2-2"
ERROR_FLAGS = ("nontext_in_comment", "nontext_in_pi", "nontext_in_attribute", "attr_without_element", "copy_of_element_in_text_only_context")


def corpus_dir():
    return os.path.join(core.VERIF, "corpus", "C01core2")


def load_corpus():
    import ast
    import glob
    out = []
    for p in sorted(glob.glob(os.path.join(corpus_dir(), "*.txt"))):
        lines = [l for l in open(p, encoding="utf-8") if l.startswith("{")]
        if lines:
            d = ast.literal_eval(lines[-1].strip())
            out.append((os.path.basename(p)[:-4], d["sheet"], d["doc"], d.get("expect", ""), d.get("ext", ())))
    return out


def replay_text(what, sheet, doc, extra="", expect="", ext=()):
    main, _ = xsltgen.print_sheet(sheet)
    head = ["# C01core2: " + what]
    head += ["#   " + l for l in main.split("\n")]
    head.append("#   --- source: " + xsltgen.doc_xml(doc).replace("\n", "&#10;"))
    head += ["#   " + l for l in extra.split("\n") if l]
    if ext:
        head.append("#   --- external params: " + ", ".join("%s='%s'" % (n, s) for n, s in ext))
    d = {"kind": "core2", "sheet": sheet, "doc": doc}
    if ext:
        d["ext"] = tuple(ext)
    if expect:
        d["expect"] = expect
    return "\n".join(head) + "\n" + repr(d) + "\n"


class Stats:
    def __init__(self):
        self.programs = self.agree = self.skipped = self.lib_err = 0
        self.k1 = self.k1_visible = self.err_class = self.err_class_differs = 0
        self.ev = self.evals = self.instrs = 0
        self.diffs = []
        self.violations = []
        self.k1_cases = []
        self.pairs = set()
        self.samples = []
        self.known = {}
        self.forced = self.with_globals = 0
        self.flags = (True, True)


def run_batch(ctx, exe, model, progs, st):
    cases = []
    for prog in progs:
        cid, sheet, doc = prog[:3]
        ext = prog[3] if len(prog) > 3 else ()
        st.programs += 1
        try:
            c = g2.prepare(cid, sheet, doc, st.flags, ext)
        except xsltref.XsltError as e:
            ctx.count("core2:skipped:reference-rejects(%s)" % str(e)[:20])
            st.skipped += 1
            continue
        except xpref.XPathTypeError:
            ctx.count("core2:skipped:xpath-type-error")
            st.skipped += 1
            continue
        except xsltcore.TableConflict:
            ctx.count("core2:skipped:key-cannot-tell-two-values-apart")
            st.skipped += 1
            continue
        except xsltcore.NotInLanguage as e:
            ctx.count("core2:skipped:not-in-language(%s)" % str(e)[:20])
            st.skipped += 1
            continue
        except RecursionError:
            ctx.count("core2:skipped:too-deep")
            st.skipped += 1
            continue
        c["sheet_ast"], c["doc"], c["ext"] = sheet, doc, tuple(ext)
        c["sheet"], c["files"] = xsltgen.print_sheet(sheet)
        c["source"] = xsltgen.doc_xml(doc)
        cases.append(c)
    if not cases:
        return
    res = xsltrun.run([{k: c[k] for k in ("id", "sheet", "source", "files", "params")} for c in cases], exe=exe)
    lost = [c for c in cases if res.get(c["id"], ("crash",))[0] == "crash"]
    for c in lost[:60]:
        res[c["id"]] = xsltrun.run([{k: c[k] for k in ("id", "sheet", "source", "files", "params")}], exe=exe, timeout=60).get(c["id"], ("crash",))
    mres = {}
    if model:
        rc, mres, raw = core.run_lines_parallel(model, [c["line"] for c in cases])
    for c in cases:
        o = res.get(c["id"], ("crash",))
        clean = not any(c["flags"].get(k) for k in ERROR_FLAGS) and (st.flags[0] or not c["flags"].get("fragment_built_in_text_only_context"))
        if o[0] != "ok":
            # only the reference's XsltError skips a program: a failure of the library on a program the reference runs without
            # any recovery is an oracle failure; with a recovery (stylesheet in error) it is reported as a difference
            ctx.count("core2:library-" + o[0])
            st.lib_err += 1
            msg = "the library fails (%s) on a program the reference runs: %s" % (o[0], " ".join(str(x) for x in o[1:])[:200])
            (st.violations if clean else st.diffs).append((c, msg))
            continue
        try:
            lib = g2.norm_tree(xsltref.parse_output(o[1]))
        except Exception as e:
            ctx.count("core2:library-output-unparsable")
            st.lib_err += 1
            msg = "the library's output is not well-formed (%s) on a program the reference runs: %s" % (str(e)[:120], o[1][:300])
            (st.violations if clean else st.diffs).append((c, msg))
            continue
        ctx.cov["evaluations"] = ctx.cov.get("evaluations", 0) + 1
        st.ev += c["n_ev"]
        st.evals += c["n_evals"]
        st.instrs += c["n_instr"]
        fs = g2.features(c["sheet_ast"])
        for f in fs:
            if any(k in f for k in g2.NEW) or f.startswith(("attribute-set", "toplevel")):
                ctx.count("core2:feature:" + f)
        st.pairs |= set(f for f in fs if any(k in f for k in g2.NEW) or f.startswith(("attribute-set", "toplevel")))
        for f in c["flags"]:
            ctx.count("core2:recovered:" + f)
        if len(st.samples) < 3 and c["n_instr"] < 25 and any(k in c["sheet"] for k in ("xsl:comment", "xsl:processing-instruction")):
            st.samples.append(c["sheet"].split("\n", 2)[2][:400])
        ref_ok = c["tree"] == lib
        frag_flag = bool(c["flags"].get("fragment_built_in_text_only_context"))
        err_flag = any(c["flags"].get(k) for k in ERROR_FLAGS)
        if not model:
            if not ref_ok and not frag_flag and not err_flag:
                st.violations.append((c, "reference tree != library tree (no model available to classify)"))
            continue
        m = mres.get(c["id"])
        what = None
        if m is None or m.startswith("ERR") or len(m.split()) != 5:
            st.diffs.append((c, "the driver gives no result (%s)" % (m or "no line")[:120]))
            continue
        mt, sg, su, miss, lz = m.split()
        if c["n_globals"]:
            ctx.count("core2:toplevel:%s" % ("Lok" if lz.startswith("Lok") else lz))
            st.forced += c["n_forced"]
            st.with_globals += 1
        mm, ms, mu = miss.split(",")
        bad_m = mt in ("NONE", "STUCK", "ILL")
        mtree = None if bad_m else g2.norm_tree(xsltcore.parse_tree_token(mt))
        sd = su if st.flags[0] else sg
        if sd != "NONE":
            # the semantics the theorem of this source variant speaks about (the reference semantics itself since 16b1cb3; the
            # guarded one before) is defined: an error-free stylesheet.  Theorem: machine = sem2; tie: machine = library;
            # oracle: reference = library
            ctx.count("core2:class:defined")
            if bad_m:
                what = "the machine ends with %s although sem2 is defined (the theorem says it cannot)" % mt
            elif sd != mt:
                what = "extracted machine and extracted sem2 differ although sem2 is defined (the theorem says they cannot)"
            elif sg != "NONE" and su != sg:
                what = "guarded and unguarded sem2 differ although the guarded one is defined"
            elif mm != "0" or (mu if st.flags[0] else ms) != "0":
                what = "machine / sem2 asked for %s / %s table keys the reference never evaluated" % (mm, mu if st.flags[0] else ms)
            elif mtree != lib:
                if not ref_ok:
                    st.violations.append((c, "reference = machine = sem2, the library differs\nreference: " + xsltref.show(c["tree"]).replace("\n", " | ")[:600] +
                                          "\nlibrary: " + xsltref.show(lib).replace("\n", " | ")[:600]))
                    continue
                what = "machine tree differs from the library's (the reference agrees with the library)\nmachine: " + \
                    xsltref.show(mtree).replace("\n", " | ")[:600] + "\nlibrary: " + xsltref.show(lib).replace("\n", " | ")[:600]
            elif not ref_ok:
                what = "machine = library, but the reference differs (reference or tables wrong?)\nreference: " + \
                    xsltref.show(c["tree"]).replace("\n", " | ")[:600] + "\nlibrary: " + xsltref.show(lib).replace("\n", " | ")[:600]
        elif su != "NONE":
            # guarded undefined, unguarded defined: the class of K-C01-core2-1 (the reference run must have seen a fragment
            # built in text-only context).  The machine models the library: it must still predict it, unless its state left
            # the reference's tables
            ctx.count("core2:class:%s" % KEY1)
            if not frag_flag:
                what = "the guard excludes a program in which the reference run built no fragment in text-only context"
            else:
                st.k1 += 1
                if not ref_ok:
                    st.k1_visible += 1
                    if len(st.k1_cases) < 3:
                        st.k1_cases.append(c)
                if mm == "0" and (bad_m or mtree != lib):
                    what = "in the class of %s the machine (no table miss) does not predict the library" % KEY1
        else:
            # sem2 undefined: a stylesheet in error (or out of fuel).  Only machine vs library is compared
            ctx.count("core2:class:stylesheet-in-error")
            st.err_class += 1
            if not err_flag and not frag_flag:
                what = "sem2 is undefined on a program the reference runs without any recovery"
            elif mm == "0" and (bad_m or mtree != lib) and not frag_flag:
                what = "stylesheet in error: the machine (no table miss) does not predict the library\nmachine: " + \
                    ("-" if bad_m else xsltref.show(mtree).replace("\n", " | ")[:600]) + "\nlibrary: " + xsltref.show(lib).replace("\n", " | ")[:600]
            elif mm != "0":
                # the reference drops the offending nodes with their content, machine and library keep their text: values
                # (fragments holding such a comment / PI) differ from then on and the tables no longer apply
                ctx.count("core2:stylesheet-in-error:machine-left-the-tables")
            if not ref_ok:
                st.err_class_differs += 1
        if what is None and not lz.startswith("Lok") and (su != "NONE" or lz != "Lundef"):
            # the extracted lazy evaluation, run in the order of the reference's first references, must give the reference values
            what = "lazy evaluation of the top-level bindings (%s) on a program the reference runs" % lz
        if what is None:
            st.agree += 1
            ctx.cov["traces_validated_against_impl"] = ctx.cov.get("traces_validated_against_impl", 0) + 1
        else:
            st.diffs.append((c, what))


def check_expected(ctx, exe, entry, st):
    """a corpus replay with an expected output: the library must produce exactly that tree (regressions of repaired findings)"""
    name, sheet, doc, expect, ext = entry
    main, files = xsltgen.print_sheet(sheet)
    o = xsltrun.run([{"id": "k", "sheet": main, "source": xsltgen.doc_xml(doc), "files": files, "params": {n: "'%s'" % s for n, s in ext}}],
                    exe=exe, timeout=60).get("k", ("crash",))
    why = None
    if o[0] != "ok":
        why = "the library fails (%s %s)" % (o[0], " ".join(str(x) for x in o[1:])[:200])
    else:
        try:
            if g2.norm_tree(xsltref.parse_output(o[1])) != g2.norm_tree(xsltref.parse_output(expect.encode("utf-8"))):
                why = "the library gives %s" % o[1][:300]
        except Exception as e:
            why = "output not well-formed (%s): %s" % (str(e)[:80], o[1][:300])
    if why:
        st.violations.append(({"sheet_ast": sheet, "doc": doc, "expect": expect}, "corpus/C01core2/%s.txt: expected %s; %s" % (name, expect, why)))
    else:
        ctx.count("core2:corpus-expectation-met")


def run_part(ctx):
    t0 = time.time()
    ctx.assumptions += [
        "core2: as core - XPath evaluation, sorting, template selection, node copies (and QName / PITarget validity) are abstract in "
        "the model; the correspondence instantiates them with what the Python reference computed",
        "core2: the illegal-name recovery of xsl:element and the error path of xsl:processing-instruction are outside the model (Stuck2); "
        "the generator produces valid names only",
    ]
    rule = ("core2: generated namespace-free programs of the core language + xsl:element name={avt} / xsl:comment / "
            "xsl:processing-instruction name={avt} (bodies with value-of, for-each, choose, fragment variables, copy-of, "
            "apply-templates over text nodes; '--', trailing '-', '?>' in the text) x generated documents; distinct = distinct "
            "outer>inner nesting pairs involving a new construct; non-trivial = reference, library and extracted machine all run to a tree")
    ctx.notes["rule"] = (ctx.notes.get("rule", "") + " | " + rule) if ctx.notes.get("rule") else rule
    ok_lib, liblog = core.build_lib("plain")
    if not ok_lib:
        ctx.broken.append("core2: library does not build from the working tree: " + liblog[-500:])
        return
    proved = ctx.prove(["Properties_C01core2.v", "Properties_C01core3.v", "Properties_C01core4.v"], ["GenXsltCore2", "GenXsltCore3", "GenXsltCore4"])
    model, ok_m, mlog = g2.build_driver()
    if not ok_m:
        ctx.broken.append("core2: model extraction/build failed: " + mlog[-500:])
        model = None
    exe, ok_h, hlog = xsltrun.build()
    if not ok_h:
        ctx.broken.append("core2: the xslt harness does not compile against the working tree: " + hlog[-500:])
        return
    known = {k["key"]: k for k in ctx.known.for_property("C01")}
    st = Stats()
    st.known = known
    try:
        st.flags = g2.source_flags()
    except Exception as e:
        ctx.broken.append("core2: the source variant flags cannot be read: " + str(e)[:200])
    corpus = load_corpus()
    for e in corpus:
        if e[3]:
            check_expected(ctx, exe, e, st)          # alone first: a crash must not take other cases with it
    if corpus:
        run_batch(ctx, exe, model, [("k_" + n, s, d, x) for n, s, d, _, x in corpus], st)
    n = N_THOROUGH if ctx.thorough else N_QUICK
    done = 0
    rounds = 0
    while done < n:
        k = min(BATCH, n - done)
        progs = []
        for i in range(k):
            sheet, doc, ext = g2.gen_case(ctx.rng)
            progs.append(("h%d_%d" % (rounds, i), sheet, doc, ext))
        run_batch(ctx, exe, model, progs, st)
        done += k
        rounds += 1
        if (st.diffs or st.violations or not proved) and not ctx.thorough and done >= n and not getattr(ctx, "_core2_widened", False):
            # a broken proof / tie / correspondence widens the search once
            ctx._core2_widened = True
            ctx.escalated = True
            n += 2 * N_QUICK
    ctx.cov["distinct_nontrivial"] = ctx.cov.get("distinct_nontrivial", 0) + len(st.pairs)
    ctx.cov["samples"] = (ctx.cov.get("samples") or []) + st.samples
    ctx.notes["C01core2"] = {"programs": st.programs, "agree": st.agree, "skipped": st.skipped, "library_errors": st.lib_err,
                             "source_variant": {"fragment_leaves_text_only_mode": st.flags[0], "copy_skips_ignored_element": st.flags[1]},
                             "in_class_" + KEY1: st.k1, "in_class_visible": st.k1_visible, "stylesheets_in_error": st.err_class,
                             "stylesheets_in_error_recovery_differs": st.err_class_differs, "xpath_entries": st.ev,
                             "xpath_evaluations": st.evals, "instructions": st.instrs, "proved": bool(proved), "programs_with_toplevel_bindings": st.with_globals,
                             "toplevel_bindings_forced": st.forced,
                             "seconds": round(time.time() - t0, 1)}
    d = os.path.join(core.OUT, ctx.pid)
    os.makedirs(d, exist_ok=True)
    if st.k1_visible:
        c = st.k1_cases[0]
        if KEY1 in known:
            ctx.known_finding("%s %s (%d generated programs in the class, %d of them with a visible difference)" % (KEY1, known[KEY1]["what"], st.k1, st.k1_visible))
        else:
            ctx.violation("core2_fragment_in_text_only", replay_text(
                "reference tree != library tree: a result tree fragment built inside the content of a comment / PI loses the non-text nodes xsl:copy-of adds",
                c["sheet_ast"], c["doc"]))
    for c, what in st.violations[:3]:
        ctx.violation("core2_oracle", replay_text(what.split("\n")[0], c["sheet_ast"], c["doc"], what, expect=c.get("expect", ""), ext=c.get("ext", ())))
    if len(st.violations) > 3:
        ctx.notes["C01core2_more_violations"] = len(st.violations) - 3
    for i, (c, what) in enumerate(st.diffs[:5]):
        p = os.path.join(d, "core2_diff_%d.txt" % i)
        with open(p, "w", encoding="utf-8") as f:
            f.write(replay_text(what.split("\n")[0], c["sheet_ast"], c["doc"], what, ext=c.get("ext", ())))
        ctx.broken.append("core2 correspondence: %s [%s] (%d such programs of %d)" % (what.split("\n")[0], p, len(st.diffs), st.programs))
    return st
