"""Generators and printers for the pattern family (C09): small namespace-free documents with nested
same-name elements, match patterns of the XSLT 1.0 Pattern grammar built as Python tuples, printed
as pattern text (for the library), as the token line of ocaml/pat_driver.ml (for the extracted
model) and a Python copy of the node table (numbering of harness/pat.cpp)."""

NAMES = ["a", "b", "c", "d", "x", "y", "z", "p", "q", "foo"]
NID = {n: i for i, n in enumerate(NAMES)}
NSID = {"p": 1, "q": 2}          # prefix -> namespace id (p = urn:p, q = urn:q); 0 = no namespace


def nid(name):
    """expanded name -> 16 * namespace id + local id (the coding of coq/PatDefs.v)"""
    if ":" in name:
        pre, loc = name.split(":", 1)
        return 16 * NSID[pre] + NID[loc]
    return NID[name]

# ------------------------------------------------------------------------------------------------
# documents:  ('e', name, [(attr, value)], [children]) | ('t', s) | ('c', s) | ('p', target, data)


def gen_elem(r, depth, maxch, enames, p_same):
    name = r.choice(enames)
    attrs = []
    for a in ("x", "y", "z") + (("p:x",) if any(":" in e for e in enames) else ()):
        if r.random() < 0.3:
            attrs.append((a, r.choice(["1", "2", "v"])))
    r.shuffle(attrs)
    ch = []
    if depth > 0:
        last_text = False
        for _ in range(r.randrange(0, maxch + 1)):
            k = r.random()
            if k < 0.68:
                sub = gen_elem(r, depth - 1, maxch, enames, p_same)
                if r.random() < p_same:
                    sub = ("e", name, sub[2], sub[3])      # nested same-name element (K14/K15 territory)
                ch.append(sub)
                last_text = False
            elif k < 0.82:
                if not last_text:
                    ch.append(("t", r.choice(["t", "1", " ", "xy"])))
                    last_text = True
            elif k < 0.91:
                ch.append(("c", r.choice(["c", "", "n"])))
                last_text = False
            else:
                ch.append(("p", r.choice(["p", "a", "q"]), r.choice(["", "d"])))
                last_text = False
    return ("e", name, attrs, ch)


def count_nodes(t):
    if t[0] != "e":
        return 1
    return 1 + len(t[2]) + sum(count_nodes(c) for c in t[3])


def gen_doc(r, big=False):
    cap = 45 if not big else 90
    while True:
        enames = r.choice([["a", "b"], ["a", "b", "c"], ["a", "a", "b", "c", "d"], ["a"], ["a", "p:a", "b"], ["a", "p:a", "p:b", "b"]])
        depth = r.choice([2, 3, 3, 4, 5] if not big else [4, 5, 6])
        maxch = r.choice([2, 3, 3] if not big else [3, 4])
        top = []
        if r.random() < 0.15:
            top.append(("c", "top"))
        if r.random() < 0.12:
            top.append(("p", "p", "d"))
        el = gen_elem(r, depth, maxch, enames, r.choice([0.0, 0.3, 0.6]))
        if any(":" in e for e in enames):      # the prefix is declared once, on the document element
            el = ("e", el[1], [("xmlns:p", "urn:p")] + el[2], el[3])
        top.append(el)
        if r.random() < 0.1:
            top.append(("c", "end"))
        if sum(count_nodes(t) for t in top) <= cap:
            return top


def xml_of(top):
    out = []

    def esc(s):
        return s.replace("&", "&amp;").replace("<", "&lt;").replace('"', "&quot;")

    def go(t):
        if t[0] == "e":
            out.append("<" + t[1] + "".join(' %s="%s"' % (a, esc(v)) for a, v in t[2]))
            if t[3]:
                out.append(">")
                for c in t[3]:
                    go(c)
                out.append("</" + t[1] + ">")
            else:
                out.append("/>")
        elif t[0] == "t":
            out.append(esc(t[1]))
        elif t[0] == "c":
            out.append("<!--" + t[1] + "-->")
        else:
            out.append("<?" + t[1] + (" " + t[2] if t[2] else "") + "?>")
    for t in top:
        go(t)
    return "".join(out)


def arena(top):
    """[(kindchar, name or None, parent or None)] in the numbering of harness/pat.cpp: document node, then
    pre-order; the first element carries the implicit xmlns:xml declaration as its first attribute node."""
    nodes = [("r", None, None)]
    first = [True]

    def go(t, par):
        if t[0] == "e":
            me = len(nodes)
            nodes.append(("e", t[1], par))
            if first[0]:
                first[0] = False
                nodes.append(("n", None, me))
            for a, _ in t[2]:
                nodes.append(("n", None, me) if a.startswith("xmlns") else ("a", a, me))
            for c in t[3]:
                go(c, me)
        elif t[0] == "t":
            nodes.append(("t", None, par))
        elif t[0] == "c":
            nodes.append(("c", None, par))
        else:
            nodes.append(("p", t[1], par))
    for t in top:
        go(t, 0)
    return nodes


def arena_tokens(nodes):
    out = []
    for k, name, par in nodes:
        out.append("%s%s:%s" % (k, nid(name) if name is not None else "", "-" if par is None else par))
    return "%d %s" % (len(nodes), " ".join(out))


def kinds_string(nodes):
    return "".join(k for k, _, _ in nodes)


# ------------------------------------------------------------------------------------------------
# patterns
#   pattern = [path]; path = (head, [step]); head = 'rel' | 'abs' | ('fn', text, [node ids])
#   step = (sep, axis, test, [pred], style)   sep 'c' | 'd', axis 'c' | 'a', style: 0 abbreviated, 1 explicit axis
#   test = ('n', name) | 'w' | 'N' | 'T' | 'C' | 'P' | ('Q', name)
#   pred = ('pos', op, k) | ('poslast',) | ('last', op, k) | ('num', k) | ('lastnum',) | ('posmod', m, r) | ('hasattr', a)
#        | ('haschild', test) | ('count', test) | ('parent', test) | ('true',) | ('not', p) | ('and', p, q) | ('or', p, q)

OPS = {"eq": "=", "ne": "!=", "lt": "<", "le": "<=", "gt": ">", "ge": ">="}


def test_text(t):
    if t == "w":
        return "*"
    if t == "N":
        return "node()"
    if t == "T":
        return "text()"
    if t == "C":
        return "comment()"
    if t == "P":
        return "processing-instruction()"
    if t[0] == "Q":
        return "processing-instruction('%s')" % t[1]
    if t[0] == "S":
        return t[1] + ":*"
    return t[1]


def test_tok(t):
    if isinstance(t, str):
        return t
    if t[0] == "S":
        return "S%d" % NSID[t[1]]
    return ("n%d" if t[0] == "n" else "Q%d") % nid(t[1])


def pred_text(p, top=True):
    k = p[0]
    if k == "pos":
        return "position() %s %d" % (OPS[p[1]], p[2])
    if k == "poslast":
        return "position() = last()"
    if k == "last":
        return "last() %s %d" % (OPS[p[1]], p[2])
    if k == "num":
        return "%d" % p[1]
    if k == "lastnum":
        return "last()"
    if k == "posmod":
        return "position() mod %d = %d" % (p[1], p[2])
    if k == "hasattr":
        return "@" + p[1]
    if k == "haschild":
        return test_text(p[1])
    if k == "count":
        return "count(%s)" % test_text(p[1])
    if k == "parent":
        return "parent::" + test_text(p[1])
    if k == "true":
        return "true()"
    if k == "not":
        return "not(%s)" % pred_text(p[1])
    s = "(%s) %s (%s)" % (pred_text(p[1]), k, pred_text(p[2]))
    return s


def pred_tok(p):
    k = p[0]
    if k in ("pos", "last"):
        return "%s %s %d" % (k, p[1], p[2])
    if k in ("poslast", "lastnum", "true"):
        return k
    if k == "num":
        return "num %d" % p[1]
    if k == "posmod":
        return "posmod %d %d" % (p[1], p[2])
    if k == "hasattr":
        return "hasattr %d" % nid(p[1])
    if k in ("haschild", "count", "parent"):
        return "%s %s" % (k, test_tok(p[1]))
    if k == "not":
        return "not " + pred_tok(p[1])
    return "%s %s %s" % (k, pred_tok(p[1]), pred_tok(p[2]))


def pred_flag(p):
    k = p[0]
    if k in ("pos", "poslast", "last", "lastnum", "posmod"):
        return True
    if k == "not":
        return pred_flag(p[1])
    if k in ("and", "or"):
        return pred_flag(p[1]) or pred_flag(p[2])
    return False


def pred_positional(p):
    """flagged or number-typed: decided through handleFoundIndex"""
    return pred_flag(p) or p[0] in ("num", "count")


def step_text(st):
    sep, axis, test, preds, style = st
    if axis == "a":
        s = ("@" if style == 0 else "attribute::") + test_text(test)
    else:
        s = ("" if style == 0 else "child::") + test_text(test)
    return s + "".join("[%s]" % pred_text(p) for p in preds)


def path_text(path):
    head, steps = path
    out = ""
    if head == "abs" and not steps:
        return "/"
    if head not in ("rel", "abs"):
        out = head[1]
    for i, st in enumerate(steps):
        if i > 0 or head != "rel":
            out += "/" if st[0] == "c" else "//"
        out += step_text(st)
    return out


def pattern_text(pat):
    return " | ".join(path_text(p) for p in pat)


def path_tok(path):
    head, steps = path
    h = head if head in ("rel", "abs") else "fn:" + ",".join(str(i) for i in head[2])
    out = [h, str(len(steps))]
    for sep, axis, test, preds, _ in steps:
        out += [sep, axis, test_tok(test), str(len(preds))] + [pred_tok(p) for p in preds]
    return " ".join(out)


def pattern_tok(pat):
    return "%d %s" % (len(pat), " ".join(path_tok(p) for p in pat))


# --- guards, Python copy (used only to steer the generator and to label classes; the check itself
# classifies with the flags printed by the extracted model)

def seps_ok(path):
    head, steps = path
    seps = [s[0] for s in steps]
    if head == "rel":
        seps = seps[1:]
    seen_child = False
    for s in seps:
        if s == "c":
            seen_child = True
        elif seen_child:
            return False
    return True


def g2_ok(path):
    return all(not (s[1] == "c" and s[2] == "N") for s in path[1])


def g3_ok(path):
    for s in path[1]:
        if s[1] != "a":
            continue
        if s[2] == "N":
            continue
        if s[2] == "w" or (not isinstance(s[2], str) and s[2][0] == "n"):
            if any(pred_positional(p) for p in s[3]):
                return False
            continue
        return False
    return True


# --- generators

def gen_test(r, axis, enames):
    t = gen_test0(r, axis, enames)
    # namespaces: prefix:local, prefix:* (q is bound in the pattern but never used in a document)
    if any(":" in e for e in enames) or r.random() < 0.05:
        k = r.random()
        if k < 0.12:
            return ("S", "p" if r.random() < 0.85 else "q")
        if k < 0.3 and not isinstance(t, str) and t[0] == "n" and ":" not in t[1]:
            return ("n", ("p:" if r.random() < 0.85 else "q:") + t[1])
    return t


def gen_test0(r, axis, enames):
    k = r.random()
    if axis == "a":
        if k < 0.55:
            return ("n", r.choice(["x", "y", "z"]))
        if k < 0.8:
            return "w"
        if k < 0.92:
            return "N"
        return r.choice(["T", "C", "P"])
    if k < 0.62:
        return ("n", r.choice(enames))
    if k < 0.76:
        return "w"
    if k < 0.84:
        return "N"
    if k < 0.9:
        return "T"
    if k < 0.94:
        return "C"
    if k < 0.97:
        return "P"
    return ("Q", r.choice(["p", "a", "q"]))


def gen_pred(r, enames, depth=0, want=None):
    """want: 'pos' positional, 'plain' non-positional boolean, None anything"""
    k = r.random()
    if want == "plain":
        k = 0.5 + k / 2 * 0.84
    if want == "pos":
        k = k / 2
    if k < 0.12:
        return ("pos", r.choice(["eq", "eq", "ne", "lt", "le", "gt", "ge"]), r.choice([1, 1, 2, 2, 3]))
    if k < 0.2:
        return ("poslast",)
    if k < 0.27:
        return ("last", r.choice(["eq", "gt", "lt", "ge", "ne"]), r.choice([1, 2, 3]))
    if k < 0.36:
        return ("num", r.choice([0, 1, 1, 2, 2, 3]))
    if k < 0.43:
        return ("lastnum",)
    if k < 0.5:
        return ("posmod", 2, r.choice([0, 1]))
    if k < 0.62:
        return ("hasattr", r.choice(["x", "y", "z"]))
    if k < 0.74:
        return ("haschild", gen_test(r, "c", enames))
    if k < 0.8:
        return ("parent", r.choice([("n", r.choice(enames)), "w", "N"]))
    if k < 0.84:
        return ("true",)
    if k < 0.88 and want != "plain":
        return ("count", ("n", r.choice(enames)))
    if depth >= 2:
        return ("hasattr", "x")
    if k < 0.92:
        return ("not", gen_pred(r, enames, depth + 1, want))
    return (r.choice(["and", "or"]), gen_pred(r, enames, depth + 1, want), gen_pred(r, enames, depth + 1, want))


def gen_preds(r, enames):
    k = r.random()
    if k < 0.45:
        return []
    if k < 0.7:
        return [gen_pred(r, enames)]
    if k < 0.82:   # positional after non-positional
        return [gen_pred(r, enames, want="plain"), gen_pred(r, enames, want="pos")]
    if k < 0.9:    # non-positional after positional
        return [gen_pred(r, enames, want="pos"), gen_pred(r, enames, want="plain")]
    if k < 0.95:   # two positional ones (position recounted in the filtered list)
        return [gen_pred(r, enames, want="pos"), gen_pred(r, enames, want="pos")]
    return [gen_pred(r, enames) for _ in range(3)]


def gen_path(r, enames, shape=None):
    """shape: None (any), 'guarded' (inside all guards), 'k1415' ('/' left of '//'), 'node' (child node() steps),
    'attrpos' (positional predicates on attribute steps), 'attrkind' (@text() and friends)"""
    for _ in range(200):
        head = r.choice(["rel", "rel", "rel", "abs", "abs"])
        n = r.choice([1, 1, 2, 2, 2, 3, 3, 4, 5])
        if head == "abs" and r.random() < 0.12:
            n = 0
        steps = []
        for i in range(n):
            sep = "c" if (head == "rel" and i == 0) else r.choice(["c", "c", "d", "d", "d"])
            axis = "a" if (i == n - 1 and r.random() < 0.3) or r.random() < 0.03 else "c"
            test = gen_test(r, axis, enames)
            preds = gen_preds(r, enames)
            if shape == "node" and axis == "c" and r.random() < 0.5:
                test = "N"
            if shape == "attrpos" and axis == "a":
                test = r.choice([("n", "x"), "w", "N", "w"])
                preds = [gen_pred(r, enames, want="pos")] + ([gen_pred(r, enames, want="plain")] if r.random() < 0.3 else [])
            if shape == "attrkind" and axis == "a":
                test = r.choice(["T", "C", "P", ("Q", "p")])
            steps.append((sep, axis, test, preds, 1 if r.random() < 0.12 else 0))
        path = (head, steps)
        inside = seps_ok(path) and g2_ok(path) and g3_ok(path)
        if shape is None:
            return path
        if shape == "guarded" and inside:
            return path
        if shape == "k1415" and not seps_ok(path):
            return path
        if shape == "node" and not g2_ok(path):
            return path
        if shape in ("attrpos", "attrkind") and not g3_ok(path):
            return path
    return ("rel", [("c", "c", ("n", "a"), [], 0)])


def gen_pattern(r, enames, shape=None):
    k = r.random()
    n = 1 if k < 0.75 else (2 if k < 0.93 else 3)
    pat = [gen_path(r, enames, shape)]
    for _ in range(n - 1):
        pat.append(gen_path(r, enames, shape if shape == "guarded" else None))
    r.shuffle(pat)
    return pat


def pattern_inside(pat):
    return all(seps_ok(p) and g2_ok(p) and g3_ok(p) for p in pat)
