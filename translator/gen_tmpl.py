"""translator plugin for C10: regenerates coq/GenTmpl.v from /repo on every run.

Facts extracted (fail closed on any structural surprise):
  * XPath::getTargetData (XPath/XPath.cpp): for the LAST step of each union alternative, the
    pseudo-name / target type / eMatchScore assigned by the switch over the step's op-code and its
    node-test token, and the override "more than one step or a predicate => eMatchScoreOther";
  * XPath::getMatchScoreValue (XPath/XPath.hpp): the number behind each eMatchScore;
  * Stylesheet.cpp: the ordering test of addToList, the dispatch of addTemplate on the pseudo-names
    (which member lists receive an entry), Stylesheet::addImport inserting at the front,
    findTemplateInImports scanning m_imports upwards, the mode test of findTemplate,
    locateMatchPatternDataList's switch;
  * ElemTemplateElement::findTemplateToTransformChild: apply-imports starts from the current
    template's stylesheet with onlyUseImports, everything else from the stylesheet root.
The hand-written model (coq/TmplDefs.v) is compared with these facts by theorems in
Properties_C10.v (gen_* definitions are consumed there), so a change of the source changes the
generated file and breaks the proof instead of going unnoticed."""
import re
import srcfacts
from srcfacts import AnchorError, need, read, strip_comments, function_body, HEADER

SCORES = {"eMatchScoreNone": "ScNone", "eMatchScoreNodeTest": "ScNodeTest", "eMatchScoreNSWild": "ScNSWild",
          "eMatchScoreQName": "ScQName", "eMatchScoreOther": "ScOther"}
PSEUDO = {"PSEUDONAME_ANY": "TNAny", "PSEUDONAME_ROOT": "TNRoot", "PSEUDONAME_TEXT": "TNText",
          "PSEUDONAME_COMMENT": "TNComment", "PSEUDONAME_PI": "TNPI", "PSEUDONAME_NODE": "TNNode"}
TTYPES = {"eElement": "TTElement", "eAttribute": "TTAttribute", "eAny": "TTAny", "eOther": "TTOther"}


def split_cases(body, what):
    """body of a switch (text between its braces) -> list of (labels, code) at nesting depth 0"""
    out, depth, i, cur_labels, cur_start = [], 0, 0, [], None
    pos = []
    for m in re.finditer(r"[{}]|\bcase\s+([\w:]+)\s*:|\bdefault\s*:", body):
        t = m.group(0)
        if t == "{":
            depth += 1
        elif t == "}":
            depth -= 1
        elif depth == 0:
            pos.append((m.start(), m.end(), m.group(1) or "default"))
    if not pos:
        raise AnchorError("no case labels in " + what)
    groups = []
    for k, (s, e, lab) in enumerate(pos):
        nxt = pos[k + 1][0] if k + 1 < len(pos) else len(body)
        groups.append((lab.split("::")[-1], body[e:nxt]))
    # merge fall-through labels (empty code) into the following group
    labels = []
    for lab, code in groups:
        labels.append(lab)
        if code.strip():
            out.append((labels, code))
            labels = []
    if labels:
        raise AnchorError("trailing empty case in " + what)
    return out


def switch_body(text, rx, what):
    m = need(rx, text, what)
    return function_body(text[m.start():], r"switch\s*\([^)]*\)\s*\{", what)[1:-1]


def assigns(code, what, allow_missing=()):
    d = {}
    for var, val in re.findall(r"\b(targetLocalName|score|targetType|fIsAttribute)\s*=\s*([\w:]+)\s*;", code):
        d.setdefault(var, []).append(val.split("::")[-1])
    return d


def single(d, k, what, default=None):
    v = d.get(k)
    if v is None:
        if default is not None:
            return default
        raise AnchorError("%s: no assignment to %s" % (what, k))
    if len(set(v)) != 1:
        raise AnchorError("%s: several values for %s: %s" % (what, k, v))
    return v[0]


def gen_tmpl():
    xp = strip_comments(read("XPath/XPath.cpp"))
    hp = strip_comments(read("XPath/XPath.hpp"))
    st = strip_comments(read("XSLT/Stylesheet.cpp"))
    sh = strip_comments(read("XSLT/Stylesheet.hpp"))
    md = strip_comments(read("XSLT/XalanMatchPatternData.cpp"))
    et = strip_comments(read("XSLT/ElemTemplateElement.cpp"))
    facts = {}

    # ---- getMatchScoreValue ---------------------------------------------------------------
    body = function_body(hp, r"getMatchScoreValue\s*\(\s*eMatchScore\s+score\s*\)\s*\{", "XPath::getMatchScoreValue")
    vals = {}
    for labels, code in split_cases(switch_body(body, r"switch\s*\(\s*score\s*\)", "getMatchScoreValue switch"), "getMatchScoreValue"):
        m = need(r"return\s+([^;]+);", code, "getMatchScoreValue return")
        e = m.group(1).strip()
        for lab in labels:
            if lab not in SCORES:
                raise AnchorError("getMatchScoreValue: unknown label " + lab)
            if "getNegativeInfinity" in e:
                vals[lab] = None
            else:
                if not re.fullmatch(r"-?\d+(\.\d+)?", e):
                    raise AnchorError("getMatchScoreValue: unexpected value " + e)
                x = float(e) * 1000
                if x != int(x):
                    raise AnchorError("getMatchScoreValue: value not a multiple of 1/1000: " + e)
                vals[lab] = int(x)
    if set(vals) != set(SCORES):
        raise AnchorError("getMatchScoreValue: cases %s" % sorted(vals))
    facts["score_values"] = vals

    # ---- getTargetData ----------------------------------------------------------------------
    body = function_body(xp, r"XPath::getTargetData\s*\(\s*TargetDataVectorType\s*&\s*targetData\s*\)\s*const\s*\{", "XPath::getTargetData")
    if not re.search(r"eMatchScore\s+score\s*=\s*eMatchScoreNone\s*;", body) or \
       not re.search(r"TargetData::eTargetType\s+targetType\s*=\s*TargetData::eOther\s*;", body) or \
       not re.search(r"bool\s+fIsAttribute\s*=\s*false\s*;", body):
        raise AnchorError("getTargetData: initial values of score/targetType/fIsAttribute not recognised")
    if not re.search(r"if\s*\(\s*nextOp\s*==\s*XPathExpression::eENDOP\s*\)", body):
        raise AnchorError("getTargetData: last-step test not recognised")
    m = need(r"if\s*\(\s*stepCount\s*>\s*1\s*\|\|\s*opPos\s*\+\s*3\s*<\s*nextStepPos\s*\)\s*\{\s*score\s*=\s*(\w+)\s*;\s*\}", body,
             "getTargetData: multi-step/predicate override")
    multi = SCORES.get(m.group(1))
    if multi is None:
        raise AnchorError("getTargetData: override value " + m.group(1))
    if not re.search(r"targetData\.push_back\(\s*TargetData\(\s*targetLocalName\s*,\s*score\s*,\s*targetType\s*\)\s*\)", body):
        raise AnchorError("getTargetData: push_back not recognised")
    outer = split_cases(switch_body(body, r"switch\s*\(\s*stepType\s*\)", "getTargetData outer switch"), "getTargetData outer")
    last = {}      # laststep constructor -> (tname, ttype, score)
    seen_outer = set()
    for labels, code in outer:
        seen_outer |= set(labels)
        if labels == ["eOP_FUNCTION"] or labels == ["eFROM_ROOT"]:
            d = assigns(code, labels[0])
            last["LFunction" if labels[0] == "eOP_FUNCTION" else "LRoot"] = (
                PSEUDO[single(d, "targetLocalName", labels[0])], single(d, "targetType", labels[0], "eOther"),
                SCORES[single(d, "score", labels[0])])
        elif labels == ["eMATCH_ATTRIBUTE"]:
            d = assigns(code, "eMATCH_ATTRIBUTE")
            if d != {"fIsAttribute": ["true"]} or "break" in code:
                raise AnchorError("getTargetData: eMATCH_ATTRIBUTE is not a pure fall-through setting fIsAttribute")
        elif sorted(labels) == ["eMATCH_ANY_ANCESTOR", "eMATCH_IMMEDIATE_ANCESTOR"]:
            inner = split_cases(switch_body(code, r"switch\s*\(\s*tok\s*\)", "getTargetData inner switch"), "getTargetData inner")
            seen_inner = set()
            for ilabels, icode in inner:
                seen_inner |= set(ilabels)
                for lab in ilabels:
                    if lab in ("eNODETYPE_COMMENT", "eNODETYPE_TEXT", "eNODETYPE_NODE", "eNODETYPE_ROOT", "eNODETYPE_ANYELEMENT", "default"):
                        d = assigns(icode, lab)
                        last[lab] = (PSEUDO[single(d, "targetLocalName", lab)], single(d, "targetType", lab, "eOther"),
                                     SCORES[single(d, "score", lab)])
                    elif lab == "eNODETYPE_PI":
                        if PSEUDO.get(single({"targetLocalName": re.findall(r"targetLocalName\s*=\s*(\w+)", icode)}, "targetLocalName", lab)) != "TNPI":
                            raise AnchorError("getTargetData: PI pseudo-name")
                        m1 = need(r"if\s*\(\s*argLen\s*==\s*1\s*\)\s*\{\s*score\s*=\s*(\w+)\s*;\s*\}\s*else\s+if\s*\(\s*argLen\s*==\s*2\s*\)\s*\{\s*score\s*=\s*(\w+)\s*;\s*\}",
                                  icode, "getTargetData: PI argLen tests")
                        last["PI0"] = ("TNPI", "eOther", SCORES[m1.group(1)])
                        last["PI1"] = ("TNPI", "eOther", SCORES[m1.group(2)])
                    elif lab == "eNODENAME":
                        if not re.search(r"targetType\s*=\s*fIsAttribute\s*\?\s*TargetData::eAttribute\s*:\s*TargetData::eElement\s*;", icode):
                            raise AnchorError("getTargetData: eNODENAME target type")
                        # if(targetLocalName != 0) { if(targetLocalName == PSEUDONAME_ANY) {...} else { score = Q } } else { ANY; ns test }
                        m2 = need(r"if\s*\(\s*targetLocalName\s*!=\s*0\s*\)\s*\{\s*if\s*\(\s*targetLocalName\s*==\s*PSEUDONAME_ANY\s*\)\s*\{.*?\}\s*else\s*\{\s*score\s*=\s*(\w+)\s*;\s*\}\s*\}\s*"
                                  r"else\s*\{\s*targetLocalName\s*=\s*PSEUDONAME_ANY\s*;\s*if\s*\(\s*targetNamespace\s*==\s*0\s*\|\|\s*\*targetNamespace\s*==\s*PSEUDONAME_ANY\s*\)\s*"
                                  r"\{\s*score\s*=\s*(\w+)\s*;\s*\}\s*else\s*\{\s*score\s*=\s*(\w+)\s*;\s*\}\s*\}", icode, "getTargetData: eNODENAME structure")
                        if not re.search(r"targetLocalName\s*=\s*targetLocal->c_str\(\)", icode):
                            raise AnchorError("getTargetData: eNODENAME local name")
                        last["NAME"] = ("name", "axis", SCORES[m2.group(1)])
                        last["WILD"] = ("TNAny", "axis", SCORES[m2.group(2)])
                        last["NSWILD"] = ("TNAny", "axis", SCORES[m2.group(3)])
                    else:
                        raise AnchorError("getTargetData: unexpected node-test case " + lab)
            need_inner = {"eNODETYPE_COMMENT", "eNODETYPE_TEXT", "eNODETYPE_NODE", "eNODETYPE_PI", "eNODENAME"}
            if not need_inner <= seen_inner:
                raise AnchorError("getTargetData: node-test cases missing: %s" % sorted(need_inner - seen_inner))
        else:
            raise AnchorError("getTargetData: unexpected step case %s" % labels)
    if not {"eOP_FUNCTION", "eFROM_ROOT", "eMATCH_ATTRIBUTE", "eMATCH_ANY_ANCESTOR", "eMATCH_IMMEDIATE_ANCESTOR"} <= seen_outer:
        raise AnchorError("getTargetData: step cases missing")

    def tt(v, attr):
        if v == "axis":
            return "TTAttribute" if attr else "TTElement"
        return TTYPES[v]

    def row(key, attr, name_expr=None):
        n, t, s = last[key]
        return "(%s, %s, %s)" % (name_expr if n == "name" else n, tt(t, attr), s)
    facts["last_step"] = {k: list(v) for k, v in last.items()}
    facts["multi"] = multi

    # ---- Stylesheet.cpp -----------------------------------------------------------------------
    body = function_body(st, r"\baddToList\s*\(\s*Stylesheet::PatternTableVectorType\s*&\s*theList\s*,[^)]*\)\s*\{", "addToList")
    if not re.search(r"thePatternPriority\s*=\s*thePattern->getPriorityOrDefault\(\)", body) or \
       not re.search(r"thePatternPosition\s*=\s*thePattern->getPosition\(\)", body) or \
       not re.search(r"theCurrentPriority\s*=\s*\(\*theCurrent\)->getPriorityOrDefault\(\)", body):
        raise AnchorError("addToList: operands not recognised")
    m = need(r"if\s*\(\s*thePatternPriority\s*(\S+)\s*theCurrentPriority\s*\)\s*\{\s*break\s*;\s*\}\s*else\s+if\s*\(\s*thePatternPriority\s*(\S+)\s*theCurrentPriority\s*&&\s*"
             r"thePatternPosition\s*(\S+)\s*\(\*theCurrent\)->getPosition\(\)\s*\)\s*\{\s*break\s*;\s*\}\s*\+\+theCurrent\s*;", body, "addToList: ordering tests")
    order = [m.group(1), m.group(2), m.group(3)]
    if not re.search(r"theList\.insert\(\s*theCurrent\s*,\s*thePattern\s*\)", body):
        raise AnchorError("addToList: insert not recognised")
    facts["add_to_list_ops"] = order
    if order[0] != ">" or order[1] != "==" or order[2] not in (">", ">="):
        # '>=' on positions is equivalent (positions are unique inside one list); anything else is a different algorithm
        raise AnchorError("addToList: ordering tests are %s, the model has ['>', '==', '>']" % order)

    body = function_body(md, r"XalanMatchPatternData::getPriorityOrDefault\s*\(\s*\)\s*const\s*\{", "getPriorityOrDefault")
    if not re.search(r"if\s*\(\s*DoubleSupport::isNegativeInfinity\(\s*templatePriority\s*\)\s*==\s*true\s*\)\s*\{\s*return\s+XPath::getMatchScoreValue\(\s*m_priority\s*\)\s*;\s*\}\s*else\s*\{\s*return\s+templatePriority\s*;", body):
        raise AnchorError("getPriorityOrDefault not recognised")

    body = function_body(st, r"Stylesheet::addTemplate\s*\([^)]*\)\s*\{", "Stylesheet::addTemplate")
    if not re.search(r"m_patternCount\s*,", body) or not re.search(r"\+\+m_patternCount\s*;", body) or \
       not re.search(r"data\[i\]\.getDefaultPriority\(\)", body):
        raise AnchorError("addTemplate: entry construction not recognised")
    chain = re.findall(r"(?:else\s+)?if\s*\(\s*equals\(\s*tempString\s*,\s*XPath::(\w+)\s*\)\s*==\s*true\s*\)\s*\{(.*?)\}\s*(?=else)", body, flags=re.S)
    disp = {}
    for name, code in chain:
        if name not in PSEUDO:
            raise AnchorError("addTemplate: unknown pseudo name " + name)
        if name == "PSEUDONAME_ANY":
            continue
        disp[PSEUDO[name]] = re.findall(r"addToList\(\s*(m_\w+)\s*,\s*newMatchPat\s*\)", code)
    # PSEUDONAME_ANY and the final else dispatch on the target type
    m_any = need(r"equals\(\s*tempString\s*,\s*XPath::PSEUDONAME_ANY\s*\)\s*==\s*true\s*\)\s*\{(.*?)\}\s*else\s*\{(.*?)\}\s*\}\s*\}\s*\}\s*\}\s*$", body, "addTemplate: ANY / named dispatch")
    def by_type(code, what):
        r = {}
        for t, c in re.findall(r"getTargetType\(\)\s*==\s*XPath::TargetData::(\w+)\s*\)\s*\{(.*?)\}", code, flags=re.S):
            r[TTYPES[t]] = re.findall(r"addToList\(\s*(m_\w+)(\[tempString\])?\s*,\s*newMatchPat\s*\)", c)
        return r
    any_d = by_type(m_any.group(1), "ANY")
    named_d = by_type(m_any.group(2), "named")
    LISTS = {"m_textPatternList": "SText", "m_commentPatternList": "SComment", "m_rootPatternList": "SRoot",
             "m_piPatternList": "SPI", "m_nodePatternList": "SNode", "m_elementAnyPatternList": "SElemAny",
             "m_attributeAnyPatternList": "SAttrAny"}
    def slots(names):
        try:
            return [LISTS[n] for n in names]
        except KeyError as e:
            raise AnchorError("addTemplate: unknown list %s" % e)
    if set(disp) != {"TNText", "TNComment", "TNRoot", "TNPI", "TNNode"}:
        raise AnchorError("addTemplate: dispatch chain is %s" % sorted(disp))
    facts["dispatch"] = {k: slots(v) for k, v in disp.items()}
    facts["dispatch_any"] = {k: slots([x[0] for x in v]) for k, v in any_d.items()}
    nd = {}
    for k, v in named_d.items():
        if len(v) != 1 or v[0][1] != "[tempString]" or v[0][0] not in ("m_elementPatternTable", "m_attributePatternTable"):
            raise AnchorError("addTemplate: named dispatch %s" % v)
        nd[k] = "SElem" if v[0][0] == "m_elementPatternTable" else "SAttr"
    facts["dispatch_named"] = nd

    # postConstruction -> addToTable
    body = function_body(st, r"Stylesheet::postConstruction\s*\([^)]*\)\s*\{", "Stylesheet::postConstruction")
    merges = re.findall(r"addToTable\(\s*(m_\w+)\s*,\s*(m_\w+)\s*\)", body)
    if sorted(merges) != [("m_attributePatternTable", "m_attributeAnyPatternList"), ("m_elementPatternTable", "m_elementAnyPatternList")]:
        raise AnchorError("postConstruction: addToTable calls are %s" % merges)
    body = function_body(st, r"\baddToTable\s*\(\s*Stylesheet::PatternTableMapType\s*&\s*theTable\s*,[^)]*\)\s*\{", "addToTable")
    if not re.search(r"addToList\(\s*\(\*theCurrentTable\)\.second\s*,\s*\*theCurrent\s*\)", body):
        raise AnchorError("addToTable body not recognised")

    # addImport / findTemplateInImports
    need(r"addImport\s*\(\s*Stylesheet\s*\*\s*theStylesheet\s*\)\s*\{\s*m_imports\.insert\(\s*m_imports\.begin\(\)\s*,\s*theStylesheet\s*\)\s*;", sh,
         "Stylesheet::addImport inserts at the front of m_imports")
    body = function_body(st, r"Stylesheet::findTemplateInImports\s*\([^)]*\)\s*const\s*\{", "findTemplateInImports")
    need(r"for\s*\(\s*StylesheetVectorType::size_type\s+i\s*=\s*0\s*;\s*i\s*<\s*m_importsSize\s*;\s*i\+\+\s*\)", body, "findTemplateInImports loop")
    need(r"stylesheet->findTemplate\(\s*executionContext\s*,\s*targetNode\s*,\s*targetNodeType\s*,\s*mode\s*,\s*false\s*\)", body, "findTemplateInImports call")
    need(r"if\s*\(\s*bestMatchedRule\s*!=\s*0\s*\)\s*\{\s*return\s+bestMatchedRule\s*;", body, "findTemplateInImports first hit")

    # findTemplate: mode test (both paths), quiet path first hit, locate
    body = function_body(st, r"Stylesheet::findTemplate\s*\([^)]*\)\s*const\s*\{", "Stylesheet::findTemplate")
    mode_tests = re.findall(r"if\s*\(\s*\(\s*!haveMode\s*&&\s*!haveRuleMode\s*\)\s*\|\|\s*\(\s*haveMode\s*&&\s*haveRuleMode\s*&&\s*ruleMode\.equals\(\s*mode\s*\)\s*\)\s*\)", body)
    if len(mode_tests) != 2:
        raise AnchorError("findTemplate: the two mode tests not recognised (%d)" % len(mode_tests))
    if len(re.findall(r"locateMatchPatternDataList\(\s*\*targetNode\s*,\s*targetNodeType\s*\)", body)) != 2:
        raise AnchorError("findTemplate: list lookup not recognised")
    need(r"else\s+if\s*\(\s*onlyUseImports\s*==\s*true\s*\)\s*\{\s*return\s+findTemplateInImports\(", body, "findTemplate: onlyUseImports branch")
    need(r"if\s*\(\s*XPath::eMatchScoreNone\s*!=\s*score\s*\)\s*\{\s*bestMatchedRule\s*=\s*rule\s*;\s*break\s*;", body, "findTemplate: quiet path takes the first hit")
    if len(re.findall(r"if\s*\(\s*0\s*==\s*bestMatchedRule\s*\)\s*\{\s*bestMatchedRule\s*=\s*findTemplateInImports\(", body)) != 2:
        raise AnchorError("findTemplate: fall-back to the imports not recognised")
    need(r"if\s*\(\s*priorityOfRule\s*>\s*priorityOfBestMatched\s*\)", body, "findTemplate: non-quiet '>' test")
    need(r"else\s+if\s*\(\s*priorityOfRule\s*==\s*priorityOfBestMatched\s*\)", body, "findTemplate: non-quiet '==' test")
    need(r"bestMatchedPattern\s*=\s*conflicts\[0\]\s*;", body, "findTemplate: conflicts[0]")
    # which test is applied to a table entry: the whole match pattern, or (after the repair of K1) the
    # alternative the entry was created for.  Both paths must agree; the skip of the conflict-reporting
    # path has a matching form for each variant.
    calls = re.findall(r"xpath->getMatchScore\(\s*targetNode\s*,\s*\*this\s*,\s*executionContext\s*(,\s*matchPat->getAlternative\(\)\s*)?\)", body)
    if len(calls) != 2 or len(re.findall(r"getMatchScore\(", body)) != 2:
        raise AnchorError("findTemplate: the two getMatchScore calls not recognised")
    if bool(calls[0]) != bool(calls[1]):
        raise AnchorError("findTemplate: the quiet and the conflict-reporting path test entries differently")
    per_alt = bool(calls[0])
    facts["per_alternative"] = per_alt
    if per_alt:
        need(r"if\s*\(\s*!patterns->empty\(\)\s*&&\s*!\(\s*prevMatchPat\s*!=\s*0\s*&&\s*prevMatched\s*==\s*true\s*&&\s*"
             r"prevMatchPat->getTemplate\(\)\s*==\s*matchPat->getTemplate\(\)\s*\)\s*\)", body,
             "findTemplate: non-quiet skip (same template, previous entry matched)")
        need(r"prevPat\s*=\s*patterns\s*;\s*prevMatchPat\s*=\s*matchPat\s*;\s*prevMatched\s*=\s*false\s*;", body, "findTemplate: prevMatched reset")
        need(r"if\s*\(\s*XPath::eMatchScoreNone\s*!=\s*score\s*\)\s*\{\s*prevMatched\s*=\s*true\s*;", body, "findTemplate: prevMatched set")
        if len(re.findall(r"prevMatched\s*=[^=]", body)) != 3:     # declaration, reset, set
            raise AnchorError("findTemplate: prevMatched assigned elsewhere")
        # the index handed to the entry is the index of the alternative in getTargetData's order ...
        ab = function_body(st, r"Stylesheet::addTemplate\s*\([^)]*\)\s*\{", "Stylesheet::addTemplate")
        need(r"for\s*\(\s*TargetDataVectorType::size_type\s+i\s*=\s*0\s*;\s*i\s*<\s*nTargets\s*;\s*\+\+i\s*\)", ab, "addTemplate: loop over the target data")
        need(r"data\[i\]\.getDefaultPriority\(\)\s*,\s*i\s*\)\s*;", ab, "addTemplate: alternative index passed to the entry")
        mh = strip_comments(read("XSLT/XalanMatchPatternData.hpp"))
        need(r"m_alternative\(\s*theAlternative\s*\)", mh, "XalanMatchPatternData: alternative stored")
        need(r"getAlternative\(\)\s*const\s*\{\s*return\s+m_alternative\s*;", mh, "XalanMatchPatternData::getAlternative")
        # ... and XPath::getMatchScore(.., theAlternative) walks to that alternative and tests it alone
        gb = function_body(xp, r"XPath::getMatchScore\s*\([^)]*XalanSize_t\s+theAlternative\s*\)\s*const\s*\{", "XPath::getMatchScore(.., theAlternative)")
        need(r"opPos\s*=\s*m_expression\.getInitialOpCodePosition\(\)\s*\+\s*2\s*;", gb, "getMatchScore(alternative): start")
        need(r"while\s*\(\s*theAlternative\s*!=\s*0\s*&&\s*m_expression\.getOpCodeMapValue\(\s*opPos\s*\)\s*==\s*XPathExpression::eOP_LOCATIONPATHPATTERN\s*\)\s*"
             r"\{\s*opPos\s*=\s*m_expression\.getNextOpCodePosition\(\s*opPos\s*\)\s*;\s*--theAlternative\s*;\s*\}", gb, "getMatchScore(alternative): walk")
        if len(re.findall(r"return\s+locationPathPattern\(\s*executionContext\s*,\s*\*node\s*,\s*opPos\s*\)\s*;", gb)) != 2:
            raise AnchorError("getMatchScore(alternative): the single locationPathPattern test not recognised")
        # getTargetData reports exactly one entry per alternative (anchored above: push_back under 'nextOp == eENDOP')
    else:
        need(r"if\s*\(\s*!patterns->empty\(\)\s*&&\s*!\(\s*prevMatchPat\s*!=\s*0\s*&&\s*"
             r"prevMatchPat->getTemplate\(\)\s*==\s*matchPat->getTemplate\(\)\s*\)\s*\)", body,
             "findTemplate: non-quiet same-template skip")
        if re.search(r"prevMatched", body):
            raise AnchorError("findTemplate: prevMatched in the whole-pattern variant")
    need(r"const\s+double\s+priorityOfRule\s*=\s*matchPat->getPriorityOrDefault\(\)\s*;", body,
         "findTemplate: non-quiet path ranks by the table priority")
    if re.search(r"getMatchScoreValue\(\s*score\s*\)", body):
        raise AnchorError("findTemplate: the run-time score is used as a priority again")
    need(r"prevPat\s*=\s*patterns\s*;\s*prevMatchPat\s*=\s*matchPat\s*;", body, "findTemplate: non-quiet prev update")
    if len(re.findall(r"prevMatchPat\s*=[^=]", body)) != 2:      # declaration and the update above
        raise AnchorError("findTemplate: prevMatchPat assigned elsewhere")
    need(r"addObjectIfNotFound\(\s*bestMatchedPattern\s*,\s*conflicts\s*,\s*nConflicts\s*\)\s*;\s*conflicts\[nConflicts\+\+\]\s*=\s*matchPat\s*;", body,
         "findTemplate: conflict array update")

    body = function_body(st, r"Stylesheet::locateMatchPatternDataList\s*\([^)]*\)\s*const\s*\{", "locateMatchPatternDataList")
    loc = {}
    for labels, code in split_cases(switch_body(body, r"switch\s*\(\s*targetNodeType\s*\)", "locate switch"), "locate"):
        for lab in labels:
            if lab == "default":
                continue
            if lab == "ATTRIBUTE_NODE":
                need(r"isNamespaceDeclaration\(.*?\)\s*==\s*true\s*\)\s*\)\s*\{\s*return\s*&s_emptyTemplateList\s*;\s*\}\s*else\s*\{\s*return\s+locateAttributeMatchPatternDataList\(", code, "locate: attribute case")
                loc[lab] = "attr"
            elif lab == "ELEMENT_NODE":
                need(r"return\s+locateElementMatchPatternDataList\(\s*DOMServices::getLocalNameOfNode\(", code, "locate: element case")
                loc[lab] = "elem"
            else:
                loc[lab] = need(r"return\s*&(m_\w+)\s*;", code, "locate: " + lab).group(1)
    want = {"ELEMENT_NODE": "elem", "ATTRIBUTE_NODE": "attr", "PROCESSING_INSTRUCTION_NODE": "m_piPatternList",
            "CDATA_SECTION_NODE": "m_textPatternList", "TEXT_NODE": "m_textPatternList", "COMMENT_NODE": "m_commentPatternList",
            "DOCUMENT_NODE": "m_rootPatternList", "DOCUMENT_FRAGMENT_NODE": "m_rootPatternList"}
    if loc != want:
        raise AnchorError("locateMatchPatternDataList: %s" % loc)
    need(r"return\s*&m_nodePatternList\s*;\s*\}\s*$", body, "locate: default list")
    for fn, tab, anyl in (("locateElementMatchPatternDataList", "m_elementPatternTable", "m_elementAnyPatternList"),
                          ("locateAttributeMatchPatternDataList", "m_attributePatternTable", "m_attributeAnyPatternList")):
        b = function_body(st, r"Stylesheet::%s\s*\([^)]*\)\s*const\s*\{" % fn, fn)
        need(r"%s\.find\(\s*theName\s*\)" % tab, b, fn + ": find")
        need(r"return\s*&\(\*i\)\.second\s*;\s*\}\s*else\s*\{\s*return\s*&%s\s*;" % anyl, b, fn + ": fall-back")

    body = function_body(et, r"ElemTemplateElement::findTemplateToTransformChild\s*\([^{;]*XalanNode::NodeType\s+nodeType\s*\)\s*const\s*\{", "findTemplateToTransformChild")
    need(r"stylesheetTree\s*=\s*isApplyImports\s*==\s*true\s*\?\s*&executionContext\.getCurrentTemplate\(\)->getStylesheet\(\)\s*:\s*&getStylesheet\(\)\.getStylesheetRoot\(\)\s*;", body,
         "findTemplateToTransformChild: search root")
    need(r"stylesheetTree->findTemplate\(\s*executionContext\s*,\s*child\s*,\s*nodeType\s*,\s*\*executionContext\.getCurrentMode\(\)\s*,\s*isApplyImports\s*\)", body,
         "findTemplateToTransformChild: findTemplate call")

    # ---- emit ---------------------------------------------------------------------------------
    o = HEADER
    o += "From Coq Require Import List ZArith NArith.\nRequire Import XV.TmplDefs.\nImport ListNotations.\nLocal Open Scope Z_scope.\n\n"
    o += "(* XPath::getMatchScoreValue, in 1/1000 (None = -infinity) *)\n"
    o += "Definition gen_score_value (s : score) : option Z :=\n  match s with\n"
    for k, c in SCORES.items():
        v = vals[k]
        o += "  | %s => %s\n" % (c, "None" if v is None else "Some (%d)" % v)
    o += "  end.\n\n"
    o += "(* XPath::getTargetData: (pseudo-name, target type, score) for the last step of an alternative *)\n"
    o += "Definition gen_last_step (l : laststep) : tname * ttype * score :=\n  match l with\n"
    o += "  | LFunction => %s\n" % row("LFunction", False)
    o += "  | LRoot => %s\n" % row("LRoot", False)
    for attr, b in ((False, "false"), (True, "true")):
        o += "  | LStep %s NTComment => %s\n" % (b, row("eNODETYPE_COMMENT", attr))
        o += "  | LStep %s NTText => %s\n" % (b, row("eNODETYPE_TEXT", attr))
        o += "  | LStep %s NTNode => %s\n" % (b, row("eNODETYPE_NODE", attr))
        o += "  | LStep %s NTPI => %s\n" % (b, row("PI0", attr))
        o += "  | LStep %s NTPILit => %s\n" % (b, row("PI1", attr))
        o += "  | LStep %s (NTName n) => %s\n" % (b, row("NAME", attr, "TNName n"))
        o += "  | LStep %s NTWild => %s\n" % (b, row("WILD", attr))
        o += "  | LStep %s NTNSWild => %s\n" % (b, row("NSWILD", attr))
    o += "  end.\n\n"
    o += "(* 'stepCount > 1 || predicate' override *)\nDefinition gen_multi_score : score := %s.\n\n" % multi
    o += "(* Stylesheet::findTemplate tests a table entry with the alternative it was created for (true) or with the\n   whole match pattern (false, the code before the repair of K1) *)\n"
    o += "Definition gen_per_alternative : bool := %s.\n\n" % ("true" if per_alt else "false")
    o += "(* addTemplate: lists receiving an entry, by pseudo-name (and target type) *)\n"
    o += "Definition gen_slots (tg : target) : list slot :=\n  match tg_name tg with\n"
    for k in ("TNText", "TNComment", "TNRoot", "TNPI", "TNNode"):
        o += "  | %s => [%s]\n" % (k, "; ".join(facts["dispatch"][k]))
    o += "  | TNAny => match tg_type tg with\n"
    for t in ("TTElement", "TTAttribute", "TTAny", "TTOther"):
        o += "             | %s => [%s]\n" % (t, "; ".join(facts["dispatch_any"].get(t, [])))
    o += "             end\n  | TNName n => match tg_type tg with\n"
    for t in ("TTElement", "TTAttribute", "TTAny", "TTOther"):
        o += "             | %s => [%s]\n" % (t, (nd[t] + " n") if t in nd else "")
    o += "             end\n  end.\n"
    return o, facts


GENERATORS = {"GenTmpl": gen_tmpl}
