"""C11, part "seq": the value of an expression must not depend on what was evaluated before it.

The specialised entry points of XPath::execute deliver node-sets that come from functions, extension functions and
variables as XObjects handed out (and taken back) by the XObject factory; XNodeSetBase caches the string and the
number of such an object.  The correspondence and oracle streams of props/C11.py evaluate one expression per
context, so a cached value that survives the return of the object to the factory is invisible to them.  This part
runs, inside ONE transformation, a long random sequence of node-set expressions of that kind (key(), variables,
document(''), union/filter of those; empty, one node, several nodes; numeric, non-numeric and empty string-values),
each asked for through a different route (operand of an arithmetic operator, argument of a number function, operand
of a comparison, boolean test, string function, xsl:value-of, AVT, numeric sort key), and compares every answer
with the XPath conversion of the node-set computed here from the document (vlib/xpref number/string conversions).
A failing sequence is shrunk to the shortest prefix+suffix that still fails before it is written as the replay.
"""
import json, math, os, random, xml.etree.ElementTree as ET
from vlib import core, xpref, xsltrun

XSL = 'xmlns:xsl="http://www.w3.org/1999/XSL/Transform"'
VALUES = ["10", "20", "2.5", "-3", "", "", "x", " 7 ", "007", "1e3", "0", "-0", "NaN", "abc", "12", ""]


def gen_doc(r):
    n = r.randrange(4, 9)
    items = []
    for i in range(n):
        items.append(("k%d" % r.randrange(0, 6), r.choice(VALUES)))
    return items


def doc_xml(items):
    return "<doc>" + "".join('<p id="%s">%s</p>' % (k, v) for k, v in items) + "</doc>"


def nodes_for(items, ref):
    """string-values of the nodes key('p', ref) returns, in document order"""
    return [v for k, v in items if k == ref]


# a node-set expression over the reference r: (text, function from items to the list of string-values)
def gen_nodeset(r, items):
    ref = r.choice(["k0", "k1", "k2", "k3", "k4", "k5", "zz", ""])
    kind = r.randrange(7)
    if kind == 0:
        return "key('p','%s')" % ref, nodes_for(items, ref)
    if kind == 1:
        return "$all[@id='%s']" % ref, nodes_for(items, ref)
    if kind == 2:
        return "key('p','%s')[1]" % ref, nodes_for(items, ref)[:1]
    if kind == 3:
        ref2 = r.choice(["k0", "k1", "zz"])
        both = [v for k, v in items if k == ref or k == ref2]
        return "(key('p','%s')|key('p','%s'))" % (ref, ref2), both
    if kind == 4:
        return "$none", []
    if kind == 5:
        return "key('p',$all[@id='%s'][1]/@id)" % ref, nodes_for(items, ref) if nodes_for(items, ref) else []
    return "$first", [items[0][1]]


def num_of(vals):
    return xpref.str_to_num(vals[0]) if vals else float("nan")


def str_of(vals):
    return vals[0] if vals else ""


def nstr(x):
    return xpref.num_to_str(x)


def gen_step(r, items):
    """(expression, expected string of its value, form, expected observation in that form)"""
    e, vals = gen_nodeset(r, items)
    route = r.randrange(13)
    n, s = num_of(vals), str_of(vals)
    if route == 0:
        x, v = "%s * 2" % e, n * 2
    elif route == 1:
        x, v = "round(%s)" % e, xpref.xround(n)
    elif route == 2:
        x, v = "- %s" % e, -n
    elif route == 3:
        x, v = "%s + 1" % e, n + 1
    elif route == 4:
        x, v = "floor(%s)" % e, (n if (n != n or n in (float("inf"), float("-inf"))) else float(math.floor(n)))
    elif route == 5:
        # node-set compared with a number: true iff SOME node's number equals it
        x, v = "%s = 10" % e, any(xpref.str_to_num(t) == 10 for t in vals)
    elif route == 6:
        x, v = "boolean(%s)" % e, bool(vals)
    elif route == 7:
        x, v = "string(%s)" % e, s
    elif route == 8:
        x, v = "string-length(%s)" % e, float(len(s))
    elif route == 9:
        x, v = "number(%s)" % e, n
    elif route == 10:
        x, v = "substring('abcdef', %s)" % e, substring_from("abcdef", n)
    elif route == 11:
        x, v = "%s > 5" % e, any(xpref.str_to_num(t) > 5 for t in vals)
    else:
        x, v = e, ("nodes", vals)
    if isinstance(v, tuple):
        sv, bv = str_of(v[1]), bool(v[1])
    elif isinstance(v, bool):
        sv, bv = ("true" if v else "false"), v
    elif isinstance(v, float):
        sv, bv = nstr(v), (v == v and v != 0)
    else:
        sv, bv = v, v != ""
    form = r.choice(["avt", "avt", "vo", "if", "when"])
    want = sv if form in ("avt", "vo") else ("T" if bv else "F")
    return (x, sv, form, want)


def substring_from(s, n):
    if n != n:
        return ""
    start = xpref.xround(n)
    return "".join(ch for i, ch in enumerate(s, 1) if i >= start)


def step_xml(i, st):
    e, form = st[0], st[2]
    if form == "avt":
        return '<l i="%d" v="{%s}"/>' % (i, esc(e))
    if form == "vo":
        return '<l i="%d"><xsl:value-of select="%s"/></l>' % (i, esc(e, False))
    if form == "if":
        return '<l i="%d"><xsl:if test="%s">T</xsl:if><xsl:if test="not(%s)">F</xsl:if></l>' % (i, esc(e, False), esc(e, False))
    return ('<l i="%d"><xsl:choose><xsl:when test="%s">T</xsl:when><xsl:otherwise>F</xsl:otherwise></xsl:choose></l>'
            % (i, esc(e, False)))


def sheet_of(steps):
    body = "".join(step_xml(i, st) for i, st in enumerate(steps))
    return ('<xsl:stylesheet version="1.0" %s><xsl:output method="xml" omit-xml-declaration="yes"/>'
            '<xsl:key name="p" match="p" use="@id"/>'
            '<xsl:variable name="all" select="/doc/p"/><xsl:variable name="none" select="/doc/nothing"/>'
            '<xsl:variable name="first" select="/doc/p[1]"/>'
            '<xsl:template match="/"><out>%s</out></xsl:template></xsl:stylesheet>' % (XSL, body))


def observed(root):
    got = {}
    for l in root.findall("l"):
        got[int(l.get("i"))] = l.get("v") if l.get("v") is not None else (l.text or "")
    return got


def esc(s, avt=True):
    s = s.replace("&", "&amp;").replace("<", "&lt;").replace('"', "&quot;")
    return s.replace("{", "{{").replace("}", "}}") if avt else s


def attr_norm(s):
    return s


def run_seq(tag, items, steps):
    res = xsltrun.run([{"id": tag, "sheet": sheet_of(steps), "source": doc_xml(items)}])
    out = res.get(tag)
    if out is None or out[0] != "ok":
        return None, out
    try:
        root = ET.fromstring(out[1].decode("utf-8"))
    except Exception:
        return None, out
    got = observed(root)
    bad = [i for i, st in enumerate(steps) if got.get(i) != st[3]]
    return bad, got


def shrink(tag, items, steps, i):
    """shortest sequence that still makes the last step fail: drop earlier steps one by one"""
    keep = steps[:i + 1]
    j = 0
    while j < len(keep) - 1:
        trial = keep[:j] + keep[j + 1:]
        bad, _ = run_seq(tag + "_s", items, trial)
        if bad and (len(trial) - 1) in bad:
            keep = trial
        else:
            j += 1
    return keep


# ---- numeric sort keys that use current(): the number entry point is called with every sorted node as context, and the
# current node of the key expression is that node (XSLT 1.0 section 10), whatever the current node of the template is (seed C11_g)
SORT_KEYS = [
    ("current()", lambda items, i: xpref.str_to_num(items[i][1])),
    ("number(current()) * -1", lambda items, i: -xpref.str_to_num(items[i][1])),
    ("key('p', current()/@id)", lambda items, i: xpref.str_to_num(nodes_for(items, items[i][0])[0])),
    ("string-length(current())", lambda items, i: float(len(items[i][1]))),
    ("count(current()/preceding-sibling::p) mod 3", lambda items, i: float(i % 3)),
    ("sum(current()/@n)", lambda items, i: float(i * 7 % 5)),
    (".", lambda items, i: xpref.str_to_num(items[i][1])),
]


def sort_sheet(keys):
    loops = "".join('<s n="%d"><xsl:for-each select="/doc/p"><xsl:sort select="%s" data-type="number"/><xsl:value-of select="count(preceding-sibling::p)"/>,</xsl:for-each></s>'
                    '<t n="%d"><xsl:apply-templates select="/doc/p" mode="m"><xsl:sort select="%s" data-type="number" order="descending"/></xsl:apply-templates></t>'
                    % (k, esc(e, False), k, esc(e, False)) for k, (e, _) in enumerate(keys))
    return ('<xsl:stylesheet version="1.0" %s><xsl:output method="xml" omit-xml-declaration="yes"/><xsl:key name="p" match="p" use="@id"/>'
            '<xsl:template match="p" mode="m"><xsl:value-of select="count(preceding-sibling::p)"/>,</xsl:template>'
            '<xsl:template match="/"><out>%s</out></xsl:template></xsl:stylesheet>' % (XSL, loops))


def sort_doc(items):
    return "<doc>" + "".join('<p id="%s" n="%d">%s</p>' % (k, i * 7 % 5, v) for i, (k, v) in enumerate(items)) + "</doc>"


def sorted_order(vals, descending):
    # stable; NaN sorts before every number in ascending order (and therefore last in descending order)
    def cmp_key(j):
        v = vals[j]
        return (0, 0.0) if v != v else (1, v)
    idx = list(range(len(vals)))
    if not descending:
        return sorted(idx, key=cmp_key)
    return sorted(idx, key=lambda j: ((1, 0.0) if vals[j] != vals[j] else (0, -vals[j])))


def run_sorts(ctx, r, n):
    jobs, meta = [], {}
    for q in range(n):
        items = gen_doc(r)
        keys = r.sample(SORT_KEYS, 3)
        tag = "so%d" % q
        meta[tag] = (items, keys)
        jobs.append({"id": tag, "sheet": sort_sheet(keys), "source": sort_doc(items)})
    res = xsltrun.run(jobs)
    bad = []
    for tag, (items, keys) in meta.items():
        out = res.get(tag)
        if out is None or out[0] != "ok":
            bad.append("# the transformation did not succeed: %r\n%s\n%s" % (out[:1] if out else None, sort_doc(items), sort_sheet(keys)))
            continue
        root = ET.fromstring(out[1].decode("utf-8"))
        for k, (e, f) in enumerate(keys):
            vals = [f(items, i) for i in range(len(items))]
            for el, desc in (("s", False), ("t", True)):
                ctx.cov["evaluations"] += 1
                ctx.count("seq:sort-current" if "current()" in e else "seq:sort-plain")
                node = root.find("%s[@n='%d']" % (el, k))
                got = (node.text or "") if node is not None else None
                want = "".join("%d," % j for j in sorted_order(vals, desc))
                if got != want:
                    bad.append("# <xsl:sort select=\"%s\" data-type=\"number\"%s/> over %s: order %r, the numbers %s sort as %r\n# stylesheet:\n%s" % (
                        e, ' order="descending"' if desc else "", sort_doc(items), got, [nstr(v) for v in vals], want, sort_sheet(keys)))
    if bad:
        ctx.violation("sortkey", "# C11: a numeric sort key does not have the number of the expression evaluated with the sorted node as context AND current node\n"
                                 "# replay: run the stylesheet over the source; <s n=k> / <t n=k> list count(preceding-sibling::p) of the nodes in sorted order\n"
                      + "\n".join(bad[:10]))
    ctx.notes["sortkey_failures"] = len(bad)


def run_part(ctx):
    r = ctx.rng
    n_seq, n_steps = (300, 60) if not (ctx.thorough or ctx.escalated) else (6000, 80)
    jobs, meta = [], {}
    for q in range(n_seq):
        items = gen_doc(r)
        steps = [gen_step(r, items) for _ in range(n_steps)]
        tag = "q%d" % q
        meta[tag] = (items, steps)
        jobs.append({"id": tag, "sheet": sheet_of(steps), "source": doc_xml(items)})
    # minimised sequences of earlier failures run first (corpus/C11seq/*.txt, lines "#SEQ <json>")
    cdir = os.path.join(core.VERIF, "corpus", "C11seq")
    for fn in sorted(os.listdir(cdir)) if os.path.isdir(cdir) else []:
        for k, l in enumerate(open(os.path.join(cdir, fn))):
            if l.startswith("#SEQ "):
                d = json.loads(l[5:])
                tag = "c%s_%d" % (fn.split(".")[0][:12], k)
                meta[tag] = ([tuple(x) for x in d["items"]], [tuple(x) for x in d["steps"]])
                jobs.append({"id": tag, "sheet": sheet_of(meta[tag][1]), "source": doc_xml(meta[tag][0])})
                ctx.count("seq:corpus")
    res = xsltrun.run(jobs)
    failures = []
    for tag, (items, steps) in meta.items():
        out = res.get(tag)
        ctx.cov["evaluations"] += len(steps)
        ctx.count("seq:sequences")
        if out is None or out[0] != "ok":
            failures.append((tag, items, steps, None, "the transformation did not succeed: %r" % (out[:1] + out[2:3] if out else None,)))
            continue
        root = ET.fromstring(out[1].decode("utf-8"))
        got = observed(root)
        bad = [i for i, st in enumerate(steps) if got.get(i) != st[3]]
        for st in steps:
            ctx.count("seq:" + st[2])
        if bad:
            b = steps[bad[0]]
            failures.append((tag, items, steps, bad[0], "step %d: %s (%s) observed as %r, its value %r converts to %r" % (
                bad[0], b[0], {"avt": "attribute value template", "vo": "xsl:value-of", "if": "xsl:if", "when": "xsl:when"}[b[2]],
                got.get(bad[0]), b[1], b[3])))
    if failures:
        txt = []
        for tag, items, steps, i, what in failures[:6]:
            alone = None
            if i is not None:
                b1, g1 = run_seq(tag + "_a", items, [steps[i]])
                alone = (b1 == [])
                small = shrink(tag, items, steps, i) if alone else [steps[i]]
            else:
                small = steps
            txt.append("#SEQ " + json.dumps({"items": items, "steps": small}))
            txt.append("# %s\n# evaluated alone the same expression is %s\n# source: %s\n# shortest failing sequence (expression => expected):\n%s\n# stylesheet:\n%s" % (
                what, "right: the value depends on what was evaluated before" if alone else ("wrong too" if alone is False else "not run"),
                doc_xml(items), "\n".join("#   %s  [%s]  =>  %r" % (s[0], s[2], s[3]) for s in small), sheet_of(small)))
        ctx.violation("sequence", "# C11: inside one transformation, an expression observed through a specialised route does not have the XPath conversion of its node-set\n"
                                  "# replay: python3 check.py C11 --replay <this file>  (re-runs every #SEQ line), or run the stylesheet over the source with the Xalan executable and compare attribute v of each <l> with the expected value\n"
                      + "\n".join(txt))
    ctx.notes["sequence_failures"] = len(failures)
    run_sorts(ctx, random.Random(r.getrandbits(64)), 60 if not (ctx.thorough or ctx.escalated) else 2000)


def replay(ctx, path):
    core.build_lib("plain")
    failed = 0
    for k, l in enumerate(open(path)):
        if not l.startswith("#SEQ "):
            continue
        d = json.loads(l[5:])
        steps = [tuple(x) for x in d["steps"]]
        items = [tuple(x) for x in d["items"]]
        bad, got = run_seq("r%d" % k, items, steps)
        print("sequence over %s" % doc_xml(items))
        for i, st in enumerate(steps):
            g = got.get(i) if isinstance(got, dict) else None
            print("   %s %s [%s] => %r (expected %r)" % ("FAIL" if g != st[3] else "ok  ", st[0], st[2], g, st[3]))
        if bad is None or bad:
            failed += 1
    print("%d failing sequence(s)" % failed)
    return 1 if failed else 0
