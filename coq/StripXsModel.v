(* C13 — the upward xml:space search of the code equals the inherited state of the model; the removal taken
   with the code's decision is the Recommendation's *)
From Coq Require Import String List NArith Bool.
Require Import XV.StripDefs XV.StripModel XV.StripTreeModel XV.StripXsDefs.
Open Scope list_scope.
Import ListNotations.

Lemma xml_space_of_attr : forall xs a,
  xml_space_of xs a = match xml_space_attr a with Some b => b | None => xs end.
Proof.
  intros xs a. unfold xml_space_of, xml_space_attr.
  destruct (find (fun x => N.eqb (fst (fst x)) xml_ns && N.eqb (snd (fst x)) space_local) a) as [[q v]|]; [|reflexivity].
  destruct (str_eqb v preserve_value); [reflexivity|]. destruct (str_eqb v default_value); reflexivity.
Qed.

Theorem walk_is_inherited : forall chain, xml_space_walk chain = inherited chain.
Proof.
  induction chain as [|a r IH]; [reflexivity|].
  cbn [xml_space_walk inherited fold_right]. fold (inherited r). rewrite xml_space_of_attr, IH. reflexivity.
Qed.

Lemma walk_cons : forall a r, xml_space_walk (a :: r) = xml_space_of (xml_space_walk r) a.
Proof. intros. cbn [xml_space_walk]. rewrite xml_space_of_attr. reflexivity. Qed.

(* the decision of the fixed code = the model's decision on the key (name, inherited state) *)
Theorem should_strip_fixed_key : forall l pn chain d,
  should_strip_fixed l pn chain (text_ws d) = stripped (fun n => should_strip l n true) (pn, xml_space_walk chain) (Text d).
Proof.
  intros l pn chain d. unfold should_strip_fixed, stripped, should_strip, decide. cbn [fst snd].
  destruct l as [|t l]; [destruct (text_ws d); reflexivity|].
  destruct (find (matches pn) (t :: l)) as [t'|]; cbn [andb].
  - destruct (text_ws d); cbn [andb]; reflexivity.
  - destruct (text_ws d); reflexivity.
Qed.

Lemma code_stripped_key : forall st n chain k,
  code_stripped st n chain k = stripped st (n, xml_space_walk chain) k.
Proof.
  intros st n chain k. destruct k; try reflexivity. unfold code_stripped, stripped. cbn [fst snd].
  rewrite andb_assoc. reflexivity.
Qed.

Theorem code_remove_key : forall st x chain q,
  code_remove st chain x = remove_stripped st (q, xml_space_walk chain) x.
Proof.
  intros st x. induction x as [n a ks IH| | |] using node_ind'; intros chain q; try reflexivity.
  cbn [code_remove remove_stripped]. unfold child_key. cbn [snd]. rewrite <- walk_cons. f_equal.
  rewrite (map_ext_in _ (remove_stripped st (n, xml_space_walk (a :: chain)))).
  - apply filter_ext. intros k. unfold visible. rewrite code_stripped_key. reflexivity.
  - intros k Hk. rewrite Forall_forall in IH. apply (IH k Hk).
Qed.

Theorem code_remove_is_rec : forall st x, code_remove st [] x = rec_remove st false x.
Proof. intros st x. rewrite (code_remove_key st x [] (0, 0)%N). apply xml_space_rule_lemma. Qed.
