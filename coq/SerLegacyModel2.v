(* SerLegacyModel2.v — C04, part "legacy": text nodes and attribute values are read back (continued). *)
From Coq Require Import NArith List Bool Lia ZifyBool ZifyNat ZifyN.
Require Import XV.GenSerLegacy XV.SerDefs XV.XmlParseDefs XV.SerEscModel XV.SerLegacyDefs XV.SerLegacyModel.
Import ListNotations.
Local Open Scope N_scope.

(* ---- a surrogate pair ------------------------------------------------------------------------ *)
Lemma special_sur : forall g attr c, 55296 <= c -> c < 57344 ->
  lg_special g attr c = (lc_max g <? c) || lc_surfix g.
Proof.
  intros g attr c H1 H2. unfold lg_special. change lg_specials_size with 256. change lg_lsep with 8232.
  assert (E1 : (c <? 256) = false) by lia. assert (E2 : (c =? 8232) = false) by lia.
  assert (E3 : lg_sur c = true) by (unfold lg_sur; lia).
  rewrite E1, E2, E3, andb_false_r, andb_true_r, orb_false_r. reflexivity.
Qed.

Lemma lg_loop_pair : forall g attr hi lo r, lg_max_ok (lc_max g) = true ->
  x_high hi = true -> x_low lo = true ->
  exists e, lg_loop g attr (hi :: lo :: r) = lg_lift e (lg_loop g attr r) /\
            (e = [hi; lo] \/ e = charref (decode_pair hi lo)).
Proof.
  intros g attr hi lo r Hm Hh Hl. unfold lg_max_ok in Hm.
  assert (Hh' := Hh). assert (Hl' := Hl). unfold x_high, x_low, x_in in Hh', Hl'.
  assert (Ee : forall c, 55296 <= c -> lg_default_entity attr c = None).
  { intros c Hc. unfold lg_default_entity. destruct (c =? 10) eqn:E10; [lia|]. rewrite andb_false_r.
    apply assoc_none; [reflexivity|lia]. }
  cbn [lg_loop]. rewrite (special_sur g attr hi), (special_sur g attr lo) by lia.
  destruct ((lc_max g <? hi) || lc_surfix g) eqn:Esp.
  - (* through accumDefaultEscape *)
    unfold lg_default_escape. rewrite (Ee hi) by lia. rewrite lg_high_x, Hh, lg_low_x, Hl.
    rewrite (lg_decode_pair _ _ Hh Hl).
    destruct (lc_surfix g).
    + destruct (lc_max g <? hi) eqn:E1.
      * eexists. split; [reflexivity|]. right. reflexivity.
      * unfold lg_put. rewrite E1. assert (E2 : (lc_max g <? lo) = false) by lia. rewrite E2.
        eexists. split; [reflexivity|]. left. reflexivity.
    + eexists. split; [reflexivity|]. right. reflexivity.
  - (* not special: both units are written as they are, one after the other *)
    assert (E1 : (lc_max g <? hi) = false) by lia. assert (Esf : lc_surfix g = false) by lia.
    assert (E2 : (lc_max g <? lo) = false) by lia.
    rewrite E2, Esf. cbn [orb]. unfold lg_put. rewrite E1, E2.
    exists [hi; lo]. split; [|left; reflexivity].
    destruct (lg_loop g attr r); reflexivity.
Qed.

(* ---- 1. text nodes, 2. attribute values ------------------------------------------------------ *)
Lemma lg_content_main : forall g s, lg_max_ok (lc_max g) = true ->
  wf_text (lc_v11 g) s = true -> small s = true ->
  exists bs, lg_write_content g s = Ok bs /\ forallb (okunit (lc_v11 g)) bs = true /\
             forall f, (length bs < f)%nat -> scan_content (lc_v11 g) f false bs = Some s.
Proof.
  intros g s Hm Hw. revert s Hw. apply (wf_text_ind' (lc_v11 g)
    (fun s => small s = true -> exists bs, lg_write_content g s = Ok bs /\ forallb (okunit (lc_v11 g)) bs = true /\
             forall f, (length bs < f)%nat -> scan_content (lc_v11 g) f false bs = Some s)).
  - intros _. exists []. repeat split; try reflexivity. intros [|f] Hf; [cbn in Hf; lia | reflexivity].
  - intros hi lo r Hh Hl Hw IH Hs. unfold small in Hs. cbn [forallb] in Hs.
    apply andb_true_iff in Hs. destruct Hs as [_ Hs]. apply andb_true_iff in Hs. destruct Hs as [_ Hs].
    destruct (IH Hs) as (bs & Hp & Hok & Hsc).
    destruct (lg_loop_pair g false hi lo r Hm Hh Hl) as (e & He & Hcase).
    unfold lg_write_content in *. rewrite He, Hp. cbn [lg_lift].
    destruct (sur_high (lc_v11 g) hi (or_introl Hh)) as (_ & _ & A3).
    destruct (sur_high (lc_v11 g) lo (or_intror Hl)) as (_ & _ & B3).
    exists (e ++ bs). split; [reflexivity|]. destruct Hcase as [-> | ->].
    + split.
      * cbn [app forallb]. rewrite A3, B3, Hok. reflexivity.
      * intros [|f] Hf; cbn [app length] in Hf; [clear -Hf; lia|]. cbn [app].
        rewrite scan_content_pair by assumption. rewrite Hsc by (clear -Hf; lia). reflexivity.
    + pose proof (decode_char (lc_v11 g) hi lo Hh Hl) as Hx.
      destruct (decimal_spec _ (xml_char_bound _ _ Hx)) as (Hd & _ & _).
      split.
      * rewrite forallb_app, Hok. unfold charref. cbn [forallb]. rewrite forallb_app, (digits_ok _ _ Hd).
        destruct (lc_v11 g); reflexivity.
      * intros [|f] Hf; [clear -Hf; lia|]. unfold charref. cbn [app scan_content].
        change (38 =? 38) with true. cbv iota. rewrite <- app_assoc. cbn [app].
        rewrite parse_ref_charref by exact Hx. rewrite (units_of_decode _ _ Hh Hl).
        rewrite Hsc; [reflexivity|]. rewrite app_length in Hf. pose proof (charref_length (decode_pair hi lo)) as Hcl.
        clear -Hf Hcl. lia.
  - intros c r Hh Hl Hx Hw IH Hs. unfold small in Hs. cbn [forallb] in Hs.
    apply andb_true_iff in Hs. destruct Hs as [Hc Hs]. destruct (IH Hs) as (bs & Hp & Hok & Hsc).
    destruct (step_shape g false c Hm Hx Hh Hl ltac:(lia)) as (e & He & Hsh). cbn [lit_of] in Hsh.
    unfold lg_write_content in *. rewrite lg_loop_cons by (rewrite lg_high_x; exact Hh). rewrite He, Hp. cbn [lg_lift].
    exists (e ++ bs). split; [reflexivity|]. split.
    + rewrite forallb_app, Hok, (shape_okunits _ _ _ _ (lit_content_ok (lc_v11 g)) Hsh). reflexivity.
    + intros [|f] Hf; [clear -Hf; lia|]. rewrite (scan_content_shape _ _ _ _ _ Hsh Hok).
      rewrite Hsc; [reflexivity|]. rewrite app_length in Hf.
      assert (length e <> 0)%nat.
      { apply shape_cases in Hsh. destruct Hsh as [[-> _]|[[_ ->]|[-> _]]]; try discriminate.
        unfold ent_of. destruct (c =? 60), (c =? 62), (c =? 38); discriminate. }
      lia.
Qed.

Lemma lg_attr_main : forall g s, lg_max_ok (lc_max g) = true ->
  wf_text (lc_v11 g) s = true -> small s = true ->
  exists bs, lg_write_attr g s = Ok bs /\ forallb (okunit (lc_v11 g)) bs = true /\
             forall f, (length bs < f)%nat -> scan_attr (lc_v11 g) f bs = Some s.
Proof.
  intros g s Hm Hw. revert s Hw. apply (wf_text_ind' (lc_v11 g)
    (fun s => small s = true -> exists bs, lg_write_attr g s = Ok bs /\ forallb (okunit (lc_v11 g)) bs = true /\
             forall f, (length bs < f)%nat -> scan_attr (lc_v11 g) f bs = Some s)).
  - intros _. exists []. repeat split; try reflexivity. intros [|f] Hf; [cbn in Hf; lia | reflexivity].
  - intros hi lo r Hh Hl Hw IH Hs. unfold small in Hs. cbn [forallb] in Hs.
    apply andb_true_iff in Hs. destruct Hs as [_ Hs]. apply andb_true_iff in Hs. destruct Hs as [_ Hs].
    destruct (IH Hs) as (bs & Hp & Hok & Hsc).
    destruct (lg_loop_pair g true hi lo r Hm Hh Hl) as (e & He & Hcase).
    unfold lg_write_attr in *. rewrite He, Hp. cbn [lg_lift].
    destruct (sur_high (lc_v11 g) hi (or_introl Hh)) as (_ & _ & A3).
    destruct (sur_high (lc_v11 g) lo (or_intror Hl)) as (_ & _ & B3).
    exists (e ++ bs). split; [reflexivity|]. destruct Hcase as [-> | ->].
    + split.
      * cbn [app forallb]. rewrite A3, B3, Hok. reflexivity.
      * intros [|f] Hf; cbn [app length] in Hf; [clear -Hf; lia|]. cbn [app].
        rewrite scan_attr_pair by assumption. rewrite Hsc by (clear -Hf; lia). reflexivity.
    + pose proof (decode_char (lc_v11 g) hi lo Hh Hl) as Hx.
      destruct (decimal_spec _ (xml_char_bound _ _ Hx)) as (Hd & _ & _).
      split.
      * rewrite forallb_app, Hok. unfold charref. cbn [forallb]. rewrite forallb_app, (digits_ok _ _ Hd).
        destruct (lc_v11 g); reflexivity.
      * intros [|f] Hf; [clear -Hf; lia|]. unfold charref. cbn [app scan_attr].
        change (38 =? 38) with true. cbv iota. rewrite <- app_assoc. cbn [app].
        rewrite parse_ref_charref by exact Hx. rewrite (units_of_decode _ _ Hh Hl).
        rewrite Hsc; [reflexivity|]. rewrite app_length in Hf. pose proof (charref_length (decode_pair hi lo)) as Hcl.
        clear -Hf Hcl. lia.
  - intros c r Hh Hl Hx Hw IH Hs. unfold small in Hs. cbn [forallb] in Hs.
    apply andb_true_iff in Hs. destruct Hs as [Hc Hs]. destruct (IH Hs) as (bs & Hp & Hok & Hsc).
    destruct (step_shape g true c Hm Hx Hh Hl ltac:(lia)) as (e & He & Hsh). cbn [lit_of] in Hsh.
    unfold lg_write_attr in *. rewrite lg_loop_cons by (rewrite lg_high_x; exact Hh). rewrite He, Hp. cbn [lg_lift].
    exists (e ++ bs). split; [reflexivity|]. split.
    + rewrite forallb_app, Hok, (shape_okunits _ _ _ _ (lit_attr_ok (lc_v11 g)) Hsh). reflexivity.
    + intros [|f] Hf; [clear -Hf; lia|]. rewrite (scan_attr_shape _ _ _ _ _ Hsh).
      rewrite Hsc; [reflexivity|]. rewrite app_length in Hf.
      assert (length e <> 0)%nat.
      { apply shape_cases in Hsh. destruct Hsh as [[-> _]|[[_ ->]|[-> _]]]; try discriminate.
        unfold ent_of. destruct (c =? 60), (c =? 62), (c =? 38); discriminate. }
      lia.
Qed.

Theorem legacy_content_roundtrip : forall g s, lg_max_ok (lc_max g) = true ->
  wf_text (lc_v11 g) s = true -> small s = true ->
  exists bs, lg_write_content g s = Ok bs /\ parse_content (lc_v11 g) bs = Some s.
Proof.
  intros g s Hm Hw Hs. destruct (lg_content_main g s Hm Hw Hs) as (bs & Hp & Hok & Hsc).
  exists bs. split; [exact Hp|]. unfold parse_content. rewrite (eol_norm_id _ _ Hok). apply Hsc. lia.
Qed.

Theorem legacy_attr_roundtrip : forall g s, lg_max_ok (lc_max g) = true ->
  wf_text (lc_v11 g) s = true -> small s = true ->
  exists bs, lg_write_attr g s = Ok bs /\ parse_attr (lc_v11 g) bs = Some s.
Proof.
  intros g s Hm Hw Hs. destruct (lg_attr_main g s Hm Hw Hs) as (bs & Hp & Hok & Hsc).
  exists bs. split; [exact Hp|]. unfold parse_attr. rewrite (eol_norm_id _ _ Hok). apply Hsc. lia.
Qed.
