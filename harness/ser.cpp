// Correspondence + oracle driver for C04: SAX event scripts through the real XML serializers.
//
// Input, one case per line:
//   <id> <encoding> <version 1.0|1.1> [-L] [-I<n>] <event>*   (-L: do not run the legacy serializer;
//                                                             -I<n>: doIndent = true, indent amount n; implies -L)
//   event ::= S <u:name> <n> (<u:attrname> <u:attrvalue>){n}   startElement
//           | E <u:name>                                        endElement
//           | T <u:text>                                        characters
//           | C <u:text>                                        cdata
//           | M <u:text>                                        comment
//           | P <u:target> <u:data>                             processingInstruction
//   (u:41,42 = comma separated hex UTF-16 code units; startDocument/endDocument are implicit.)
//
// Output: "<id> <new>|<newparse>|<old>|<oldparse>"
//   <new>  = ok:<hex bytes> | err:<exception class>      XalanXMLSerializerFactory::create(...) product
//   <old>  = the same for the legacy FormatterToXML
//   <..parse> = the bytes re-parsed by Xerces SAX2 (namespaces on, encoding taken from the document),
//             printed as an event script with adjacent text coalesced, or PARSEERR:<message>, or '-'
#include "common.hpp"
#include <sys/resource.h>
#include <xercesc/sax2/SAX2XMLReader.hpp>
#include <xercesc/sax2/XMLReaderFactory.hpp>
#include <xercesc/sax2/DefaultHandler.hpp>
#include <xercesc/sax2/Attributes.hpp>
#include <xercesc/sax/SAXParseException.hpp>
#include <xercesc/sax/SAXException.hpp>
#include <xercesc/framework/MemBufInputSource.hpp>
#include <xercesc/util/XMLUni.hpp>
#include <xercesc/util/XMLString.hpp>
#include <xalanc/PlatformSupport/XalanStdOutputStream.hpp>
#include <xalanc/PlatformSupport/XalanOutputStreamPrintWriter.hpp>
#include <xalanc/PlatformSupport/AttributeListImpl.hpp>
#include <xalanc/PlatformSupport/XSLException.hpp>
#include <xalanc/PlatformSupport/FormatterListener.hpp>
#include <xalanc/XMLSupport/XalanXMLSerializerFactory.hpp>
#include <xalanc/XMLSupport/FormatterToXML.hpp>

using namespace xalanc;
using namespace verif;

struct Event { char kind; XalanDOMString a, b; std::vector<std::pair<XalanDOMString, XalanDOMString> > attrs; };

static std::string hexbytes(const std::string& s)
{
    static const char* d = "0123456789abcdef";
    std::string r; r.reserve(s.size() * 2);
    for (size_t i = 0; i < s.size(); ++i) { unsigned char c = (unsigned char) s[i]; r += d[c >> 4]; r += d[c & 15]; }
    return r;
}

static const XalanDOMChar s_cdataType[] = { 'C', 'D', 'A', 'T', 'A', 0 };

static void replay(FormatterListener& fl, const std::vector<Event>& evs)
{
    fl.startDocument();
    for (size_t i = 0; i < evs.size(); ++i) {
        const Event& e = evs[i];
        switch (e.kind) {
        case 'S': {
            AttributeListImpl al(XalanMemMgrs::getDefaultXercesMemMgr());
            for (size_t k = 0; k < e.attrs.size(); ++k)
                al.addAttribute(e.attrs[k].first.c_str(), s_cdataType, e.attrs[k].second.c_str());
            fl.startElement(e.a.c_str(), al);
            break; }
        case 'E': fl.endElement(e.a.c_str()); break;
        case 'T': fl.characters(e.a.c_str(), e.a.length()); break;
        case 'C': fl.cdata(e.a.c_str(), e.a.length()); break;
        case 'M': fl.comment(e.a.c_str()); break;
        case 'P': fl.processingInstruction(e.a.c_str(), e.b.c_str()); break;
        }
    }
    fl.endDocument();
}

// returns "ok:<hex>" or "err:<class>"; bytes in `out`
static std::string serialize(bool legacy, const std::string& enc, const std::string& ver,
                             const std::vector<Event>& evs, std::string& out, int indent = -1)
{
    MemoryManager& mm = XalanMemMgrs::getDefaultXercesMemMgr();
    std::ostringstream os;
    std::string status;
    try {
        XalanStdOutputStream stream(os, mm);
        XalanOutputStreamPrintWriter writer(stream);
        XalanDOMString encoding(enc.c_str(), mm), version(ver.c_str(), mm), empty(mm);
        FormatterListener* fl = 0;
        if (legacy)
            fl = FormatterToXML::create(mm, writer, version, false, 0, encoding, empty, empty, empty, true, empty);
        else
            fl = XalanXMLSerializerFactory::create(mm, writer, version, indent >= 0, indent >= 0 ? indent : 0, encoding, empty, empty, empty, true, empty);
        struct Del { FormatterListener* p; MemoryManager& m; ~Del() { if (p) { p->~FormatterListener(); m.deallocate(p); } } } del = { fl, mm };
        replay(*fl, evs);
        writer.flush();
        stream.flush();
        status = "ok";
    }
    catch (const xercesc::SAXException&) { status = "err:SAXException"; }
    catch (const XSLException&) { status = "err:XSLException"; }
    catch (const xercesc::XMLException&) { status = "err:XMLException"; }
    catch (...) { status = "err:unknown"; }
    out = os.str();
    if (status == "ok") return "ok:" + hexbytes(out);
    return status;
}

class Collector : public xercesc::DefaultHandler
{
public:
    std::string   m_out;
    XalanDOMString m_text;
    std::string   m_error;
    void flushText() { if (!m_text.empty()) { m_out += " T " + token_of_u16(m_text); m_text.clear(); } }
    static std::string tok(const XMLCh* s) { return token_of_u16(s, xercesc::XMLString::stringLen(s)); }
    virtual void startElement(const XMLCh* const, const XMLCh* const, const XMLCh* const qname, const xercesc::Attributes& attrs)
    {
        flushText();
        char buf[32]; std::snprintf(buf, sizeof buf, " %u", (unsigned) attrs.getLength());
        m_out += " S " + tok(qname) + buf;
        for (XMLSize_t i = 0; i < attrs.getLength(); ++i)
            m_out += " " + tok(attrs.getQName(i)) + " " + tok(attrs.getValue(i));
    }
    virtual void endElement(const XMLCh* const, const XMLCh* const, const XMLCh* const qname) { flushText(); m_out += " E " + tok(qname); }
    virtual void characters(const XMLCh* const chars, const XMLSize_t length) { m_text.append(chars, (XalanDOMString::size_type) length); }
    virtual void ignorableWhitespace(const XMLCh* const chars, const XMLSize_t length) { m_text.append(chars, (XalanDOMString::size_type) length); }
    virtual void processingInstruction(const XMLCh* const target, const XMLCh* const data) { flushText(); m_out += " P " + tok(target) + " " + tok(data); }
    virtual void comment(const XMLCh* const chars, const XMLSize_t length) { flushText(); m_out += " M " + token_of_u16(chars, length); }
    virtual void error(const xercesc::SAXParseException& e) { note(e); }
    virtual void fatalError(const xercesc::SAXParseException& e) { note(e); throw e; }
    void note(const xercesc::SAXParseException& e)
    {
        if (!m_error.empty()) return;
        char* m = xercesc::XMLString::transcode(e.getMessage());
        m_error = m ? m : "?";
        xercesc::XMLString::release(&m);
        for (size_t i = 0; i < m_error.size(); ++i) if (m_error[i] == ' ' || m_error[i] == '|') m_error[i] = '_';
    }
};

static std::string reparse(const std::string& bytes)
{
    using namespace xercesc;
    Collector c;
    SAX2XMLReader* r = XMLReaderFactory::createXMLReader();
    std::string res;
    try {
        r->setFeature(XMLUni::fgSAX2CoreNameSpaces, true);
        r->setFeature(XMLUni::fgSAX2CoreNameSpacePrefixes, true);
        r->setFeature(XMLUni::fgSAX2CoreValidation, false);
        r->setFeature(XMLUni::fgXercesLoadExternalDTD, false);
        r->setContentHandler(&c);
        r->setLexicalHandler(&c);
        r->setErrorHandler(&c);
        MemBufInputSource src((const XMLByte*) bytes.data(), bytes.size(), "ser-output");
        r->parse(src);
        c.flushText();
        res = c.m_error.empty() ? (c.m_out.empty() ? " " : c.m_out) : "PARSEERR:" + c.m_error;
    }
    catch (const SAXParseException&) { res = "PARSEERR:" + (c.m_error.empty() ? std::string("?") : c.m_error); }
    catch (const SAXException&) { res = "PARSEERR:SAXException"; }
    catch (const XMLException&) { res = "PARSEERR:XMLException"; }
    catch (...) { res = "PARSEERR:unknown"; }
    delete r;
    if (!res.empty() && res[0] == ' ') res = res.substr(1);
    return res;
}

int main(int argc, char** argv)
{
    // safety net: a runaway allocation (XalanOutputStream::transcode doubling its buffer) ends as bad_alloc
    struct rlimit rl; rl.rlim_cur = rl.rlim_max = (rlim_t) 1 << 30; setrlimit(RLIMIT_AS, &rl);
    Init init;
    std::istream* in = &std::cin;
    std::ifstream f;
    if (argc > 1) { f.open(argv[1]); in = &f; }
    std::string line;
    while (std::getline(*in, line)) {
        std::vector<std::string> t = split(line);
        if (t.size() < 3 || t[0][0] == '#') continue;
        std::vector<Event> evs;
        bool bad = false;
        bool nolegacy = false;
        int indent = -1;
        size_t first = 3;
        while (first < t.size() && t[first].size() >= 2 && t[first][0] == '-') {
            if (t[first] == "-L") nolegacy = true;
            else if (t[first][1] == 'I') { indent = std::atoi(t[first].c_str() + 2); nolegacy = true; }
            else break;
            ++first;
        }
        for (size_t i = first; i < t.size() && !bad; ) {
            Event e; e.kind = t[i][0];
            switch (e.kind) {
            case 'S': {
                if (i + 2 >= t.size()) { bad = true; break; }
                e.a = u16_of_token(t[i + 1]);
                size_t n = std::strtoul(t[i + 2].c_str(), 0, 10);
                if (i + 3 + 2 * n > t.size()) { bad = true; break; }
                for (size_t k = 0; k < n; ++k)
                    e.attrs.push_back(std::make_pair(u16_of_token(t[i + 3 + 2 * k]), u16_of_token(t[i + 4 + 2 * k])));
                i += 3 + 2 * n;
                break; }
            case 'E': case 'T': case 'C': case 'M':
                if (i + 1 >= t.size()) { bad = true; break; }
                e.a = u16_of_token(t[i + 1]); i += 2; break;
            case 'P':
                if (i + 2 >= t.size()) { bad = true; break; }
                e.a = u16_of_token(t[i + 1]); e.b = u16_of_token(t[i + 2]); i += 3; break;
            default: bad = true;
            }
            if (!bad) evs.push_back(e);
        }
        if (bad) { std::cout << t[0] << " badscript" << std::endl; continue; }
        std::string nb, ob;
        std::string ns = serialize(false, t[1], t[2], evs, nb, indent);
        std::string np = ns.compare(0, 3, "ok:") == 0 ? reparse(nb) : std::string("-");
        std::string osn = nolegacy ? std::string("skipped") : serialize(true, t[1], t[2], evs, ob);
        std::string op = osn.compare(0, 3, "ok:") == 0 ? reparse(ob) : std::string("-");
        std::cout << t[0] << ' ' << ns << '|' << np << '|' << osn << '|' << op << std::endl;
    }
    return 0;
}
