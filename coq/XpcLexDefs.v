(* XpcLexDefs.v — C02 part "compiler": executable model of XPathProcessorImpl::tokenize / mapNSTokens
   (src/xalanc/XPath/XPathProcessorImpl.cpp) as the code is now, look-around guards of the recent repairs included.
   Definitions only.  Data read from the source on every run (coq/GenXpc.v, translator/gen_xpc.py): the XML character
   classes (XalanXMLChar::theUnicodeTable as runs), the case labels of the tokenizer's switch.

   The C++ loop walks an index i over the string and keeps startSubstring / posOfNSSep; the two inner scans
   (string literal, number) advance i themselves.  Here the same machine reads ONE character per step
   (structural recursion on the remaining input: total by construction) and the inner scans are modes:
     MIdle            startSubstring == npos
     MName cur sep    startSubstring != npos; cur = pat[startSubstring .. i); sep = offset of posOfNSSep in cur
     MQuote q cur     inside the  for(++i; i < nChars && pat[i] != q; ++i)  scan of a literal opened by q
     MNum got cur     inside the number scan (got = gotFullStop)
     MDot             (repaired variant) the '.' / '..' branch: one '.' read, the next character decides between "." and ".." 
   prev = the characters before i, nearest first (what the '=' '/' look-back reads). *)
From Coq Require Import List NArith Bool Arith.
Import ListNotations.
Require Import XV.XpAst XV.GenXpc.

Inductive res (A : Type) : Type :=
  | Ok (a : A)       (* the compiler goes on / returns *)
  | Err              (* the compiler throws XPathParserException *)
  | Fuel.            (* the model ran out of fuel (proved unreachable with the fuel the entry points use) *)
Arguments Ok {A} a.
Arguments Err {A}.
Arguments Fuel {A}.

(* ---- characters ------------------------------------------------------------------------------- *)
Definition ch_quote : N := 34.   Definition ch_apos : N := 39.    Definition ch_hyphen : N := 45.
Definition ch_colon : N := 58.   Definition ch_fullstop : N := 46. Definition ch_asterisk : N := 42.
Definition ch_equals : N := 61.  Definition ch_solidus : N := 47.  Definition ch_excl : N := 33.
Definition ch_lt : N := 60.      Definition ch_gt : N := 62.       Definition ch_dollar : N := 36.
Definition ch_lowline : N := 95. Definition ch_lparen : N := 40.   Definition ch_rparen : N := 41.
Definition ch_lbrack : N := 91.  Definition ch_rbrack : N := 93.   Definition ch_bar : N := 124.
Definition ch_comma : N := 44.   Definition ch_plus : N := 43.     Definition ch_at : N := 64.

Fixpoint class_in (rs : list (N * N * N)) (c : N) : N :=
  match rs with
  | [] => 0%N
  | (lo, hi, k) :: r => if (N.leb lo c && N.leb c hi)%bool then k else class_in r c
  end.
(* XalanXMLChar::theUnicodeTable[c] *)
Definition char_class (c : N) : N := class_in gen_xpc_charclass_ranges c.
Definition is_ws (c : N) : bool := N.eqb (char_class c) gen_xpc_class_WS.          (* isXMLWhitespace *)
Definition is_digit (c : N) : bool := N.eqb (char_class c) gen_xpc_class_DI.       (* XalanXMLChar::isDigit *)
Definition is_letter (c : N) : bool :=
  (N.eqb (char_class c) gen_xpc_class_BC || N.eqb (char_class c) gen_xpc_class_ID)%bool.
Definition is_name_start (c : N) : bool := (is_letter c || N.eqb c ch_lowline)%bool.
Definition is_name_char (c : N) : bool :=
  (is_letter c || is_digit c || N.eqb (char_class c) gen_xpc_class_EX || N.eqb (char_class c) gen_xpc_class_CC
   || N.eqb c ch_lowline || N.eqb c ch_hyphen || N.eqb c ch_fullstop)%bool.
(* XalanQName::isValidNCName *)
Definition valid_ncname (s : str) : bool :=
  match s with [] => false | c :: r => (is_name_start c && forallb is_name_char r)%bool end.

Fixpoint mem_N (c : N) (l : list N) : bool :=
  match l with [] => false | x :: r => (N.eqb c x || mem_N c r)%bool end.
Fixpoint str_eqb (a b : str) : bool :=
  match a, b with
  | [], [] => true
  | x :: a', y :: b' => (N.eqb x y && str_eqb a' b')%bool
  | _, _ => false
  end.

(* ---- the three repairs (fixes/C02c) as variants: translator/gen_xpc.py recognises which shape the source has ------- *)
Record flags := mkflags {
  fx_name : bool;     (* NodeTest(): an unprefixed name test must be an NCName (isValidNCName) *)
  fx_dot : bool;      (* tokenize(): '.' / '..' not followed by a digit (and outside a name) are tokens of their own *)
  fx_digit : bool     (* number scan / PrimaryExpr(): digits are '0'..'9' (isNumberDigit) instead of XalanXMLChar::isDigit *)
}.
Definition flags_here : flags := mkflags gen_xpc_fix_name_chars gen_xpc_fix_dot_token gen_xpc_fix_ascii_digit.
Definition flags_before : flags := mkflags false false false.
Definition flags_fixed : flags := mkflags true true true.
Definition is_ascii_digit (c : N) : bool := (N.leb 48 c && N.leb c 57)%bool.
(* the digit test of the number scan *)
Definition num_digit (fl : flags) (c : N) : bool := if fx_digit fl then is_ascii_digit c else is_digit c.

(* ---- tokenizer -------------------------------------------------------------------------------- *)
Inductive mode :=
  | MIdle
  | MName (cur : str) (sep : option nat)
  | MQuote (q : N) (cur : str)
  | MNum (got : bool) (cur : str)
  | MDot.              (* repaired tokenizer only: a '.' was read in MIdle, not followed by a digit; "." or ".." is pending *)

Section Lex.
Variable fl : flags.
Variable ns : str -> option str.     (* PrefixResolver::getNamespaceForPrefix: None = 0 (not declared) *)

(* mapNSTokens(pat, startSubstring, posOfNSSep, posOfScan): cur = pat[startSubstring..posOfScan), k = posOfNSSep -
   startSubstring, nextc = pat[posOfScan] (None at the end of the string).  acc: tokens pushed so far, newest first *)
Definition map_ns (cur : str) (k : nat) (nextc : option N) (acc : list str) : res (list str) :=
  let prefix := firstn k cur in
  let loc := skipn (S k) cur in
  if negb (valid_ncname prefix) then Err else
  match ns prefix with
  | None => Err
  | Some [] => Err
  | Some _ =>
      let acc1 := [ch_colon] :: prefix :: acc in
      match loc with
      | [] => match nextc with
              | Some c => if N.eqb c ch_asterisk then Ok acc1 else Err
              | None => Err
              end
      | _ => if valid_ncname loc then Ok (loc :: acc1) else Err
      end
  end.

(* the "if (startSubstring != npos) { if (npos != posOfNSSep) mapNSTokens(...) else push substring }" block *)
Definition flush (cur : str) (sep : option nat) (nextc : option N) (acc : list str) : res (list str) :=
  match sep with
  | None => Ok (cur :: acc)
  | Some k => map_ns cur k nextc acc
  end.

(* j = i - 1; while (j > 0 && isXMLWhitespace(pat[j])) --j;  pat[j] *)
Fixpoint back_nonws (p : list N) : N :=
  match p with
  | [] => 0%N
  | c :: r => match r with [] => c | _ => if is_ws c then back_nonws r else c end
  end.

(* the look-back added for "! =", "< =", "> =", "/ /" *)
Definition lookback_bad (c : N) (prev : list N) : bool :=
  ((N.eqb c ch_equals || N.eqb c ch_solidus)
   && Nat.ltb 1 (length prev)
   && match prev with p :: _ => is_ws p | [] => false end
   && (let b := back_nonws prev in
       if N.eqb c ch_solidus then N.eqb b ch_solidus
       else (N.eqb b ch_excl || N.eqb b ch_lt || N.eqb b ch_gt)))%bool.

(* the single-character-token group of the switch ('-' reaches it only outside a name) *)
Definition do_delim (c : N) (next : option N) (prev : list N) (acc : list str) : res (list str * mode) :=
  if lookback_bad c prev then Err
  else if (N.eqb c ch_dollar && match next with Some d => is_ws d | None => false end)%bool then Err
  else Ok ([c] :: acc, MIdle).

Definition is_delim (c : N) : bool := mem_N c gen_xpc_tok_delims.
Definition is_tok_ws (c : N) : bool := mem_N c gen_xpc_tok_ws.

(* one character with startSubstring == npos *)
Definition step_idle (c : N) (next : option N) (prev : list N) (acc : list str) : res (list str * mode) :=
  if (N.eqb c ch_quote || N.eqb c ch_apos)%bool then Ok (acc, MQuote c [c])
  else if is_tok_ws c then Ok (acc, MIdle)
  else if (N.eqb c ch_hyphen || is_delim c)%bool then do_delim c next prev acc
  else if N.eqb c ch_colon then Ok (acc, MName [c] (Some 0))
  else if (fx_dot fl && N.eqb c ch_fullstop && negb (match next with Some d => num_digit fl d | None => false end))%bool
       then Ok (acc, MDot)
  else if (num_digit fl c || (N.eqb c ch_fullstop && match next with Some d => num_digit fl d | None => false end))%bool
       then Ok (acc, MNum (N.eqb c ch_fullstop) [c])
  else Ok (acc, MName [c] None).

Definition lex_step (c : N) (next : option N) (prev : list N) (acc : list str) (m : mode) : res (list str * mode) :=
  match m with
  | MIdle => step_idle c next prev acc
  | MDot => (* "if (i + 1 < nChars && pat[i + 1] == '.') push ".." and skip it, else push "." " *)
      if N.eqb c ch_fullstop then Ok ([ch_fullstop; ch_fullstop] :: acc, MIdle)
      else step_idle c next prev ([ch_fullstop] :: acc)
  | MQuote q cur => if N.eqb c q then Ok ((cur ++ [c]) :: acc, MIdle) else Ok (acc, MQuote q (cur ++ [c]))
  | MNum got cur =>
      if N.eqb c ch_fullstop then
        (if got then step_idle c next prev (cur :: acc) else Ok (acc, MNum true (cur ++ [c])))
      else if num_digit fl c then Ok (acc, MNum got (cur ++ [c]))
      else step_idle c next prev (cur :: acc)
  | MName cur sep =>
      if (N.eqb c ch_quote || N.eqb c ch_apos)%bool then
        match flush cur sep (Some c) acc with Ok acc1 => Ok (acc1, MQuote c [c]) | Err => Err | Fuel => Fuel end
      else if is_tok_ws c then
        match flush cur sep (Some c) acc with Ok acc1 => Ok (acc1, MIdle) | Err => Err | Fuel => Fuel end
      else if N.eqb c ch_hyphen then Ok (acc, MName (cur ++ [c]) sep)
      else if is_delim c then
        match flush cur sep (Some c) acc with Ok acc1 => do_delim c next prev acc1 | Err => Err | Fuel => Fuel end
      else if N.eqb c ch_colon then
        match sep with
        | Some k =>
            if Nat.eqb (S k) (length cur)
            then (* "::" : posOfNSSep == i - 1 *)
                 let before := removelast cur in
                 Ok ([ch_colon; ch_colon] :: match before with [] => acc | _ => before :: acc end, MIdle)
            else Ok (acc, MName (cur ++ [c]) (Some (length cur)))
        | None => Ok (acc, MName (cur ++ [c]) (Some (length cur)))
        end
      else Ok (acc, MName (cur ++ [c]) sep)
  end.

Fixpoint lex (rest : list N) (prev : list N) (acc : list str) (m : mode) : res (list str) :=
  match rest with
  | [] =>
      match m with
      | MIdle => Ok acc
      | MName cur sep => flush cur sep None acc
      | MQuote _ _ => Err                       (* UnterminatedStringLiteral *)
      | MNum _ cur => Ok (cur :: acc)
      | MDot => Ok ([ch_fullstop] :: acc)
      end
  | c :: r =>
      match lex_step c (hd_error r) prev acc m with
      | Ok (acc1, m1) => lex r (c :: prev) acc1 m1
      | Err => Err
      | Fuel => Fuel
      end
  end.

(* tokenize(): the token queue, oldest first; an empty queue is EmptyExpression *)
Definition tokenize (s : str) : res (list str) :=
  match lex s [] [] MIdle with
  | Ok [] => Err
  | Ok acc => Ok (rev acc)
  | Err => Err
  | Fuel => Fuel
  end.

End Lex.
