"""C11 — an expression has one value, whichever way the caller asks for it.

proof:  coq/Properties_C11.v over coq/GenExec.v (the six switches of XPath::executeMore, regenerated
        from the clang AST on every run) and the interpreter model coq/ExecDefs.v.
tie:    translator/gen_exec.py (tables, post-switch check, digests of the modelled helper bodies) +
        correspondence `exec`: the extracted six-entry-point model against harness/xp.cpp (the six
        public XPath::execute overloads) on the same generated expressions x documents x contexts.
oracle: on the library's output only: B = boolean(G), N = number(G), S = F = string(G), L = G when G
        is a node-set and an error otherwise, the conversions computed in Python from the generic
        result G per XPath 1.0 section 4 (string-values from the generated document); and the same
        at stylesheet level (xsl:if / xsl:when / xsl:value-of / AVT / numeric sort key), also under
        xsl:strip-space / preserve-space with whitespace-only text inside the selected elements."""
import os, re, math, struct
import xml.etree.ElementTree as ET
from vlib import core, xpgen, xpref, xsltrun

LEVEL = "proof"
NSF = "p=%s;q=%s" % (xpgen.tok("urn:p"), xpgen.tok("urn:q"))


# ------------------------------------------------------------------------------------------------
# values

def u16_to_str(tokn):
    body = tokn[2:]
    if not body:
        return ""
    units = [int(h, 16) for h in body.split(",")]
    return b"".join(struct.pack("<H", u) for u in units).decode("utf-16-le", "surrogatepass")


def dbl_of_hex(h):
    return float("nan") if h == "nan" else struct.unpack(">d", struct.pack(">Q", int(h, 16)))[0]


def hex_of_dbl(x):
    return "nan" if x != x else "%016x" % struct.unpack(">Q", struct.pack(">d", x))[0]


def parse_field(f):
    """'b:1' / 'n:hex' / 's:u:..' / 'ns:1,2' / 'err..' -> ('b',bool) ('n',float) ('s',str) ('ns',[ids]) ('err',)"""
    if f.startswith("b:"):
        return ("b", f[2] == "1")
    if f.startswith("n:"):
        return ("n", dbl_of_hex(f[2:]))
    if f.startswith("s:"):
        return ("s", u16_to_str(f[2:]))
    if f.startswith("ns:"):
        return ("ns", [int(x) if x != "?" else -1 for x in f[3:].split(",") if x])
    return ("err",)


def split_result(line):
    """'G:..|B:..|N:..|S:..|F:..|L:..' -> dict, or None for compile errors and the like"""
    fs = line.split("|")
    if len(fs) != 6:
        return None
    d = {}
    for f in fs:
        d[f[0]] = f[2:]
    return d if set(d) == set("GBNSFL") else None


def canon(fieldtext):
    return "err" if fieldtext.startswith("err") else fieldtext


def same_num(a, b):
    if a != a or b != b:
        return a != a and b != b
    return a == b and math.copysign(1, a) == math.copysign(1, b)


NEGZERO = re.compile(r"^[ \t\r\n]*-(0+(\.0*)?|\.0+)[ \t\r\n]*$")


def expected_from_generic(G, ref):
    """the five specialised results the Recommendation prescribes for the generic result G"""
    k = G[0]
    if k == "err":
        return {"B": ("err",), "N": ("err",), "S": ("err",), "F": ("err",), "L": ("err",)}
    if k == "b":
        s = "true" if G[1] else "false"
        return {"B": ("b", G[1]), "N": ("n", 1.0 if G[1] else 0.0), "S": ("s", s), "F": ("s", s), "L": ("err",)}
    if k == "n":
        x = G[1]
        s = xpref.num_to_str(x)
        return {"B": ("b", not (x != x or x == 0)), "N": ("n", x), "S": ("s", s), "F": ("s", s), "L": ("err",)}
    if k == "s":
        s = G[1]
        return {"B": ("b", len(s) > 0), "N": ("n", xpref.str_to_num(s)), "S": ("s", s), "F": ("s", s), "L": ("err",)}
    ids = G[1]
    s = ref.string_value(ids[0]) if ids else ""
    return {"B": ("b", len(ids) > 0), "N": ("n", xpref.str_to_num(s)), "S": ("s", s), "F": ("s", s), "L": ("ns", ids)}


NUMSTR = re.compile(r"(-?)(0|[1-9][0-9]*)(\.[0-9]*[1-9])?")


def num_str_ok(s, x):
    """s is a string(x) in the sense of XPath 1.0 section 4.2: NaN / Infinity / 0 exactly; otherwise a
       canonical decimal (no exponent, no leading zeros, no trailing '.' or fraction zeros, '-' iff
       negative) that denotes exactly the double x.  How many digits the library prints beyond the
       ones needed to identify x is the business of C18, not of this property."""
    if x != x:
        return s == "NaN"
    if math.isinf(x):
        return s == ("Infinity" if x > 0 else "-Infinity")
    if x == 0:
        return s == "0"
    m = NUMSTR.fullmatch(s)
    if not m or (m.group(1) == "-") != (x < 0):
        return False
    try:
        return float(s) == x
    except ValueError:
        return False


def field_ok(got, exp):
    if got[0] != exp[0]:
        return False
    if got[0] == "err":
        return True
    if got[0] == "n":
        return same_num(got[1], exp[1])
    return got[1] == exp[1]


def foreign_class(name, G, got, exp, ref):
    """deviations that belong to the number<->string conversions (C18), not to C11: the class is
       decided on the values alone"""
    if name in ("S", "F") and G[0] == "n" and G[1] == G[1] and G[1] != 0 and abs(G[1]) < 2.0 ** -63:
        return "C18-K5"          # string() of a number below 2^-63
    if name == "N" and got[0] == "n" and exp[0] == "n" and got[1] == 0 and exp[1] == 0:
        s = G[1] if G[0] == "s" else (ref.string_value(G[1][0]) if G[0] == "ns" and G[1] else None)
        if s is not None and NEGZERO.match(s):
            return "C18-K13"     # a string denoting negative zero converts to +0
    return None


# ------------------------------------------------------------------------------------------------
# documents from their token form (replays are self-contained)

def tree_of_tokens(field):
    toks = field.split(" ") if field else []
    pos = [0]

    def children():
        out = []
        while pos[0] < len(toks):
            t = toks[pos[0]]
            if t == ")":
                pos[0] += 1
                return out
            pos[0] += 1
            if t.startswith("("):
                attrs = []
                while pos[0] < len(toks) and toks[pos[0]].startswith("@"):
                    a = toks[pos[0]][1:]
                    e = a.index("=")
                    attrs.append((a[:e], u16_to_str(a[e + 1:])))
                    pos[0] += 1
                ch = children()
                out.append(("e", t[1:], attrs, ch))
            elif t[0] == "t":
                out.append(("t", u16_to_str(t[2:])))
            elif t[0] == "c":
                out.append(("c", u16_to_str(t[2:])))
            elif t[0] == "p":
                e = t.index("=", 2)
                out.append(("p", t[2:e], u16_to_str(t[e + 1:])))
        return out
    return children()


def esc(s, attr=False):
    s = s.replace("&", "&amp;").replace("<", "&lt;").replace(">", "&gt;")
    if attr:
        s = s.replace('"', "&quot;").replace("\n", "&#10;").replace("\t", "&#9;").replace("\r", "&#13;")
    else:
        s = s.replace("\r", "&#13;")
    return s


def xml_of_tree(top):
    def go(t):
        if t[0] == "e":
            s = "<" + t[1] + "".join(' %s="%s"' % (a, esc(v, True)) for a, v in t[2])
            if not t[3]:
                return s + "/>"
            return s + ">" + "".join(go(c) for c in t[3]) + "</" + t[1] + ">"
        if t[0] == "t":
            return esc(t[1])
        if t[0] == "c":
            return "<!--" + t[1] + "-->"
        return "<?" + t[1] + ((" " + t[2]) if t[2] else "") + "?>"
    return "".join(go(t) for t in top)


# ------------------------------------------------------------------------------------------------
# generation: every op-code as the top-level node

CORE_FUNCS = [
    ("position", []), ("last", []), ("count", ["nodes"]), ("not", ["any"]), ("true", []), ("false", []),
    ("boolean", ["any"]), ("name", []), ("name", ["nodes"]), ("local-name", []), ("local-name", ["nodes"]),
    ("namespace-uri", []), ("namespace-uri", ["nodes"]), ("number", []), ("number", ["any"]),
    ("floor", ["numish"]), ("ceiling", ["numish"]), ("round", ["numish"]), ("string", []), ("string", ["any"]),
    ("string-length", []), ("string-length", ["strish"]), ("sum", ["nodes"]), ("concat", ["strish", "strish"]),
    ("concat", ["strish", "num", "nodes"]), ("contains", ["str", "str"]), ("starts-with", ["str", "str"]),
    ("substring", ["str", "num"]), ("substring", ["str", "num", "num"]), ("substring-before", ["str", "str"]),
    ("substring-after", ["str", "str"]), ("translate", ["str", "str", "str"]), ("normalize-space", []),
    ("normalize-space", ["strish"]), ("lang", ["str"]),
]
BIN = ["or", "and", "eq", "ne", "lt", "lte", "gt", "gte", "plus", "minus", "mult", "div", "mod"]
LITS = ["", "0", "false", "NaN", " 12 ", "007", "-0", "1e3", "abc", "\U0001d4b3z", " ", "-.5", "Infinity", "0.0"]
NUMS = ["0", "007", ".5", "2.", "1", "0.0", "100000000000000000000", "0.1", "9007199254740993", "1.50", "00", "12345678901234567890.5"]
PATHS = [  # boundary node-sets: empty, singleton, many (first and last differ), reverse axes, attributes
    ("path", None, [], [("root", "root", [])]),
    ("path", None, [], [("root", "root", []), ("parent", "node", [])]),
    ("path", None, [], [("root", "root", []), ("child", ("name", None, None), [])]),
    ("path", None, [], [("root", "root", []), ("descendant-or-self", "node", []), ("child", ("name", None, None), [])]),
    ("path", None, [], [("root", "root", []), ("descendant-or-self", "node", []), ("child", "text", [])]),
    ("path", None, [], [("root", "root", []), ("descendant-or-self", "node", []), ("attribute", ("name", None, None), [])]),
    ("path", None, [], [("child", ("name", None, None), [])]),
    ("path", None, [], [("child", ("name", None, "nosuch"), [])]),
    ("path", None, [], [("ancestor-or-self", "node", [])]),
    ("path", None, [], [("preceding", "node", [])]),
    ("path", None, [], [("following", ("name", None, None), [])]),
    ("path", None, [], [("self", "node", [])]),
    ("path", None, [], [("descendant", "node", [(False, ("num", "2"))])]),
]


def typed(g, ty, d):
    r = g.r
    if ty == "numish":
        ty = r.choice(["num", "num", "str", "nodes"])
    if ty == "strish":
        ty = r.choice(["str", "str", "nodes", "num", "any"])
    return g.gen(ty, d)


def top_level_exprs(g, r, d):
    """one expression per op-code / core function / boundary class, each as the top-level node"""
    out = []
    for op in BIN:
        if op in ("or", "and"):
            a, b = g.gen("any", d), g.gen("any", d)
        elif op in ("eq", "ne", "lt", "lte", "gt", "gte"):
            a, b = g.gen("any", d), g.gen("any", d)
        else:
            a, b = typed(g, "numish", d), typed(g, "numish", d)
        out.append((op, g.binop(op, a, b)))
    a = typed(g, "numish", d)
    out.append(("neg", ("neg", g.wrap(a, 7) if a[0] != "neg" else a)))
    out.append(("union", ("union", [g.as_union_operand(g.gen("nodes", d)) for _ in range(r.choice([2, 2, 3]))])))
    out.append(("union-boundary", ("union", r.choice([[("var", "e1"), ("var", "e1")], [r.choice(PATHS[6:8]), ("var", "e1")],
                                                        [("var", "ns1"), r.choice(PATHS)], [r.choice(PATHS), r.choice(PATHS)]]))))
    out.append(("lit", ("lit", r.choice(LITS))))
    for v in ("n1", "s1", "b1", "ns1", "e1"):
        out.append(("var:" + v, ("var", v)))
    out.append(("group", ("group", g.gen("any", d))))
    out.append(("group-boundary", ("group", r.choice([("var", "ns1"), ("var", "e1"), ("num", r.choice(NUMS)), ("lit", r.choice(LITS)),
                                                       ("union", [("var", "ns1"), r.choice(PATHS)]), ("group", ("var", "ns1"))]))))
    out.append(("num", ("num", r.choice(NUMS))))
    out.append(("path", g.gen("nodes", d) if r.random() < 0.5 else ("path", None, [], g.g_steps(d))))
    out.append(("path-boundary", r.choice(PATHS)))
    head = r.choice([("var", "ns1"), ("group", g.gen("nodes", d)), ("var", "e1")])
    out.append(("path-head", ("path", head, [g.g_pred(d) for _ in range(r.choice([0, 1, 1]))], g.g_steps(max(d - 1, 0)) if r.random() < 0.6 else [])
                if r.random() < 0.85 else ("path", head, [(False, ("num", r.choice(["1", "2"])))], [])))
    for name, tys in CORE_FUNCS:
        out.append(("fn:%s/%d" % (name, len(tys)), ("fn", name, [typed(g, t, d) for t in tys])))
    # count()/sum()/name() of boundary node-sets; boolean/number of literals
    out.append(("fn:count-boundary", ("fn", "count", [r.choice(PATHS + [("var", "ns1"), ("var", "e1"), ("group", ("var", "ns1"))])])))
    out.append(("fn:sum-boundary", ("fn", "sum", [r.choice(PATHS[2:8] + [("var", "ns1"), ("var", "e1")])])))
    out.append(("fn:name-boundary", ("fn", r.choice(["name", "local-name"]), [r.choice(PATHS + [("var", "e1")])])))
    out.append(("fn:number-boundary", ("fn", r.choice(["number", "floor", "ceiling", "round"]), [r.choice([("num", r.choice(NUMS)), ("lit", r.choice(LITS)), r.choice(PATHS)])])))
    out.append(("fn:string-length-boundary", ("fn", "string-length", [r.choice([("num", r.choice(NUMS)), ("lit", r.choice(LITS)), r.choice(PATHS), ("fn", "true", [])])])))
    # run-time type errors: both the generic and every specialised entry point must fail
    out.append(("error", r.choice([("fn", "count", [("num", "1")]), ("fn", "sum", [("lit", "a")]), ("fn", "name", [("num", "2")]),
                                   ("union", [("num", "1"), r.choice(PATHS)]), ("path", ("group", ("num", "1")), [], [("child", ("name", None, None), [])]),
                                   ("fn", "local-name", [("fn", "true", [])]), ("plus", ("fn", "count", [("lit", "x")]), ("num", "1"))])))
    res = []
    for cls, e in out:
        e = xpgen.fix_bare_root(e)
        if e[0] == "path" and e[1] is None and not e[3]:
            continue
        res.append((cls, e))
    return res


def mk_vars(r, nonattr):
    return {
        "n1": ("num", r.choice([1.0, 2.0, 0.0, -1.5, float("nan"), float("inf"), 3.0, -0.0, 0.5, 1e21])),
        "s1": ("str", r.choice(["a", "", "1", "ab", "2", " 7 ", "0", "-0"])),
        "b1": ("bool", r.random() < 0.5),
        "ns1": ("nodes", sorted(r.sample(nonattr, min(len(nonattr), r.randrange(0, 4))))),
        "e1": ("nodes", []),
    }


def vfield_of(variables):
    enc = {"num": lambda v: "n:" + ("nan" if v != v else xpgen.dbits(v)), "str": lambda v: "s:" + xpgen.tok(v),
           "bool": lambda v: "b:%d" % v, "nodes": lambda v: "ns:" + ",".join(map(str, v))}
    return ";".join("%s=%s" % (name, enc[t](v)) for name, (t, v) in variables.items())


def gen_cases(ctx, n_docs, n_random, depth, prefix="x"):
    r = ctx.rng
    cases, k = [], 0
    for di in range(n_docs):
        top = xpgen.gen_doc(r, "small" if r.random() < 0.7 else "big")
        nodes = xpgen.build_nodes(top)
        dtoks = xpgen.doc_tokens(top)
        elems = [n.id for n in nodes if n.kind == "elem"]
        nonattr = [n.id for n in nodes if n.kind not in ("attr", "nsdecl")]
        variables = mk_vars(r, nonattr)
        vfield = vfield_of(variables)
        g = xpgen.ExprGen(r, depth=depth, variables=variables)
        todo = top_level_exprs(g, r, r.choice([1, 1, 2]))
        for _ in range(n_random):
            g2 = xpgen.ExprGen(r, depth=r.choice([1, 2, 2, 3, depth]), variables=variables)
            e = g2.gen()
            todo.append(("random:" + e[0], e))
        for cls, e in todo:
            cn = r.choice([n.id for n in nodes if n.kind != "nsdecl"]) if r.random() < 0.8 else r.choice(elems)
            if r.random() < 0.5 and nodes[cn].parent is not None and nodes[cn].kind not in ("attr", "nsdecl"):
                cl = [c.id for c in nodes[cn].parent.children]
            else:
                cl = sorted(set(r.sample(nonattr, min(len(nonattr), r.randrange(0, 4))) + [cn]))
            s = xpgen.p_expr(e, r)
            cid = "%s%d" % (prefix, k)
            line = "%s|eval|D:%s|C:%d;%s|V:%s|N:%s|X:%s|A:%s" % (
                cid, dtoks, cn, ",".join(map(str, cl)), vfield, NSF, xpgen.tok(s), xpgen.sx_expr(e))
            cases.append({"id": cid, "line": line, "cls": cls, "str": s, "nodes": nodes, "expr": e})
            k += 1
    return cases


def uses_namespace_axis(e):
    return "namespace::" in e


# ------------------------------------------------------------------------------------------------
# evaluation of XPath-level cases

def check_line(c, ri, ref):
    """oracle on one library result line; returns list of (field, what, foreign class or None)"""
    d = split_result(ri)
    if d is None:
        return None     # compile error / bad context: no value to compare
    G = parse_field(d["G"])
    exp = expected_from_generic(G, ref)
    bad = []
    for name in "BNSFL":
        got = parse_field(d[name])
        if name in "SF" and G[0] == "n":
            ok = got[0] == "s" and num_str_ok(got[1], G[1])
        else:
            ok = field_ok(got, exp[name])
        if not ok:
            bad.append((name, "%s: generic result %s, entry point %s delivers %s, the conversion of the generic result is %s" % (
                c["str"], d["G"], name, d[name], show(exp[name])), foreign_class(name, G, got, exp[name], ref)))
    return bad


def show(v):
    if v[0] == "err":
        return "an error"
    if v[0] == "n":
        return "n:%s (%r)" % (hex_of_dbl(v[1]), v[1])
    if v[0] == "s":
        return "s:%s (%r)" % (xpgen.tok(v[1]), v[1])
    if v[0] == "b":
        return "b:%d" % v[1]
    return "ns:" + ",".join(map(str, v[1]))


def evaluate(ctx, cases, impl, model):
    lines = [c["line"] for c in cases]
    rc_i, res_i, raw_i = core.run_lines_parallel(impl, lines, sep="|")
    rc_m, res_m, raw_m = core.run_lines_parallel(model, lines, sep="|") if model else (0, {}, "")
    corr, orc, foreign = [], [], {}
    generic_model_diff = 0
    if rc_i != 0:
        orc.append({"case": "(process)", "what": "xp driver exited with status %d: %s" % (rc_i, raw_i[-300:])})
    distinct = set()
    refs = {}
    for c in cases:
        ri = res_i.get(c["id"])
        ctx.cov["evaluations"] += 1
        ctx.count("top:" + c["cls"])
        if ri is None:
            orc.append({"case": c["line"], "what": "no result from the library (crash?) for %s" % c["str"]})
            continue
        ref = refs.get(id(c["nodes"]))
        if ref is None:
            ref = refs[id(c["nodes"])] = xpref.Ref(c["nodes"])
        bad = check_line(c, ri, ref)
        if bad is None:
            ctx.count("no-value:" + ri.split(":")[0][:12])
            continue
        d = split_result(ri)
        distinct.add((c["cls"], d["G"][:2].rstrip(":"), c["str"]))
        ctx.count("generic:" + ("err" if d["G"].startswith("err") else d["G"].split(":")[0]))
        for name, what, fc in bad:
            if fc:
                foreign[fc] = foreign.get(fc, 0) + 1
            else:
                orc.append({"case": c["line"], "what": what})
        # --- correspondence with the extracted six-entry-point model
        if model:
            rm = res_m.get(c["id"])
            dm = split_result(rm) if rm else None
            ctx.cov["traces_validated_against_impl"] += 1
            if dm is None:
                corr.append({"expr": c["str"], "impl": ri[:300], "model": (rm or "(nothing)")[:300], "case": c["line"]})
                continue
            if canon(dm["G"]) != canon(d["G"]):
                # the generic interpreter model against the library is the correspondence of C02
                generic_model_diff += 1
                continue
            if any(canon(dm[k]) != canon(d[k]) for k in "BNSFL"):
                corr.append({"expr": c["str"], "impl": ri[:300], "model": rm[:300], "case": c["line"]})
    ctx.cov["distinct_nontrivial"] = ctx.cov.get("distinct_nontrivial", 0) + len(distinct)
    ctx.notes["generic_model_differences_left_to_C02"] = ctx.notes.get("generic_model_differences_left_to_C02", 0) + generic_model_diff
    for k, v in foreign.items():
        ctx.notes.setdefault("conversion_deviations_owned_by_C18", {})
        ctx.notes["conversion_deviations_owned_by_C18"][k] = ctx.notes["conversion_deviations_owned_by_C18"].get(k, 0) + v
    return corr, orc


# ------------------------------------------------------------------------------------------------
# stylesheet level: xsl:if / xsl:when / xsl:value-of / AVT / xsl:number value / numeric sort key

# (the body runs inside xsl:for-each select="/": in the template the initial apply-templates selects
#  for "/" the library reports position() = last() = 0, which is not this property's subject)
SHEET = """<xsl:stylesheet version="1.0" xmlns:xsl="http://www.w3.org/1999/XSL/Transform" xmlns:p="urn:p" xmlns:q="urn:q" exclude-result-prefixes="p q">
<xsl:output method="xml" encoding="UTF-8" omit-xml-declaration="yes"/>
<xsl:variable name="n1" select="%(n1)s"/>
<xsl:variable name="s1" select="%(s1)s"/>
<xsl:variable name="b1" select="%(b1)s"/>
<xsl:variable name="e1" select="/.."/>
<xsl:template match="/">
<xsl:for-each select="/">
<r>
<if><xsl:if test="%(e)s">T</xsl:if></if>
<when><xsl:choose><xsl:when test="%(e)s">T</xsl:when><xsl:otherwise>F</xsl:otherwise></xsl:choose></when>
<vo><xsl:value-of select="%(e)s"/></vo>
<avt a="{%(ea)s}" b="[{%(ea)s}|{%(ea)s}]"/>
<sorted><xsl:for-each select="/*/*"><xsl:sort select="%(e)s" data-type="number"/><i><xsl:value-of select="position()"/>:<xsl:value-of select="count(preceding-sibling::*)"/></i></xsl:for-each></sorted>
</r>
</xsl:for-each>
</xsl:template>
</xsl:stylesheet>"""


def xpath_num_literal(v):
    if v != v:
        return "number('x')"
    if math.isinf(v):
        return "(1 div 0)" if v > 0 else "(-1 div 0)"
    if v == 0 and math.copysign(1, v) < 0:
        return "(0 * -1)"
    s = xpref.num_to_str(abs(v))
    return ("-" if v < 0 else "") + s


SORTKEYS = [
    ("path", None, [], [("attribute", ("name", None, "x"), [])]),
    ("path", None, [], [("self", "node", [])]),
    ("fn", "count", [("path", None, [], [("child", "node", [])])]),
    ("fn", "string-length", [("path", None, [], [("self", "node", [])])]),
    ("neg", ("fn", "position", [])),
    ("fn", "sum", [("path", None, [], [("attribute", ("name", None, None), [])])]),
    ("mult", ("path", None, [], [("attribute", ("name", None, "x"), [])]), ("num", "2")),
    ("fn", "number", [("path", None, [], [("child", "text", [])])]),
    ("fn", "round", [("path", None, [], [("attribute", ("name", None, "y"), [])])]),
    ("union", [("path", None, [], [("attribute", ("name", None, "y"), [])]), ("path", None, [], [("attribute", ("name", None, "x"), [])])]),
    ("group", ("path", None, [], [("child", ("name", None, None), []), ("attribute", ("name", None, "x"), [])])),
    ("minus", ("fn", "last", []), ("fn", "position", [])),
    ("fn", "boolean", [("path", None, [], [("attribute", ("name", None, "y"), [])])]),
    ("lit", "3"), ("num", "007"), ("var", "n1"),
]


def gen_sort_doc(r):
    """a document element with several element children carrying different numeric material"""
    kids = []
    for _ in range(r.randrange(3, 7)):
        attrs = []
        if r.random() < 0.8:
            attrs.append(("x", r.choice(["1", "2", "3", "10", "-1", "1.5", "007", " 2 ", "a", ""])))
        if r.random() < 0.5:
            attrs.append(("y", r.choice(["0.5", "2.5", "-0.5", "4", "b"])))
        ch = []
        if r.random() < 0.7:
            ch.append(("t", r.choice(["5", "1", "12", "0", "-3", "x", "2.25"])))
        for _ in range(r.randrange(0, 3)):
            ch.append(("e", "c", [("x", r.choice(["7", "1", "0"]))] if r.random() < 0.6 else [], []))
        kids.append(("e", r.choice(["a", "b"]), attrs, ch))
    return [("e", "r", [("xmlns:p", "urn:p")], kids)]


def gen_sheet_cases(ctx, n_docs, per_doc):
    r = ctx.rng
    out, k = [], 0
    for di in range(n_docs):
        sortdoc = di % 2 == 1
        top = gen_sort_doc(r) if sortdoc else xpgen.gen_doc(r, "small")
        # value-of output and attribute values must survive XML serialisation: keep the document ASCII-clean
        nodes = xpgen.build_nodes(top)
        dtoks = xpgen.doc_tokens(top)
        src = xml_of_tree(top)
        variables = {"n1": ("num", r.choice([1.0, 2.0, 0.0, -1.5, float("nan"), 3.0, 0.5])),
                     "s1": ("str", r.choice(["a", "", "1", "ab", "2", "0"])),
                     "b1": ("bool", r.random() < 0.5), "e1": ("nodes", [])}
        g = xpgen.ExprGen(r, depth=2, variables=variables)
        todo = top_level_exprs(g, r, 1)
        r.shuffle(todo)
        if sortdoc:
            keys = [("sortkey", e) for e in SORTKEYS]
            r.shuffle(keys)
            todo = keys[:per_doc // 2] + todo
        kids = [c.id for c in nodes[0].children if c.kind == "elem"]
        docel = kids[0]
        items = [c.id for c in nodes[docel].children if c.kind == "elem"]
        for cls, e in todo[:per_doc]:
            s = xpgen.p_expr(e, r)
            if "ns1" in s or "namespace::" in s:
                continue
            if any(ord(ch) < 32 and ch not in "\t\n" for ch in s):
                continue
            sx = xpgen.sx_expr(e)
            vf = vfield_of(variables)
            cid = "s%d" % k
            k += 1
            # the same expression through the XPath API: at the root (if/when/value-of/AVT) and with each item as context (sort keys)
            lines = ["%s_r|eval|D:%s|C:0;0|V:%s|N:%s|X:%s|A:%s" % (cid, dtoks, vf, NSF, xpgen.tok(s), sx)]
            for j, it in enumerate(items):
                lines.append("%s_i%d|eval|D:%s|C:%d;%s|V:%s|N:%s|X:%s|A:%s" % (
                    cid, j, dtoks, it, ",".join(map(str, items)), vf, NSF, xpgen.tok(s), sx))
            q = lambda t: esc(t, True)
            sheet = SHEET % {"e": q(s), "ea": q(s).replace("{", "{{").replace("}", "}}"),
                             "n1": xpath_num_literal(variables["n1"][1]), "s1": "'%s'" % variables["s1"][1],
                             "b1": "true()" if variables["b1"][1] else "false()"}
            out.append({"id": cid, "cls": cls, "str": s, "sheet": sheet, "source": src, "lines": lines, "nodes": nodes,
                        "items": items})
    return out


def text_of(el):
    return "".join(el.itertext()) if el is not None else None


def run_sheet_cases(ctx, scases, impl):
    if not scases:
        return []
    res = xsltrun.run([{"id": c["id"], "sheet": c["sheet"], "source": c["source"]} for c in scases])
    lines = [l for c in scases for l in c["lines"]]
    rc, xres, raw = core.run_lines_parallel(impl, lines, sep="|")
    bad = []
    for c in scases:
        ctx.cov["evaluations"] += 1
        ctx.count("sheet:" + c["cls"].split("/")[0].split(":")[0])
        ref = xpref.Ref(c["nodes"])
        rr = xres.get(c["id"] + "_r")
        d = split_result(rr) if rr else None
        out = res.get(c["id"])
        if d is None:
            # the expression does not compile through the API: the stylesheet must be rejected too
            if out and out[0] == "ok" and rr and rr.startswith("compile"):
                bad.append((c, "compiles in a stylesheet but not through the XPath API (%s)" % rr[:80]))
            continue
        G = parse_field(d["G"])
        item_vals = []
        for j in range(len(c["items"])):
            ri = xres.get("%s_i%d" % (c["id"], j))
            di = split_result(ri) if ri else None
            item_vals.append(parse_field(di["G"]) if di else ("err",))
        any_err = G[0] == "err" or any(v[0] == "err" for v in item_vals)
        if out is None or out[0] == "crash":
            bad.append((c, "the transformation crashed"))
            continue
        if out[0] == "err":
            if not any_err:
                bad.append((c, "the transformation fails (%s) although the expression evaluates to %s through the API" % (out[2][:120], d["G"])))
            continue
        if G[0] == "err":
            bad.append((c, "the transformation succeeds although the expression fails through the API (%s)" % d["G"]))
            continue
        try:
            root = ET.fromstring(out[1].decode("utf-8"))
        except Exception as ex:     # unparsable output: control characters in the value; not this property's subject
            ctx.count("sheet:unparsable-output")
            continue
        exp = expected_from_generic(G, ref)
        eb, es = exp["B"][1], exp["S"][1]
        if foreign_class("S", G, ("s", ""), exp["S"], ref):
            continue
        norm = lambda t: t.replace("\r\n", "\n").replace("\r", "\n")
        if G[0] == "n":
            # any canonical decimal denoting the number is a string() of it (digit count: C18)
            for cand in (norm(text_of(root.find("vo"))), root.find("avt").get("a")):
                if num_str_ok(cand, G[1]):
                    es = cand
                    break
        obs = {"xsl:if": (text_of(root.find("if")) == "T", eb), "xsl:when": (text_of(root.find("when")) == "T", eb),
               "xsl:value-of": (norm(text_of(root.find("vo"))), norm(es)),
               "AVT": (root.find("avt").get("a"), attr_norm(es)),
               "AVT with three parts": (root.find("avt").get("b"), attr_norm("[" + es + "|" + es + "]"))}
        for what, (got, want) in obs.items():
            if got != want:
                bad.append((c, "%s observes %r, the generic value %s converts to %r" % (what, got, d["G"], want)))
        # numeric sort keys: stable sort of the items by number(value of the expression at the item)
        if not any(v[0] == "err" for v in item_vals) and c["items"]:
            keys = []
            skip = False
            for it, v in zip(c["items"], item_vals):
                refv = expected_from_generic(v, ref)["N"][1]
                if foreign_class("N", v, ("n", 0.0), ("n", refv), ref):
                    skip = True
                keys.append(refv)
            if not skip:
                order = sorted(range(len(keys)), key=lambda j: (0, 0.0) if keys[j] != keys[j] else (1, keys[j]))
                want = "".join("%d:%d" % (p + 1, j) for p, j in enumerate(order))
                got = text_of(root.find("sorted"))
                ctx.count("sheet-sort:checked")
                if order != sorted(order):
                    ctx.count("sheet-sort:order-changed")
                if got != want:
                    bad.append((c, "numeric sort keys: order %r, the generic values %s sort as %r" % (
                        got, [show(v) for v in item_vals], want)))
    return bad


def attr_norm(s):
    # the output was serialised and re-parsed: attribute value normalisation does not apply to
    # character references, so the value comes back as it was
    return s.replace("\r\n", "\n")


# ------------------------------------------------------------------------------------------------
# stylesheet level with xsl:strip-space: whitespace-only text nodes inside the selected elements must
# be invisible to EVERY entry point (string-value of an element is built by DOMServices::getNodeData,
# which asks the execution context whether a text node is stripped only when it is given one)

class SNode:
    __slots__ = ("kind", "name", "text", "children", "parent", "order")

    def __init__(self, kind, name="", text=""):
        self.kind, self.name, self.text = kind, name, text
        self.children, self.parent, self.order = [], None, -1


WS = [" ", "\n  ", "\n", "\t", "  \n    "]


def gen_ws_doc(r):
    """<r> with indented element children (whitespace-only text between them) and some real text"""
    counter = [0]

    def el(name, depth):
        n = SNode("e", name)
        items = []
        for _ in range(r.randrange(0, 4)):
            k = r.random()
            if depth > 0 and k < 0.55:
                items.append(el(r.choice(["a", "b", "name", "c"]), depth - 1))
            else:
                items.append(SNode("t", text=r.choice(["1", "7", "x", "2.5", "ab", " 3 ", "-1"])))
        out = []
        indent = r.random() < 0.85
        for it in items:
            if indent and (not out or out[-1].kind != "t") and it.kind != "t":
                out.append(SNode("t", text=r.choice(WS)))
            if out and out[-1].kind == "t" and it.kind == "t":
                continue
            out.append(it)
        if indent and out and out[-1].kind != "t":
            out.append(SNode("t", text=r.choice(WS)))
        for c in out:
            c.parent = n
        n.children = out
        return n
    root = SNode("e", "r")
    kids = [el(r.choice(["name", "a", "b", "a", "name"]), 2) for _ in range(r.randrange(2, 6))]
    out = [SNode("t", text="\n  ")]
    for kd in kids:
        out.append(kd)
        out.append(SNode("t", text=r.choice(WS)) if r.random() < 0.85 else SNode("t", text=r.choice(["5", "q"])))
    for c in out:
        c.parent = root
    root.children = out

    def number(n):
        n.order = counter[0]
        counter[0] += 1
        for c in n.children:
            number(c)
    number(root)
    return root


def ws_xml(n):
    if n.kind == "t":
        return esc(n.text)
    return "<%s>%s</%s>" % (n.name, "".join(ws_xml(c) for c in n.children), n.name)


def is_ws(t):
    return t != "" and all(ch in " \t\r\n" for ch in t)


class StripRef:
    """string-values and the few location paths of this stream, per XSLT 1.0 section 3.4"""

    def __init__(self, root, strip, preserve):
        self.root, self.strip, self.preserve = root, strip, preserve

    def stripped(self, t):
        if t.kind != "t" or not is_ws(t.text):
            return False
        p = t.parent.name
        if p in self.preserve:
            return False
        if p in self.strip:
            return True
        if "*" in self.preserve:
            return False
        return "*" in self.strip

    def sv(self, n):
        if n.kind == "t":
            return n.text
        return "".join(self.sv(c) for c in n.children if not self.stripped(c))

    def kids(self, n, name=None):
        return [c for c in n.children if c.kind == "e" and (name is None or c.name == name)]

    def desc(self, n, name):
        out = []
        for c in n.children:
            if c.kind == "e":
                if c.name == name:
                    out.append(c)
                out += self.desc(c, name)
        return out

    def select(self, key, ctxn):
        k = self.kids
        if key == "name":
            return k(ctxn, "name")
        if key == "*":
            return k(ctxn)
        if key == "*[2]":
            return k(ctxn)[1:2]
        if key == "*[last()]":
            return k(ctxn)[-1:]
        if key == "a/b":
            return [b for a in k(ctxn, "a") for b in k(a, "b")]
        if key == ".":
            return [ctxn]
        if key == "descendant::b":
            return self.desc(ctxn, "b")
        if key == "a | name":
            return sorted(k(ctxn, "a") + k(ctxn, "name"), key=lambda n: n.order)
        if key == "(name)":
            return k(ctxn, "name")
        if key == "$v":
            return k(self.root, "name")
        if key == "name/..":
            return [ctxn] if k(ctxn, "name") else []
        if key == "text()":
            return [c for c in ctxn.children if c.kind == "t" and not self.stripped(c)]
        if key == "*/text()":
            return [c for e in k(ctxn) for c in e.children if c.kind == "t" and not self.stripped(c)]
        if key == "(a | b)[1]":
            return sorted(k(ctxn, "a") + k(ctxn, "b"), key=lambda n: n.order)[:1]
        raise KeyError(key)


STRIP_PATHS = ["name", "*", "*[2]", "*[last()]", "a/b", ".", "descendant::b", "a | name", "(name)", "$v", "name/..",
               "text()", "*/text()", "(a | b)[1]"]
STRIP_DECLS = [(["*"], []), (["*"], ["b"]), (["name", "a", "r"], []), (["r", "b"], []), ([], []), (["*"], ["name"])]

STRIP_SHEET = """<xsl:stylesheet version="1.0" xmlns:xsl="http://www.w3.org/1999/XSL/Transform">
<xsl:output method="xml" encoding="UTF-8" omit-xml-declaration="yes"/>
%(decl)s
<xsl:variable name="v" select="/r/name"/>
<xsl:template match="/">
<out><xsl:for-each select="/r">
<avt a="{%(e)s}" b="[{%(e)s}|{%(e)s}]"/>
<vo><xsl:value-of select="%(e)s"/></vo>
<gs><xsl:value-of select="string(%(e)s)"/></gs>
<cc><xsl:value-of select="concat('[', %(e)s, ']')"/></cc>
<num><xsl:value-of select="number(%(e)s)"/></num>
<gnum><xsl:value-of select="number(string(%(e)s))"/></gnum>
<plus><xsl:value-of select="%(e)s + 0"/></plus>
<len><xsl:value-of select="string-length(%(e)s)"/></len>
<glen><xsl:value-of select="string-length(string(%(e)s))"/></glen>
<if><xsl:if test="%(e)s">T</xsl:if></if>
<cnt><xsl:value-of select="count(%(e)s)"/></cnt>
<eq><xsl:if test="%(e)s = string(%(e)s)">T</xsl:if></eq>
<copy><xsl:copy-of select="%(e)s"/></copy>
<each><xsl:for-each select="%(e)s"><xsl:copy-of select="."/></xsl:for-each></each>
<st><xsl:for-each select="*"><xsl:sort select="%(k)s"/><i><xsl:value-of select="count(preceding-sibling::*)"/>,</i></xsl:for-each></st>
<sg><xsl:for-each select="*"><xsl:sort select="string(%(k)s)"/><i><xsl:value-of select="count(preceding-sibling::*)"/>,</i></xsl:for-each></sg>
<nt><xsl:for-each select="*"><xsl:sort select="%(k)s" data-type="number"/><i><xsl:value-of select="count(preceding-sibling::*)"/>,</i></xsl:for-each></nt>
<ng><xsl:for-each select="*"><xsl:sort select="number(string(%(k)s))" data-type="number"/><i><xsl:value-of select="count(preceding-sibling::*)"/>,</i></xsl:for-each></ng>
</xsl:for-each></out>
</xsl:template>
</xsl:stylesheet>"""

SORT_KEYS = [".", "*", "b", "name", "*[last()]", "a | b", "text()", "(*)"]


def gen_strip_cases(ctx, n_docs, per_doc):
    r = ctx.rng
    out, k = [], 0
    for di in range(n_docs):
        root = gen_ws_doc(r)
        src = ws_xml(root)
        strip, preserve = STRIP_DECLS[di % len(STRIP_DECLS)] if di < len(STRIP_DECLS) else r.choice(STRIP_DECLS)
        decl = ""
        if strip:
            decl += '<xsl:strip-space elements="%s"/>' % " ".join(strip)
        if preserve:
            decl += '<xsl:preserve-space elements="%s"/>' % " ".join(preserve)
        paths = list(STRIP_PATHS)
        r.shuffle(paths)
        for e in paths[:per_doc]:
            key = r.choice(SORT_KEYS)
            out.append({"id": "w%d" % k, "e": e, "k": key, "root": root, "source": src, "strip": strip, "preserve": preserve,
                        "sheet": STRIP_SHEET % {"decl": decl, "e": esc(e, True), "k": esc(key, True)}})
            k += 1
    return out


def run_strip_cases(ctx, wcases):
    if not wcases:
        return []
    res = xsltrun.run([{"id": c["id"], "sheet": c["sheet"], "source": c["source"]} for c in wcases])
    bad = []
    for c in wcases:
        ctx.cov["evaluations"] += 1
        ctx.count("strip:" + ("none" if not c["strip"] else "+".join(c["strip"]) + ("-" + "+".join(c["preserve"]) if c["preserve"] else "")))
        out = res.get(c["id"])
        if out is None or out[0] != "ok":
            bad.append((c, "the transformation %s" % ("crashed" if out is None or out[0] == "crash" else "failed: " + out[2][:160])))
            continue
        try:
            root = ET.fromstring(out[1].decode("utf-8"))
        except Exception as ex:
            bad.append((c, "unparsable output: %s" % ex))
            continue
        ref = StripRef(c["root"], c["strip"], c["preserve"])
        sel = ref.select(c["e"], c["root"])
        S = ref.sv(sel[0]) if sel else ""
        if sel and any(is_ws(t.text) for n in sel[:1] for t in all_text(n)):
            ctx.count("strip:first-node-holds-whitespace-only-text")
        x = xpref.str_to_num(S)
        N = xpref.num_to_str(x)
        g = lambda tag: text_of(root.find(tag))
        want = {
            "AVT (string entry point)": (root.find("avt").get("a"), S),
            "three-part AVT": (root.find("avt").get("b"), "[" + S + "|" + S + "]"),
            "xsl:value-of (character events)": (g("vo"), S),
            "string(E) (generic, converted)": (g("gs"), S),
            "concat('[', E, ']') (generic argument)": (g("cc"), "[" + S + "]"),
            "number(E) (double entry point)": (g("num"), N),
            "number(string(E))": (g("gnum"), N),
            "E + 0 (numeric operand)": (g("plus"), xpref.num_to_str(x + 0.0) if x == x else "NaN"),
            "string-length(E) (character events, counted)": (g("len"), str(len(S.encode("utf-16-le")) // 2)),
            "string-length(string(E))": (g("glen"), str(len(S.encode("utf-16-le")) // 2)),
            "xsl:if (bool entry point)": (g("if") == "T", len(sel) > 0),
            "count(E) (node-list entry point)": (g("cnt"), str(len(sel))),
            "E = string(E)": (g("eq") == "T", any(ref.sv(n) == S for n in sel)),
        }
        for what, (got, exp) in want.items():
            if what in ("number(E) (double entry point)", "number(string(E))", "E + 0 (numeric operand)"):
                if got is not None and num_str_ok(got, x):
                    continue
            if got != exp:
                bad.append((c, "%s observes %r; the value of the expression (first node's string-value under strip-space %s preserve-space %s) gives %r" % (
                    what, got, c["strip"], c["preserve"], exp)))
        ser = lambda el: "".join(ET.tostring(x, encoding="unicode") for x in el) + (el.text or "")
        if ser(root.find("copy")) != ser(root.find("each")):
            bad.append((c, "xsl:copy-of select=E copies %r, xsl:for-each select=E + copy-of . copies %r" % (ser(root.find("copy"))[:120], ser(root.find("each"))[:120])))
        # sort keys: the text key is the string entry point, the number key the double entry point; the
        # same keys computed generally (string(K), number(string(K))) must sort the same way
        if g("st") != g("sg"):
            bad.append((c, "text sort key %s orders the items %r, sort key string(%s) orders them %r" % (c["k"], g("st"), c["k"], g("sg"))))
        if g("nt") != g("ng"):
            bad.append((c, "numeric sort key %s orders the items %r, sort key number(string(%s)) orders them %r" % (c["k"], g("nt"), c["k"], g("ng"))))
    return bad


def all_text(n):
    if n.kind == "t":
        return [n]
    return [t for c in n.children for t in all_text(c)]


# ------------------------------------------------------------------------------------------------
# corpus: regressions of repaired defects

def run_corpus(ctx, impl):
    cdir = os.path.join(core.VERIF, "corpus", "C11")
    bad = []
    for fn in sorted(os.listdir(cdir)) if os.path.isdir(cdir) else []:
        if not fn.endswith(".txt"):
            continue
        lines = open(os.path.join(cdir, fn)).read().split("\n")
        kind = None
        for i, l in enumerate(lines):
            if l.startswith("#expect-xslt ") and i + 1 < len(lines):
                want = bytes.fromhex(l.split()[1])
                case = lines[i + 1]
                exe, ok, log = xsltrun.build()
                rc, res, raw = core.run_lines(exe, case + "\n", sep="|")
                got = res.get(case.split("|")[0], "crash")
                ctx.cov["evaluations"] += 1
                ctx.count("corpus:" + fn)
                f = got.split("|")
                gotb = bytes.fromhex(f[1]) if f[0] == "ok" and len(f) > 1 else None
                if gotb != want:
                    bad.append("# corpus %s: output %r, expected %r\n%s" % (fn, gotb if gotb is not None else got[:100], want, case))
            elif l.startswith("#expect-xp ") and i + 1 < len(lines):
                want = l.split(None, 1)[1].strip()
                case = lines[i + 1]
                rc, res, raw = core.run_lines(impl, case + "\n", sep="|")
                got = res.get(case.split("|")[0], "crash")
                ctx.cov["evaluations"] += 1
                ctx.count("corpus:" + fn)
                if got != want:
                    bad.append("# corpus %s: library %s, expected %s\n%s" % (fn, got, want, case))
    if bad:
        ctx.violation("corpus", "# C11: stored replays of repaired defects fail again\n" + "\n".join(bad))


# ------------------------------------------------------------------------------------------------

def run(ctx):
    ctx.assumptions += [
        "the generic interpreter model XpDefs.eval against the library is property C02's correspondence; C11 proves the six-entry-point interpreter (dispatching through the regenerated switch tables) equal to conversions of XpDefs.eval and checks it against the library on all six entry points",
        "the bodies of the overloaded helpers (Union, literal, numberlit, group, locationPath, function*) are modelled by hand; the translator pins a digest of each body (calls with resolved signatures, operators, literals, control flow) and the proof fails when one changes",
        "node-set variables bound in a context are in document order without duplicates (vars_ordered); documents come from XalanSourceTree",
        "character events are observed as the concatenation of the characters() calls",
        "clang++ (AST dump) resolves overloads as g++ does for this translation unit",
    ]
    ctx.notes["rule"] = "distinct = distinct (top-level op-code class, type of the generic result, expression text); non-trivial = the expression compiled and the generic entry point delivered a value or an error to compare the five specialised entry points with"
    ok_lib, liblog = core.build_lib("plain")
    if not ok_lib:
        ctx.broken.append("library does not build from the working tree: " + liblog[-500:])
        return ctx.finish(LEVEL)
    proved = ctx.prove(["Properties_C11.v"], ["GenExec"])
    model, ok_m, mlog = core.build_model("exec")
    if not ok_m:
        ctx.broken.append("model extraction/build failed: " + mlog[-500:])
        model = None
    impl, ok_h, hlog = core.build_harness("xp", "plain")
    if not ok_h:
        ctx.broken.append("harness does not compile against the working tree: " + hlog[-500:])
        return ctx.finish(LEVEL)
    run_corpus(ctx, impl)
    n_docs, n_random = (30, 20) if not ctx.thorough else (1200, 80)
    cases = gen_cases(ctx, n_docs, n_random, 3)
    ctx.cov["samples"] = [c["str"] for c in cases[:12]]
    corr, orc = evaluate(ctx, cases, impl, model)
    try:
        sbad = run_sheet_cases(ctx, gen_sheet_cases(ctx, 8 if not ctx.thorough else 150, 14), impl)
    except RuntimeError as ex:
        ctx.broken.append("stylesheet driver: %s" % ex)
        sbad = []
    wbad = run_strip_cases(ctx, gen_strip_cases(ctx, 12 if not ctx.thorough else 150, 8))
    if (corr or not proved or not model) and not orc and not sbad and not wbad and not ctx.thorough:
        ctx.escalated = True
        c2, o2 = evaluate(ctx, gen_cases(ctx, 150, 40, 4, prefix="y"), impl, model)
        corr += c2
        orc += o2
        if not orc:
            sbad += run_sheet_cases(ctx, gen_sheet_cases(ctx, 40, 20), impl)
            wbad += run_strip_cases(ctx, gen_strip_cases(ctx, 80, 10))
    if corr:
        ctx.broken.append("correspondence exec: %d of %d cases differ between the six-entry-point model and the library, e.g. %s" % (
            len(corr), ctx.cov["traces_validated_against_impl"], {k: corr[0][k] for k in ("expr", "impl", "model")}))
        ctx.notes["correspondence_mismatches"] = [{k: c[k] for k in ("expr", "impl", "model")} for c in corr[:20]]
    if orc:
        orc.sort(key=lambda o: len(o["case"]))
        txt = "\n".join("# %s\n%s" % (o["what"], o["case"]) for o in orc[:40])
        ctx.violation("oracle", "# C11 oracle failures: a specialised entry point of XPath::execute does not deliver the XPath conversion of the generic result\n"
                                "# replay: python3 check.py C11 --replay <this file>   (or feed a case line to .build/xp_plain: G = generic, B/N/S/F/L = specialised)\n" + txt)
    if sbad:
        txt = "\n".join("# %s: %s\n#   stylesheet-level replay: expression %r over source %s\n%s" % (
            c["str"], what, c["str"], c["source"][:300].replace("\n", "\\n"), "\n".join(c["lines"][:1])) for c, what in sbad[:20])
        ctx.violation("stylesheet", "# C11: a stylesheet construct observes a value that is not the conversion of the expression's generic value\n" + txt)
    if wbad:
        txt = "\n".join("# %s (sort key %s): %s\n#   source: %s\n#   stylesheet: %s" % (
            c["e"], c["k"], what, c["source"].replace("\n", "\\n").replace("\t", "\\t"), c["sheet"].replace("\n", " ")) for c, what in wbad[:20])
        ctx.violation("stripspace", "# C11: under xsl:strip-space one location path is observed with different values through different entry points\n"
                                    "# replay: run the stylesheet over the source (vlib/xsltrun.py) and compare the named elements of the output\n" + txt)
    # the helper-bodies half (built as its own part: props/C11_helpers.py)
    try:
        hpart = __import__("importlib").import_module("props.C11_helpers")
    except ImportError:
        hpart = None
    if hpart is not None:
        hpart.run_part(ctx)
    # values must not depend on what was evaluated before (cached node-set XObjects): props/C11_seq.py
    try:
        __import__("importlib").import_module("props.C11_seq").run_part(ctx)
    except RuntimeError as ex:
        ctx.broken.append("sequence part: %s" % ex)
    # proof + tie for that mechanism (the caches of the XObjects the factory recycles): props/C11_cache.py
    __import__("importlib").import_module("props.C11_cache").run_part(ctx)
    ctx.notes["stripspace_failures"] = len(wbad)
    ctx.notes["oracle_failures"] = len(orc)
    ctx.notes["stylesheet_failures"] = len(sbad)
    return ctx.finish(LEVEL, explanation="table theorems over the regenerated switch tables + induction over the six mutually recursive entry points against the generic interpreter model + correspondence of the extracted model with the six XPath::execute overloads + conversion oracle on the library's own results, also at stylesheet level")


def replay(ctx, path):
    if any(l.startswith("#SEQ ") for l in open(path)):
        return __import__("importlib").import_module("props.C11_seq").replay(ctx, path)
    if any(l.startswith("#XOCACHE ") for l in open(path)):
        return __import__("importlib").import_module("props.C11_cache").replay(ctx, path)
    core.build_lib("plain")
    impl, ok_h, hlog = core.build_harness("xp", "plain")
    lines = [l.rstrip("\n") for l in open(path) if l.strip() and not l.startswith("#")]
    rc, res, raw = core.run_lines(impl, "\n".join(lines) + "\n", sep="|")
    failed = 0
    for l in lines:
        fs = l.split("|")
        if len(fs) < 7:
            continue
        ri = res.get(fs[0])
        nodes = xpgen.build_nodes(tree_of_tokens(fs[2][2:]))
        c = {"str": u16_to_str(fs[6][2:]), "nodes": nodes}
        print("%s  %s" % (fs[0], c["str"]))
        print("   library: %s" % ri)
        if ri is None:
            failed += 1
            continue
        bad = check_line(c, ri, xpref.Ref(nodes))
        for name, what, fc in bad or []:
            print("   FAIL %s%s" % (what, " [class %s]" % fc if fc else ""))
            if not fc:
                failed += 1
    print("%d failing case(s)" % failed)
    return 1 if failed else 0
