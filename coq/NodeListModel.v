(* C12 - proofs about MutableNodeRefList: binary search, linear search, ordered insertion refines the
   specification [sinsert] on a single document, every history, union = sort_dedup, union laws. *)
From Coq Require Import List Arith Bool Lia ZArith ZifyBool ZifyNat.
Import ListNotations.
Require Import XV.GenNodelist XV.NodeListDefs XV.DocOrderModel.

Ltac Zify.zify_post_hook ::= Z.to_euclidean_division_equations.

(* ================= binary search ================= *)

Section BinarySearch.
  Variable get : nat -> nat.
  Variable n : nat.
  Variable x : nat.
  Hypothesis get_sorted : forall i j, i < j -> j < n -> get i < get j.

  Definition lowOK (first : nat) : Prop := forall k, k < first -> get k < x.
  Definition highOK (last : nat) : Prop := forall k, last < k -> k < n -> x < get k.
  Definition fromOK (ip : nat) : Prop := forall k, ip <= k -> k < n -> x < get k.

  Definition final_ip (first current cur : nat) : nat :=
    if (current =? n) || (first =? n) then n else if cur <? x then current + 1 else current.

  Definition bs_post (r : nat * nat * nat * bool) : Prop :=
    let '(first, current, cur, ins) := r in
    if ins then cur <> x /\ final_ip first current cur <= n /\ lowOK (final_ip first current cur)
                /\ fromOK (final_ip first current cur)
    else current < n /\ get current = x /\ cur = x.

  Definition exit_rel (first last current cur : nat) : Prop :=
    first <= last \/
    (current < n /\ cur = get current /\ ((x < cur /\ current = first) \/ (cur < x /\ first = current + 1))).

  Lemma get_mono : forall i j, i <= j -> j < n -> get i <= get j.
  Proof.
    intros i j Hij Hj. destruct (Nat.eq_dec i j) as [->|D]; [lia|].
    pose proof (get_sorted i j ltac:(lia) Hj). lia.
  Qed.

  Lemma bs_loop_spec : forall fuel first last current cur,
    lowOK first -> highOK last -> last < n -> first <= last + 1 -> last + 1 - first < fuel ->
    exit_rel first last current cur ->
    exists r, bs_loop fuel get x first last current cur = Some r /\ bs_post r.
  Proof.
    induction fuel as [|fuel IH]; intros first last current cur Hlo Hhi Hln Hfl Hm Hex; [lia|].
    cbn [bs_loop]. destruct (first <=? last) eqn:Efl.
    - apply Nat.leb_le in Efl.
      set (m := first + (last - first) / 2).
      assert (Hm1 : first <= m) by (unfold m; lia).
      assert (Hm2 : m <= last) by (unfold m; lia).
      destruct (x <? get m) eqn:E1.
      + apply Nat.ltb_lt in E1. destruct (m =? 0) eqn:E0.
        * apply Nat.eqb_eq in E0. eexists; split; [reflexivity|]. unfold bs_post, final_ip.
          assert (first = 0) by lia. subst first.
          replace ((m =? n) || (0 =? n)) with false
            by (symmetry; apply orb_false_iff; split; apply Nat.eqb_neq; lia).
          replace (get m <? x) with false by (symmetry; apply Nat.ltb_ge; lia).
          rewrite E0 in *. repeat split; try lia.
          -- intros k Hk; lia.
          -- intros k Hk1 Hk2. pose proof (get_mono 0 k ltac:(lia) Hk2). lia.
        * apply Nat.eqb_neq in E0. apply IH; try lia.
          -- assumption.
          -- intros k Hk1 Hk2. pose proof (get_mono m k ltac:(lia) Hk2). lia.
          -- unfold exit_rel. destruct (Nat.le_gt_cases first (m - 1)); [left; assumption|].
             right. repeat split; lia.
      + apply Nat.ltb_ge in E1. destruct (get m <? x) eqn:E2.
        * apply Nat.ltb_lt in E2. apply IH; try lia.
          -- intros k Hk. pose proof (get_mono k m ltac:(lia) ltac:(lia)). lia.
          -- assumption.
          -- unfold exit_rel. destruct (Nat.le_gt_cases (m + 1) last); [left; assumption|].
             right. repeat split; lia.
        * apply Nat.ltb_ge in E2. eexists; split; [reflexivity|]. unfold bs_post. repeat split; lia.
    - apply Nat.leb_gt in Efl. eexists; split; [reflexivity|]. unfold bs_post.
      destruct Hex as [Hex|(Hc & Hcur & Hcase)]; [lia|]. subst cur.
      destruct Hcase as [[Hx Hcf]|[Hx Hcf]].
      + subst first. unfold final_ip.
        replace ((current =? n) || (current =? n)) with false
          by (symmetry; apply orb_false_iff; split; apply Nat.eqb_neq; lia).
        replace (get current <? x) with false by (symmetry; apply Nat.ltb_ge; lia).
        repeat split; try lia; try assumption.
        intros k Hk1 Hk2. apply Hhi; lia.
      + subst first. unfold final_ip.
        replace (current =? n) with false by (symmetry; apply Nat.eqb_neq; lia). simpl orb.
        destruct (current + 1 =? n) eqn:En.
        * apply Nat.eqb_eq in En. repeat split; try lia.
          -- rewrite <- En. assumption.
          -- intros k Hk1 Hk2. lia.
        * apply Nat.eqb_neq in En.
          replace (get current <? x) with true by (symmetry; apply Nat.ltb_lt; lia).
          repeat split; try lia; try assumption.
          intros k Hk1 Hk2. apply Hhi; lia.
  Qed.

  (* findInsertionPointBinarySearch on a strictly sorted non-empty range: never out of fuel; either the
     index is in the range (duplicate), or the insertion point splits the range around the index *)
  Lemma binarySearch_spec : 1 <= n ->
    exists ins ip, binarySearch get n x = Some (ins, ip) /\
      (if ins then ip <= n /\ lowOK ip /\ fromOK ip else exists k, k < n /\ get k = x).
  Proof.
    intro Hn. unfold binarySearch. destruct (get (n - 1) <? x) eqn:E.
    - apply Nat.ltb_lt in E. exists true, n. split; [reflexivity|]. repeat split; try lia.
      + intros k Hk. pose proof (get_mono k (n - 1) ltac:(lia) ltac:(lia)). lia.
      + intros k Hk1 Hk2. lia.
    - destruct (bs_loop_spec (S n) 0 (n - 1) n 0) as (r & Hr & Hp); try lia.
      + intros k Hk; lia.
      + intros k Hk1 Hk2; lia.
      + left; lia.
      + rewrite Hr. destruct r as [[[first current] cur] ins]. unfold bs_post in Hp.
        destruct ins.
        * destruct Hp as (Hne & Hle & Hlo & Hfrom).
          replace (x =? cur) with false by (symmetry; apply Nat.eqb_neq; lia). simpl negb. cbv iota.
          unfold final_ip in *.
          destruct ((current =? n) || (first =? n)).
          -- exists true, n. split; [reflexivity|]. repeat split; assumption.
          -- destruct (cur <? x).
             ++ exists true, (current + 1). split; [reflexivity|]. repeat split; assumption.
             ++ exists true, current. split; [reflexivity|]. repeat split; assumption.
        * destruct Hp as (Hc & Hg & Hcur). subst cur.
          rewrite Nat.eqb_refl. simpl negb. cbv iota.
          exists false, 0. split; [reflexivity|]. exists current. split; assumption.
  Qed.
End BinarySearch.

(* ================= strictly sorted lists ================= *)

Lemma strictly_sorted_cons : forall a r,
  strictly_sorted (a :: r) = true <-> Forall (fun b => a < b) r /\ strictly_sorted r = true.
Proof.
  intros a r. revert a. induction r as [|b r IH]; intro a.
  - simpl. split; [intros _; split; [constructor|reflexivity] | reflexivity].
  - change (strictly_sorted (a :: b :: r)) with ((a <? b) && strictly_sorted (b :: r)).
    rewrite andb_true_iff, Nat.ltb_lt. split.
    + intros [Hab Hs]. split; [|assumption]. constructor; [assumption|].
      apply IH in Hs. destruct Hs as [Hf _]. eapply Forall_impl; [|exact Hf]. simpl. intros; lia.
    + intros [Hf Hs]. inversion Hf; subst. split; assumption.
Qed.

Section Lists.
  Variable W : world.
  Variable d : nat.

  Definition indoc (n : lnode) : Prop := in_doc W d n = true.

  Lemma lnode_eqb_eq : forall a b : lnode, lnode_eqb a b = true <-> a = b.
  Proof.
    intros [da na] [db nb]. unfold lnode_eqb. simpl. rewrite andb_true_iff, Nat.eqb_eq, rnode_eqb_eq.
    split; [intros [-> ->]; reflexivity | intro H; inversion H; split; reflexivity].
  Qed.

  Lemma key_inj : forall a b, indoc a -> indoc b -> key W a = key W b -> a = b.
  Proof.
    intros [da na] [db nb] Ha Hb E. unfold indoc, in_doc, key in *. simpl in *.
    apply andb_true_iff in Ha. apply andb_true_iff in Hb. destruct Ha as [Ha1 Ha2], Hb as [Hb1 Hb2].
    apply Nat.eqb_eq in Ha1. apply Nat.eqb_eq in Hb1. subst.
    f_equal. eapply index_injective; eassumption.
  Qed.

  Lemma sorted_cons : forall c r,
    sorted W (c :: r) = true <-> (forall m, In m r -> key W c < key W m) /\ sorted W r = true.
  Proof.
    intros c r. unfold sorted. simpl map. rewrite strictly_sorted_cons, Forall_forall. split.
    - intros [Hf Hs]. split; [|assumption]. intros m Hm. apply Hf. apply in_map. assumption.
    - intros [Hf Hs]. split; [|assumption]. intros k Hk. apply in_map_iff in Hk.
      destruct Hk as (m & <- & Hm). apply Hf. assumption.
  Qed.

  Lemma sorted_nth : forall l i j, sorted W l = true -> i < j -> j < length l ->
    key W (nth i l dummy) < key W (nth j l dummy).
  Proof.
    induction l as [|c r IH]; intros i j Hs Hij Hj; simpl in Hj; [lia|].
    apply sorted_cons in Hs. destruct Hs as [Hf Hs].
    destruct j as [|j]; [lia|]. destruct i as [|i]; simpl.
    - apply Hf. apply nth_In. lia.
    - apply IH; try assumption; lia.
  Qed.

  (* ---- sinsert ---- *)

  Lemma sinsert_in : forall n l, indoc n -> Forall indoc l ->
    forall m, In m (sinsert W n l) <-> m = n \/ In m l.
  Proof.
    intros n l Hn. induction l as [|c r IH]; intros Hl m; simpl.
    - intuition.
    - inversion Hl; subst. destruct (key W n <? key W c) eqn:E1; simpl; [intuition|].
      destruct (key W n =? key W c) eqn:E2; simpl.
      + apply Nat.eqb_eq in E2. pose proof (key_inj n c Hn H1 E2). subst. intuition.
      + rewrite IH by assumption. intuition.
  Qed.

  Lemma sinsert_indoc : forall n l, indoc n -> Forall indoc l -> Forall indoc (sinsert W n l).
  Proof.
    intros n l Hn Hl. apply Forall_forall. intros m Hm. apply sinsert_in in Hm; try assumption.
    destruct Hm as [->|Hm]; [assumption|]. rewrite Forall_forall in Hl. apply Hl. assumption.
  Qed.

  Lemma sinsert_sorted : forall n l, indoc n -> Forall indoc l ->
    sorted W l = true -> sorted W (sinsert W n l) = true.
  Proof.
    intros n l Hn. induction l as [|c r IH]; intros Hl Hs; simpl; [reflexivity|].
    inversion Hl; subst.
    destruct (key W n <? key W c) eqn:E1.
    - apply Nat.ltb_lt in E1. apply sorted_cons. split; [|assumption].
      intros m [<-|Hm]; [assumption|]. apply sorted_cons in Hs. destruct Hs as [Hf _].
      specialize (Hf m Hm). lia.
    - apply Nat.ltb_ge in E1. destruct (key W n =? key W c) eqn:E2; [assumption|].
      apply Nat.eqb_neq in E2. pose proof Hs as Hs'. apply sorted_cons in Hs'. destruct Hs' as [Hf Hs'].
      apply sorted_cons. split; [|apply IH; assumption].
      intros m Hm. apply sinsert_in in Hm; try assumption. destruct Hm as [->|Hm]; [lia|]. apply Hf. assumption.
  Qed.

  Lemma sinsert_dup : forall n l, sorted W l = true -> In n l -> sinsert W n l = l.
  Proof.
    intros n l. induction l as [|c r IH]; intros Hs Hin; [contradiction|].
    apply sorted_cons in Hs. destruct Hs as [Hf Hs]. simpl. destruct Hin as [->|Hin].
    - rewrite Nat.ltb_irrefl, Nat.eqb_refl. reflexivity.
    - specialize (Hf n Hin).
      replace (key W n <? key W c) with false by (symmetry; apply Nat.ltb_ge; lia).
      replace (key W n =? key W c) with false by (symmetry; apply Nat.eqb_neq; lia).
      f_equal. apply IH; assumption.
  Qed.

  Lemma sinsert_at : forall n l ip, sorted W l = true -> ip <= length l ->
    (forall k, k < ip -> key W (nth k l dummy) < key W n) ->
    (forall k, ip <= k -> k < length l -> key W n < key W (nth k l dummy)) ->
    insert_at ip n l = sinsert W n l.
  Proof.
    intros n l. induction l as [|c r IH]; intros ip Hs Hip Hlo Hhi.
    - simpl in Hip. assert (ip = 0) by lia. subst. reflexivity.
    - destruct ip as [|ip].
      + unfold insert_at. simpl. specialize (Hhi 0 ltac:(lia) ltac:(simpl; lia)). simpl in Hhi.
        replace (key W n <? key W c) with true by (symmetry; apply Nat.ltb_lt; lia). reflexivity.
      + unfold insert_at. simpl. pose proof (Hlo 0 ltac:(lia)) as H0. simpl in H0.
        replace (key W n <? key W c) with false by (symmetry; apply Nat.ltb_ge; lia).
        replace (key W n =? key W c) with false by (symmetry; apply Nat.eqb_neq; lia).
        f_equal. apply sorted_cons in Hs. destruct Hs as [_ Hs]. apply IH; try assumption.
        * simpl in Hip; lia.
        * intros k Hk. apply (Hlo (S k)). lia.
        * intros k Hk1 Hk2. apply (Hhi (S k)); simpl; lia.
  Qed.

  (* ---- linear search ---- *)

  Lemma indoc_same_document : forall n c, indoc n -> indoc c -> documentPredicate n c = false.
  Proof.
    intros n c Hn Hc. unfold indoc, in_doc in *. apply andb_true_iff in Hn. apply andb_true_iff in Hc.
    destruct Hn as [Hn _], Hc as [Hc _]. apply Nat.eqb_eq in Hn. apply Nat.eqb_eq in Hc.
    unfold documentPredicate. rewrite Hn, Hc, Nat.eqb_refl. reflexivity.
  Qed.

  (* both variants of the loop (with and without the "keep documents together" flag) *)
  Lemma linearSearch_spec : forall grp pred n l pos seen, indoc n -> Forall indoc l -> sorted W l = true ->
    (forall c, In c l -> c <> n -> pred n c = (key W c <? key W n)) ->
    let '(ins, ip) := linearSearch grp pred l n pos seen in
    pos <= ip /\ (if ins then insert_at (ip - pos) n l else l) = sinsert W n l.
  Proof.
    intros grp pred n l. induction l as [|c r IH]; intros pos seen Hn Hl Hs Hp.
    - simpl. split; [lia|]. rewrite Nat.sub_diag. reflexivity.
    - inversion Hl; subst. cbn [linearSearch]. destruct (lnode_eqb c n) eqn:E.
      + apply lnode_eqb_eq in E; subst c. split; [lia|]. simpl.
        rewrite Nat.ltb_irrefl, Nat.eqb_refl. reflexivity.
      + assert (Hcn : c <> n) by (intro; subst; rewrite (proj2 (lnode_eqb_eq n n) eq_refl) in E; discriminate).
        rewrite (indoc_same_document n c Hn H1), andb_false_r.
        rewrite (Hp c (or_introl eq_refl) Hcn).
        assert (Hk : key W c <> key W n) by (intro K; apply Hcn; apply key_inj; assumption).
        destruct (key W c <? key W n) eqn:E1; simpl negb; cbv iota.
        * apply Nat.ltb_lt in E1. apply sorted_cons in Hs. destruct Hs as [_ Hs].
          specialize (IH (S pos) (grp || seen) Hn H2 Hs ltac:(intros; apply Hp; [right|]; assumption)).
          destruct (linearSearch grp pred r n (S pos) (grp || seen)) as [ins ip]. destruct IH as [Hle Heq].
          split; [lia|]. simpl.
          replace (key W n <? key W c) with false by (symmetry; apply Nat.ltb_ge; lia).
          replace (key W n =? key W c) with false by (symmetry; apply Nat.eqb_neq; lia).
          rewrite <- Heq. destruct ins; [|reflexivity].
          replace (ip - pos) with (S (ip - S pos)) by lia. reflexivity.
        * apply Nat.ltb_ge in E1. split; [lia|]. rewrite Nat.sub_diag. simpl.
          replace (key W n <? key W c) with true by (symmetry; apply Nat.ltb_lt; lia). reflexivity.
  Qed.

  (* ---- the insertion routine refines sinsert ---- *)

  Lemma index_nonroot_pos : forall t n, n <> [] -> 1 <= index t n.
  Proof.
    intros t n Hn. unfold index. destruct (rev n) as [|s p] eqn:R.
    - exfalso. apply Hn. rewrite <- (rev_involutive n), R. reflexivity.
    - destruct t as [na ks]. destruct s; simpl; lia.
  Qed.

  Lemma ecpred_spec : windexed W d = false -> forall n c, indoc n -> indoc c -> c <> n ->
    executionContextPredicate W n c = (key W c <? key W n).
  Proof.
    intros Hni [dn n] [dc c] Hn Hc Hne. unfold indoc, in_doc in *. simpl in *.
    apply andb_true_iff in Hn. apply andb_true_iff in Hc. destruct Hn as [Hn1 Hn2], Hc as [Hc1 Hc2].
    apply Nat.eqb_eq in Hn1. apply Nat.eqb_eq in Hc1. subst dn dc.
    unfold executionContextPredicate, documentPredicate, is_doc, key. simpl.
    rewrite Nat.eqb_refl. simpl negb. cbv iota.
    destruct n as [|sn n].
    - symmetry. apply Nat.ltb_ge. change (index (wtree W d) []) with 0. lia.
    - destruct c as [|sc c].
      + symmetry. apply Nat.ltb_lt. change (index (wtree W d) []) with 0.
        pose proof (index_nonroot_pos (wtree W d) (sn :: n) ltac:(discriminate)). lia.
      + unfold isNodeAfter, isIndexed. simpl. rewrite Hni.
        apply struct_order_eq_index_order_lemma; try assumption. left. discriminate.
  Qed.

  Lemma last_in : forall (l : list lnode) c, In (last (c :: l) dummy) (c :: l).
  Proof.
    induction l as [|b l IH]; intro c; [left; reflexivity|].
    right. change (last (c :: b :: l) dummy) with (last (b :: l) dummy). apply IH.
  Qed.

  Theorem add_refines_v : forall grp l n, Forall indoc l -> indoc n -> sorted W l = true ->
    addNodeInDocOrder_v grp W l n = Some (sinsert W n l).
  Proof.
    intros grp l n Hl Hn Hs. destruct l as [|f l']; [reflexivity|].
    unfold addNodeInDocOrder_v. cbv beta iota. set (l := f :: l') in *.
    assert (HlastIn : In (last l dummy) l) by apply last_in.
    destruct (lnode_eqb (last l dummy) n) eqn:Elast.
    - apply lnode_eqb_eq in Elast. f_equal. symmetry. apply sinsert_dup; [assumption | rewrite <- Elast; assumption].
    - assert (Hf : indoc f) by (inversion Hl; assumption).
      assert (Hlast : indoc (last l dummy)) by (rewrite Forall_forall in Hl; apply Hl; assumption).
      assert (Fn : fst n = d) by (unfold indoc, in_doc in Hn; apply andb_true_iff in Hn; destruct Hn as [H _]; apply Nat.eqb_eq in H; exact H).
      assert (Ff : fst f = d) by (unfold indoc, in_doc in Hf; apply andb_true_iff in Hf; destruct Hf as [H _]; apply Nat.eqb_eq in H; exact H).
      assert (Fl : fst (last l dummy) = d) by (unfold indoc, in_doc in Hlast; apply andb_true_iff in Hlast; destruct Hlast as [H _]; apply Nat.eqb_eq in H; exact H).
      cbv zeta. rewrite Fn, Ff, Fl, !Nat.eqb_refl. unfold isIndexed. rewrite Fn.
      destruct (windexed W d) eqn:Ei; simpl andb; cbv iota.
      + assert (GI : forall m, indoc m -> getIndex W m = S (key W m)).
        { intros m Hm. unfold getIndex, isIndexed. unfold indoc, in_doc in Hm. apply andb_true_iff in Hm.
          destruct Hm as [Hm _]. apply Nat.eqb_eq in Hm. rewrite Hm, Ei. reflexivity. }
        assert (GK : forall k, k < length l -> getIndex W (nth k l dummy) = S (key W (nth k l dummy))).
        { intros k Hk. apply GI. rewrite Forall_forall in Hl. apply Hl. apply nth_In. assumption. }
        destruct (binarySearch_spec (fun k => getIndex W (nth k l dummy)) (length l) (getIndex W n)) as (ins & ip & Hb & Hspec).
        * intros i j Hij Hj. rewrite !GK by lia. pose proof (sorted_nth l i j Hs Hij Hj). lia.
        * unfold l; simpl; lia.
        * rewrite Hb. f_equal. destruct ins.
          -- destruct Hspec as (Hip & Hlo & Hfrom). apply sinsert_at; try assumption.
             ++ intros k Hk. specialize (Hlo k Hk). cbv beta in Hlo. rewrite GK, GI in Hlo by (assumption || lia). lia.
             ++ intros k Hk1 Hk2. specialize (Hfrom k Hk1 Hk2). cbv beta in Hfrom. rewrite GK, GI in Hfrom by (assumption || lia). lia.
          -- destruct Hspec as (k & Hk & Hg). rewrite GK, GI in Hg by assumption. symmetry. apply sinsert_dup; [assumption|].
             assert (Hin : In (nth k l dummy) l) by (apply nth_In; assumption).
             replace n with (nth k l dummy); [assumption|].
             apply key_inj; try assumption; [|lia]. rewrite Forall_forall in Hl. apply Hl. assumption.
      + pose proof (linearSearch_spec grp (executionContextPredicate W) n l 0 false Hn Hl Hs) as Hlin.
        destruct (linearSearch grp (executionContextPredicate W) l n 0 false) as [ins ip].
        destruct Hlin as [_ Heq].
        * intros c Hc Hcn. apply ecpred_spec; try assumption. rewrite Forall_forall in Hl. apply Hl. assumption.
        * f_equal. rewrite Nat.sub_0_r in Heq. exact Heq.
  Qed.

  Theorem add_refines : forall l n, Forall indoc l -> indoc n -> sorted W l = true ->
    addNodeInDocOrder W l n = Some (sinsert W n l).
  Proof. intros. unfold addNodeInDocOrder. apply add_refines_v; assumption. Qed.

  (* ---- histories ---- *)

  Definition sfold (ns l : list lnode) : list lnode := fold_left (fun acc n => sinsert W n acc) ns l.

  Lemma sfold_props : forall ns l, Forall indoc ns -> Forall indoc l -> sorted W l = true ->
    sorted W (sfold ns l) = true /\ Forall indoc (sfold ns l) /\
    (forall m, In m (sfold ns l) <-> In m l \/ In m ns).
  Proof.
    induction ns as [|n ns IH]; intros l Hns Hl Hs; simpl.
    - split; [assumption | split; [assumption|]]. intro m. intuition.
    - inversion Hns; subst.
      destruct (IH (sinsert W n l) H2 (sinsert_indoc n l H1 Hl) (sinsert_sorted n l H1 Hl Hs)) as (A & B & C).
      split; [assumption | split; [assumption|]]. intro m. rewrite C, sinsert_in by assumption. intuition.
  Qed.

  Theorem add_history : forall ns l, Forall indoc ns -> Forall indoc l -> sorted W l = true ->
    fold_left (add_step W) ns (Some l) = Some (sfold ns l).
  Proof.
    induction ns as [|n ns IH]; intros l Hns Hl Hs; simpl; [reflexivity|].
    inversion Hns; subst. rewrite add_refines by assumption.
    apply IH; [assumption | apply sinsert_indoc; assumption | apply sinsert_sorted; assumption].
  Qed.

  Lemma sorted_unique : forall l1 l2, sorted W l1 = true -> sorted W l2 = true ->
    (forall m, In m l1 <-> In m l2) -> l1 = l2.
  Proof.
    induction l1 as [|a r1 IH]; intros [|b r2] H1 H2 Hin.
    - reflexivity.
    - exfalso. apply (proj2 (Hin b)). left; reflexivity.
    - exfalso. apply (proj1 (Hin a)). left; reflexivity.
    - apply sorted_cons in H1. apply sorted_cons in H2. destruct H1 as [F1 S1], H2 as [F2 S2].
      assert (a = b).
      { destruct (proj1 (Hin a) (or_introl eq_refl)) as [E|Ha]; [congruence|].
        destruct (proj2 (Hin b) (or_introl eq_refl)) as [E|Hb]; [congruence|].
        specialize (F1 b Hb). specialize (F2 a Ha). lia. }
      subst b. f_equal. apply IH; try assumption. intro m. split; intro Hm.
      + destruct (proj1 (Hin m) (or_intror Hm)) as [E|R]; [|assumption]. subst m. specialize (F1 a Hm). lia.
      + destruct (proj2 (Hin m) (or_intror Hm)) as [E|R]; [|assumption]. subst m. specialize (F2 a Hm). lia.
  Qed.

  Lemma sort_dedup_props : forall l, Forall indoc l ->
    sorted W (sort_dedup W l) = true /\ Forall indoc (sort_dedup W l) /\
    (forall m, In m (sort_dedup W l) <-> In m l).
  Proof.
    intros l Hl. destruct (sfold_props l [] Hl (Forall_nil _) eq_refl) as (A & B & C).
    split; [assumption | split; [assumption|]]. intro m. rewrite C. simpl. intuition.
  Qed.

  Lemma sort_dedup_ext : forall l1 l2, Forall indoc l1 -> Forall indoc l2 ->
    (forall m, In m l1 <-> In m l2) -> sort_dedup W l1 = sort_dedup W l2.
  Proof.
    intros l1 l2 H1 H2 Hin. destruct (sort_dedup_props l1 H1) as (A1 & _ & C1).
    destruct (sort_dedup_props l2 H2) as (A2 & _ & C2).
    apply sorted_unique; try assumption. intro m. rewrite C1, C2. apply Hin.
  Qed.

  Lemma sort_dedup_sorted : forall l, Forall indoc l -> sorted W l = true -> sort_dedup W l = l.
  Proof.
    intros l Hl Hs. destruct (sort_dedup_props l Hl) as (A & _ & C). apply sorted_unique; assumption.
  Qed.

  Lemma sfold_sort_dedup : forall ns l, Forall indoc ns -> Forall indoc l -> sorted W l = true ->
    sfold ns l = sort_dedup W (l ++ ns).
  Proof.
    intros ns l Hns Hl Hs. destruct (sfold_props ns l Hns Hl Hs) as (A & _ & C).
    assert (Hall : Forall indoc (l ++ ns)) by (apply Forall_app; split; assumption).
    destruct (sort_dedup_props (l ++ ns) Hall) as (A2 & _ & C2).
    apply sorted_unique; try assumption. intro m. rewrite C, C2, in_app_iff. reflexivity.
  Qed.

  (* ---- bulk merge and union ---- *)

  Definition nl_indoc (l : nlist) : Prop := Forall indoc (items l).

  Lemma Forall_rev_indoc : forall l, Forall indoc l -> Forall indoc (rev l).
  Proof. intros l H. apply Forall_forall. intros m Hm. apply in_rev in Hm. rewrite Forall_forall in H. auto. Qed.

  Theorem addNodesInDocOrder_spec : forall dst src,
    nl_indoc dst -> nl_indoc src -> sorted W (items dst) = true -> honest W src = true ->
    addNodesInDocOrder W dst src = Some (NL (sort_dedup W (items dst ++ items src)) (ord dst)).
  Proof.
    intros [dl dord] [sl sord] Hd Hsrc Hs Hh. unfold nl_indoc, honest in *. simpl in *.
    unfold addNodesInDocOrder. simpl.
    assert (Hrev : sort_dedup W (dl ++ rev sl) = sort_dedup W (dl ++ sl)).
    { apply sort_dedup_ext.
      - apply Forall_app; split; [assumption | apply Forall_rev_indoc; assumption].
      - apply Forall_app; split; assumption.
      - intro m. rewrite !in_app_iff, <- in_rev. reflexivity. }
    destruct sord.
    - rewrite add_history by assumption. rewrite sfold_sort_dedup by assumption. reflexivity.
    - destruct dl as [|c dl'].
      + simpl. rewrite sort_dedup_sorted by assumption. reflexivity.
      + rewrite add_history by assumption. rewrite sfold_sort_dedup by assumption. reflexivity.
    - destruct dl as [|c dl'].
      + simpl in *. rewrite <- Hrev. rewrite sort_dedup_sorted; [reflexivity | apply Forall_rev_indoc; assumption | assumption].
      + rewrite add_history; [|apply Forall_rev_indoc; assumption|assumption|assumption].
        rewrite sfold_sort_dedup; [|apply Forall_rev_indoc; assumption|assumption|assumption].
        rewrite Hrev. reflexivity.
  Qed.

  Lemma union_fold_spec : forall ops acc o,
    Forall nl_indoc ops -> Forall (fun x => honest W x = true) ops ->
    Forall indoc acc -> sorted W acc = true ->
    fold_left (fun a x => match a with None => None | Some r => addNodesInDocOrder W r x end)
              ops (Some (NL acc o))
    = Some (NL (sort_dedup W (acc ++ concat (map items ops))) o).
  Proof.
    induction ops as [|x ops IH]; intros acc o Hi Hh Ha Hs; simpl.
    - rewrite app_nil_r. rewrite sort_dedup_sorted by assumption. reflexivity.
    - inversion Hi; subst. inversion Hh; subst.
      rewrite addNodesInDocOrder_spec; try assumption. simpl ord.
      assert (Hall : Forall indoc (acc ++ items x)) by (apply Forall_app; split; assumption).
      destruct (sort_dedup_props (acc ++ items x) Hall) as (A & B & C).
      rewrite IH; try assumption. f_equal. f_equal.
      assert (Hc : Forall indoc (concat (map items ops))).
      { apply Forall_forall. intros m Hm. apply in_concat in Hm. destruct Hm as (l & Hl & Hm).
        apply in_map_iff in Hl. destruct Hl as (y & <- & Hy). rewrite Forall_forall in H2.
        specialize (H2 y Hy). unfold nl_indoc in H2. rewrite Forall_forall in H2. auto. }
      apply sort_dedup_ext.
      + apply Forall_app; split; assumption.
      + apply Forall_app; split; [assumption|]. apply Forall_app; split; assumption.
      + intro m. rewrite !in_app_iff, C, in_app_iff. intuition.
  Qed.

  Theorem union_spec : forall ops,
    Forall nl_indoc ops -> Forall (fun x => honest W x = true) ops ->
    union_code W ops = Some (NL (sort_dedup W (concat (map items ops))) DocOrder).
  Proof.
    intros ops Hi Hh. unfold union_code.
    rewrite (union_fold_spec ops [] Unknown Hi Hh (Forall_nil _) eq_refl). reflexivity.
  Qed.
End Lists.
