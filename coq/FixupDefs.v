(* C04, instruction-level guards: the text of an xsl:comment / xsl:processing-instruction is made
   representable BEFORE it reaches the serializer (which writes comment and PI data verbatim, see
   SerEscDefs.write_comment and SerDocDefs.comment_ok / pi_ok).
     ElemComment::endElement (src/xalanc/XSLT/ElemComment.cpp, the loop after endChildrenToString):
        a space is inserted after a '-' that is followed by another '-' or that ends the data;
        the scan continues AT the character after the inserted space (the second '-');
     ElemPI::endElement (src/xalanc/XSLT/ElemPI.cpp): a space is inserted between '?' and '>';
        the scan continues after the '>'.
   Both loops work in place on a XalanDOMString with iterators; here they are structural recursions
   over the list of UTF-16 units.  Definitions only. *)
From Coq Require Import NArith List Bool.
Import ListNotations.
Local Open Scope N_scope.

Definition hyphen : N := 45.
Definition space : N := 32.
Definition qmark : N := 63.
Definition gt : N := 62.

Fixpoint fix_comment (s : list N) : list N :=
  match s with
  | [] => []
  | c :: r =>
      if c =? hyphen then
        match r with
        | [] => [hyphen; space]
        | d :: _ => if d =? hyphen then hyphen :: space :: fix_comment r else hyphen :: fix_comment r
        end
      else c :: fix_comment r
  end.

Fixpoint fix_pi (s : list N) : list N :=
  match s with
  | [] => []
  | c :: r =>
      if c =? qmark then
        match r with
        | d :: r' => if d =? gt then qmark :: space :: gt :: fix_pi r' else qmark :: fix_pi r
        | [] => [qmark]
        end
      else c :: fix_pi r
  end.

(* specification side *)
Inductive InsSp : list N -> list N -> Prop :=      (* t is s with spaces inserted *)
| InsNil : InsSp [] []
| InsKeep : forall c s t, InsSp s t -> InsSp (c :: s) (c :: t)
| InsAdd : forall s t, InsSp s t -> InsSp s (space :: t).

Fixpoint has_pair (a b : N) (s : list N) : bool :=
  match s with
  | c :: ((d :: _) as r) => ((c =? a) && (d =? b)) || has_pair a b r
  | _ => false
  end.

Definition ends_with (a : N) (s : list N) : bool := last s 0 =? a.

(* what XML requires of comment data / PI data as far as these two loops are concerned *)
Definition comment_hyphens_ok (s : list N) : bool := negb (has_pair hyphen hyphen s) && negb (ends_with hyphen s).
Definition pi_close_ok (s : list N) : bool := negb (has_pair qmark gt s).
