"""Reference evaluator for XPath 1.0 written from the Recommendation (sections 2-4), over the Python
node table of xpgen.build_nodes. It is the oracle of C02: independent of the library and of the
Coq model of the library. Values: bool | float | str | list of node ids (document order) | NS nodes
as ('ns', element id, prefix) tuples. `units=True` switches the string functions to UTF-16 code
units (the library's reading, known finding K6) so that the oracle can tell that deviation apart.
`k21=True` switches the namespace axis to known finding K21, exactly as worded there: the axis returns,
per prefix in scope on the element, the NEAREST xmlns declaration attribute (an ordinary node of the
table, kind 'nsdecl': owned by the declaring element, shared by every element in the declaration's
scope, numbered like an attribute; xmlns="" undeclares the default namespace and contributes no node;
the xml prefix is the xmlns:xml attribute xpgen.build_nodes puts on the document element, as the
library's tree builder does).  Everything else about such a node follows from its being that
attribute-like node: parent / ancestors / following / preceding = those of an attribute of the declaring
element, document order = its number, name() and local-name() = the declared prefix ('' for xmlns),
namespace-uri() = '', string-value = the URI, a union keeps one copy.  Written from the finding's text
(a top-down in-scope environment), not from XPath::findNamespace's bottom-up bookkeeping."""
import math, re
from decimal import Decimal
from fractions import Fraction

NUMBER = re.compile(r"^[ \t\r\n]*-?([0-9]+(\.[0-9]*)?|\.[0-9]+)[ \t\r\n]*$")


class XPathTypeError(Exception):
    pass


def num_to_str(x):
    if x != x:
        return "NaN"
    if math.isinf(x):
        return "Infinity" if x > 0 else "-Infinity"
    if x == 0:
        return "0"
    if x == int(x):
        return str(int(x))
    s = format(Decimal(repr(x)), "f")
    if "." in s:
        s = s.rstrip("0").rstrip(".")
    return s


def str_to_num(s):
    if not NUMBER.match(s):
        return float("nan")
    return float(s.strip(" \t\r\n"))


def xround(x):
    if x != x or math.isinf(x) or x == 0:
        return x
    r = math.floor(Fraction(x) + Fraction(1, 2))
    if r == 0:
        return -0.0 if x < 0 else 0.0
    return float(r)


class Ref:
    def __init__(self, nodes, variables=None, units=False, negzero=False, ids=None, k21=False):
        self.nodes = nodes
        self.k21 = k21              # known finding K21: see the module comment
        # unique IDs (section 5.2.1): value -> element, from the attribute types the GENERATOR declared in the
        # DTD (xpgen.id_table); None = the document has no DTD, no element has a unique ID
        self.ids = ids or {}
        self.vars = variables or {}
        self.units = units
        self.negzero = negzero      # known finding K13: a string denoting negative zero converts to +0
        self.order = {n.id: n.id for n in nodes}

    # ---- data model ----
    def string_value(self, n):
        if isinstance(n, tuple):      # namespace node
            return n[3]
        nd = self.nodes[n]
        if nd.kind in ("elem", "doc"):
            out = []

            def go(x):
                for c in x.children:
                    if c.kind == "text":
                        out.append(c.value)
                    elif c.kind == "elem":
                        go(c)
            go(nd)
            return "".join(out)
        return nd.value

    def slen(self, s):
        return len(s.encode("utf-16-le", "surrogatepass")) // 2 if self.units else len(s)

    def sunits(self, s):
        """string as a list of 'characters' (code points or UTF-16 units)"""
        if not self.units:
            return list(s)
        b = s.encode("utf-16-le", "surrogatepass")
        return [b[i:i + 2] for i in range(0, len(b), 2)]

    def sjoin(self, l):
        if not self.units:
            return "".join(l)
        return b"".join(l).decode("utf-16-le", "surrogatepass")

    # ---- conversions ----
    def to_str(self, v):
        if isinstance(v, bool):
            return "true" if v else "false"
        if isinstance(v, float):
            return num_to_str(v)
        if isinstance(v, str):
            return v
        return self.string_value(v[0]) if v else ""

    def to_num(self, v):
        if isinstance(v, bool):
            return 1.0 if v else 0.0
        if isinstance(v, float):
            return v
        x = str_to_num(self.to_str(v))
        if self.negzero and x == 0:
            return 0.0
        return x

    def to_bool(self, v):
        if isinstance(v, bool):
            return v
        if isinstance(v, float):
            return not (v != v or v == 0)
        return len(v) > 0

    # ---- axes (section 2.2), each in document order ----
    def children(self, n):
        return [c.id for c in self.nodes[n].children]

    def descendants(self, n):
        out = []
        for c in self.nodes[n].children:
            out.append(c.id)
            out += self.descendants(c.id)
        return out

    def ancestors(self, n):
        out = []
        p = self.nodes[n].parent
        while p is not None:
            out.append(p.id)
            p = p.parent
        return out[::-1]

    def axis(self, ax, n):
        """(nodes in document order, is_reverse_axis)"""
        if isinstance(n, tuple):      # namespace node as context: only parent/ancestor/self make sense
            if ax == "self":
                return [n], False
            if ax == "parent":
                return [n[1]], False
            if ax in ("ancestor", "ancestor-or-self"):
                a = self.ancestors(n[1]) + [n[1]]
                return (a + [n] if ax.endswith("self") else a), True
            return [], False
        nd = self.nodes[n]
        isattr = nd.kind in ("attr", "nsdecl")
        if ax == "root":
            return [0], False
        if ax == "child":
            return self.children(n), False
        if ax == "descendant":
            return self.descendants(n), False
        if ax == "descendant-or-self":
            return [n] + self.descendants(n), False
        if ax == "parent":
            return ([nd.parent.id] if nd.parent is not None else []), False
        if ax == "ancestor":
            return self.ancestors(n), True
        if ax == "ancestor-or-self":
            return self.ancestors(n) + [n], True
        if ax == "self":
            return [n], False
        if ax == "attribute":
            return [a.id for a in nd.attrs if a.kind == "attr"], False
        if ax == "following-sibling":
            if isattr or nd.parent is None:
                return [], False
            sib = self.children(nd.parent.id)
            return sib[sib.index(n) + 1:], False
        if ax == "preceding-sibling":
            if isattr or nd.parent is None:
                return [], True
            sib = self.children(nd.parent.id)
            return sib[:sib.index(n)], True
        if ax in ("following", "preceding"):
            anc = set(self.ancestors(n))
            desc = set(self.descendants(n)) if not isattr else set()
            allnodes = [x.id for x in self.nodes if x.kind not in ("attr", "nsdecl")]
            if ax == "following":
                if isattr:
                    # everything after the attribute in document order that is not an attribute/namespace:
                    # the parent's descendants and what follows the parent
                    return [i for i in allnodes if i > n], False
                return [i for i in allnodes if i > n and i not in desc], False
            return [i for i in allnodes if i < n and i not in anc], True
        if ax == "namespace":
            if nd.kind != "elem":
                return [], False
            if self.k21:
                return self.k21_decls(n), False
            out = []
            for p, u in sorted(nd.nsenv.items()):
                if p == "" and u == "":
                    continue
                out.append(("ns", n, p, u))
            return out, False
        raise ValueError(ax)

    @staticmethod
    def k21_prefix(nd):
        """the prefix an xmlns declaration attribute declares ('' for the default namespace)"""
        return "" if nd.qname == "xmlns" else nd.qname.split(":", 1)[1]

    def k21_decls(self, n):
        """K21 mode: the declaration attributes in scope on element n - per prefix the nearest one, found by
        carrying the environment prefix -> attribute from the document element down to n (an inner declaration
        of a prefix replaces the outer one, xmlns="" removes the default); document order"""
        chain = []
        x = self.nodes[n]
        while x is not None and x.kind == "elem":
            chain.append(x)
            x = x.parent
        env = {}
        for el in reversed(chain):
            for a in el.attrs:
                if a.kind != "nsdecl":
                    continue
                p = self.k21_prefix(a)
                if p == "" and a.value == "":
                    env.pop("", None)
                else:
                    env[p] = a.id
        return sorted(env.values())

    def test(self, ax, t, n):
        if isinstance(n, tuple):
            if t == "node":
                return True
            if isinstance(t, tuple) and t[0] == "name" and ax == "namespace":
                return t[2] is None or t[2] == n[2]
            return False
        nd = self.nodes[n]
        if t == "node":
            return True
        if t == "text":
            return nd.kind == "text"
        if t == "comment":
            return nd.kind == "comment"
        if t == "root":
            return nd.kind == "doc"
        if t[0] == "pi":
            return nd.kind == "pi" and (t[1] is None or nd.qname == t[1])
        _, ns, local = t
        principal = "attr" if ax == "attribute" else ("nsnode" if ax == "namespace" else "elem")
        if self.k21 and ax == "namespace":
            # K21 mode: the principal node type of the namespace axis is the declaration attribute; a name test
            # compares the declared prefix (2.3: the local part of a namespace node's expanded-name is the prefix,
            # its namespace URI is null)
            if nd.kind != "nsdecl":
                return False
            return ns is None and (local is None or self.k21_prefix(nd) == local)
        if nd.kind != principal:
            return False
        if local is None:
            return ns is None or nd.uri == ns
        return nd.local == local and nd.uri == (ns or "")

    # ---- comparisons (section 3.4) ----
    def compare(self, op, a, b):
        def num(op, x, y):
            if x != x or y != y:
                return op == "ne"
            return {"eq": x == y, "ne": x != y, "lt": x < y, "lte": x <= y, "gt": x > y, "gte": x >= y}[op]
        an, bn = isinstance(a, list), isinstance(b, list)
        if an and bn:
            sa = [self.string_value(x) for x in a]
            sb = [self.string_value(x) for x in b]
            if op in ("eq", "ne"):
                return any((x == y) == (op == "eq") for x in sa for y in sb)
            return any(num(op, str_to_num(x), str_to_num(y)) for x in sa for y in sb)
        if an or bn:
            ns, other, flip = (a, b, False) if an else (b, a, True)
            if flip:
                op = {"lt": "gt", "lte": "gte", "gt": "lt", "gte": "lte"}.get(op, op)
            if isinstance(other, bool):
                x, y = self.to_bool(ns), other
                if op in ("eq", "ne"):
                    return (x == y) == (op == "eq")
                return num(op, float(x), float(y))
            if isinstance(other, float):
                return any(num(op, str_to_num(self.string_value(x)), other) for x in ns)
            if op in ("eq", "ne"):
                return any((self.string_value(x) == other) == (op == "eq") for x in ns)
            return any(num(op, str_to_num(self.string_value(x)), str_to_num(other)) for x in ns)
        if op in ("eq", "ne"):
            if isinstance(a, bool) or isinstance(b, bool):
                r = self.to_bool(a) == self.to_bool(b)
            elif isinstance(a, float) or isinstance(b, float):
                return num(op, self.to_num(a), self.to_num(b))
            else:
                r = self.to_str(a) == self.to_str(b)
            return r if op == "eq" else not r
        return num(op, self.to_num(a), self.to_num(b))

    # ---- evaluation ----
    def sortkey(self, n):
        return (n[1], 0, n[2]) if isinstance(n, tuple) else (n, 1, "")

    def docsort(self, l):
        seen, out = set(), []
        for n in sorted(l, key=lambda n: (n[1] + 0.25, n[2]) if isinstance(n, tuple) else (n, "")):
            if n not in seen:
                seen.add(n)
                out.append(n)
        return out

    def preds(self, nodes, reverse, ps):
        for _, pe in ps:
            lst = nodes[::-1] if reverse else nodes
            keep = []
            size = len(lst)
            for i, n in enumerate(lst):
                v = self.ev(pe, n, i + 1, size)
                if isinstance(v, float) and not isinstance(v, bool):
                    ok = v == i + 1
                else:
                    ok = self.to_bool(v)
                if ok:
                    keep.append(n)
            nodes = keep[::-1] if reverse else keep
        return nodes

    def steps(self, start, steps):
        cur = start
        for ax, t, ps in steps:
            nxt = []
            for n in cur:
                cand, rev = self.axis(ax, n)
                cand = [x for x in cand if self.test(ax, t, x)]
                nxt += self.preds(cand, rev, ps)
            cur = self.docsort(nxt)
        return cur

    def ev(self, e, n, pos, size):
        t = e[0]
        if t == "or":
            return self.to_bool(self.ev(e[1], n, pos, size)) or self.to_bool(self.ev(e[2], n, pos, size))
        if t == "and":
            return self.to_bool(self.ev(e[1], n, pos, size)) and self.to_bool(self.ev(e[2], n, pos, size))
        if t in ("eq", "ne", "lt", "lte", "gt", "gte"):
            return self.compare(t, self.ev(e[1], n, pos, size), self.ev(e[2], n, pos, size))
        if t in ("plus", "minus", "mult", "div", "mod"):
            x = self.to_num(self.ev(e[1], n, pos, size))
            y = self.to_num(self.ev(e[2], n, pos, size))
            return arith(t, x, y)
        if t == "neg":
            return -self.to_num(self.ev(e[1], n, pos, size))
        if t == "union":
            out = []
            for a in e[1]:
                v = self.ev(a, n, pos, size)
                if not isinstance(v, list):
                    raise XPathTypeError("union of non-node-set")
                out += v
            return self.docsort(out)
        if t == "lit":
            return e[1]
        if t == "num":
            return str_to_num(e[1])
        if t == "var":
            if e[1] not in self.vars:
                raise XPathTypeError("unbound variable")
            return self.vars[e[1]]
        if t == "group":
            return self.ev(e[1], n, pos, size)
        if t == "path":
            _, head, hps, steps = e
            if head is None:
                return self.steps([n], steps)
            v = self.ev(head, n, pos, size)
            if not isinstance(v, list):
                raise XPathTypeError("filter/path on non-node-set")
            return self.steps(self.preds(self.docsort(v), False, hps), steps)
        if t == "fn":
            return self.fn(e[1], e[2], n, pos, size)
        raise ValueError(t)

    def fn(self, name, args, n, pos, size):
        A = lambda i: self.ev(args[i], n, pos, size)
        S = lambda i: self.to_str(A(i))

        def nodes(i):
            v = A(i)
            if not isinstance(v, list):
                raise XPathTypeError("node-set expected")
            return v
        k = len(args)

        def need(*counts):
            if k not in counts:
                raise XPathTypeError("argument count")
        if name == "position":
            need(0); return float(pos)
        if name == "last":
            need(0); return float(size)
        if name == "count":
            need(1); return float(len(nodes(0)))
        if name == "not":
            need(1); return not self.to_bool(A(0))
        if name == "true":
            need(0); return True
        if name == "false":
            need(0); return False
        if name == "boolean":
            need(1); return self.to_bool(A(0))
        if name in ("name", "local-name", "namespace-uri"):
            need(0, 1)
            l = nodes(0) if k == 1 else [n]
            if not l:
                return ""
            x = l[0]
            if isinstance(x, tuple):
                return {"name": x[2], "local-name": x[2], "namespace-uri": ""}[name]
            nd = self.nodes[x]
            if self.k21 and nd.kind == "nsdecl":
                p = self.k21_prefix(nd)
                return {"name": p, "local-name": p, "namespace-uri": ""}[name]
            if nd.kind in ("elem", "attr"):
                return {"name": nd.qname, "local-name": nd.local, "namespace-uri": nd.uri}[name]
            if nd.kind == "pi":
                return {"name": nd.qname, "local-name": nd.qname, "namespace-uri": ""}[name]
            return ""
        if name == "number":
            need(0, 1); return self.to_num(A(0)) if k else str_to_num(self.string_value(n))
        if name == "floor":
            need(1); x = self.to_num(A(0)); return x if (x != x or math.isinf(x) or x == 0) else fl(math.floor(Fraction(x)), x)
        if name == "ceiling":
            need(1); x = self.to_num(A(0)); return x if (x != x or math.isinf(x) or x == 0) else fl(math.ceil(Fraction(x)), x)
        if name == "round":
            need(1); return xround(self.to_num(A(0)))
        if name == "string":
            need(0, 1); return S(0) if k else self.string_value(n)
        if name == "sum":
            need(1)
            tot = 0.0
            for x in nodes(0):
                tot = tot + str_to_num(self.string_value(x))
            return tot
        if name == "string-length":
            need(0, 1); return float(self.slen(S(0) if k else self.string_value(n)))
        if name == "concat":
            if k < 2:
                raise XPathTypeError("argument count")
            return "".join(S(i) for i in range(k))
        if name == "contains":
            need(2); return S(1) in S(0)
        if name == "starts-with":
            need(2); return S(0).startswith(S(1))
        if name == "substring-before":
            need(2); a, b = S(0), S(1); i = a.find(b); return a[:i] if i >= 0 else ""
        if name == "substring-after":
            need(2); a, b = S(0), S(1); i = a.find(b); return a[i + len(b):] if i >= 0 else ""
        if name == "substring":
            need(2, 3)
            s = self.sunits(S(0))
            start = xround(self.to_num(A(1)))
            if k == 3:
                end = start + xround(self.to_num(A(2)))
                return self.sjoin([c for i, c in enumerate(s, 1) if i >= start and i < end])
            return self.sjoin([c for i, c in enumerate(s, 1) if i >= start])
        if name == "translate":
            need(3)
            s, f, t = self.sunits(S(0)), self.sunits(S(1)), self.sunits(S(2))
            out = []
            for c in s:
                if c in f:
                    i = f.index(c)
                    if i < len(t):
                        out.append(t[i])
                else:
                    out.append(c)
            return self.sjoin(out)
        if name == "normalize-space":
            need(0, 1)
            s = S(0) if k else self.string_value(n)
            return " ".join(x for x in re.split(r"[ \t\r\n]+", s) if x)
        if name == "lang":
            need(1)
            want = S(0).lower()
            x = n[1] if isinstance(n, tuple) else n
            nd = self.nodes[x]
            while nd is not None:
                for a in nd.attrs:
                    if a.qname == "xml:lang":
                        v = a.value.lower()
                        return v == want or v.startswith(want + "-")
                nd = nd.parent
            return False
        if name == "id":
            # section 4.1: node-set argument -> union of id(string-value of each node); anything else is
            # converted to a string, split into whitespace-separated tokens; the result holds the elements of
            # the context node's document whose unique ID equals one of the tokens (a set: document order)
            need(1)
            v = A(0)
            if isinstance(v, list):
                strings = [self.string_value(x) for x in v]
            else:
                strings = [self.to_str(v)]
            out = []
            for s in strings:
                for t in re.split(r"[ \t\r\n]+", s):
                    if t and t in self.ids:
                        out.append(self.ids[t])
            return self.docsort(out)
        raise XPathTypeError("unknown function " + name)


def fl(i, x):
    if i == 0:
        return -0.0 if x < 0 else 0.0
    return float(i)


def arith(op, x, y):
    if x != x or y != y:
        return float("nan")
    try:
        if op == "plus":
            return x + y
        if op == "minus":
            return x - y
        if op == "mult":
            return x * y
        if op == "div":
            if y == 0:
                if x == 0:
                    return float("nan")
                neg = (math.copysign(1, x) < 0) != (math.copysign(1, y) < 0)
                return float("-inf") if neg else float("inf")
            return x / y
        if op == "mod":
            if y == 0 or math.isinf(x):
                return float("nan")
            return math.fmod(x, y)
    except OverflowError:
        return float("inf")
    raise ValueError(op)
