(* Exec2Same.v — C11, part "helpers": the interpreter of the regenerated bodies (Exec2Run.execs2) and
   the interpreter of the tables of GenExec.v + the hand-written helper model (ExecDefs.execs: the one
   that is extracted and run against the library by props/C11.py) deliver the same results at every
   public entry point.  This file — unlike the rest of the part — depends on ExecModel.v. *)
From Coq Require Import ZArith NArith List Bool Arith.
Require Import XV.NumDefs XV.XpAst XV.DomDefs XV.XpDefs XV.XpModel XV.ExecArms XV.GenExec XV.ExecShapes XV.ExecDefs XV.ExecModel.
Require Import XV.Exec2Defs XV.GenExec2 XV.Exec2Run XV.Exec2Base XV.Exec2Step XV.Exec2Model.
Import ListNotations.

Notation forget1 := ExecModel.forget.
Notation forget2 := Exec2Base.forget.

Lemma forget_same {A} (r : res A) : forget2 r = forget1 r.
Proof. reflexivity. Qed.

Lemma execs2_same_as_execs c e : vars_ordered c ->
  forget2 (exec2_generic c e) = forget2 (exec_generic c e) /\
  forget2 (exec2_bool c e) = forget2 (exec_bool c e) /\
  forget2 (exec2_num c e) = forget2 (exec_num c e) /\
  (forall buf, forget2 (exec2_str c e buf) = forget2 (exec_str c e buf)) /\
  (forall acc, forget2 (exec2_chars c e acc) = forget2 (exec_chars c e acc)) /\
  forget2 (exec2_nodelist c e) = forget2 (exec_nodelist c e).
Proof.
  intros Hc. repeat split; intros; rewrite (forget_same (exec_generic _ _)) || rewrite (forget_same (exec_bool _ _)) ||
    rewrite (forget_same (exec_num _ _)) || rewrite (forget_same (exec_str _ _ _)) || rewrite (forget_same (exec_chars _ _ _)) ||
    rewrite (forget_same (exec_nodelist _ _)).
  - rewrite exec2_generic_agrees, ExecModel.exec_generic_agrees by exact Hc. reflexivity.
  - rewrite exec2_bool_agrees, ExecModel.exec_bool_agrees by exact Hc. reflexivity.
  - rewrite exec2_num_agrees, ExecModel.exec_num_agrees by exact Hc. reflexivity.
  - rewrite exec2_str_agrees, ExecModel.exec_str_agrees by exact Hc. reflexivity.
  - rewrite exec2_chars_agrees, ExecModel.exec_chars_agrees by exact Hc. reflexivity.
  - rewrite exec2_nodelist_agrees, ExecModel.exec_nodelist_agrees by exact Hc. reflexivity.
Qed.
