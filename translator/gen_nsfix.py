"""C14 — facts of XSLTEngineImpl.cpp / DOMServices.cpp / XalanNamespacesStack.cpp / AttributeListImpl.cpp
consumed by coq/NsfixModel.v (GenNsfix.v): the literal strings the namespace fix-up compares against, the shape
of the unique-prefix loop (prefix "ns", post-incremented counter starting at 0, loop while the candidate is
bound), the lazily created context of addDeclaration, and the replace-by-name of the pending attribute list.
The model's atoms (AXmlns, AXml, AGen n) and unique_loop are meaningful only under these facts. Fail closed."""
import re
import srcfacts
from srcfacts import AnchorError, need, read, strip_comments, function_body, HEADER


def _sq(s):
    return re.sub(r"\s+", "", strip_comments(s))


def gen_nsfix():
    eng = read("XSLT/XSLTEngineImpl.cpp")
    dom = read("DOMSupport/DOMServices.cpp")
    rns = read("DOMSupport/XalanNamespacesStack.cpp")
    need(r"XalanNamespacesStack\s+m_resultNamespacesStack;", read("XSLT/XSLTEngineImpl.hpp"), "XSLTEngineImpl::m_resultNamespacesStack is a XalanNamespacesStack")
    facts = {}
    d = _sq(dom)
    for var, val in (("s_XMLString", "xml"), ("s_XMLNamespace", "xmlns"), ("s_XMLNamespaceWithSeparator", "xmlns:"),
                     ("s_XMLNamespacePrefix", "xmlns:xml")):
        need(re.escape('::%s.reset(theManager,"%s")' % (var, val)), d, 'DOMServices::%s == "%s"' % (var, val))
        facts[var] = val
    e = _sq(eng)
    m = need(r'::s_uniqueNamespacePrefix\.reset\(theManager,"([A-Za-z_][A-Za-z0-9_.-]*)"\)', e, 's_uniqueNamespacePrefix is a name')
    if m.group(1).lower().startswith("xml"):
        raise AnchorError("s_uniqueNamespacePrefix starts with xml: the atoms AGen/AXmlish of the model would overlap")
    facts["unique_prefix"] = m.group(1)      # props/C14.py renders AGen n as this string + decimal n
    need(re.escape("m_uniqueNSValue(0)"), e, "m_uniqueNSValue starts at 0")
    body = _sq(function_body(eng, r"XSLTEngineImpl::getUniqueNamespaceValue\s*\([^)]*\)\s*\{", "getUniqueNamespaceValue"))
    need(re.escape("do{m_scratchString.assign(s_uniqueNamespacePrefix);NumberToDOMString(m_uniqueNSValue++,m_scratchString);}"
                   "while(getResultNamespaceForPrefix(m_scratchString)!=0);theValue.append(m_scratchString);"),
         body, "getUniqueNamespaceValue: do { ns + counter++ } while (bound)")
    facts["unique_loop"] = "do-while, post-increment"
    add = _sq(function_body(rns, r"XalanNamespacesStack::addDeclaration\s*\([^)]*\)\s*\{", "XalanNamespacesStack::addDeclaration"))
    need(re.escape("if(m_createNewContextStack.back()==true){++m_stackPosition;"), add, "addDeclaration creates the context lazily")
    need(re.escape("theCurrentEntry.addDeclaration(thePrefix,theURI,theLength);"), add, "addDeclaration appends (prefix, uri) to the current context")
    start = _sq(function_body(eng, r"XSLTEngineImpl::startElement\s*\(\s*const XalanDOMChar\*\s*name\s*\)\s*\{", "XSLTEngineImpl::startElement(name)"))
    need(re.escape("flushPending();m_resultNamespacesStack.pushContext();setPendingElementName(name);"), start,
         "startElement: flushPending, pushContext, setPendingElementName")
    cp = _sq(function_body(eng, r"XSLTEngineImpl::copyNamespaceAttributes\s*\([^)]*\)\s*\{", "XSLTEngineImpl::copyNamespaceAttributes"))
    need(re.escape("while(parent!=0&&parent->getNodeType()==XalanNode::ELEMENT_NODE){"), cp, "copyNamespaceAttributes walks the ancestor-or-self elements")
    need(re.escape("FindStringPointerFunctor(nodeName))==m_attributeNamesVisited.end()){addResultNamespace(*attr,thePendingAttributes,true);m_attributeNamesVisited.push_back(&nodeName);}"),
         cp, "copyNamespaceAttributes: an attribute name not yet visited is offered and recorded")
    need(re.escape("parent=parent->getParentNode();}m_attributeNamesVisited.clear();}"), cp,
         "copyNamespaceAttributes clears the visited names once, after the ancestor walk")
    facts["copy_ns_walk"] = "visited list kept across the ancestor walk"
    # ---- variants: which of the repairs K17, KN6, KN7, KN10 the tree has (exactly one of the two shapes each)
    def variant(text, old_rx, new_rx, what):
        o, n = re.search(old_rx, text, re.S) is not None, re.search(new_rx, text, re.S) is not None
        if o == n:
            raise AnchorError("neither/both shapes recognised: " + what)
        return n
    ee = _sq(function_body(read("XSLT/ElemElement.cpp"), r"ElemElement::startElement\s*\([^)]*\)\s*const\s*\{", "ElemElement::startElement"))
    facts["kn6_fixed"] = variant(ee,
        re.escape("equals(prefix,DOMServices::s_XMLNamespace)==false){elemNameSpace=*theNamespace;}"),
        re.escape("equals(prefix,DOMServices::s_XMLNamespace)==false){if(m_namespaceAVT==0){elemNameSpace=*theNamespace;}else{elemName.erase(0,indexOfNSSep+1);havePrefix=false;}}"),
        "ElemElement::startElement: declared prefix with namespace=\"\"")
    gn = _sq(function_body(read("XSLT/NamespacesHandler.cpp"), r"NamespacesHandler::getNamespace\s*\([^)]*\)\s*const\s*\{", "NamespacesHandler::getNamespace"))
    facts["kn7_fixed"] = variant(gn,
        r"^\{constNamespacesVectorType::value_type\*theNamespace=findByPrefix\(m_excludedResultPrefixes,thePrefix\);if\(theNamespace!=0\)\{return&theNamespace->getURI\(\);\}else\{returnfindNamespace\(m_namespaceDeclarations,thePrefix\);\}\}$",
        r"^\{constXalanDOMString\*consttheURI=findNamespace\(m_namespaceDeclarations,thePrefix\);if\(theURI!=0\)\{returntheURI;\}else\{",
        "NamespacesHandler::getNamespace: order of the two lists")
    ea = _sq(function_body(read("XSLT/ElemAttribute.cpp"), r"ElemAttribute::startElement\s*\([^)]*\)\s*const\s*\{", "ElemAttribute::startElement"))
    facts["kn10_fixed"] = variant(ea,
        re.escape("equals(*theNamespace,attrNameSpace)==false&&executionContext.isPendingResultPrefix(newPrefix)==true)"),
        re.escape("equals(*theNamespace,attrNameSpace)==false&&(executionContext.isPendingResultPrefix(newPrefix)==true||isAttributeSetMember(*this)==true))"),
        "ElemAttribute::startElement: when a supplied prefix bound to another namespace is given up")
    ar = _sq(function_body(eng, r"XSLTEngineImpl::addResultAttribute\s*\(\s*AttributeListImpl&[^)]*\)\s*\{", "XSLTEngineImpl::addResultAttribute"))
    facts["k17_fixed"] = variant(ar,
        re.escape("if(fExcludeAttribute==false){attList.addAttribute(aname.c_str(),"),
        re.escape("findAttributeWithSameExpandedName(*this,*m_executionContext,attList,aname);if(theOther!=0){theName=theOther;}}if(fExcludeAttribute==false){attList.addAttribute(theName,"),
        "XSLTEngineImpl::addResultAttribute: the name the attribute is stored under")
    b = lambda x: "true" if x else "false"
    out = HEADER
    out += "(* facts of the namespace fix-up code (translator/gen_nsfix.py) *)\n"
    out += "From Coq Require Import NArith.\n"
    out += "Definition unique_counter_start : N := 0%N.\n"
    out += "Definition unique_counter_step : N := 1%N.        (* m_uniqueNSValue++ inside the loop *)\n"
    out += "Definition unique_loops_while_bound : bool := true.\n"
    out += "Definition copy_ns_visited_kept_across_ancestors : bool := true.\n"
    out += "Definition xmlns_xml_never_written : bool := true.  (* s_XMLNamespacePrefix == \"xmlns:xml\" *)\n"
    out += "(* which repairs the tree has; the model and its theorems are written for both values *)\n"
    out += "Definition k17_fixed : bool := %s.   (* addResultAttribute identifies an attribute by its expanded name *)\n" % b(facts["k17_fixed"])
    out += "Definition kn6_fixed : bool := %s.   (* xsl:element name=\"p:e\" namespace=\"\" drops the declared prefix *)\n" % b(facts["kn6_fixed"])
    out += "Definition kn10_fixed : bool := %s.  (* xsl:attribute in an attribute set never re-binds a prefix that is in scope *)\n" % b(facts["kn10_fixed"])
    out += "Definition kn7_fixed : bool := %s.   (* NamespacesHandler::getNamespace: own declarations before inherited excluded prefixes (generator only) *)\n" % b(facts["kn7_fixed"])
    return out, facts


GENERATORS = {"GenNsfix": gen_nsfix}
