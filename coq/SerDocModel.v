(* SerDocModel.v — C04: document-level round trip for the UTF-16 writer family:
   parse_doc (payload (document_items fam_utf16 ...)) = the event script, for scripts that are trees
   (SerDocDefs.tree_ok).  Lemmas only; definitions are in SerEscDefs / XmlDocDefs / SerDocDefs. *)
From Coq Require Import NArith List Bool Lia ZifyBool ZifyNat ZifyN.
Require Import XV.SerDefs XV.XmlParseDefs XV.XmlDocDefs XV.SerDocDefs XV.SerEscModel.
Import ListNotations.
Local Open Scope N_scope.

(* ---- 1. the serializer output as plain units ------------------------------------------------------ *)
Lemma chars_ok_wf : forall v11 s, chars_ok v11 s = wf_text v11 s.
Proof. reflexivity. Qed.

(* escaped bodies as functions *)
Definition cbody (v11 : bool) (s : list N) : list N :=
  match payload (write_content fam_utf16 v11 s) with Ok b => b | _ => [] end.
Definition abody (v11 : bool) (s : list N) : list N :=
  match payload (write_attr_string fam_utf16 v11 s) with Ok b => b | _ => [] end.

Definition avoids (k : N) (l : list N) : bool := forallb (fun b => negb (b =? k)) l.

Lemma avoids_app : forall k a b, avoids k (a ++ b) = avoids k a && avoids k b.
Proof. intros. unfold avoids. apply forallb_app. Qed.

Lemma shape_avoids : forall lit v11 c e k, k = 60 \/ k = 34 ->
  (forall c, lit v11 c = true -> (c =? k) = false) ->
  (k = 34 -> (c =? 34) = false) ->
  shape lit v11 c e = true -> avoids k e = true.
Proof.
  intros lit v11 c e k Hk Hl Hq H. apply shape_cases in H. destruct H as [[-> H]|[[H ->]|[-> [H1 H2]]]].
  - unfold avoids. cbn [forallb]. rewrite (Hl _ H). reflexivity.
  - unfold ent_of. destruct Hk as [-> | ->].
    + destruct (c =? 60); [reflexivity|]. destruct (c =? 62); [reflexivity|]. destruct (c =? 38); reflexivity.
    + destruct (c =? 60); [reflexivity|]. destruct (c =? 62); [reflexivity|]. destruct (c =? 38); reflexivity.
  - unfold charref, avoids. cbn [forallb]. rewrite forallb_app. cbn [forallb].
    assert (D : forallb (fun b => negb (b =? k)) (decimal c) = true).
    { apply forallb_forall. intros x Hx. pose proof (decimal_digits c) as Hd. rewrite forallb_forall in Hd.
      specialize (Hd x Hx). unfold is_digit, x_in in Hd. destruct Hk as [-> | ->]; lia. }
    rewrite D. destruct Hk as [-> | ->]; reflexivity.
Qed.

Lemma lit_content_not_lt : forall v11 c, lit_content v11 c = true -> (c =? 60) = false.
Proof. intros v11 c H. unfold lit_content in H. lia. Qed.
Lemma lit_attr_not_quote : forall v11 c, lit_attr v11 c = true -> (c =? 34) = false.
Proof. intros v11 c H. unfold lit_attr in H. lia. Qed.

Lemma sur_not_small : forall c k, x_high c = true \/ x_low c = true -> k < 128 -> (c =? k) = false.
Proof. intros c k H Hk. unfold x_high, x_low, x_in in H. lia. Qed.

Lemma content_avoids_lt : forall v11 s, wf_text v11 s = true ->
  exists bs, payload (write_content fam_utf16 v11 s) = Ok bs /\ avoids 60 bs = true.
Proof.
  intros v11. apply wf_text_ind'.
  - exists []. split; reflexivity.
  - intros hi lo r Hh Hl Hw (bs & Hp & Ha). exists (hi :: lo :: bs).
    rewrite write_content_pair, payload_app by assumption. cbn [u16_unit app payload]. rewrite Hp.
    split; [reflexivity|]. unfold avoids in *. cbn [forallb].
    rewrite (sur_not_small hi 60 (or_introl Hh)), (sur_not_small lo 60 (or_intror Hl)), Ha by lia. reflexivity.
  - intros c r Hh Hl Hx Hw (bs & Hp & Ha). destruct (cs_shape v11 c Hh Hl Hx) as (e & He & Hsh).
    exists (e ++ bs). rewrite write_content_cons, payload_app, He, Hp by assumption. split; [reflexivity|].
    rewrite avoids_app, Ha, (shape_avoids _ _ _ _ 60 (or_introl eq_refl) (lit_content_not_lt v11) ltac:(discriminate) Hsh).
    reflexivity.
Qed.

Lemma attr_avoids_quote : forall v11 s, wf_text v11 s = true ->
  exists bs, payload (write_attr_string fam_utf16 v11 s) = Ok bs /\ avoids 34 bs = true.
Proof.
  intros v11. apply wf_text_ind'.
  - exists []. split; reflexivity.
  - intros hi lo r Hh Hl Hw (bs & Hp & Ha). exists (hi :: lo :: bs).
    rewrite write_attr_pair, payload_app by assumption. cbn [u16_unit app payload]. rewrite Hp.
    split; [reflexivity|]. unfold avoids in *. cbn [forallb].
    rewrite (sur_not_small hi 34 (or_introl Hh)), (sur_not_small lo 34 (or_intror Hl)), Ha by lia. reflexivity.
  - intros c r Hh Hl Hx Hw (bs & Hp & Ha). destruct (ats_shape v11 c Hh Hl Hx) as (e & He & Hsh).
    exists (e ++ bs). rewrite write_attr_cons, payload_app, He, Hp by assumption. split; [reflexivity|].
    rewrite avoids_app, Ha. 
    assert (Hq : (c =? 34) = false \/ (c =? 34) = true) by (destruct (c =? 34); auto).
    destruct Hq as [Hq|Hq].
    + rewrite (shape_avoids _ _ _ _ 34 (or_intror eq_refl) (lit_attr_not_quote v11) (fun _ => Hq) Hsh). reflexivity.
    + (* the quotation mark itself: written as an entity *)
      apply N.eqb_eq in Hq. subst c. apply shape_cases in Hsh.
      destruct Hsh as [[-> H]|[[H ->]|[-> [H1 H2]]]].
      * apply lit_attr_not_quote in H. discriminate.
      * reflexivity.
      * reflexivity.
Qed.

Lemma content_doc : forall v11 s, chars_ok v11 s = true ->
  payload (write_content fam_utf16 v11 s) = Ok (cbody v11 s) /\
  parse_content v11 (cbody v11 s) = Some s /\ avoids 60 (cbody v11 s) = true.
Proof.
  intros v11 s H. rewrite chars_ok_wf in H. destruct (content_roundtrip v11 s H) as (bs & Hp & Hr).
  destruct (content_avoids_lt v11 s H) as (bs' & Hp' & Ha). unfold cbody. rewrite Hp.
  assert (bs' = bs) by congruence. subst bs'. auto.
Qed.

Lemma attr_doc : forall v11 s, chars_ok v11 s = true ->
  payload (write_attr_string fam_utf16 v11 s) = Ok (abody v11 s) /\
  parse_attr v11 (abody v11 s) = Some s /\ avoids 34 (abody v11 s) = true.
Proof.
  intros v11 s H. rewrite chars_ok_wf in H. destruct (attr_roundtrip v11 s H) as (bs & Hp & Hr).
  destruct (attr_avoids_quote v11 s H) as (bs' & Hp' & Ha). unfold abody. rewrite Hp.
  assert (bs' = bs) by congruence. subst bs'. auto.
Qed.

(* the element stack: what parent_tag_end writes and leaves *)
Definition pte (st : list bool) : list N := match st with false :: _ => [62] | _ => [] end.
Definition st_after (st : list bool) : list bool := match st with false :: r => true :: r | _ => st end.

Lemma parent_tag_end_16 : forall st,
  payload (fst (parent_tag_end fam_utf16 st)) = Ok (pte st) /\ snd (parent_tag_end fam_utf16 st) = st_after st.
Proof. intros [|[|] st]; split; reflexivity. Qed.

Definition attr_units (v11 : bool) (a : list N * list N) : list N :=
  32 :: fst a ++ [61; 34] ++ abody v11 (snd a) ++ [34].

Definition ev_units (v11 : bool) (e : event) (st : list bool) : list N :=
  match e with
  | EStart n al => pte st ++ 60 :: n ++ flat_map (attr_units v11) al
  | EEnd n => match st with true :: _ => 60 :: 47 :: n ++ [62] | _ => [47; 62] end
  | EText s => pte st ++ cbody v11 s
  | ECdata _ => []
  | EComment s => pte st ++ [60; 33; 45; 45] ++ s ++ [45; 45; 62]
  | EPI t d => pte st ++ [60; 63] ++ t ++ (match d with [] => [] | _ => [32] end) ++ d ++ [63; 62]
  end.

Definition ev_st (e : event) (st : list bool) : list bool :=
  match e with
  | EStart _ _ => false :: st_after st
  | EEnd _ => tl st
  | _ => st_after st
  end.

Fixpoint evs_units (v11 : bool) (es : list event) (st : list bool) : list N :=
  match es with
  | [] => []
  | e :: r => ev_units v11 e st ++ evs_units v11 r (ev_st e st)
  end.

Lemma raw_data_parts : forall v11 s, raw_data_ok v11 s = true ->
  sur_paired s = true /\ lit_run_ok v11 s = true /\ eol_norm v11 s = s /\
  (forall c, In c s -> p_comment_error v11 c = false).
Proof.
  intros v11 s H. unfold raw_data_ok in H.
  apply andb_true_iff in H. destruct H as [H H4]. apply andb_true_iff in H. destruct H as [H H3].
  apply andb_true_iff in H. destruct H as [H1 H2]. rewrite chars_ok_wf in H1.
  split; [exact (wf_text_paired _ _ H1)|]. split; [exact H2|]. split.
  - apply eol_norm_free. apply forallb_forall. intros x Hx. unfold eol_free in H3.
    rewrite forallb_forall in H3. specialize (H3 x Hx). unfold eolfree. destruct v11; lia.
  - intros c Hc. rewrite forallb_forall in H4. specialize (H4 c Hc). apply negb_true_iff in H4. exact H4.
Qed.

Lemma normalized_data_16 : forall v11 s, raw_data_ok v11 s = true ->
  payload (write_normalized_data fam_utf16 v11 s) = Ok s.
Proof.
  intros v11 s H. destruct (raw_data_parts v11 s H) as (H1 & _ & _ & H4).
  unfold write_normalized_data. rewrite (normalized_loop_16 v11 s [] H1 H4). reflexivity.
Qed.

Lemma attrs_payload : forall v11 al,
  forallb (fun a => name_ok (fst a) && chars_ok v11 (snd a)) al = true ->
  payload (flat_map (write_attribute fam_utf16 v11) al) = Ok (flat_map (attr_units v11) al).
Proof.
  intros v11. induction al as [|a al IH]; intros H; [reflexivity|].
  cbn [forallb] in H. apply andb_true_iff in H. destruct H as [Ha H].
  apply andb_true_iff in Ha. destruct Ha as [_ Hc]. destruct (attr_doc v11 (snd a) Hc) as (Hp & _ & _).
  cbn [flat_map]. rewrite payload_app, (IH H). unfold write_attribute. cbn [f_unit f_name fam_utf16].
  rewrite !payload_app, !payload_u16_unit, payload_u16_block, Hp. unfold attr_units.
  cbn [app]. rewrite <- !app_assoc. reflexivity.
Qed.

Lemma is_space_ws : forall c, is_xml_ws c = is_space c.
Proof. intros c. unfold is_xml_ws, is_space. destruct (c =? 32), (c =? 9), (c =? 13), (c =? 10); reflexivity. Qed.

Lemma event_payload : forall v11 e st, event_ok v11 e = true ->
  payload (fst (event_items fam_utf16 v11 e st)) = Ok (ev_units v11 e st) /\
  snd (event_items fam_utf16 v11 e st) = ev_st e st.
Proof.
  intros v11 e st H. destruct (parent_tag_end_16 st) as [Pp Ps].
  destruct e as [n al|n|s|s|s|t d]; cbn [event_ok] in H; cbn [event_items ev_units ev_st].
  - apply andb_true_iff in H. destruct H as [_ Ha].
    destruct (parent_tag_end fam_utf16 st) as [p st1]. cbn [fst snd] in *. subst st1. split; [|reflexivity].
    cbn [f_unit f_name fam_utf16]. rewrite !payload_app, Pp, payload_u16_unit, payload_u16_block, (attrs_payload _ _ Ha).
    reflexivity.
  - destruct st as [|[|] st]; cbn [fst snd tl f_unit f_name fam_utf16]; split; try reflexivity.
    rewrite !payload_app, !payload_u16_unit, payload_u16_block. reflexivity.
  - apply andb_true_iff in H. destruct H as [Hc Hn]. destruct s as [|c s]; [discriminate|].
    destruct (parent_tag_end fam_utf16 st) as [p st1]. cbn [fst snd] in *. subst st1. split; [|reflexivity].
    destruct (content_doc v11 (c :: s) Hc) as (Hp & _ & _). rewrite payload_app, Pp, Hp. reflexivity.
  - discriminate.
  - unfold comment_ok in H. apply andb_true_iff in H. destruct H as [H _]. apply andb_true_iff in H. destruct H as [H _].
    destruct (parent_tag_end fam_utf16 st) as [p st1]. cbn [fst snd] in *. subst st1. split; [|reflexivity].
    unfold write_comment. rewrite !payload_app, Pp, (normalized_data_16 _ _ H). reflexivity.
  - unfold pi_ok in H. apply andb_true_iff in H. destruct H as [H Hsp]. apply andb_true_iff in H. destruct H as [H _].
    apply andb_true_iff in H. destruct H as [_ Hd].
    destruct (parent_tag_end fam_utf16 st) as [p st1]. cbn [fst snd] in *. subst st1. split; [|reflexivity].
    unfold write_pi. cbn [f_unit f_name fam_utf16].
    rewrite !payload_app, Pp, (normalized_data_16 _ _ Hd), payload_u16_block.
    destruct d as [|c d].
    + reflexivity.
    + rewrite is_space_ws. apply negb_true_iff in Hsp. rewrite Hsp. reflexivity.
Qed.

Lemma events_payload : forall v11 es pt st, events_ok v11 es pt = true ->
  payload (events_items fam_utf16 v11 es st) = Ok (evs_units v11 es st).
Proof.
  intros v11. induction es as [|e es IH]; intros pt st H; [reflexivity|].
  cbn [events_ok] in H. apply andb_true_iff in H. destruct H as [H H2]. apply andb_true_iff in H. destruct H as [H1 _].
  destruct (event_payload v11 e st H1) as [Pp Ps]. cbn [events_items evs_units].
  destruct (event_items fam_utf16 v11 e st) as [its st1]. cbn [fst snd] in *. subst st1.
  rewrite payload_app, Pp, (IH _ _ H2). reflexivity.
Qed.

(* ---- 2. the reader on the pieces -------------------------------------------------------------------- *)
Lemma take_name_app : forall n c r, forallb is_name_unit n = true -> is_name_unit c = false ->
  take_name (n ++ c :: r) = (n, c :: r).
Proof.
  induction n as [|x n IH]; intros c r Hn Hc.
  - cbn [app take_name]. rewrite Hc. reflexivity.
  - cbn [forallb] in Hn. apply andb_true_iff in Hn. destruct Hn as [H1 H2].
    cbn [app take_name]. rewrite H1, (IH c r H2 Hc). reflexivity.
Qed.

Lemma take_until_app : forall k b r, avoids k b = true -> take_until k (b ++ k :: r) = Some (b, r).
Proof.
  induction b as [|x b IH]; intros r H.
  - cbn [app take_until]. rewrite N.eqb_refl. reflexivity.
  - unfold avoids in *. cbn [forallb] in H. apply andb_true_iff in H. destruct H as [H1 H2].
    apply negb_true_iff in H1. cbn [app take_until]. rewrite H1, (IH r H2). reflexivity.
Qed.

Lemma take_comment_app : forall s r, has_sub [45; 45] s = false -> (last s 0 =? 45) = false ->
  take_comment (s ++ 45 :: 45 :: 62 :: r) = Some (s, r).
Proof.
  induction s as [|c s IH]; intros r Hs Hl.
  - reflexivity.
  - cbn [has_sub] in Hs. apply orb_false_iff in Hs. destruct Hs as [H1 H2].
    assert (Hl' : (last s 0 =? 45) = false).
    { destruct s as [|d s]; [reflexivity|]. exact Hl. }
    assert (E : starts_with [45; 45] ((c :: s) ++ 45 :: 45 :: 62 :: r) = None).
    { destruct s as [|d s].
      - cbn [last] in Hl. cbn [app starts_with]. rewrite (N.eqb_sym 45 c), Hl. reflexivity.
      - cbn [app starts_with] in *. destruct (45 =? c); [|reflexivity]. destruct (45 =? d); [discriminate|reflexivity]. }
    change ((c :: s) ++ 45 :: 45 :: 62 :: r) with (c :: (s ++ 45 :: 45 :: 62 :: r)) in *.
    cbn [take_comment]. rewrite E, (IH r H2 Hl'). reflexivity.
Qed.

Lemma take_pi_data_app : forall d r, has_sub [63; 62] d = false ->
  take_pi_data (d ++ 63 :: 62 :: r) = Some (d, r).
Proof.
  induction d as [|c d IH]; intros r Hs.
  - reflexivity.
  - cbn [has_sub] in Hs. apply orb_false_iff in Hs. destruct Hs as [H1 H2].
    assert (E : starts_with [63; 62] ((c :: d) ++ 63 :: 62 :: r) = None).
    { destruct d as [|x d].
      - cbn [app starts_with]. destruct (63 =? c); reflexivity.
      - cbn [app starts_with] in *. destruct (63 =? c); [|reflexivity]. destruct (62 =? x); [discriminate|reflexivity]. }
    change ((c :: d) ++ 63 :: 62 :: r) with (c :: (d ++ 63 :: 62 :: r)) in *.
    cbn [take_pi_data]. rewrite E, (IH r H2). reflexivity.
Qed.

(* what may follow a text run: the end of the input, or markup that is not a CDATA section *)
Definition next_ok (rest : list N) : bool :=
  match rest with
  | [] => true
  | c :: t => (c =? 60) && match starts_with s_cdata_start t with Some _ => false | None => true end
  end.

Lemma split_run_body : forall b rest fuel, avoids 60 b = true -> next_ok rest = true ->
  (length b + length rest <= fuel)%nat -> split_run fuel false (b ++ rest) = (b, rest).
Proof.
  induction b as [|x b IH]; intros rest fuel Ha Hn Hf.
  - cbn [app]. destruct rest as [|c t]; [destruct fuel; reflexivity|].
    destruct fuel as [|f]; [cbn [length] in Hf; lia|]. cbn [next_ok] in Hn.
    apply andb_true_iff in Hn. destruct Hn as [H1 H2]. cbn [split_run]. rewrite H1.
    destruct (starts_with s_cdata_start t); [discriminate|reflexivity].
  - unfold avoids in *. cbn [forallb] in Ha. apply andb_true_iff in Ha. destruct Ha as [H1 H2].
    apply negb_true_iff in H1. destruct fuel as [|f]; [cbn [length] in Hf; lia|].
    cbn [app split_run]. rewrite H1, (IH rest f H2 Hn ltac:(cbn [length] in Hf; lia)). reflexivity.
Qed.

Lemma name_start_facts : forall d, is_name_start_unit d = true ->
  is_space d = false /\ (d =? 33) = false /\ (d =? 63) = false /\ (d =? 47) = false /\ (d =? 60) = false /\
  is_name_unit d = true.
Proof.
  intros d H. unfold is_name_unit. rewrite H. unfold is_name_start_unit, is_space, x_in in *. lia.
Qed.

Lemma name_ok_parts : forall n, name_ok n = true ->
  valid_name n = true /\ forallb is_name_unit n = true /\ exists d n', n = d :: n' /\ is_name_start_unit d = true.
Proof.
  intros n H. unfold name_ok in H. apply andb_true_iff in H. destruct H as [H1 H2].
  split; [exact H1|]. split; [exact H2|]. destruct n as [|d n']; [discriminate|]. exists d, n'. split; [reflexivity|].
  unfold valid_name in H1. apply andb_true_iff in H1. tauto.
Qed.

Lemma skip_space_32 : forall l, skip_space (32 :: l) = skip_space l.
Proof. reflexivity. Qed.
Lemma skip_space_ns : forall d n Y, is_space d = false -> skip_space ((d :: n) ++ Y) = (d :: n) ++ Y.
Proof. intros d n Y H. cbn [app skip_space]. rewrite H. reflexivity. Qed.

Lemma attr_units_app : forall v11 n v X,
  attr_units v11 (n, v) ++ X = 32 :: n ++ 61 :: 34 :: abody v11 v ++ 34 :: X.
Proof. intros. unfold attr_units. cbn [fst snd app]. rewrite <- !app_assoc. cbn [app]. rewrite <- !app_assoc. reflexivity. Qed.

(* the attributes of a start tag, followed by the end of the tag *)
Lemma take_attrs_app : forall v11 al tail fuel,
  forallb (fun a => name_ok (fst a) && chars_ok v11 (snd a)) al = true ->
  (exists c t, tail = c :: t /\ is_space c = false) -> (length al < fuel)%nat ->
  take_attrs v11 fuel (flat_map (attr_units v11) al ++ tail) = Some (al, tail).
Proof.
  intros v11. induction al as [|[n v] al IH]; intros tail fuel Hal (c & t & -> & Hc) Hf.
  - destruct fuel as [|f]; [lia|]. cbn [flat_map app take_attrs]. rewrite Hc. reflexivity.
  - destruct fuel as [|f]; [lia|]. cbn [forallb fst snd] in Hal. apply andb_true_iff in Hal. destruct Hal as [Ha Hal].
    apply andb_true_iff in Ha. destruct Ha as [Hn Hv].
    destruct (name_ok_parts n Hn) as (V & U & d & n' & -> & Hd).
    destruct (name_start_facts d Hd) as (S1 & _).
    destruct (attr_doc v11 v Hv) as (_ & Hpa & Hav).
    cbn [flat_map]. rewrite <- app_assoc, attr_units_app.
    cbn [take_attrs]. change (is_space 32) with true. cbv iota.
    rewrite skip_space_32, (skip_space_ns d n' _ S1). cbn [app]. rewrite Hd.
    change (d :: n' ++ 61 :: 34 :: abody v11 v ++ 34 :: flat_map (attr_units v11) al ++ c :: t)
      with ((d :: n') ++ 61 :: (34 :: abody v11 v ++ 34 :: flat_map (attr_units v11) al ++ c :: t)).
    rewrite (take_name_app (d :: n') 61 _ U eq_refl). rewrite V. cbn [starts_with].
    change (61 =? 61) with true. change (34 =? 34) with true. cbv iota.
    rewrite (take_until_app 34 _ _ Hav), Hpa.
    assert (Hf' : (length al < f)%nat) by (clear -Hf; cbn [length] in Hf; lia).
    rewrite (IH (c :: t) f Hal (ex_intro _ c (ex_intro _ t (conj eq_refl Hc))) Hf').
    reflexivity.
Qed.

(* ---- 3. one token ------------------------------------------------------------------------------------- *)
Lemma tokens_comment : forall v11 s rest f, comment_ok v11 s = true ->
  tokens v11 (S f) (60 :: 33 :: 45 :: 45 :: s ++ 45 :: 45 :: 62 :: rest) =
  option_map (cons (PM s)) (tokens v11 f rest).
Proof.
  intros v11 s rest f H. unfold comment_ok in H. apply andb_true_iff in H. destruct H as [H H3].
  apply andb_true_iff in H. destruct H as [H1 H2]. apply negb_true_iff in H2. apply negb_true_iff in H3.
  destruct (raw_data_parts v11 s H1) as (_ & L & E & _).
  cbn [tokens]. change (60 =? 60) with true. change (33 =? 33) with true. cbv iota.
  cbn [starts_with]. change (45 =? 45) with true. cbv iota.
  rewrite (take_comment_app s rest H2 H3), L, E. reflexivity.
Qed.

Lemma tokens_pi : forall v11 t d rest f, pi_ok v11 t d = true ->
  tokens v11 (S f) (60 :: 63 :: t ++ (match d with [] => [] | _ => [32] end) ++ d ++ 63 :: 62 :: rest) =
  option_map (cons (PP t d)) (tokens v11 f rest).
Proof.
  intros v11 t d rest f H. unfold pi_ok in H. apply andb_true_iff in H. destruct H as [H H5].
  apply andb_true_iff in H. destruct H as [H H4]. apply andb_true_iff in H. destruct H as [H H3].
  apply andb_true_iff in H. destruct H as [H1 H2]. apply negb_true_iff in H4.
  destruct (name_ok_parts t H1) as (V & U & _). destruct (raw_data_parts v11 d H3) as (_ & L & E & _).
  cbn [tokens]. change (60 =? 60) with true. change (63 =? 33) with false. change (63 =? 63) with true. cbv iota.
  destruct d as [|c d].
  - cbn [app]. rewrite (take_name_app t 63 _ U eq_refl), V, H2. cbn [andb starts_with].
    change (63 =? 63) with true. change (62 =? 62) with true. cbv iota. reflexivity.
  - apply negb_true_iff in H5. cbn [app].
    change (t ++ 32 :: c :: d ++ 63 :: 62 :: rest) with (t ++ 32 :: ((c :: d) ++ 63 :: 62 :: rest)).
    rewrite (take_name_app t 32 _ U eq_refl), V, H2. cbn [andb starts_with].
    change (63 =? 32) with false. cbv iota. change (is_space 32) with true. cbv iota.
    rewrite skip_space_32, (skip_space_ns c d _ H5), (take_pi_data_app (c :: d) rest H4), L, E. reflexivity.
Qed.

Lemma tokens_end : forall v11 m rest f, name_ok m = true ->
  tokens v11 (S f) (60 :: 47 :: m ++ 62 :: rest) = option_map (cons (PE m)) (tokens v11 f rest).
Proof.
  intros v11 m rest f H. destruct (name_ok_parts m H) as (V & U & _).
  cbn [tokens]. change (60 =? 60) with true. change (47 =? 33) with false. change (47 =? 63) with false.
  change (47 =? 47) with true. cbv iota. rewrite (take_name_app m 62 _ U eq_refl), V.
  cbn [skip_space]. change (is_space 62) with false. cbv iota. change (62 =? 62) with true. cbv iota. reflexivity.
Qed.

Lemma attrs_units_length : forall v11 al, (length al <= length (flat_map (attr_units v11) al))%nat.
Proof.
  intros v11. induction al as [|a al IH]; [apply le_n|]. cbn [flat_map length]. rewrite app_length.
  unfold attr_units at 1. cbn [length]. lia.
Qed.

(* the unit after the name of a start tag *)
Lemma after_name : forall v11 al e rest, is_name_unit e = false ->
  exists x X, flat_map (attr_units v11) al ++ e :: rest = x :: X /\ is_name_unit x = false.
Proof.
  intros v11 [|[n v] al] e rest He.
  - exists e, rest. split; [reflexivity | exact He].
  - cbn [flat_map]. rewrite <- app_assoc, attr_units_app. eexists. eexists. split; reflexivity.
Qed.

Lemma tokens_start_gen : forall v11 n al e rest f, name_ok n = true ->
  forallb (fun a => name_ok (fst a) && chars_ok v11 (snd a)) al = true ->
  is_name_unit e = false -> is_space e = false ->
  tokens v11 (S f) (60 :: n ++ flat_map (attr_units v11) al ++ e :: rest) =
  match e :: rest with
  | e :: r4 =>
      if e =? 62 then option_map (cons (PS n al)) (tokens v11 f r4)
      else if e =? 47 then
        match r4 with
        | g :: r5 => if g =? 62 then option_map (fun t => PS n al :: PE n :: t) (tokens v11 f r5) else None
        | [] => None
        end
      else None
  | [] => None
  end.
Proof.
  intros v11 n al e rest f Hn Hal He Hs. destruct (name_ok_parts n Hn) as (V & U & d & n' & -> & Hd).
  destruct (name_start_facts d Hd) as (_ & D1 & D2 & D3 & _).
  destruct (after_name v11 al e rest He) as (x & X & EX & Hx).
  cbn [tokens app]. change (60 =? 60) with true. cbv iota. rewrite D1, D2, D3.
  change (d :: n' ++ flat_map (attr_units v11) al ++ e :: rest)
    with ((d :: n') ++ flat_map (attr_units v11) al ++ e :: rest).
  rewrite EX, (take_name_app (d :: n') x X U Hx), V, <- EX.
  rewrite (take_attrs_app v11 al (e :: rest) _ Hal (ex_intro _ e (ex_intro _ rest (conj eq_refl Hs)))).
  - reflexivity.
  - rewrite app_length. cbn [length]. pose proof (attrs_units_length v11 al). lia.
Qed.

Lemma tokens_start_open : forall v11 n al rest f, name_ok n = true ->
  forallb (fun a => name_ok (fst a) && chars_ok v11 (snd a)) al = true ->
  tokens v11 (S f) (60 :: n ++ flat_map (attr_units v11) al ++ 62 :: rest) =
  option_map (cons (PS n al)) (tokens v11 f rest).
Proof. intros. rewrite tokens_start_gen by (assumption || reflexivity). reflexivity. Qed.

Lemma tokens_start_empty : forall v11 n al rest f, name_ok n = true ->
  forallb (fun a => name_ok (fst a) && chars_ok v11 (snd a)) al = true ->
  tokens v11 (S f) (60 :: n ++ flat_map (attr_units v11) al ++ 47 :: 62 :: rest) =
  option_map (fun t => PS n al :: PE n :: t) (tokens v11 f rest).
Proof. intros. rewrite tokens_start_gen by (assumption || reflexivity). reflexivity. Qed.

Lemma cbody_nonempty : forall v11 s, chars_ok v11 s = true -> s <> [] -> cbody v11 s <> [].
Proof.
  intros v11 s H Hs E. destruct (content_doc v11 s H) as (_ & Hp & _). rewrite E in Hp.
  change (parse_content v11 []) with (Some (@nil N)) in Hp. congruence.
Qed.

Lemma tokens_text : forall v11 s rest f, chars_ok v11 s = true -> s <> [] -> next_ok rest = true ->
  tokens v11 (S f) (cbody v11 s ++ rest) = option_map (cons (PT s)) (tokens v11 f rest).
Proof.
  intros v11 s rest f H Hs Hn. destruct (content_doc v11 s H) as (_ & Hp & Ha).
  pose proof (cbody_nonempty v11 s H Hs) as Hne. destruct (cbody v11 s) as [|x b]; [congruence|].
  assert (Hx : (x =? 60) = false).
  { unfold avoids in Ha. cbn [forallb] in Ha. apply andb_true_iff in Ha. destruct Ha as [Ha _].
    apply negb_true_iff in Ha. exact Ha. }
  cbn [tokens app]. rewrite Hx.
  change (x :: b ++ rest) with ((x :: b) ++ rest).
  rewrite (split_run_body (x :: b) rest _ Ha Hn) by (rewrite app_length; apply le_n).
  rewrite Hp. reflexivity.
Qed.

(* ---- 4. the event script ------------------------------------------------------------------------------ *)
(* the serializer's element stack when no start tag is pending: one [true] per open element *)
Definition allt (names : list (list N)) : list bool := map (fun _ => true) names.

Lemma allt_facts : forall names, pte (allt names) = [] /\ st_after (allt names) = allt names.
Proof. intros [|x names]; split; reflexivity. Qed.

Lemma list_eqb_eq : forall a b, list_eqb a b = true -> a = b.
Proof.
  induction a as [|x a IH]; intros [|y b] H; cbn [list_eqb] in H; try discriminate; auto.
  apply andb_true_iff in H. destruct H as [H1 H2]. apply N.eqb_eq in H1. subst. f_equal. auto.
Qed.

Lemma comment_form : forall (s R : list N),
  ([60; 33; 45; 45] ++ s ++ [45; 45; 62]) ++ R = 60 :: 33 :: 45 :: 45 :: s ++ 45 :: 45 :: 62 :: R.
Proof. intros. cbn [app]. rewrite <- app_assoc. reflexivity. Qed.

Lemma pi_form : forall (t X d R : list N),
  ([60; 63] ++ t ++ X ++ d ++ [63; 62]) ++ R = 60 :: 63 :: t ++ X ++ d ++ 63 :: 62 :: R.
Proof. intros. cbn [app]. rewrite <- !app_assoc. reflexivity. Qed.

Lemma end_form : forall (m R : list N), (60 :: 47 :: m ++ [62]) ++ R = 60 :: 47 :: m ++ 62 :: R.
Proof. intros. cbn [app]. rewrite <- app_assoc. reflexivity. Qed.

Lemma start_form : forall (n A R : list N), (60 :: n ++ A) ++ R = 60 :: n ++ A ++ R.
Proof. intros. cbn [app]. rewrite <- app_assoc. reflexivity. Qed.

(* after a text node comes markup that is not a CDATA section, or nothing *)
Lemma next_ok_events : forall v11 es st, events_ok v11 es true = true ->
  next_ok (evs_units v11 es (true :: st)) = true.
Proof.
  intros v11 [|e es] st H; [reflexivity|]. cbn [events_ok] in H.
  apply andb_true_iff in H. destruct H as [H _]. apply andb_true_iff in H. destruct H as [H1 H2].
  destruct e as [n al|n|s|s|s|t d]; cbn [event_ok] in H1; cbn [evs_units ev_units pte app].
  - apply andb_true_iff in H1. destruct H1 as [Hn _]. destruct (name_ok_parts n Hn) as (_ & _ & d & n' & -> & Hd).
    destruct (name_start_facts d Hd) as (_ & D1 & _). cbn [app next_ok]. unfold s_cdata_start. cbn [starts_with].
    rewrite (N.eqb_sym 33 d), D1. reflexivity.
  - reflexivity.
  - discriminate.
  - discriminate.
  - reflexivity.
  - reflexivity.
Qed.

Definition attrs_ok (v11 : bool) (al : list (list N * list N)) : bool :=
  forallb (fun a => name_ok (fst a) && chars_ok v11 (snd a)) al.

(* a pending start tag: every event but an end tag first closes it with '>' *)
Lemma pending_units : forall v11 e es st, (match e with EEnd _ | ECdata _ => false | _ => true end) = true ->
  evs_units v11 (e :: es) (false :: st) = 62 :: evs_units v11 (e :: es) (true :: st).
Proof. intros v11 [n al|n|s|s|s|t d] es st H; try discriminate; reflexivity. Qed.

Definition stmtA (v11 : bool) (es : list event) : Prop :=
  forall names roots pt f, events_ok v11 es pt = true ->
    well_nested (map pev_of es) names roots = true ->
    (length (evs_units v11 es (allt names)) < f)%nat ->
    tokens v11 f (evs_units v11 es (allt names)) = Some (map pev_of es).

Definition stmtB (v11 : bool) (es : list event) : Prop :=
  forall n al names roots pt f, name_ok n = true -> attrs_ok v11 al = true ->
    events_ok v11 es pt = true ->
    well_nested (map pev_of es) (n :: names) roots = true ->
    (length (60%N :: n ++ flat_map (attr_units v11) al ++ evs_units v11 es (false :: allt names)) < f)%nat ->
    tokens v11 f (60 :: n ++ flat_map (attr_units v11) al ++ evs_units v11 es (false :: allt names)) =
    Some (PS n al :: map pev_of es).

Lemma script_tokens : forall v11 es, stmtA v11 es /\ stmtB v11 es.
Proof.
  intros v11. induction es as [|e es [IHA IHB]].
  { split.
    - intros names roots pt f _ _ Hf. destruct f as [|f]; [cbn in Hf; lia|]. reflexivity.
    - intros n al names roots pt f _ _ _ Hw. discriminate Hw. }
  assert (A : stmtA v11 (e :: es)).
  { intros names roots pt f Hok Hw Hf. cbn [events_ok] in Hok.
    apply andb_true_iff in Hok. destruct Hok as [Hok Hok2]. apply andb_true_iff in Hok. destruct Hok as [He Hpt].
    destruct (allt_facts names) as [Pn Sn].
    destruct f as [|f]; [clear -Hf; lia|].
    destruct e as [n al|m|s|s|s|t d]; cbn [event_ok] in He; cbn [map pev_of] in *;
      cbn [evs_units ev_units ev_st] in *.
    - (* start tag *)
      apply andb_true_iff in He. destruct He as [Hn Hal].
      cbn [well_nested] in Hw. apply andb_true_iff in Hw. destruct Hw as [_ Hw].
      rewrite Pn, Sn in Hf |- *. cbn [app] in Hf |- *. rewrite <- app_assoc in Hf |- *.
      exact (IHB n al names _ _ (S f) Hn Hal Hok2 Hw Hf).
    - (* end tag *)
      destruct names as [|m' names]; [discriminate Hw|]. cbn [well_nested] in Hw.
      apply andb_true_iff in Hw. destruct Hw as [_ Hw]. cbn [allt map tl] in *. fold (allt names) in *.
      rewrite end_form in *. rewrite (tokens_end v11 m _ f He).
      rewrite (IHA names roots _ f Hok2 Hw); [reflexivity|].
      clear -Hf. cbn [length] in Hf. rewrite app_length in Hf. cbn [length] in Hf. lia.
    - (* text *)
      apply andb_true_iff in He. destruct He as [Hc Hne].
      destruct names as [|x names]; [discriminate Hw|]. cbn [well_nested] in Hw.
      rewrite Pn, Sn in Hf |- *. cbn [app] in Hf |- *.
      assert (Hs : s <> []) by (destruct s; [discriminate | discriminate]).
      rewrite (tokens_text v11 s (evs_units v11 es (allt (x :: names))) f Hc Hs
                 (next_ok_events v11 es (allt names) Hok2)).
      rewrite (IHA (x :: names) roots _ f Hok2 Hw); [reflexivity|].
      pose proof (cbody_nonempty v11 s Hc Hs) as Hb.
      clear -Hf Hb. rewrite app_length in Hf. destruct (cbody v11 s); [congruence|]. cbn [length] in Hf. lia.
    - discriminate.
    - (* comment *)
      cbn [well_nested] in Hw. rewrite Pn, Sn in Hf |- *. cbn [app] in Hf |- *.
      change (60 :: 33 :: 45 :: 45 :: (s ++ [45; 45; 62]) ++ evs_units v11 es (allt names))
        with (([60; 33; 45; 45] ++ s ++ [45; 45; 62]) ++ evs_units v11 es (allt names)) in *.
      rewrite comment_form in *. rewrite (tokens_comment v11 s _ f He).
      rewrite (IHA names roots _ f Hok2 Hw); [reflexivity|].
      clear -Hf. cbn [length] in Hf. rewrite app_length in Hf. cbn [length] in Hf. lia.
    - (* processing instruction *)
      cbn [well_nested] in Hw. rewrite Pn, Sn in Hf |- *. cbn [app] in Hf |- *.
      change (60 :: 63 :: (t ++ match d with [] => [] | _ :: _ => [32] end ++ d ++ [63; 62]) ++
              evs_units v11 es (allt names))
        with (([60; 63] ++ t ++ match d with [] => [] | _ :: _ => [32] end ++ d ++ [63; 62]) ++
              evs_units v11 es (allt names)) in *.
      rewrite pi_form in *. rewrite (tokens_pi v11 t d _ f He).
      rewrite (IHA names roots _ f Hok2 Hw); [reflexivity|].
      clear -Hf. cbn [length] in Hf. rewrite !app_length in Hf. cbn [length] in Hf. lia. }
  split; [exact A|].
  intros n al names roots pt f Hn Hal Hok Hw Hf. destruct f as [|f]; [clear -Hf; lia|].
  destruct e as [n1 al1|m|s|s|s|t d].
  2:{ (* end tag: the empty-element form *)
    cbn [events_ok] in Hok. apply andb_true_iff in Hok. destruct Hok as [_ Hok2].
    cbn [map pev_of well_nested] in Hw. apply andb_true_iff in Hw. destruct Hw as [Hm Hw].
    apply list_eqb_eq in Hm. subst m.
    cbn [evs_units ev_units ev_st tl app map pev_of] in *.
    rewrite (tokens_start_empty v11 n al _ f Hn Hal).
    rewrite (IHA names roots _ f Hok2 Hw); [reflexivity|].
    clear -Hf. cbn [length] in Hf. rewrite !app_length in Hf. cbn [length] in Hf. lia. }
  3:{ cbn [events_ok event_ok andb] in Hok. discriminate Hok. }
  all: rewrite pending_units in * by reflexivity;
       rewrite (tokens_start_open v11 n al _ f Hn Hal);
       change (true :: allt names) with (allt (n :: names)) in *;
       rewrite (A (n :: names) roots pt f Hok Hw); [reflexivity|];
       clear -Hf; cbn [length] in Hf; rewrite !app_length in Hf; cbn [length] in Hf; lia.
Qed.

(* ---- 5. the XML declaration and the whole document ---------------------------------------------------- *)
Definition tpd_rest (l : list N) : option (list N) :=
  match take_pi_data l with Some (_, r) => Some r | None => None end.

Lemma strip_decl_xml : forall r, strip_decl (60 :: 63 :: 120 :: 109 :: 108 :: 32 :: r) = tpd_rest r.
Proof. reflexivity. Qed.

Lemma tpd_step : forall c l, starts_with [63; 62] (c :: l) = None -> tpd_rest (c :: l) = tpd_rest l.
Proof.
  intros c l H. unfold tpd_rest. cbn [take_pi_data]. rewrite H. destruct (take_pi_data l) as [[a b]|]; reflexivity.
Qed.

Lemma tpd_skip1 : forall c l, (c =? 63) = false -> tpd_rest (c :: l) = tpd_rest l.
Proof.
  intros c l H. apply tpd_step. cbn [starts_with]. rewrite N.eqb_sym, H. reflexivity.
Qed.

Lemma tpd_skip_str : forall v x rest, has_sub [63; 62] v = false -> (x =? 62) = false ->
  tpd_rest (v ++ x :: rest) = tpd_rest (x :: rest).
Proof.
  induction v as [|c v IH]; intros x rest Hs Hx; [reflexivity|].
  cbn [has_sub] in Hs. apply orb_false_iff in Hs. destruct Hs as [H1 H2].
  change ((c :: v) ++ x :: rest) with (c :: (v ++ x :: rest)). rewrite tpd_step; [exact (IH x rest H2 Hx)|].
  destruct v as [|d v].
  - cbn [app starts_with]. rewrite (N.eqb_sym 62 x), Hx. destruct (63 =? c); reflexivity.
  - cbn [app starts_with] in *. destruct (63 =? c); [|reflexivity]. destruct (62 =? d); [discriminate|reflexivity].
Qed.

Definition header_units (ver enc : list N) : list N :=
  [60; 63; 120; 109; 108; 32; 118; 101; 114; 115; 105; 111; 110; 61; 34] ++ ver ++
  [34; 32; 101; 110; 99; 111; 100; 105; 110; 103; 61; 34] ++ enc ++ [34; 63; 62].

Lemma header_payload : forall ver enc,
  payload (write_header fam_utf16 ver enc) = Ok (header_units ver enc).
Proof.
  intros ver enc. unfold write_header. cbn [f_const f_str fam_utf16].
  rewrite !payload_app, !payload_u16_block. reflexivity.
Qed.

Lemma strip_header : forall ver enc U, decl_string_ok ver = true -> decl_string_ok enc = true ->
  strip_decl (header_units ver enc ++ U) = Some U.
Proof.
  intros ver enc U Hv He. unfold decl_string_ok in *. apply negb_true_iff in Hv. apply negb_true_iff in He.
  unfold header_units. rewrite <- !app_assoc. cbn [app].
  rewrite strip_decl_xml. rewrite !tpd_skip1 by reflexivity.
  rewrite (tpd_skip_str ver 34 _ Hv eq_refl). rewrite !tpd_skip1 by reflexivity.
  rewrite (tpd_skip_str enc 34 _ He eq_refl). reflexivity.
Qed.

Theorem document_payload_utf16 : forall v11 ver enc es, events_ok v11 es false = true ->
  payload (document_items fam_utf16 v11 ver enc es) = Ok (header_units ver enc ++ evs_units v11 es []).
Proof.
  intros v11 ver enc es H. unfold document_items.
  rewrite !payload_app, header_payload, (events_payload v11 es false [] H). cbn [payload].
  rewrite app_nil_r. reflexivity.
Qed.

Theorem serialize_parse_utf16 : forall v11 ver enc es,
  tree_ok v11 es = true -> decl_string_ok ver = true -> decl_string_ok enc = true ->
  exists bs, payload (document_items fam_utf16 v11 ver enc es) = Ok bs /\
             parse_doc v11 bs = Some (map pev_of es).
Proof.
  intros v11 ver enc es Ht Hv He. unfold tree_ok in Ht. apply andb_true_iff in Ht. destruct Ht as [Hok Hw].
  exists (header_units ver enc ++ evs_units v11 es []). split; [exact (document_payload_utf16 v11 ver enc es Hok)|].
  unfold parse_doc. rewrite (strip_header ver enc _ Hv He).
  destruct (script_tokens v11 es) as [A _].
  pose proof (A [] 0%nat false (S (length (evs_units v11 es []))) Hok Hw (le_n _)) as HA.
  change (allt []) with (@nil bool) in HA. rewrite HA.
  rewrite Hw. reflexivity.
Qed.

(* the guard is satisfiable: a script with an attribute to escape, "]]>" in text, a surrogate pair, a
   comment, an empty element and a processing instruction *)
Example tree_ok_example : forall v11,
  tree_ok v11 [EStart [97] [([98], [60; 34; 38])]; EText [120; 93; 93; 62; 55357; 56832];
               EComment [99; 45; 100]; EStart [100; 58; 101] []; EEnd [100; 58; 101];
               EPI [112] [113; 63]; EEnd [97]] = true.
Proof. intros [|]; vm_compute; reflexivity. Qed.
