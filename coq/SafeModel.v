(* SafeModel.v — proofs for C03 over the generated facts (GenSafe.v) and the models of SafeDefs.v. *)
From Coq Require Import List NArith ZArith String Bool Lia ZifyBool ZifyNat ZifyN SpecFloat.
Require Import XV.GenSafe XV.GenNum XV.NumDefs XV.NumModel XV.Num7FmtDefs XV.SafeDefs.
Import ListNotations.

(* ---------------------------------------------------------------------------------------------
   census *)
Lemma census_ok_true : census_ok = true.
Proof. vm_compute. reflexivity. Qed.

Lemma census_complete_l : forall k, In k census_all -> exists a, In (k, a) allow_list.
Proof.
  intros k Hk. pose proof census_ok_true as H. unfold census_ok in H. rewrite forallb_forall in H.
  specialize (H k Hk). unfold audited in H. rewrite existsb_exists in H.
  destruct H as [[k' a] [Hin Heq]]. cbn [fst] in Heq. apply String.eqb_eq in Heq. subst k'.
  exists a. exact Hin.
Qed.

(* ---------------------------------------------------------------------------------------------
   digit loops *)
Lemma digit_loop_bound : forall k fuel base v,
  (2 <= base)%N -> (v < base ^ N.of_nat (S k))%N -> (S k <= fuel)%nat ->
  exists n, digit_loop fuel base v = Some n /\ (1 <= n <= S k)%nat.
Proof.
  induction k; intros fuel base v Hb Hv Hf.
  - destruct fuel; [lia|]. cbn [digit_loop].
    change (N.of_nat 1) with 1%N in Hv. rewrite N.pow_1_r in Hv.
    rewrite (N.div_small v base Hv). cbn. exists 1%nat. split; [reflexivity|lia].
  - destruct fuel; [lia|]. cbn [digit_loop]. destruct (v / base =? 0)%N eqn:E.
    + exists 1%nat. split; [reflexivity|lia].
    + assert (Hv' : (v / base < base ^ N.of_nat (S k))%N).
      { apply N.div_lt_upper_bound; [lia|].
        replace (N.of_nat (S (S k))) with (N.succ (N.of_nat (S k))) in Hv by lia.
        rewrite N.pow_succ_r' in Hv. exact Hv. }
      destruct (IHk fuel base (v / base)%N Hb Hv' ltac:(lia)) as [n [Hn Hle]].
      rewrite Hn. exists (S n). split; [reflexivity|lia].
Qed.

Lemma pow10_19 : (10 ^ N.of_nat 19 = 10000000000000000000)%N.
Proof. vm_compute. reflexivity. Qed.
Lemma pow10_20 : (10 ^ N.of_nat 20 = 100000000000000000000)%N.
Proof. vm_compute. reflexivity. Qed.
Lemma pow16_16 : (16 ^ N.of_nat 16 = 18446744073709551616)%N.
Proof. vm_compute. reflexivity. Qed.
Lemma two63 : (2 ^ 63 = 9223372036854775808)%Z.
Proof. reflexivity. Qed.
Lemma two64 : (2 ^ 64 = 18446744073709551616)%Z.
Proof. reflexivity. Qed.
Lemma two64N : (2 ^ 64 = 18446744073709551616)%N.
Proof. reflexivity. Qed.

Lemma scalar_dec_bound : forall v, (- 2 ^ 63 <= v < 2 ^ 64)%Z ->
  exists n, scalar_dec_chars v = Some n /\ (1 <= n <= 20)%nat.
Proof.
  intros v Hv. rewrite two63, two64 in Hv. unfold scalar_dec_chars. destruct (v <? 0)%Z eqn:E.
  - destruct (digit_loop_bound 18 64 10 (Z.to_N (- v))) as [n [Hn Hle]]; [lia| |lia|].
    + rewrite pow10_19. lia.
    + rewrite Hn. exists (S n). split; [reflexivity|lia].
  - destruct (digit_loop_bound 19 64 10 (Z.to_N v)) as [n [Hn Hle]]; [lia| |lia|].
    + rewrite pow10_20. lia.
    + exists n. split; [exact Hn|lia].
Qed.

Lemma scalar_hex_bound : forall v, (v < 2 ^ 64)%N ->
  exists n, scalar_hex_chars v = Some n /\ (1 <= n <= 16)%nat.
Proof.
  intros v Hv. rewrite two64N in Hv. unfold scalar_hex_chars.
  destruct (digit_loop_bound 15 64 16 v) as [n [Hn Hle]]; [lia| |lia|].
  - rewrite pow16_16. exact Hv.
  - exists n. split; [exact Hn|lia].
Qed.

Definition int_buffers_ok : bool :=
  forallb (fun se => (20 <=? snd se)%N && (snd se <? fst se)%N) int_dec_buffers &&
  forallb (fun se => (16 <=? snd se)%N && (snd se <? fst se)%N) int_hex_buffers &&
  (2 + 16 + 1 <=? pointer_buffer)%N &&
  negb (Nat.eqb (List.length int_dec_buffers) 0) && negb (Nat.eqb (List.length int_hex_buffers) 0).

Lemma int_buffers_ok_true : int_buffers_ok = true.
Proof. vm_compute. reflexivity. Qed.

(* stores go to indices e-1 ... e-n (n <= e: never below the array) and the terminator to e < size *)
Lemma buffer_bound_dec_l : forall size e v, In (size, e) int_dec_buffers -> (- 2 ^ 63 <= v < 2 ^ 64)%Z ->
  exists n, scalar_dec_chars v = Some n /\ (N.of_nat n <= e)%N /\ (e < size)%N.
Proof.
  intros size e v Hin Hv. pose proof int_buffers_ok_true as H. unfold int_buffers_ok in H.
  repeat rewrite andb_true_iff in H. destruct H as [[[[H1 _] _] _] _].
  rewrite forallb_forall in H1. specialize (H1 _ Hin). cbn [fst snd] in H1.
  destruct (scalar_dec_bound v Hv) as [n [Hn Hle]]. exists n. split; [exact Hn|]. lia.
Qed.

Lemma buffer_bound_hex_l : forall size e v, In (size, e) int_hex_buffers -> (v < 2 ^ 64)%N ->
  exists n, scalar_hex_chars v = Some n /\ (N.of_nat n <= e)%N /\ (e < size)%N.
Proof.
  intros size e v Hin Hv. pose proof int_buffers_ok_true as H. unfold int_buffers_ok in H.
  repeat rewrite andb_true_iff in H. destruct H as [[[[_ H2] _] _] _].
  rewrite forallb_forall in H2. specialize (H2 _ Hin). cbn [fst snd] in H2.
  destruct (scalar_hex_bound v Hv) as [n [Hn Hle]]. exists n. split; [exact Hn|]. lia.
Qed.

(* sprintf("%p"): "0x" and at most 16 hexadecimal digits of a 64-bit pointer, plus the terminator *)
Lemma pointer_buffer_fits_l : forall v, (v < 2 ^ 64)%N ->
  exists n, scalar_hex_chars v = Some n /\ (2 + N.of_nat n + 1 <= pointer_buffer)%N.
Proof.
  intros v Hv. pose proof int_buffers_ok_true as H. unfold int_buffers_ok in H.
  repeat rewrite andb_true_iff in H. destruct H as [[[_ H3] _] _].
  destruct (scalar_hex_bound v Hv) as [n [Hn Hle]]. exists n. split; [exact Hn|]. lia.
Qed.

(* ---------------------------------------------------------------------------------------------
   double conversions: C18's printf_fits_lemma, applied to every buffer of the census *)
Definition dbl_buffers_ok : bool :=
  forallb (fun ns => Nat.leb printf_buffer_bytes (snd ns)) dbl_buffers &&
  (if list_eq_dec Nat.eq_dec safe_printf_precisions printf_precisions then true else false) &&
  negb (Nat.eqb (List.length dbl_buffers) 0).

Lemma dbl_buffers_ok_true : dbl_buffers_ok = true.
Proof. vm_compute. reflexivity. Qed.

Lemma buffer_bound_double_l : forall x p name size,
  valid_binary prec emax x = true -> In p safe_printf_precisions -> In (name, size) dbl_buffers ->
  (printf_bytes p x <= size)%nat.
Proof.
  intros x p name size Hx Hp Hin. pose proof dbl_buffers_ok_true as H. unfold dbl_buffers_ok in H.
  repeat rewrite andb_true_iff in H. destruct H as [[H1 H2] _].
  rewrite forallb_forall in H1. specialize (H1 _ Hin). cbn [snd] in H1. apply Nat.leb_le in H1.
  destruct (list_eq_dec Nat.eq_dec safe_printf_precisions printf_precisions) as [H2'|]; [|discriminate]. rewrite H2' in Hp.
  pose proof (printf_fits_lemma x p Hx Hp). lia.
Qed.

(* ---------------------------------------------------------------------------------------------
   atof stack buffer *)
Lemma atof_guarded_l : forall len, atof_guard len atof_buffer = true ->
  forall i, atof_written i len -> (i < atof_buffer)%N.
Proof.
  unfold atof_guard, atof_written, atof_loop_test, atof_buffer. intros len H i [Hi|Hi]; lia.
Qed.

(* ---------------------------------------------------------------------------------------------
   writers: every guarded store run fits *)
Lemma run_indices_lt : forall size r n, (n <= r)%N -> (r <= size)%N ->
  forallb (fun i => (i <? size)%N) (run_indices size r n) = true.
Proof.
  intros size r n Hn Hr. unfold run_indices. apply forallb_forall. intros i Hi.
  apply in_map_iff in Hi. destruct Hi as [j [Hj Hin]]. apply in_seq in Hin. subst i.
  apply N.ltb_lt. lia.
Qed.

Lemma guarded_run_fits : forall size k n d r, (n <= k)%N -> (d = n)%N -> (k <= size)%N -> (r <= size)%N ->
  exists r2, guarded_run size k n d r = Some r2 /\ (r2 <= size)%N /\
             (size - r2 = size - (if (r <? k)%N then size else r) + n)%N.
Proof.
  intros size k n d r Hn Hd Hk Hr. unfold guarded_run. subst d.
  destruct (r <? k)%N eqn:E.
  - rewrite (run_indices_lt size size n) by lia. replace (n <=? size)%N with true by (symmetry; apply N.leb_le; lia).
    cbn. eexists. split; [reflexivity|]. lia.
  - rewrite (run_indices_lt size r n) by lia. replace (n <=? r)%N with true by (symmetry; apply N.leb_le; lia).
    cbn. eexists. split; [reflexivity|]. lia.
Qed.

Definition writer_runs_ok : bool :=
  forallb (fun e => match e with (cls, k, n, d) => (n <=? k)%N && (d =? n)%N && (k <=? writer_size cls)%N && (1 <=? n)%N end) writer_runs &&
  negb (Nat.eqb (List.length writer_runs) 0) &&
  forallb (fun e => (1 <=? writer_size (fst e))%N) writer_length_runs.

Lemma writer_runs_ok_true : writer_runs_ok = true.
Proof. vm_compute. reflexivity. Qed.

Lemma writer_runs_fit_l : forall cls k n d, In (cls, k, n, d) writer_runs ->
  forall r, (r <= writer_size cls)%N ->
  exists r2, guarded_run (writer_size cls) k n d r = Some r2 /\ (r2 <= writer_size cls)%N.
Proof.
  intros cls k n d Hin r Hr. pose proof writer_runs_ok_true as H. unfold writer_runs_ok in H.
  repeat rewrite andb_true_iff in H. destruct H as [[H _] _]. rewrite forallb_forall in H.
  specialize (H _ Hin). cbn beta iota in H. repeat rewrite andb_true_iff in H. destruct H as [[[H1 H2] H3] _].
  destruct (guarded_run_fits (writer_size cls) k n d r) as [r2 [E [L _]]]; try lia.
  exists r2. split; assumption.
Qed.

(* a run guarded by its own length: k = n = d = len, for every len the buffer can hold *)
Lemma writer_length_runs_fit_l : forall cls how, In (cls, how) writer_length_runs ->
  forall len r, (len <= writer_size cls)%N -> (r <= writer_size cls)%N ->
  exists r2, guarded_run (writer_size cls) len len len r = Some r2 /\ (r2 <= writer_size cls)%N.
Proof.
  intros cls how _ len r Hl Hr.
  destruct (guarded_run_fits (writer_size cls) len len len r) as [r2 [E [L _]]]; try lia.
  exists r2. split; assumption.
Qed.

(* ---------------------------------------------------------------------------------------------
   tokenizer quote scans *)
Lemma quote_scan_l : forall name test, In (name, test) quote_scan_tests ->
  forall fuel quote pat i n k, In k (scan_reads fuel test quote pat i n) -> (k < n)%N.
Proof.
  intros name test Hin.
  assert (Ht : forall a b, test a b = true -> (a < b)%N).
  { cbn in Hin. repeat (destruct Hin as [Hin|Hin]; [inversion Hin; subst; intros a b H; lia|]). destruct Hin. }
  induction fuel; intros quote pat i n k Hk; cbn [scan_reads] in Hk; [destruct Hk|].
  destruct (test i n) eqn:E; [|destruct Hk]. destruct Hk as [Hk|Hk]; [subst; apply Ht; exact E|].
  destruct (pat i =? quote)%N; [destruct Hk|]. eapply IHfuel. exact Hk.
Qed.

(* ---------------------------------------------------------------------------------------------
   int2alphaCount *)
Lemma alpha_loop_len : forall fuel radix j val li corr acc l,
  (2 <= radix)%N -> (val < radix ^ N.of_nat (S j))%N ->
  alpha_loop fuel radix val li corr acc = Some l -> (List.length l <= List.length acc + S j)%nat.
Proof.
  induction fuel; intros radix j val li corr acc l Hr Hv H.
  - cbn in H. discriminate.
  - cbn [alpha_loop] in H. cbv zeta in H.
    match type of H with context [if ?c then Some acc else _] => destruct c eqn:E1 end.
    + inversion H. subst. lia.
    + match type of H with context [if ?c then alpha_loop _ _ _ _ _ _ else _] => destruct c eqn:E2 end.
      * destruct j.
        { change (N.of_nat 1) with 1%N in Hv. rewrite N.pow_1_r in Hv.
          rewrite (N.div_small val radix Hv) in E2. cbn in E2. discriminate. }
        { assert (Hv' : (val / radix < radix ^ N.of_nat (S j))%N).
          { apply N.div_lt_upper_bound; [lia|].
            replace (N.of_nat (S (S j))) with (N.succ (N.of_nat (S j))) in Hv by lia.
            rewrite N.pow_succ_r' in Hv. exact Hv. }
          specialize (IHfuel radix j _ _ _ _ _ Hr Hv' H). cbn [List.length] in IHfuel. lia. }
      * inversion H. subst. cbn [List.length]. lia.
Qed.

Lemma alpha_loop_some : forall f radix val li corr acc,
  (2 <= radix)%N -> (val < 2 ^ N.of_nat f)%N -> exists l, alpha_loop (S f) radix val li corr acc = Some l.
Proof.
  induction f; intros radix val li corr acc Hr Hv.
  - change (N.of_nat 0) with 0%N in Hv. rewrite N.pow_0_r in Hv. assert (val = 0%N) by lia. subst.
    cbn [alpha_loop]. cbv zeta. rewrite (N.div_small 0 radix) by lia.
    match goal with |- context [if ?c then Some acc else _] => destruct c end; [eauto|].
    change (0 <? 0)%N with false. cbv iota. eauto.
  - remember (S f) as g eqn:G. cbn [alpha_loop]. cbv zeta.
    match goal with |- context [if ?c then Some acc else _] => destruct c eqn:E1 end; [eauto|].
    match goal with |- context [if ?c then alpha_loop _ _ _ _ _ _ else _] => destruct c eqn:E2 end; [|eauto].
    subst g. apply IHf; [exact Hr|]. apply N.div_lt_upper_bound; [lia|].
    replace (N.of_nat (S f)) with (N.succ (N.of_nat f)) in Hv by lia. rewrite N.pow_succ_r' in Hv. nia.
Qed.

Definition alpha_ok : bool :=
  forallb (fun nr => (25 <=? snd nr)%N) alpha_radixes &&
  (2 ^ count_type_bits <=? 25 ^ 14)%N &&
  (14 <=? alpha_first_index + 1)%N && (alpha_first_index <? alpha_buf_size)%N &&
  negb (Nat.eqb (List.length alpha_radixes) 0).

Lemma alpha_ok_true : alpha_ok = true.
Proof. vm_compute. reflexivity. Qed.

(* k stores use the indices alpha_first_index, alpha_first_index - 1, ...: all of them exist when
   k <= alpha_first_index + 1 and alpha_first_index < alpha_buf_size *)
Lemma int2alpha_fits_l : forall name radix val, In (name, radix) alpha_radixes -> (val < 2 ^ count_type_bits)%N ->
  exists ix, alpha_indices radix val = Some ix /\ (List.length ix <= 14)%nat /\
             (N.of_nat (List.length ix) <= alpha_first_index + 1)%N /\ (alpha_first_index < alpha_buf_size)%N.
Proof.
  intros name radix val Hin Hv. pose proof alpha_ok_true as H. unfold alpha_ok in H.
  repeat rewrite andb_true_iff in H. destruct H as [[[[H1 H2] H3] H4] _].
  rewrite forallb_forall in H1. specialize (H1 _ Hin). cbn [snd] in H1.
  assert (Hr : (2 <= radix)%N) by lia.
  unfold alpha_indices, alpha_fuel.
  destruct (alpha_loop_some (N.to_nat (N.size val)) radix val 1 0 [] Hr) as [l Hl].
  { rewrite N2Nat.id. apply N.size_gt. }
  exists l. split; [exact Hl|].
  assert (Hlen : (List.length l <= 14)%nat).
  { apply (alpha_loop_len _ radix 13 val 1%N 0%N [] l Hr) in Hl; [cbn [List.length] in Hl; lia|].
    apply N.lt_le_trans with (2 ^ count_type_bits)%N; [exact Hv|].
    apply N.le_trans with (25 ^ 14)%N; [lia|].
    change (N.of_nat 14) with 14%N. apply N.pow_le_mono_l. lia. }
  split; [exact Hlen|]. split; lia.
Qed.

(* ---------------------------------------------------------------------------------------------
   conflicts array *)
Lemma NoDup_snoc : forall (A : Type) (l : list A) x, NoDup l -> ~ In x l -> NoDup (l ++ [x]).
Proof.
  induction l; intros x Hn Hx; cbn.
  - constructor; [intros []|constructor].
  - inversion Hn; subst. constructor.
    + rewrite in_app_iff. cbn. intros [H|[H|[]]]; [contradiction|]. subst. apply Hx. left. reflexivity.
    + apply IHl; [assumption|]. intros H. apply Hx. right. exact H.
Qed.

Section ConflictsProof.
  Variable prio : N -> Z.
  Variable none_prio : Z.

  Definition cinv (seen : list N) (st : cstate) : Prop :=
    incl (conf st) seen /\ NoDup (conf st) /\ (forall b, best st = Some b -> In b seen) /\
    (best st = None -> conf st = []).

  Lemma cstep_inv : forall seen st p, cinv seen st -> ~ In p seen -> (none_prio < prio p)%Z ->
    cinv (seen ++ [p]) (cstep prio none_prio st p).
  Proof.
    intros seen st p [Hi [Hn [Hb He]]] Hp Hpr. unfold cstep.
    destruct (prio p >? _)%Z eqn:E1.
    - unfold cinv. cbn. split; [intros x []|]. split; [constructor|]. split; [|discriminate].
      intros b Hb'. inversion Hb'. subst. rewrite in_app_iff. right. left. reflexivity.
    - destruct (prio p =? _)%Z eqn:E2.
      + destruct (best st) as [b|] eqn:B; [|lia].
        specialize (Hb b eq_refl).
        assert (Hsub : incl (add_if_not_found (Some b) (conf st)) seen /\ NoDup (add_if_not_found (Some b) (conf st))).
        { unfold add_if_not_found. destruct (existsb (N.eqb b) (conf st)) eqn:Ex; [split; assumption|].
          split.
          - intros x Hx. rewrite in_app_iff in Hx. destruct Hx as [Hx|[Hx|[]]]; [apply Hi; exact Hx|subst; exact Hb].
          - apply NoDup_snoc; [exact Hn|]. intros Hin.
            assert (existsb (N.eqb b) (conf st) = true) by (apply existsb_exists; exists b; split; [exact Hin|apply N.eqb_refl]).
            congruence. }
        destruct Hsub as [Hs1 Hs2].
        unfold cinv. cbn [best conf]. split; [|split; [|split; [|discriminate]]].
        * intros x Hx. rewrite in_app_iff in Hx. rewrite in_app_iff. destruct Hx as [Hx|[Hx|[]]].
          { left. apply Hs1. exact Hx. } { right. left. exact Hx. }
        * apply NoDup_snoc; [exact Hs2|]. intros Hin. apply Hp. apply Hs1. exact Hin.
        * intros b' Hb'. inversion Hb'. subst. rewrite in_app_iff. right. left. reflexivity.
      + unfold cinv. split; [|split; [|split]].
        * intros x Hx. rewrite in_app_iff. left. apply Hi. exact Hx.
        * exact Hn.
        * intros b Hb'. rewrite in_app_iff. left. apply Hb. exact Hb'.
        * exact He.
  Qed.

  Lemma crun_inv : forall visited seen st, cinv seen st -> NoDup (seen ++ visited) ->
    (forall p, In p visited -> (none_prio < prio p)%Z) ->
    cinv (seen ++ visited) (fold_left (cstep prio none_prio) visited st).
  Proof.
    induction visited as [|p visited IH]; intros seen st Hinv Hnd Hpr.
    - cbn. rewrite app_nil_r. exact Hinv.
    - cbn [fold_left].
      assert (Hp : ~ In p seen).
      { apply NoDup_remove_2 in Hnd. intros H. apply Hnd. rewrite in_app_iff. left. exact H. }
      replace (seen ++ p :: visited) with ((seen ++ [p]) ++ visited) in * by (rewrite <- app_assoc; reflexivity).
      apply IH.
      + apply cstep_inv; [exact Hinv|exact Hp|]. apply Hpr. left. reflexivity.
      + exact Hnd.
      + intros q Hq. apply Hpr. right. exact Hq.
  Qed.

  Lemma conflicts_len : forall visited, NoDup visited -> (forall p, In p visited -> (none_prio < prio p)%Z) ->
    (List.length (conf (crun prio none_prio visited)) <= List.length visited)%nat.
  Proof.
    intros visited Hnd Hpr. unfold crun.
    assert (Hinit : cinv [] {| best := None; conf := [] |}).
    { unfold cinv. cbn. split; [intros x []|]. split; [constructor|]. split; [discriminate|reflexivity]. }
    pose proof (crun_inv visited [] _ Hinit Hnd Hpr) as [Hi [Hn _]]. cbn [app] in Hi.
    apply NoDup_incl_length; assumption.
  Qed.
End ConflictsProof.

(* capacity of the storage findTemplate selects for m_patternCount = count *)
Definition conflicts_capacity (count : N) : N :=
  if conflicts_use_vector count conflicts_array then count else conflicts_array.

Lemma conflicts_bound_l : forall prio none_prio visited count,
  NoDup visited -> (forall p, In p visited -> (none_prio < prio p)%Z) ->
  (N.of_nat (List.length visited) <= count)%N ->
  (N.of_nat (List.length (conf (crun prio none_prio visited))) <= conflicts_capacity count)%N.
Proof.
  intros prio none_prio visited count Hnd Hpr Hc.
  pose proof (conflicts_len prio none_prio visited Hnd Hpr) as Hl.
  unfold conflicts_capacity, conflicts_use_vector, conflicts_array.
  match goal with |- context [if ?c then _ else _] => destruct c eqn:E end; lia.
Qed.

(* ---------------------------------------------------------------------------------------------
   catch tables *)
Lemma rows_ok_true : forallb row_ok catch_table = true.
Proof. vm_compute. reflexivity. Qed.

Lemma status_table_total_l : forall r, In r catch_table ->
  row_status r <> 0%Z /\ (in_transformer r = true -> row_sources r <> []).
Proof.
  intros r Hr. pose proof rows_ok_true as H. rewrite forallb_forall in H. specialize (H r Hr).
  unfold row_ok in H. apply andb_true_iff in H. destruct H as [H1 H2]. split; [lia|].
  intros Ht. rewrite Ht in H2. destruct (row_sources r); [discriminate|discriminate].
Qed.

Definition clauses_complete : bool :=
  forallb (fun fn => forallb (has_clause fn) caught_classes) transformer_functions.

Lemma clauses_complete_true : clauses_complete = true.
Proof. vm_compute. reflexivity. Qed.

Lemma catch_complete_l : forall fn e, In fn transformer_functions -> In e caught_classes ->
  exists st srcs, In (fn, e, st, srcs) catch_table /\ st <> 0%Z /\ srcs <> [].
Proof.
  intros fn e Hfn He. pose proof clauses_complete_true as H. unfold clauses_complete in H.
  rewrite forallb_forall in H. specialize (H fn Hfn). rewrite forallb_forall in H. specialize (H e He).
  unfold has_clause in H. rewrite existsb_exists in H. destruct H as [[[[f e'] st] srcs] [Hin Hc]].
  repeat rewrite andb_true_iff in Hc. destruct Hc as [[Hf He'] Hok].
  unfold row_fn, row_exc in Hf, He'. cbn [fst snd] in Hf, He'.
  apply String.eqb_eq in Hf. apply String.eqb_eq in He'. subst f e'.
  exists st, srcs. split; [exact Hin|].
  destruct (status_table_total_l _ Hin) as [Hs Hm]. split; [exact Hs|]. apply Hm.
  unfold in_transformer, row_fn. cbn [fst]. apply existsb_exists. exists fn. split; [exact Hfn|apply String.eqb_refl].
Qed.

Definition uncaught_ok : bool :=
  forallb (fun fn => forallb (fun e => negb (existsb (String.eqb e) (clauses_of fn))) uncaught_classes) transformer_functions.

Lemma uncaught_ok_true : uncaught_ok = true.
Proof. vm_compute. reflexivity. Qed.

Lemma uncaught_l : forall fn e, In fn transformer_functions -> In e uncaught_classes -> ~ In e (clauses_of fn).
Proof.
  intros fn e Hfn He Hin. pose proof uncaught_ok_true as H. unfold uncaught_ok in H.
  rewrite forallb_forall in H. specialize (H fn Hfn). rewrite forallb_forall in H. specialize (H e He).
  apply negb_true_iff in H.
  assert (existsb (String.eqb e) (clauses_of fn) = true) by (apply existsb_exists; exists e; split; [exact Hin|apply String.eqb_refl]).
  congruence.
Qed.

Lemma derived_first_l : forall fn, In fn transformer_functions -> derived_first fn = true.
Proof.
  assert (H : forallb derived_first transformer_functions = true) by (vm_compute; reflexivity).
  intros fn Hfn. rewrite forallb_forall in H. exact (H fn Hfn).
Qed.

(* ---------------------------------------------------------------------------------------------
   casts *)
Lemma cast_substring_start_l : forall r len, (0 <= len < 2 ^ 64)%Z -> (0 < r)%Z ->
  substring_start_casts r len = true -> in_uint64 r.
Proof. unfold substring_start_casts, in_uint64. intros. rewrite two64 in *. lia. Qed.

Lemma cast_substring_length_l : forall l maxlen, (0 <= maxlen < 2 ^ 64 - 1)%Z -> (0 < l)%Z ->
  substring_length_casts l maxlen = true -> in_uint64 l.
Proof. unfold substring_length_casts, in_uint64. intros. rewrite two64 in *. lia. Qed.

Lemma cast_predicate_l : forall x len, (0 <= len < 2 ^ 64)%Z -> predicate_casts x len = true -> in_uint64 x.
Proof. unfold predicate_casts, in_uint64. intros. rewrite two64 in *. lia. Qed.

Lemma cast_count_l : forall x, count_casts x = true -> in_uint64 x.
Proof. unfold count_casts, in_uint64. intros. rewrite two64 in *. lia. Qed.

Lemma cast_int64_l : forall x, int64_casts x = true -> in_int64 x.
Proof. unfold int64_casts, in_int64. intros. rewrite two63 in *. lia. Qed.

Lemma cast_padding_l : forall l, padding_casts l = true -> in_uint64 l.
Proof. unfold padding_casts, in_uint64. intros. rewrite two64 in *. lia. Qed.

Lemma math_constant_index_l : forall p size, (0 < p)%Z -> (0 < size)%Z ->
  (0 <= math_constant_index p size < size)%Z.
Proof. unfold math_constant_index. intros. destruct (p <? size)%Z eqn:E; lia. Qed.
