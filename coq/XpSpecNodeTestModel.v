(* XpSpecNodeTestModel.v — the node tests as coded (XpDefs.test_node, XPath::NodeTester) decide the
   declarative node test of XPath 1.0 section 2.3 (XpSpecDenDefs.node_test_denotes), on every axis
   other than the namespace axis (K21) and for every XPath 1.0 name test ("*:name" excluded).
   Well-formedness of the node table is used for the '/' step only (the document node is node 0). *)
From Coq Require Import ZArith NArith List Bool Arith.
Require Import XV.XpAst XV.DomDefs XV.XpDefs XV.XpModel XV.XpSpecDefs XV.XpSpecDenDefs.
Import ListNotations.

Lemma nkind_eqb_iff a b : nkind_eqb a b = true <-> a = b.
Proof. destruct a, b; cbn; split; intro H; try reflexivity; discriminate H. Qed.

Lemma nkind_eqb_false_iff a b : nkind_eqb a b = false <-> a <> b.
Proof. destruct a, b; cbn; split; intro H; try reflexivity; try discriminate; try (exfalso; apply H; reflexivity). Qed.

Lemma is_nil_iff (s : str) : (match s with [] => true | _ :: _ => false end) = true <-> s = [].
Proof. destruct s; split; intro H; try reflexivity; discriminate H. Qed.

Ltac to_prop :=
  repeat (rewrite ?andb_true_iff, ?orb_true_iff, ?negb_true_iff, ?nkind_eqb_iff,
            ?nkind_eqb_false_iff, ?str_eqb_eq, ?is_nil_iff).

Theorem test_node_correct : forall (c : ctx) (ax : axis) (t : ntest) (n : nat),
  wfd (cx_doc c) -> n < length (cx_doc c) -> ax <> AxNamespace ->
  match t with TName NsAny _ => False | _ => True end ->
  (test_node c ax t n = true <-> node_test_denotes (cx_doc c) (cx_strip c) ax t n).
Proof.
  intros c ax t n Hwf Hn Hax Hns.
  unfold test_node, node_test_denotes, in_tree, local_part.
  destruct t as [ | | [tg | ] | | ns local | ].
  - (* comment() *) to_prop. tauto.
  - (* text() *)
    to_prop. destruct (cx_strip c (cx_doc c) n); intuition congruence.
  - (* processing-instruction('tg') *) to_prop. tauto.
  - (* processing-instruction() *) to_prop. tauto.
  - (* node() *)
    destruct ax; try congruence; to_prop;
      (destruct (nkind_eqb (n_kind (get (cx_doc c) n)) KText) eqn:Ek;
       [ apply nkind_eqb_iff in Ek | apply nkind_eqb_false_iff in Ek ]);
      destruct (cx_strip c (cx_doc c) n); intuition congruence.
  - (* name tests *)
    destruct ns as [ | | u]; [ | destruct Hns | ]; destruct local as [l | ];
      destruct ax; try congruence; cbn [principal_kind]; to_prop; intuition congruence.
  - (* the '/' step *)
    to_prop. apply (wd_doc _ Hwf n Hn).
Qed.

Lemma test_node_reflect : forall c ax t n, wfd (cx_doc c) -> n < length (cx_doc c) -> ax <> AxNamespace ->
  match t with TName NsAny _ => False | _ => True end ->
  (test_node c ax t n = false <-> ~ node_test_denotes (cx_doc c) (cx_strip c) ax t n).
Proof.
  intros c ax t n Hwf Hn Hax Hns.
  pose proof (test_node_correct c ax t n Hwf Hn Hax Hns) as H.
  destruct (test_node c ax t n); split; intro H1.
  - discriminate H1.
  - exfalso. apply H1, H. reflexivity.
  - intro H2. apply H in H2. discriminate H2.
  - reflexivity.
Qed.

Print Assumptions test_node_correct.
Print Assumptions test_node_reflect.
