(* C07 (thr family) — definitions only.
   Part A: the AUDITED allow-list for the generated census of direct shared-write capabilities
           (coq/GenThr.v, regenerated from /repo on every run by translator/gen_thr.py).
   Part B: the interleaving model: N threads, each stepping an abstract XSLT interpreter over
           (shared: compiled stylesheet, source documents, process-wide tables) +
           (per-thread context: variables, key tables, counters, document cache, collator and
           decimal-format caches, output).
   Part C: the string-pool model (XalanDOMStringPool::get vs XercesLiaisonXalanDOMStringPool::get). *)
From Coq Require Import String List Bool Arith ZArith.
Require Import XV.GenThr.
Import ListNotations.
Open Scope string_scope.

(* ------------------------------------------------------------------------------------------ *)
(* Part A — audit *)

Inductive verdict :=
| ConstructionOnly   (* written only while the object is built/destroyed, i.e. before it is shared *)
| InitOnly           (* process-wide; written only by initialize()/terminate() (documented: once, single-threaded) *)
| ConfigAPI          (* static configuration/installation API documented as not thread safe; never called by a transformation *)
| Locked             (* written only under a lock (named in the justification) *)
| ModeGuarded        (* written after construction only in a mode documented as NOT shareable (named in the justification) *)
| PerThread          (* instances are owned by one transformer / execution context / evaluation; not reachable from shared state *)
| NonConstPath       (* inside a non-const member function: needs a non-const reference, which transformations do not hold for shared objects *)
| LazyGuarded        (* a lazy write behind a const accessor whose reachable call sites are censused separately (census_constlookup) and all audited as non-shared-write *)
| ReadOnly           (* the site does not write (cast adds const, value only read, placeholder never written) *)
| SharedWrite.       (* a write to state shared between transforming threads: a FINDING *)

Definition verdict_ok (v : verdict) : bool := match v with SharedWrite => false | _ => true end.

(* classes all of whose instances are per-thread or construction-time only; entries of the census
   in these classes are justified wholesale (so a new `mutable` in one of them stays quiet) *)
Definition class_audit : list (string * verdict * string) :=
  [ ("StylesheetExecutionContextDefault", PerThread, "one per XalanTransformer (m_stylesheetExecutionContext); holds key tables, counters, variables, formatters");
    ("XPathExecutionContextDefault", PerThread, "member of the per-transformer StylesheetExecutionContextDefault");
    ("StylesheetConstructionContextDefault", ConstructionOnly, "used while compiling; a transformation never receives it");
    ("ICUBridgeCollationCompareFunctorImpl", PerThread, "created in XalanTransformer::XalanTransformer and installed in that transformer's execution context; the collator cache is per transformer");
    ("ICUFormatNumberFunctor", PerThread, "created in XalanTransformer::XalanTransformer, installed in that transformer's execution context");
    ("XalanEncodingPropertyCache", PerThread, "member of the transcoding writers of a per-transformation FormatterListener");
    ("XalanTranscodingServices::MakeTranscoderException", PerThread, "exception object");
    ("XalanTranscodingServices::UnrepresentableCharacterException", PerThread, "exception object");
    ("ElementPrefixResolverProxy", PerThread, "stack temporary created per evaluation / per compile step");
    ("XNodeSetBase", PerThread, "XObjects are produced by the per-context XObjectFactory; compiled expressions hold XToken only");
    ("XNumber", PerThread, "as XNodeSetBase");
    ("XStringBase", PerThread, "as XNodeSetBase; ElemVariable::m_value is never set, so no XString lives in a compiled stylesheet");
    ("XResultTreeFrag", PerThread, "as XNodeSetBase");
    ("XObjectResultTreeFragProxy", PerThread, "member of a per-thread XStringBase");
    ("XObjectFactory", PerThread, "per execution context / per construction context");
    ("XalanDocumentFragmentNodeRefListBaseProxy", PerThread, "proxy over a result tree fragment of one execution");
    ("FormatterTreeWalker", PerThread, "stack object of one serialisation");
    ("XercesDOMWalker", PerThread, "stack object of one walk");
    ("XalanDocumentPrefixResolver::NamespaceNodesTreeWalker", PerThread, "stack object of one resolver construction");
    ("XSLTEngineImpl", PerThread, "one per transformation (XalanTransformer::doTransform)") ].

Definition mutable_audit : list ((string * string * string) * verdict * string) :=
  [ (("XPath/XObject.hpp", "XObject", "m_memoryManager"), ConstructionOnly, "assigned only in the three constructors (XObject.cpp); XToken (shared) inherits it but no const member writes it");
    (("XercesParserLiaison/XercesDocumentWrapper.hpp", "XercesDocumentWrapper", "m_attributeAllocator"), ModeGuarded, "createWrapperNode: after construction only while m_mappingMode (buildWrapper=false, documented as not shareable, XercesDocumentWrapper.hpp:88)");
    (("XercesParserLiaison/XercesDocumentWrapper.hpp", "XercesDocumentWrapper", "m_doctype"), ModeGuarded, "as m_attributeAllocator");
    (("XercesParserLiaison/XercesDocumentWrapper.hpp", "XercesDocumentWrapper", "m_elementAllocator"), ModeGuarded, "as m_attributeAllocator");
    (("XercesParserLiaison/XercesDocumentWrapper.hpp", "XercesDocumentWrapper", "m_navigatorAllocator"), ModeGuarded, "as m_attributeAllocator");
    (("XercesParserLiaison/XercesDocumentWrapper.hpp", "XercesDocumentWrapper", "m_nodeMap"), ModeGuarded, "as m_attributeAllocator (mapNode adds entries only in mapping mode)");
    (("XercesParserLiaison/XercesDocumentWrapper.hpp", "XercesDocumentWrapper", "m_nodes"), ModeGuarded, "as m_attributeAllocator");
    (("XercesParserLiaison/XercesDocumentWrapper.hpp", "XercesDocumentWrapper", "m_textAllocator"), ModeGuarded, "as m_attributeAllocator");
    (("XercesParserLiaison/XercesLiaisonXalanDOMStringPool.hpp", "XercesLiaisonXalanDOMStringPool", "m_mutex"), Locked, "the mutex itself: get()/clear()/size() take it around the unsynchronised base-class pool") ].

Definition constcast_audit : list ((string * string * string * string * nat) * verdict * string) :=
  [ (("Include/STLHelper.hpp", "XalanDestroyFunctor", "XalanDestroyFunctor::operator", "Type*", 2), ConstructionOnly, "destruction of an owned object");
    (("Include/XalanAutoPtr.hpp", "XalanAutoPtr", "XalanAutoPtr::XalanAutoPtr", "XalanAutoPtr<Type>&", 1), ConstructionOnly, "auto_ptr-style ownership transfer in the copy constructor; shared objects are not copied by transformations");
    (("Include/XalanDeque.hpp", "XalanDeque", "XalanDeque::begin const", "XalanDeque*", 1), ReadOnly, "forwards to the non-const begin(), which only builds an iterator");
    (("Include/XalanDeque.hpp", "XalanDeque", "XalanDeque::end const", "XalanDeque*", 1), ReadOnly, "forwards to the non-const end(), which only builds an iterator");
    (("Include/XalanList.hpp", "XalanList", "XalanList::getListHead const", "XalanList*", 1), LazyGuarded, "forwards to the non-const getListHead(), which ALLOCATES and stores m_listHead when the list was never used (the head cannot be allocated in the constructor: static containers are built with the throwing dummy memory manager); reached from begin()/end() const, hence XalanMap/XalanSet begin()/end()/find() const. Every const lookup on a container data member is listed in census_constlookup and audited in constlookup_audit: on shared objects each is guarded by empty() (XalanSourceTreeDocument::getElementById/getUnparsedEntityURI, was finding KT2, fixed 24f879b; NamespacesHandler::getNamespaceAlias), primed/populated before sharing, or compile-time only");
    (("Include/XalanMap.hpp", "XalanMap", "XalanMap::begin const", "XalanMap*", 1), ReadOnly, "forwards to non-const begin(); the only write below it is XalanList::getListHead (audited there)");
    (("Include/XalanMap.hpp", "XalanMap", "XalanMap::doCreateEntry", "key_type*", 1), NonConstPath, "in-place construction of the key of a new entry; doCreateEntry is a non-const member (insert / operator[])");
    (("Include/XalanMap.hpp", "XalanMap", "XalanMap::end const", "XalanMap*", 1), ReadOnly, "forwards to non-const end(); the only write below it is XalanList::getListHead (audited there)");
    (("Include/XalanMap.hpp", "XalanMap", "XalanMap::find const", "XalanMap*", 1), ReadOnly, "forwards to non-const find(), which only reads buckets; returns end() (see XalanMap::end const)");
    (("Include/XalanMemMgrAutoPtr.hpp", "XalanMemMgrAutoPtr", "XalanMemMgrAutoPtr::XalanMemMgrAutoPtr", "XalanMemMgrAutoPtr<Type>&", 1), ConstructionOnly, "ownership transfer in the copy constructor");
    (("XPath/XPathEnvSupportDefault.cpp", "XPathEnvSupportDefault", "XPathEnvSupportDefault::updateFunctionTable", "Function*", 1), ConfigAPI, "install/uninstall of extension functions (global table: before threads start; local table: per-transformer support object)");
    (("XPath/XPathEnvSupportDefault.cpp", "XPathEnvSupportDefault::NamespaceFunctionTableDeleteFunctor", "XPathEnvSupportDefault::NamespaceFunctionTableDeleteFunctor::operator", "Function*", 1), ConfigAPI, "deletes installed functions at terminate()/destruction");
    (("XPath/XPathFactoryDefault.cpp", "XPathFactoryDefault", "XPathFactoryDefault::doReturnObject", "XPath*", 1), ConstructionOnly, "deletes an XPath owned by the factory; called by reset()/destructor, not by transformations on shared stylesheets");
    (("XPath/XPathFunctionTable.cpp", "XPathFunctionTable", "XPathFunctionTable::InstallFunction", "Function*", 1), ConfigAPI, "XPath::installFunction: documented to be called before any thread transforms");
    (("XPath/XPathFunctionTable.cpp", "XPathFunctionTable", "XPathFunctionTable::UninstallFunction", "Function*", 1), ConfigAPI, "as InstallFunction");
    (("XalanSourceTree/XalanSourceTreeParserLiaison.cpp", "XalanSourceTreeParserLiaison", "XalanSourceTreeParserLiaison::ensureReader", "XalanDOMChar*", 2), ConstructionOnly, "passes schema-location strings to SAX2XMLReader::setProperty(void*) while parsing; parsing precedes sharing");
    (("XalanTransformer/XalanSourceTreeWrapperParsedSource.cpp", "XalanSourceTreeWrapperParsedSource", "XalanSourceTreeWrapperParsedSource::XalanSourceTreeWrapperParsedSource", "XalanDOMString&", 1), ConstructionOnly, "normalises m_uri inside the constructor");
    (("XalanTransformer/XalanTransformer.cpp", "XalanTransformer", "XalanTransformer::destroyParsedSource", "XalanParsedSource*", 1), ConstructionOnly, "destruction by the owning transformer");
    (("XalanTransformer/XalanTransformer.cpp", "XalanTransformer", "XalanTransformer::destroyStylesheet", "XalanCompiledStylesheet*", 1), ConstructionOnly, "destruction by the owning transformer");
    (("XalanTransformer/XalanTransformer.cpp", "XalanTransformer", "XalanTransformer::terminate", "XSLTInit*", 1), InitOnly, "process termination");
    (("XalanTransformer/XercesDOMWrapperParsedSource.cpp", "XercesDOMWrapperParsedSource", "XercesDOMWrapperParsedSource::XercesDOMWrapperParsedSource", "XalanDOMString&", 1), ConstructionOnly, "normalises m_uri inside the constructor");
    (("XercesParserLiaison/XercesDocumentWrapper.cpp", "XercesDocumentWrapper", "XercesDocumentWrapper::createNavigator const", "XercesDocumentWrapper*", 1), ModeGuarded, "called from createWrapperNode: after construction only in mapping mode (buildWrapper=false)");
    (("XercesParserLiaison/XercesParserLiaison.cpp", "XercesParserLiaison", "XercesParserLiaison::reset", "XalanDocument*", 1), NonConstPath, "destroys the liaison's documents; reset() is non-const and belongs to the owner") ].

(* functions that may mention a non-const static freely: the initialize()/terminate() family, run
   once per process by XalanTransformer::initialize()/terminate() before/after all threads *)
Definition init_functions : list string :=
  [ "Constants::initialize"; "Constants::terminate"; "DOMServices::initialize"; "DOMServices::terminate";
    "ElemNumber::initialize"; "ElemNumber::terminate"; "FunctionLang::initialize"; "FunctionLang::terminate";
    "XObject::initialize"; "XObject::terminate"; "XObjectResultTreeFragProxyText::initialize";
    "XObjectResultTreeFragProxyText::terminate"; "XPath::initialize"; "XPath::terminate";
    "XPathEnvSupportDefault::initialize"; "XPathEnvSupportDefault::terminate"; "XPathEvaluator::initialize";
    "XPathEvaluator::terminate"; "XSLTEngineImpl::initialize"; "XSLTEngineImpl::terminate"; "XSLTInit::initialize";
    "XSLTInit::terminate"; "XUnknown::initialize"; "XUnknown::terminate"; "XalanMessageLoader::initialize";
    "XalanMessageLoader::terminate"; "XalanSourceTreeComment::initialize"; "XalanSourceTreeComment::terminate";
    "XalanSourceTreeDocument::initialize"; "XalanSourceTreeDocument::terminate"; "XalanSourceTreeText::initialize";
    "XalanSourceTreeText::terminate"; "XalanTransformer::initialize"; "XalanTransformer::terminate";
    "XalanXMLSerializerBase::initialize"; "XalanXMLSerializerBase::terminate";
    (* the *Init guard objects are constructed/destroyed only by the above *)
    "DOMSupportInit::DOMSupportInit"; "DOMSupportInit::~DOMSupportInit"; "PlatformSupportInit::PlatformSupportInit";
    "PlatformSupportInit::~PlatformSupportInit"; "XMLSupportInit::XMLSupportInit"; "XMLSupportInit::~XMLSupportInit";
    "XPathInit::XPathInit"; "XPathInit::~XPathInit"; "XSLTInit::XSLTInit"; "XSLTInit::~XSLTInit";
    "XalanDOMInit::XalanDOMInit"; "XalanDOMInit::~XalanDOMInit"; "XalanSourceTreeInit::XalanSourceTreeInit";
    "XalanSourceTreeInit::~XalanSourceTreeInit" ].

(* non-const statics mentioned outside the init family: audited one by one, WITH the exact list of
   mentioning functions (a new mention changes the census entry and breaks the equality) *)
Definition static_audit : list ((string * string * string * list (string * string)) * verdict * string) :=
  [ (("PlatformSupport/DOMStringHelper.cpp", "", "theNaNString", [("DOMStringHelper::NumberToCharacters", "w"); ("NumberToDOMString", "w")]), ReadOnly, "passed as const XalanDOMChar* to append()/the listener; should be const");
    (("PlatformSupport/XalanDecimalFormatSymbols.cpp", "", "theCurrencySymbol", [("XalanDecimalFormatSymbols::XalanDecimalFormatSymbols", "w")]), ReadOnly, "source of a XalanDOMString copy (const XalanDOMChar* parameter)");
    (("PlatformSupport/XalanDecimalFormatSymbols.cpp", "", "theInfinityDefault", [("XalanDecimalFormatSymbols::XalanDecimalFormatSymbols", "w")]), ReadOnly, "as theCurrencySymbol");
    (("PlatformSupport/XalanDecimalFormatSymbols.cpp", "", "theNaNDefault", [("XalanDecimalFormatSymbols::XalanDecimalFormatSymbols", "w")]), ReadOnly, "as theCurrencySymbol");
    (("PlatformSupport/XalanMemoryManagement.cpp", "", "s_dummyMemMgr", [("XalanMemMgrs::getDummyMemMgr", "m")]), ReadOnly, "stateless object (allocate throws); only its address is handed out");
    (("PlatformSupport/XalanMessageLoader.hpp", "XalanMessageLoader", "s_msgLoader", [("XalanMessageLoader::getMessage", "w"); ("XalanMessageLoader::initialize", "w"); ("XalanMessageLoader::terminate", "w")]), InitOnly, "pointer written in initialize()/terminate(); getMessage only calls load() on the in-memory loader, which reads a constant table");
    (("XPath/XPath.hpp", "XPath", "s_functions", [("XPath::destroyTable", "w"); ("XPath::function", "w"); ("XPath::getFunctionTable", "m"); ("XPath::getInstalledFunctionNames", "m"); ("XPath::initialize", "w"); ("XPath::installFunction", "w"); ("XPath::isInstalledFunction", "m"); ("XPath::runFunction", "w"); ("XPath::terminate", "w"); ("XPath::uninstallFunction", "w")]), ConfigAPI, "written by initialize/terminate/destroyTable and by install/uninstallFunction (documented: before threads start); function/runFunction only index the table (operator[] on Function* array)");
    (("XPath/XPathEnvSupportDefault.hpp", "XPathEnvSupportDefault", "s_externalFunctions", [("XPathEnvSupportDefault::findFunction", "w"); ("XPathEnvSupportDefault::initialize", "w"); ("XPathEnvSupportDefault::installExternalFunctionGlobal", "w"); ("XPathEnvSupportDefault::terminate", "w"); ("XPathEnvSupportDefault::uninstallExternalFunctionGlobal", "w")]), ConfigAPI, "written by install/uninstallExternalFunctionGlobal (documented as not thread safe) and terminate; findFunction passes it as const NamespaceFunctionTablesType&");
    (("XPath/XUnknown.hpp", "XUnknown", "s_unknownString", [("XUnknown::getTypeString", "m"); ("XUnknown::initialize", "w"); ("XUnknown::terminate", "w")]), InitOnly, "getTypeString returns a const reference");
    (("XSLT/StylesheetExecutionContextDefault.hpp", "FormatterToTextDOMString", "s_dummyString", [("StylesheetExecutionContextDefault::FormatterToTextDOMString::FormatterToTextDOMString", "w"); ("StylesheetExecutionContextDefault::FormatterToTextDOMString::~FormatterToTextDOMString", "m")]), ReadOnly, "placeholder target of the DOMStringPrintWriter until setDOMString() retargets it; never written (destructor asserts capacity()==0)");
    (("XSLT/StylesheetExecutionContextDefault.hpp", "StylesheetExecutionContextDefault", "s_defaultXalanNumberFormatFactory", [("StylesheetExecutionContextDefault::getDefaultXalanNumberFormatFactory", "m"); ("StylesheetExecutionContextDefault::installXalanNumberFormatFactory", "w")]), ConfigAPI, "only its address is taken; create() is const-like");
    (("XSLT/StylesheetExecutionContextDefault.hpp", "StylesheetExecutionContextDefault", "s_xalanNumberFormatFactory", [("StylesheetExecutionContextDefault::createXalanNumberFormat", "w"); ("StylesheetExecutionContextDefault::installXalanNumberFormatFactory", "w")]), ConfigAPI, "pointer swapped only by the static installXalanNumberFormatFactory (configuration, not called by transformations); createXalanNumberFormat calls ->create()");
    (("XSLT/XSLTInit.cpp", "", "s_staticMemoryManager", [("XSLTInit::getMemoryManager", "m"); ("XSLTInit::initialize", "w"); ("XSLTInit::terminate", "w")]), InitOnly, "getMemoryManager reads the pointer");
    (("XalanExtensions/FunctionEvaluate.cpp", "", "s_evaluateNestingDepth", [("storage class: thread_local", "t"); ("EvaluateNestingGuard::EvaluateNestingGuard", "w"); ("EvaluateNestingGuard::tooDeep", "m"); ("EvaluateNestingGuard::~EvaluateNestingGuard", "w")]), PerThread, "static thread_local (the census entry records the storage class: without it the entry differs and this audit no longer matches): one nesting counter per thread, incremented and decremented by an RAII guard around xalan:evaluate / dyn:evaluate (repair 7cbddfb); never reachable from another thread");
    (("XalanSourceTree/XalanSourceTreeDocument.hpp", "XalanSourceTreeDocument", "s_poolAllTextNodes", [("XalanSourceTreeDocument::getPoolAllTextNodes", "m"); ("XalanSourceTreeDocument::setPoolAllTextNodes", "w")]), ConfigAPI, "static setter (XalanTransformer::setPoolAllTextNodes), configuration; read when a document is constructed");
    (("XalanTransformer/XalanCAPI.cpp", "", "fInitialized", [("XalanInitialize", "w")]), InitOnly, "C API initialisation flag");
    (("XalanTransformer/XalanTransformer.hpp", "XalanTransformer", "s_emptyInputSource", [("XalanTransformer::initialize", "w"); ("XalanTransformer::terminate", "w"); ("XalanTransformer::transform", "m")]), InitOnly, "transform reads the pointer (const XSLTInputSource*)") ].

(* (e) const lookups on XalanMap / XalanSet / XalanList data members: XalanList::begin()/end() const allocate the
   list head of a never-used container (the const_cast in XalanList::getListHead const), so every such site in a
   const member function is censused (with: guarded by empty()? primed by a constructor/postConstruction? callers)
   and audited *)
Definition constlookup_audit : list ((string * string * string * string * string * string * string) * verdict * string) :=
  [
    (("ArenaAllocator", "m_blocks", "List", "ArenaAllocator::getBlockCount const", "size", "unguarded", "many(47)"), PerThread, "diagnostic accessor: besides forwarding wrappers its only caller is the APACHE_XALAN_C_VERIF statistics hook of the per-thread StylesheetExecutionContextDefault");
    (("ExtensionFunctionHandler", "m_functions", "Set", "ExtensionFunctionHandler::isFunctionAvailable const", "end,find", "unguarded", ""), ConstructionOnly, "no caller outside the class: extension namespace handlers are consulted only while compiling");
    (("ExtensionNSHandler", "m_elements", "Set", "ExtensionNSHandler::isElementAvailable const", "end,find", "unguarded", ""), ConstructionOnly, "as isFunctionAvailable: no run-time caller");
    (("ICUBridgeCollationCompareFunctorImpl", "m_collatorCache", "List", "ICUBridgeCollationCompareFunctorImpl::cacheCollator const", "back,front,size", "unguarded", "ICUBridgeCollationCompareFunctorImpl::doCompareCached"), PerThread, "functor created per XalanTransformer (class_audit)");
    (("ICUBridgeCollationCompareFunctorImpl", "m_collatorCache", "List", "ICUBridgeCollationCompareFunctorImpl::getCachedCollator const", "arg,begin,end", "unguarded", "ICUBridgeCollationCompareFunctorImpl::doCompareCached"), PerThread, "functor created per XalanTransformer (class_audit)");
    (("ICUFormatNumberFunctor", "m_decimalFormatCache", "List", "ICUFormatNumberFunctor::cacheDecimalFormat const", "back,front,size", "unguarded", "ICUFormatNumberFunctor::doFormat"), PerThread, "functor created per XalanTransformer (class_audit)");
    (("ICUFormatNumberFunctor", "m_decimalFormatCache", "List", "ICUFormatNumberFunctor::getCachedDecimalFormat const", "arg,begin,end", "unguarded", "ICUFormatNumberFunctor::doFormat"), PerThread, "functor created per XalanTransformer (class_audit)");
    (("KeyTable", "m_keys", "Map", "KeyTable::getNodeSetByKey const", "end,find", "unguarded+primed", "StylesheetExecutionContextDefault::getNodeSetByKey;StylesheetRoot::getNodeSetByKey;getNodeSet"), PerThread, "KeyTable objects are built and owned by one execution context (m_keyTables)");
    (("NamespacesHandler", "m_namespaceAliases", "Map", "NamespacesHandler::getNamespaceAlias const", "end,find", "guarded", "NamespacesHandler::processNamespaceAliases"), ReadOnly, "guarded by m_namespaceAliases.empty(); NamespacesHandler is shared but the lookup is never reached on an empty map");
    (("Stylesheet", "m_attributePatternTable", "Map", "Stylesheet::locateAttributeMatchPatternDataList const", "end,find", "unguarded+primed", "Stylesheet::locateMatchPatternDataList"), ConstructionOnly, "Stylesheet::Stylesheet takes m_attributePatternTable.end() (m_attributePatternTableEnd): head allocated before sharing");
    (("Stylesheet", "m_elementPatternTable", "Map", "Stylesheet::locateElementMatchPatternDataList const", "end,find", "unguarded+primed", "Stylesheet::locateMatchPatternDataList"), ConstructionOnly, "Stylesheet::Stylesheet takes m_elementPatternTable.end() (m_elementPatternTableEnd): head allocated before sharing");
    (("Stylesheet", "m_extensionNamespaces", "Map", "Stylesheet::lookupExtensionNSHandler const", "end,find", "unguarded", "StylesheetHandler::startElement"), ConstructionOnly, "only caller StylesheetHandler::startElement (compiling)");
    (("Stylesheet", "m_namedTemplates", "Map", "Stylesheet::findNamedTemplate const", "end,find", "unguarded", "ElemCallTemplate::postConstruction"), ConstructionOnly, "only caller ElemCallTemplate::postConstruction (compiling); call-template targets are resolved before sharing");
    (("StylesheetRoot", "m_attributeSetsMap", "Map", "StylesheetRoot::getAttributeSet const", "end,find", "unguarded+primed", "ElemUse::getNextAttributeSet"), ConstructionOnly, "StylesheetRoot::postConstruction iterates m_attributeSetsMap.begin()..end() unconditionally: head allocated before sharing");
    (("XPathEnvSupportDefault", "m_externalFunctions", "Map", "XPathEnvSupportDefault::findFunction const", "arg", "unguarded", "XPathEnvSupportDefault::extFunction;XPathEnvSupportDefault::functionAvailable"), PerThread, "m_externalFunctions belongs to the per-transformation XSLTProcessorEnvSupportDefault");
    (("XPathEnvSupportDefault", "m_sourceDocs", "Map", "XPathEnvSupportDefault::findURIFromDoc const", "begin,end", "unguarded", "many(7)"), PerThread, "m_sourceDocs belongs to the per-transformation env support");
    (("XPathEnvSupportDefault", "m_sourceDocs", "Map", "XPathEnvSupportDefault::getSourceDocument const", "end,find", "unguarded", "many(6)"), PerThread, "m_sourceDocs belongs to the per-transformation env support");
    (("XPathEnvSupportDefault", "s_externalFunctions", "Map", "XPathEnvSupportDefault::findFunction const", "arg", "unguarded", "XPathEnvSupportDefault::extFunction;XPathEnvSupportDefault::functionAvailable"), InitOnly, "process-wide table; populated (operator[]) by the EXSLT / Xalan extension installers run from XSLTInit during initialize(), so it is never empty/unprimed when transformations look up");
    (("XPathEnvSupportDefault", "s_externalFunctions", "Map", "XPathEnvSupportDefault::installExternalFunctionGlobal", "arg", "unguarded", "XSLTProcessorEnvSupportDefault::installExternalFunctionGlobal;XalanExtensionsInstaller::doInstallGlobal;XalanTransformer::installExternalFunctionGlobal"), ConfigAPI, "installation API, documented as not thread safe");
    (("XPathEnvSupportDefault", "s_externalFunctions", "Map", "XPathEnvSupportDefault::terminate", "arg,begin,end", "unguarded", "many(14)"), InitOnly, "terminate()");
    (("XPathEnvSupportDefault", "s_externalFunctions", "Map", "XPathEnvSupportDefault::uninstallExternalFunctionGlobal", "arg", "unguarded", "XSLTProcessorEnvSupportDefault::uninstallExternalFunctionGlobal;XalanExtensionsInstaller::doUninstallGlobal;XalanTransformer::uninstallExternalFunctionGlobal"), ConfigAPI, "installation API, documented as not thread safe");
    (("XPathProcessorImpl", "m_namespaces", "Map", "XPathProcessorImpl::replaceTokenWithNamespaceToken const", "end,find", "unguarded", "XPathProcessorImpl::FunctionCall;XPathProcessorImpl::NodeTest;XPathProcessorImpl::QName"), ConstructionOnly, "XPath compilation");
    (("XalanDocumentPrefixResolver", "m_namespaces", "Map", "XalanDocumentPrefixResolver::getNamespaceForPrefix const", "end,find", "unguarded", "many(33)"), PerThread, "resolver objects are created per evaluation / per construction step");
    (("XalanSet", "m_map", "Map", "XalanSet::begin const", "begin", "unguarded", "-"), ReadOnly, "container wrapper: every XalanSet data member is censused at its own lookup sites");
    (("XalanSet", "m_map", "Map", "XalanSet::end const", "end", "unguarded", "-"), ReadOnly, "as XalanSet::begin");
    (("XalanSet", "m_map", "Map", "XalanSet::find const", "find", "unguarded", "-"), ReadOnly, "as XalanSet::begin");
    (("XalanSourceTreeDocument", "m_elementsByID", "Map", "XalanSourceTreeDocument::getElementById const", "end,find", "guarded", "FunctionID::execute;XercesDocumentWrapper::getElementById;getDoc"), ReadOnly, "guarded by m_elementsByID.empty() (fix 24f879b): the lazy head allocation is not reached on a shared document without IDs");
    (("XalanSourceTreeDocument", "m_unparsedEntityURIs", "Map", "XalanSourceTreeDocument::getUnparsedEntityURI const", "end,find", "guarded", "many(5)"), ReadOnly, "guarded by m_unparsedEntityURIs.empty() (fix 24f879b)");
    (("XalanSourceTreeParserLiaison", "m_documentMap", "Map", "XalanSourceTreeParserLiaison::mapDocument const", "end,find", "unguarded", "XalanDefaultParsedSource::XalanDefaultParsedSource;XalanSourceTreeDOMSupport::getUnparsedEntityURI;XalanSourceTreeParserLiaison::destroyDocument"), ConstructionOnly, "the liaison of a shared XalanDefaultParsedSource registered its document while parsing (map populated before sharing); helper liaisons are per transformer");
    (("XercesParserLiaison", "m_documentMap", "Map", "XercesParserLiaison::mapDocumentToWrapper const", "end,find", "unguarded", "XercesDOMSupport::getUnparsedEntityURI"), PerThread, "XercesDOMParsedSourceHelper creates a liaison per transformer; the parsed source's own liaison is not consulted by transformations");
    (("XercesParserLiaison", "m_documentMap", "Map", "XercesParserLiaison::mapToXercesDocument const", "end,find", "unguarded", ""), PerThread, "as mapDocumentToWrapper");
    (("XercesWrapperToXalanNodeMap", "m_xercesMap", "Map", "XercesWrapperToXalanNodeMap::getNode const", "end,find", "unguarded", "XSLTEngineImpl::getSourceTreeFromInput;XSLTEngineImpl::processStylesheet;XercesDocumentWrapper::mapNode"), ConstructionOnly, "XercesDocumentWrapper::XercesDocumentWrapper always adds the (DOMDocument, this) association (XercesDocumentWrapper.cpp:116): map populated before sharing") ].

Definition localstatic_audit : list ((string * string * string) * verdict * string) :=
  [ (("PlatformSupport/XalanLocator.hpp", "XalanLocator::getEmptyPtr", "theEmpty"), ReadOnly, "pointer to a const zero character, initialised once (C++11 thread-safe local static), never reassigned") ].

(* where the per-transformation state of each lazily built facility lives *)
Inductive facility := FKeys | FCounters | FVariables | FDocuments | FSortCollator | FFormatNumber | FResultTrees | FNodeListCache.
Definition all_facilities := [FKeys; FCounters; FVariables; FDocuments; FSortCollator; FFormatNumber; FResultTrees; FNodeListCache].
Definition facility_home (f : facility) : string * string * string :=
  match f with
  | FKeys => ("keys", "m_keyTables", "StylesheetExecutionContextDefault")
  | FCounters => ("counters", "m_countersTable", "StylesheetExecutionContextDefault")
  | FVariables => ("variables", "m_variablesStack", "StylesheetExecutionContextDefault")
  | FDocuments => ("document", "m_sourceDocs", "XPathEnvSupportDefault")
  | FSortCollator => ("sortcollator", "m_collatorCache", "ICUBridgeCollationCompareFunctorImpl")
  | FFormatNumber => ("formatnumber", "m_decimalFormatCache", "ICUFormatNumberFunctor")
  | FResultTrees => ("rtf", "m_sourceTreeResultTreeFactory", "StylesheetExecutionContextDefault")
  | FNodeListCache => ("nodelistcache", "m_cachedPosition", "XPathExecutionContextDefault")
  end.
(* classes holding facility state that carry no census entry of their own *)
Definition extra_perthread_classes : list (string * string) :=
  [ ("XPathEnvSupportDefault", "XSLTProcessorEnvSupportDefault is created per transformation in XalanTransformer::doTransform; m_sourceDocs is its document() cache") ].

(* ---- decision procedures ---- *)
Definition str_in (s : string) (l : list string) : bool := existsb (String.eqb s) l.
Definition pair_eqb (a b : string * string) := (String.eqb (fst a) (fst b) && String.eqb (snd a) (snd b))%bool.
Fixpoint list_eqb {A} (eqb : A -> A -> bool) (l1 l2 : list A) : bool :=
  match l1, l2 with
  | [], [] => true
  | a :: l1', b :: l2' => (eqb a b && list_eqb eqb l1' l2')%bool
  | _, _ => false
  end.
Definition trip_eqb (a b : string * string * string) :=
  match a, b with (a1, a2, a3), (b1, b2, b3) => (String.eqb a1 b1 && String.eqb a2 b2 && String.eqb a3 b3)%bool end.
Definition cast_eqb (a b : string * string * string * string * nat) :=
  match a, b with (a1, a2, a3, a4, a5), (b1, b2, b3, b4, b5) =>
    (String.eqb a1 b1 && String.eqb a2 b2 && String.eqb a3 b3 && String.eqb a4 b4 && Nat.eqb a5 b5)%bool end.
Definition stat_eqb (a b : string * string * string * list (string * string)) :=
  match a, b with (a1, a2, a3, a4), (b1, b2, b3, b4) =>
    (String.eqb a1 b1 && String.eqb a2 b2 && String.eqb a3 b3 && list_eqb pair_eqb a4 b4)%bool end.

Definition look_eqb (a b : string * string * string * string * string * string * string) :=
  match a, b with (a1, a2, a3, a4, a5, a6, a7), (b1, b2, b3, b4, b5, b6, b7) =>
    (String.eqb a1 b1 && String.eqb a2 b2 && String.eqb a3 b3 && String.eqb a4 b4 && String.eqb a5 b5 && String.eqb a6 b6 && String.eqb a7 b7)%bool end.

Definition class_verdict (c : string) : option verdict :=
  match find (fun e => String.eqb c (fst (fst e))) class_audit with Some e => Some (snd (fst e)) | None => None end.
Definition class_listed (c : string) : bool := match class_verdict c with Some _ => true | None => false end.

Definition mutable_class (e : string * string * string) := snd (fst e).
Definition cast_class (e : string * string * string * string * nat) := match e with (_, c, _, _, _) => c end.

Definition mutable_residue := filter (fun e => negb (class_listed (mutable_class e))) census_mutable.
Definition constcast_residue := filter (fun e => negb (class_listed (cast_class e))) census_constcast.
Definition static_init_only (e : string * string * string * list (string * string)) : bool :=
  forallb (fun u => str_in (fst u) init_functions) (snd e).
Definition static_residue := filter (fun e => negb (static_init_only e)) census_static.

(* the findings: audit entries with verdict SharedWrite *)
Definition known_shared_writes : list string := [].

Definition cast_fn (e : string * string * string * string * nat) := match e with (_, _, f, _, _) => f end.

Definition audit_check : bool :=
  (list_eqb trip_eqb mutable_residue (map (fun a => fst (fst a)) mutable_audit)
   && list_eqb cast_eqb constcast_residue (map (fun a => fst (fst a)) constcast_audit)
   && list_eqb stat_eqb static_residue (map (fun a => fst (fst a)) static_audit)
   && list_eqb trip_eqb census_localstatic (map (fun a => fst (fst a)) localstatic_audit)
   && list_eqb trip_eqb census_owner (map facility_home all_facilities)
   && list_eqb look_eqb census_constlookup (map (fun a => fst (fst a)) constlookup_audit))%bool.

Definition verdicts_check : bool :=
  (forallb (fun a => verdict_ok (snd (fst a))) class_audit
   && forallb (fun a => verdict_ok (snd (fst a))) mutable_audit
   && forallb (fun a => (verdict_ok (snd (fst a)) || str_in (cast_fn (fst (fst a))) known_shared_writes)%bool) constcast_audit
   && forallb (fun a => verdict_ok (snd (fst a))) static_audit
   && forallb (fun a => verdict_ok (snd (fst a))) localstatic_audit
   && forallb (fun a => verdict_ok (snd (fst a))) constlookup_audit)%bool.

Definition owners_perthread_check : bool :=
  forallb (fun f => let c := snd (facility_home f) in
                    match class_verdict c with
                    | Some PerThread => true
                    | _ => str_in c (map fst extra_perthread_classes)
                    end) all_facilities.

(* ------------------------------------------------------------------------------------------ *)
(* Part B — interleaving model *)

Definition tid := nat.
Definition node := nat.

(* shared, immutable during transformations (justified by Part A): *)
Record shared := {
  sh_prog  : list (nat * nat * nat);      (* compiled stylesheet: instructions (opcode, a, b) *)
  sh_doc   : list (node * nat * Z);       (* source tree: node, key value (e.g. @cat), number *)
  sh_files : nat -> list (node * nat * Z);(* what document(uri) parses to *)
  sh_fun   : nat -> Z -> Z                (* process-wide function table after initialize() *)
}.

(* per-thread context, as StylesheetExecutionContextDefault & friends hold it *)
Record local := {
  l_pc     : nat;
  l_vars   : list (nat * Z);                      (* variable stack *)
  l_keys   : list (nat * list node);              (* key tables, built on first use (per context) *)
  l_count  : list (node * nat);                   (* xsl:number counters table *)
  l_docs   : list (nat * list (node * nat * Z));  (* document() cache *)
  l_coll   : list nat;                            (* collator cache by locale *)
  l_fmt    : list nat;                            (* decimal-format cache *)
  l_param  : Z                                    (* top-level parameter of this transformer *)
}.

Definition out := list Z.

Fixpoint lookup {A} (k : nat) (l : list (nat * A)) : option A :=
  match l with [] => None | (k', v) :: r => if Nat.eqb k k' then Some v else lookup k r end.

Definition nodes_with_key (d : list (node * nat * Z)) (k : nat) : list node :=
  map (fun e => fst (fst e)) (filter (fun e => Nat.eqb (snd (fst e)) k) d).
Definition count_before (d : list (node * nat * Z)) (n : node) : nat :=
  length (filter (fun e => Nat.leb (fst (fst e)) n) d).
Definition bump (l : local) : local :=
  {| l_pc := S (l_pc l); l_vars := l_vars l; l_keys := l_keys l; l_count := l_count l; l_docs := l_docs l;
     l_coll := l_coll l; l_fmt := l_fmt l; l_param := l_param l |}.

(* one interpreter step.  opcodes:
   0 emit a | 1 key(a): build table on first use, emit count | 2 number(node a): memoised count |
   3 set var a := b | 4 emit var a | 5 document(a): parse on first use, emit size | 6 sort in locale a:
   create collator on first use, emit #collators | 7 format-number with format a | 8 call function a on
   param | 9 emit the transformer's parameter | other: no-op *)
Definition step (s : shared) (l : local) : local * out :=
  match nth_error (sh_prog s) (l_pc l) with
  | None => (l, [])                                                   (* finished *)
  | Some (op, a, b) =>
    let l1 := bump l in
    match op with
    | 0 => (l1, [Z.of_nat a])
    | 1 => match lookup a (l_keys l) with
           | Some ns => (l1, [Z.of_nat (length ns)])
           | None => let ns := nodes_with_key (sh_doc s) a in
                     ({| l_pc := l_pc l1; l_vars := l_vars l1; l_keys := (a, ns) :: l_keys l1; l_count := l_count l1;
                         l_docs := l_docs l1; l_coll := l_coll l1; l_fmt := l_fmt l1; l_param := l_param l1 |},
                      [Z.of_nat (length ns)])
           end
    | 2 => match lookup a (l_count l) with
           | Some c => (l1, [Z.of_nat c])
           | None => let c := count_before (sh_doc s) a in
                     ({| l_pc := l_pc l1; l_vars := l_vars l1; l_keys := l_keys l1; l_count := (a, c) :: l_count l1;
                         l_docs := l_docs l1; l_coll := l_coll l1; l_fmt := l_fmt l1; l_param := l_param l1 |},
                      [Z.of_nat c])
           end
    | 3 => ({| l_pc := l_pc l1; l_vars := (a, Z.of_nat b) :: l_vars l1; l_keys := l_keys l1; l_count := l_count l1;
               l_docs := l_docs l1; l_coll := l_coll l1; l_fmt := l_fmt l1; l_param := l_param l1 |}, [])
    | 4 => (l1, [match lookup a (l_vars l) with Some v => v | None => (-1)%Z end])
    | 5 => match lookup a (l_docs l) with
           | Some d => (l1, [Z.of_nat (length d)])
           | None => let d := sh_files s a in
                     ({| l_pc := l_pc l1; l_vars := l_vars l1; l_keys := l_keys l1; l_count := l_count l1;
                         l_docs := (a, d) :: l_docs l1; l_coll := l_coll l1; l_fmt := l_fmt l1; l_param := l_param l1 |},
                      [Z.of_nat (length d)])
           end
    | 6 => if existsb (Nat.eqb a) (l_coll l) then (l1, [Z.of_nat (length (l_coll l))])
           else ({| l_pc := l_pc l1; l_vars := l_vars l1; l_keys := l_keys l1; l_count := l_count l1;
                    l_docs := l_docs l1; l_coll := a :: l_coll l1; l_fmt := l_fmt l1; l_param := l_param l1 |},
                 [Z.of_nat (S (length (l_coll l)))])
    | 7 => if existsb (Nat.eqb a) (l_fmt l) then (l1, [Z.of_nat a])
           else ({| l_pc := l_pc l1; l_vars := l_vars l1; l_keys := l_keys l1; l_count := l_count l1;
                    l_docs := l_docs l1; l_coll := l_coll l1; l_fmt := a :: l_fmt l1; l_param := l_param l1 |},
                 [Z.of_nat a])
    | 8 => (l1, [sh_fun s a (l_param l)])
    | 9 => (l1, [l_param l])
    | _ => (l1, [])
    end
  end.

Definition init_local (p : Z) : local :=
  {| l_pc := 0; l_vars := []; l_keys := []; l_count := []; l_docs := []; l_coll := []; l_fmt := []; l_param := p |}.

(* general step shape: MAY write shared state; the frame condition says it does not *)
Definition gstep_t (Sh Lo : Type) := Sh -> Lo -> Sh * Lo * out.
Definition frame {Sh Lo} (g : gstep_t Sh Lo) : Prop := forall s l, fst (fst (g s l)) = s.
Definition lift {Sh Lo} (f : Sh -> Lo -> Lo * out) : gstep_t Sh Lo := fun s l => (s, fst (f s l), snd (f s l)).

Definition upd {Lo} (c : tid -> Lo) (t : tid) (l : Lo) : tid -> Lo := fun u => if Nat.eqb u t then l else c u.

(* interleavings, inductively: a trace is a sequence of (thread, output of its step); at each point
   ANY thread may take the next step *)
Inductive gsteps {Sh Lo} (g : gstep_t Sh Lo) : Sh -> (tid -> Lo) -> list (tid * out) -> Sh -> (tid -> Lo) -> Prop :=
| gsteps_nil : forall s c, gsteps g s c [] s c
| gsteps_cons : forall s c t tr s' c',
    gsteps g (fst (fst (g s (c t)))) (upd c t (snd (fst (g s (c t))))) tr s' c' ->
    gsteps g s c ((t, snd (g s (c t))) :: tr) s' c'.

(* a thread alone *)
Fixpoint seq_local {Sh Lo} (g : gstep_t Sh Lo) (s : Sh) (n : nat) (l : Lo) : Lo :=
  match n with 0 => l | S n' => seq_local g s n' (snd (fst (g s l))) end.
Fixpoint seq_out {Sh Lo} (g : gstep_t Sh Lo) (s : Sh) (n : nat) (l : Lo) : out :=
  match n with 0 => [] | S n' => (snd (g s l) ++ seq_out g s n' (snd (fst (g s l))))%list end.

Fixpoint steps_of (t : tid) (tr : list (tid * out)) : nat :=
  match tr with [] => 0 | (u, _) :: r => (if Nat.eqb u t then 1 else 0) + steps_of t r end.
Fixpoint out_of (t : tid) (tr : list (tid * out)) : out :=
  match tr with [] => [] | (u, o) :: r => ((if Nat.eqb u t then o else []) ++ out_of t r)%list end.

Definition finished (s : shared) (l : local) : Prop := nth_error (sh_prog s) (l_pc l) = None.

(* a step shape that violates the frame: a counter kept in the SHARED object (what e.g. a unique
   id / namespace counter or a lazily filled memo with observable fill order in StylesheetRoot would be) *)
Definition racy : gstep_t nat nat := fun s l => (S s, S l, [Z.of_nat s]).

(* ------------------------------------------------------------------------------------------ *)
(* Part C — string pool of the Xerces wrapper document *)

Definition pool := list string.
(* XalanDOMStringPool::get: find; if absent, insert *)
Definition intern (p : pool) (s : string) : pool := if str_in s p then p else s :: p.
(* XercesLiaisonXalanDOMStringPool::get (threadSafe=true): lock; base get; unlock -> atomic *)
Definition run_locked (reqs : list string) (p : pool) : pool := fold_left intern reqs p.

(* unsynchronised pool (threadSafe=false, what XercesDOMParsedSource creates): find and insert of
   one get() are separate memory actions that other threads' actions may come between *)
Inductive act := Probe (t : tid) (s : string) | Insert (t : tid) (s : string).
Definition pstate := (pool * list (tid * bool))%type.     (* pool, per-thread "was absent" register *)
Definition do_act (st : pstate) (a : act) : pstate :=
  match a with
  | Probe t s => (fst st, (t, negb (str_in s (fst st))) :: snd st)
  | Insert t s => match lookup t (snd st) with
                  | Some true => (s :: fst st, snd st)
                  | _ => st
                  end
  end.
Definition run_unlocked (sched : list act) (p : pool) : pool := fst (fold_left do_act sched (p, [])).
(* thread t's own actions, in order *)
Definition acts_of (t : tid) (sched : list act) : list act :=
  filter (fun a => match a with Probe u _ | Insert u _ => Nat.eqb u t end) sched.

(* each thread's get() is Probe s immediately followed (in ITS order) by Insert s *)
Fixpoint wf_thread (t : tid) (l : list act) : bool :=
  match l with
  | [] => true
  | Probe u s :: Insert u' s' :: r => (Nat.eqb u t && Nat.eqb u' t && String.eqb s s' && wf_thread t r)%bool
  | _ => false
  end.

(* executable interleaving: the trace a schedule (any list of thread ids) produces *)
Fixpoint run_sched {Sh Lo} (g : gstep_t Sh Lo) (s : Sh) (c : tid -> Lo) (sched : list tid) : Sh * (tid -> Lo) * list (tid * out) :=
  match sched with
  | [] => (s, c, [])
  | t :: r => let x := g s (c t) in
              let y := run_sched g (fst (fst x)) (upd c t (snd (fst x))) r in
              (fst (fst y), snd (fst y), (t, snd x) :: snd y)
  end.
