(* Extraction of the C09 model for the correspondence driver. ExtrOcamlBasic only.
   (N.succ and Z.opp are extracted only because ocaml/conv.ml, prepended to every driver, mentions
   the types positive / n / z.) *)
From Coq Require Import NArith ZArith.
Require Import ExtrOcamlBasic.
Require Import XV.PatDefs.
Extraction "extracted/pat_model.ml"
  c_match c_select c_shape wf_doc N.succ Z.opp.
