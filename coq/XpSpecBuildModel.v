(* XpSpecBuildModel.v — every document the generators can build ([build_doc], DomDefs.v) is a
   well-formed node table in the sense of XpSpecDefs.v ([wfd]): the table is laid out in document
   order, so the theorems of Properties_C02s.v apply to all of them. *)
From Coq Require Import NArith List Bool Arith Lia Sorted.
Require Import XV.XpAst XV.DomDefs XV.NumDefs XV.XpDefs XV.DomModel XV.XpSpecDefs XV.XpSpecLayoutModel.
Import ListNotations.

(* sizes kept in a list parallel to a segment of the table that starts at id [base] *)
Definition szf (base : nat) (szs : list nat) : nat -> nat := fun c => nth (c - base) szs 0.

Definition klay (base : nat) (nodes : list node) (szs : list nat) (k : nat) (nk : node) : Prop :=
  let n := base + k in
  n_attrs nk = seq (S n) (length (n_attrs nk)) /\
  chain (szf base szs) (S n + length (n_attrs nk)) (n_children nk) (n + nth k szs 0) /\
  (forall a, In a (n_attrs nk) -> exists na, nth_error nodes (a - base) = Some na /\ base <= a /\
      n_parent na = Some n /\ is_attr_kind (n_kind na) = true /\ n_children na = [] /\ n_attrs na = []) /\
  (forall c, In c (n_children nk) -> exists nc, nth_error nodes (c - base) = Some nc /\ base <= c /\
      n_parent nc = Some n /\ is_attr_kind (n_kind nc) = false).

Definition slay (base : nat) (nodes : list node) (szs : list nat) : Prop :=
  length szs = length nodes /\ forall k nk, nth_error nodes k = Some nk -> klay base nodes szs k nk.

Lemma chain_ext sz1 sz2 : forall l start stop, (forall c, In c l -> sz1 c = sz2 c) ->
  chain sz1 start l stop -> chain sz2 start l stop.
Proof.
  induction l as [|a l IH]; cbn [chain]; intros start stop He H; [exact H|].
  destruct H as [-> H]. split; [reflexivity|]. rewrite <- (He start (or_introl eq_refl)).
  apply IH; [|exact H]. intros c Hc. apply He. right. exact Hc.
Qed.

Lemma chain_app_intro sz : forall l1 a b l2 c, chain sz a l1 b -> chain sz b l2 c -> chain sz a (l1 ++ l2) c.
Proof.
  induction l1 as [|x l1 IH]; cbn [chain app]; intros a b l2 c H1 H2.
  - subst. exact H2.
  - destruct H1 as [-> H1]. split; [reflexivity|]. eapply IH; eauto.
Qed.

Lemma slay_app base l1 s1 l2 s2 : slay base l1 s1 -> slay (base + length l1) l2 s2 -> slay base (l1 ++ l2) (s1 ++ s2).
Proof.
  intros [L1 H1] [L2 H2]. split; [rewrite !app_length; lia|].
  intros k nk Hk. destruct (Nat.lt_ge_cases k (length l1)) as [Hlt|Hge].
  - rewrite nth_error_app1 in Hk by exact Hlt. destruct (H1 _ _ Hk) as [A [B [C D]]].
    split; [exact A|]. split; [|split].
    + rewrite app_nth1 by lia. eapply chain_ext; [|exact B]. intros c Hc.
      destruct (D c Hc) as [nc [Hn _]]. apply nth_error_some_lt in Hn. unfold szf. rewrite app_nth1 by lia. reflexivity.
    + intros a Ha. destruct (C a Ha) as [na [Hn R]]. exists na. split; [|exact R].
      rewrite nth_error_app1; [exact Hn | eapply nth_error_some_lt; eauto].
    + intros c Hc. destruct (D c Hc) as [nc [Hn R]]. exists nc. split; [|exact R].
      rewrite nth_error_app1; [exact Hn | eapply nth_error_some_lt; eauto].
  - rewrite nth_error_app2 in Hk by exact Hge. destruct (H2 _ _ Hk) as [A [B [C D]]]. cbv zeta in *.
    replace (base + length l1 + (k - length l1)) with (base + k) in * by lia.
    split; [exact A|]. split; [|split].
    + rewrite app_nth2 by lia. rewrite L1. eapply chain_ext; [|exact B]. intros c Hc.
      destruct (D c Hc) as [nc [_ [Hb _]]]. unfold szf. rewrite app_nth2 by lia. f_equal. lia.
    + intros a Ha. destruct (C a Ha) as [na [Hn [Hb R]]]. exists na. split; [|split; [lia | exact R]].
      rewrite nth_error_app2 by lia. replace (a - base - length l1) with (a - (base + length l1)) by lia. exact Hn.
    + intros c Hc. destruct (D c Hc) as [nc [Hn [Hb R]]]. exists nc. split; [|split; [lia | exact R]].
      rewrite nth_error_app2 by lia. replace (c - base - length l1) with (c - (base + length l1)) by lia. exact Hn.
Qed.

Lemma slay_cons base n0 rest s0 szs :
  klay base (n0 :: rest) (s0 :: szs) 0 n0 -> slay (S base) rest szs -> slay base (n0 :: rest) (s0 :: szs).
Proof.
  intros K0 [L H]. split; [simpl; lia|].
  intros [|k] nk Hk; simpl in Hk.
  - inversion Hk; subst. exact K0.
  - destruct (H _ _ Hk) as [A [B [C D]]]. cbv zeta in *.
    replace (S base + k) with (base + S k) in * by lia.
    split; [exact A|]. split; [|split].
    + cbn [nth]. eapply chain_ext; [|exact B]. intros c Hc. destruct (D c Hc) as [nc [_ [Hb _]]].
      unfold szf. replace (c - base) with (S (c - S base)) by lia. reflexivity.
    + intros a Ha. destruct (C a Ha) as [na [Hn [Hb R]]]. exists na. split; [|split; [lia | exact R]].
      replace (a - base) with (S (a - S base)) by lia. exact Hn.
    + intros c Hc. destruct (D c Hc) as [nc [Hn [Hb R]]]. exists nc. split; [|split; [lia | exact R]].
      replace (c - base) with (S (c - S base)) by lia. exact Hn.
Qed.

Lemma slay_leaf base n : n_children n = [] -> n_attrs n = [] -> slay base [n] [1].
Proof.
  intros Hc Ha. split; [reflexivity|]. intros [|k] nk Hk; simpl in Hk; [|destruct k; discriminate].
  inversion Hk; subst nk. unfold klay. rewrite Hc, Ha. cbn [length seq chain nth].
  split; [reflexivity|]. split; [lia|]. split; intros x [].
Qed.

Lemma slay_nil base : slay base [] [].
Proof. split; [reflexivity|]. intros k nk Hk. destruct k; discriminate. Qed.

Lemma attr_node_leaf env id a :
  n_children (attr_node env id a) = [] /\ n_attrs (attr_node env id a) = [] /\
  is_attr_kind (n_kind (attr_node env id a)) = true /\ n_parent (attr_node env id a) = Some id.
Proof.
  unfold attr_node. destruct a as [q v]. destruct (is_nsdecl_name q); [repeat split|].
  destruct (split_colon q) as [[p l]|]; repeat split.
Qed.

Lemma slay_attrs env id : forall attrs base, slay base (map (attr_node env id) attrs) (repeat 1 (length attrs)).
Proof.
  induction attrs as [|a attrs IH]; intros base; [apply slay_nil|].
  change (map (attr_node env id) (a :: attrs)) with ([attr_node env id a] ++ map (attr_node env id) attrs).
  change (repeat 1 (length (a :: attrs))) with ([1] ++ repeat 1 (length attrs)).
  apply slay_app; [apply slay_leaf; apply attr_node_leaf | apply IH].
Qed.

(* what the layout proof needs of one subtree *)
Definition tree_lay (f : nat -> tree -> list node * nat) (c : tree) : Prop :=
  forall cid ns nx, f cid c = (ns, nx) ->
    nx = cid + length ns /\ 1 <= length ns /\ exists szs, slay cid ns szs /\ nth 0 szs 0 = length ns.

Lemma build_children_lay f ch : Forall (tree_lay f) ch -> forall start cn ids next,
  build_children f ch start = (cn, ids, next) ->
  next = start + length cn /\ exists cszs, slay start cn cszs /\ chain (szf start cszs) start ids (start + length cn).
Proof.
  induction 1 as [|c r Hc Hr IH]; intros start cn ids next H; cbn [build_children] in H.
  - inversion H; subst. split; [simpl; lia|]. exists []. split; [apply slay_nil|]. cbn [chain length]. lia.
  - destruct (f start c) as [ns nx] eqn:Ef.
    destruct (build_children f r nx) as [[ns' ids'] nx'] eqn:Er. inversion H; subst. clear H.
    destruct (Hc _ _ _ Ef) as [Hnx [Hlen [szs [Hs Hs0]]]].
    destruct (IH _ _ _ _ Er) as [Hn' [cszs [Hs' Hch']]].
    split; [rewrite app_length; lia|]. exists (szs ++ cszs). split.
    + apply slay_app; [exact Hs|]. rewrite <- Hnx. exact Hs'.
    + destruct Hs as [Ls _]. cbn [chain]. split; [reflexivity|].
      assert (E0 : szf start (szs ++ cszs) start = length ns).
      { unfold szf. rewrite Nat.sub_diag, app_nth1 by lia. exact Hs0. }
      rewrite E0, <- Hnx. rewrite app_length. replace (start + (length ns + length ns')) with (nx + length ns') by lia.
      eapply chain_ext; [|exact Hch']. intros c0 Hc0.
      destruct (chain_in _ _ _ _ c0 Hch' Hc0) as [Hge _].
      unfold szf. rewrite app_nth2 by lia. f_equal. lia.
Qed.

Theorem build_tree_lay : forall t env parent id impl nodes next,
  build_tree env parent id impl t = (nodes, next) ->
  next = id + length nodes /\ 1 <= length nodes /\ exists szs, slay id nodes szs /\ nth 0 szs 0 = length nodes.
Proof.
  induction t as [q a ch IH|s|s|tg dt] using tree_ind2; intros env parent id impl nodes next H.
  - rewrite build_tree_elem in H. cbv zeta in H.
    set (attrs := impl ++ a) in *. set (env' := decls_of attrs ++ env) in *.
    destruct (elem_names env' q) as [l u].
    destruct (build_children (fun cid c => build_tree env' id cid [] c) ch (S id + length attrs))
      as [[cn ids] nx] eqn:Ec.
    inversion H; subst nodes next. clear H.
    assert (HF : Forall (tree_lay (fun cid c => build_tree env' id cid [] c)) ch).
    { eapply Forall_impl; [|exact IH]. intros c Hc cid ns nx0 Hb. eapply Hc. exact Hb. }
    assert (HFok : Forall (tree_ok (fun cid c => build_tree env' id cid [] c) id) ch).
    { apply Forall_forall. intros c _ cid ns nx0 Hb. eapply build_tree_ok. exact Hb. }
    destruct (build_children_lay _ _ HF _ _ _ _ Ec) as [Hnx [cszs [Hs Hch]]].
    destruct (build_children_ok _ _ _ HFok _ _ _ _ Ec) as [_ [_ [_ Hids]]].
    set (an := map (attr_node env' id) attrs).
    assert (Hlen : length an = length attrs) by (unfold an; apply map_length).
    split; [simpl; rewrite app_length; lia|]. split; [simpl; lia|].
    exists ((1 + length attrs + length cn) :: repeat 1 (length attrs) ++ cszs). split.
    2:{ cbn [nth length]. rewrite app_length. lia. }
    apply slay_cons.
    + unfold klay. cbn [n_attrs n_children]. rewrite seq_length, Nat.add_0_r. cbn [nth].
      split; [reflexivity|]. split; [|split].
      * replace (id + (1 + length attrs + length cn)) with (S id + length attrs + length cn) by lia.
        eapply chain_ext; [|exact Hch]. intros c Hc.
        destruct (chain_in _ _ _ _ c Hch Hc) as [Hge _].
        unfold szf. replace (c - id) with (S (length attrs + (c - (S id + length attrs)))) by lia.
        cbn [nth]. rewrite app_nth2 by (rewrite repeat_length; lia). rewrite repeat_length. f_equal. lia.
      * intros x Hx. apply in_seq in Hx.
        destruct (nth_error attrs (x - S id)) as [at0|] eqn:Ea.
        2:{ apply nth_error_None in Ea. lia. }
        exists (attr_node env' id at0). split.
        -- replace (x - id) with (S (x - S id)) by lia. cbn [nth_error].
           rewrite nth_error_app1 by (rewrite Hlen; lia). unfold an. apply map_nth_error. exact Ea.
        -- destruct (attr_node_leaf env' id at0) as [A [B [C D]]]. repeat split; try assumption; lia.
      * intros c Hc. destruct (Hids c Hc) as [Hge [nc [Hn [Hp Hk]]]]. exists nc.
        split; [|split; [lia | split; assumption]].
        replace (c - id) with (S (length an + (c - (S id + length attrs)))) by lia.
        cbn [nth_error]. rewrite nth_error_app2 by lia.
        replace (length an + (c - (S id + length attrs)) - length an) with (c - (S id + length attrs)) by lia. exact Hn.
    + apply slay_app.
      * apply slay_attrs.
      * rewrite Hlen. exact Hs.
  - inversion H; subst. split; [simpl; lia|]. split; [simpl; lia|]. exists [1]. split; [apply slay_leaf; reflexivity | reflexivity].
  - inversion H; subst. split; [simpl; lia|]. split; [simpl; lia|]. exists [1]. split; [apply slay_leaf; reflexivity | reflexivity].
  - inversion H; subst. split; [simpl; lia|]. split; [simpl; lia|]. exists [1]. split; [apply slay_leaf; reflexivity | reflexivity].
Qed.

(** * kinds: no document node below the root *)
Definition no_doc (nodes : list node) : Prop := Forall (fun n => n_kind n <> KDoc) nodes.

Lemma build_children_kinds f ch :
  Forall (fun c => forall cid ns nx, f cid c = (ns, nx) -> no_doc ns) ch ->
  forall start cn ids next, build_children f ch start = (cn, ids, next) -> no_doc cn.
Proof.
  induction 1 as [|c r Hc Hr IH]; intros start cn ids next H; cbn [build_children] in H.
  - inversion H; subst. constructor.
  - destruct (f start c) as [ns nx] eqn:Ef.
    destruct (build_children f r nx) as [[ns' ids'] nx'] eqn:Er. inversion H; subst.
    apply Forall_app. split; [eapply Hc; exact Ef | eapply IH; exact Er].
Qed.

Lemma build_tree_kinds : forall t env parent id impl nodes next,
  build_tree env parent id impl t = (nodes, next) -> no_doc nodes.
Proof.
  induction t as [q a ch IH|s|s|tg dt] using tree_ind2; intros env parent id impl nodes next H.
  - rewrite build_tree_elem in H. cbv zeta in H.
    set (attrs := impl ++ a) in *. set (env' := decls_of attrs ++ env) in *.
    destruct (elem_names env' q) as [l u].
    destruct (build_children (fun cid c => build_tree env' id cid [] c) ch (S id + length attrs))
      as [[cn ids] nx] eqn:Ec.
    inversion H; subst nodes next. clear H.
    constructor; [cbn; discriminate|]. apply Forall_app. split.
    + apply Forall_forall. intros n Hn. apply in_map_iff in Hn. destruct Hn as [x [<- _]].
      destruct (attr_node_leaf env' id x) as [_ [_ [Hk _]]]. intros E. rewrite E in Hk. discriminate.
    + eapply (build_children_kinds _ ch); [|exact Ec].
      eapply Forall_impl; [|exact IH]. intros c Hc cid ns nx0 Hb. eapply Hc. exact Hb.
  - inversion H; subst. constructor; [cbn; discriminate | constructor].
  - inversion H; subst. constructor; [cbn; discriminate | constructor].
  - inversion H; subst. constructor; [cbn; discriminate | constructor].
Qed.

(** * the document *)
Definition acc_lay (acc : list node * list nat * nat * bool) : Prop :=
  let '(ns, ids, nx, _) := acc in
  nx = 1 + length ns /\ no_doc ns /\ (forall c, In c ids -> c < nx) /\ exists szs, slay 1 ns szs /\ chain (szf 1 szs) 1 ids nx.

Lemma doc_step_lay acc t : acc_lay acc -> acc_lay (doc_step acc t).
Proof.
  destruct acc as [[[ns ids] nx] seen]. intros [Hnx [Hnd [Hlt0 [szs [Hs Hch]]]]]. unfold doc_step.
  match goal with |- context [build_tree _ 0 nx ?i t] => set (impl := i) end.
  destruct (build_tree [(s_xml, s_xml_uri)] 0 nx impl t) as [tn nx'] eqn:E.
  destruct (build_tree_lay _ _ _ _ _ _ _ E) as [Hn' [Hl [tszs [Hts Ht0]]]].
  pose proof (build_tree_kinds _ _ _ _ _ _ _ E) as Htk.
  unfold acc_lay. split; [rewrite app_length; lia|]. split; [apply Forall_app; split; assumption|].
  split; [intros c Hc; apply in_app_or in Hc; destruct Hc as [Hc|[<-|[]]]; [specialize (Hlt0 c Hc)|]; lia|].
  exists (szs ++ tszs). destruct Hs as [Ls Hs]. split.
  - apply slay_app; [split; assumption|]. replace (1 + length ns) with nx by lia. exact Hts.
  - apply (chain_app_intro _ ids 1 nx [nx]).
    + eapply chain_ext; [|exact Hch]. intros c Hc. destruct (chain_in _ _ _ _ c Hch Hc) as [Hge Hle].
      unfold szf in *. destruct (Nat.lt_ge_cases (c - 1) (length szs)) as [Hlt|Hge2].
      * rewrite app_nth1 by exact Hlt. reflexivity.
      * specialize (Hlt0 c Hc). lia.
    + cbn [chain]. split; [reflexivity|]. unfold szf. rewrite app_nth2 by lia.
      replace (nx - 1 - length szs) with 0 by lia. rewrite Ht0. lia.
Qed.

Theorem build_doc_wfd top : wfd (build_doc top).
Proof.
  rewrite build_doc_eq.
  assert (H0 : acc_lay ([], [], 1, false)).
  { split; [reflexivity|]. split; [constructor|]. split; [intros c []|]. exists []. split; [apply slay_nil | reflexivity]. }
  assert (H0' : acc_ok ([], [], 1, false)).
  { split; [reflexivity|]. split; [intros k nk Hk; destruct k; discriminate|]. split; [constructor | intros c []]. }
  assert (HL : acc_lay (fold_left doc_step top ([], [], 1, false))).
  { revert H0. generalize ([] : list node, [] : list nat, 1, false).
    induction top as [|t top IH]; intros acc Ha; simpl; [exact Ha | apply IH, doc_step_lay, Ha]. }
  pose proof (fold_doc_step_ok top _ H0') as HO.
  destruct (fold_left doc_step top ([], [], 1, false)) as [[[ns ids] nx] seen].
  destruct HL as [Hnx [Hnd [_ [szs [Hs Hch]]]]]. destruct HO as [_ [_ [_ Hids]]].
  set (root := mkNode KDoc [35;100;111;99;117;109;101;110;116]%N [] [] [] None [] ids).
  assert (Hall : slay 0 (root :: ns) (nx :: szs)).
  { apply slay_cons; [|exact Hs]. unfold klay. cbn [n_attrs n_children root length seq nth]. rewrite !Nat.add_0_r.
    split; [reflexivity|]. split; [|split].
    - cbn [plus]. eapply chain_ext; [|exact Hch]. intros c Hc. destruct (chain_in _ _ _ _ c Hch Hc) as [Hge _].
      unfold szf. replace (c - 0) with (S (c - 1)) by lia. reflexivity.
    - intros a [].
    - intros c Hc. destruct (Hids c Hc) as [H1 [H2 [nc [Hn [Hp Hk]]]]]. exists nc.
      split; [|split; [lia | split; assumption]]. replace (c - 0) with (S (c - 1)) by lia. exact Hn. }
  destruct Hall as [Lall Hall]. split.
  - split; reflexivity.
  - intros n Hn. destruct n as [|n]; [split; reflexivity|]. split; [|discriminate].
    intros Hk. exfalso. unfold get in Hk. cbn [nth] in Hk. unfold no_doc in Hnd. rewrite Forall_forall in Hnd.
    apply (Hnd (nth n ns dummy_node)); [|exact Hk]. apply nth_In. simpl in Hn. lia.
  - exists (szf 0 (nx :: szs)). split; [unfold szf; simpl; lia|].
    intros n Hn. destruct (nth_error (root :: ns) n) as [nk|] eqn:En.
    2:{ apply nth_error_None in En. lia. }
    destruct (Hall _ _ En) as [A [B [C D]]]. cbv zeta in *. cbn [plus] in *.
    split; rewrite (get_nth_error _ _ _ En).
    + exact A.
    + unfold szf at 2. rewrite Nat.sub_0_r. exact B.
    + intros a Ha. destruct (C a Ha) as [na [Hna [_ R]]]. rewrite Nat.sub_0_r in Hna. rewrite (get_nth_error _ _ _ Hna). exact R.
    + intros c Hc. destruct (D c Hc) as [nc [Hnc [_ R]]]. rewrite Nat.sub_0_r in Hnc. rewrite (get_nth_error _ _ _ Hnc). exact R.
Qed.
