"""C13 — whitespace stripping acts as if the stripped text nodes were not in the source."""
import copy, json, os
from vlib import core, xsltrun
from vlib import stripgen as sg

LEVEL = "proof"
FAMILY = "strip"


# ---------------------------------------------------------------------------------------------
# a case: {"id", "cls", "main": module, "doc": doc, "doc2": doc, "blocks": [names], "seps": {...}}

def files_of(case, with_decls):
    files = {}
    for m in sg.all_modules(case["main"]):
        if m is not case["main"]:
            files[m["name"]] = sg.module_text(m, with_decls, seps=case.get("seps"))
    return files


def jobs_of(case, blocks=None):
    """-> (job A, job B, probe job).  A: declarations + original documents; B: no declarations + documents
    from which the Python reference (XSLT 1.0 section 3.4) has physically removed the stripped text nodes"""
    blocks = blocks or case["blocks"]
    main = case["main"]
    top = sg.main_top_level(blocks)
    drop, xs1 = sg.rec_dropped(case["doc"], main)
    drop2, xs2 = sg.rec_dropped(case["doc2"], main)
    fa = files_of(case, True)
    fa["d2.xml"] = sg.serialize(case["doc2"])
    fb = files_of(case, False)
    fb["d2.xml"] = sg.serialize(case["doc2"], [id(n) for n in drop2])
    a = {"id": case["id"] + "A", "sheet": sg.module_text(main, True, top, seps=case.get("seps")), "source": sg.serialize(case["doc"]), "files": fa}
    b = {"id": case["id"] + "B", "sheet": sg.module_text(main, False, top), "source": sg.serialize(case["doc"], [id(n) for n in drop]), "files": fb}
    p = {"id": case["id"] + "P", "sheet": sg.module_text(main, True, sg.PROBE_TOP, seps=case.get("seps")), "source": sg.serialize(case["doc"]), "files": files_of(case, True)}
    if case.get("opts"):
        for j in (a, b, p):
            j["opts"] = case["opts"]
    return a, b, p, drop, xs1 + xs2


def ws_nodes(doc):
    return [n for n, parent, xs in sg.walk(doc["root"]) if n["k"] == "t" and n["ws"]]


def letters(s):
    return s.translate({ord(a): b for a, b in zip(sg.WS_SYMS, sg.WS_LETTERS)})


def parse_probe(txt):
    out = {}
    for line in txt.split("\n"):
        if "=" in line:
            k, _, v = line.partition("=")
            out[k] = v
    return out


# ---------------------------------------------------------------------------------------------
# generators

def gen_case(ctx, cid, cls, **force):
    r = ctx.rng
    nsmode = force.get("nsmode") or r.choice(["none", "prefixed", "prefixed", "default"])
    size = force.get("size") or r.choice([3, 5, 8, 12, 20])
    doc = sg.gen_doc(r, size, nsmode, xmlspace=force.get("xmlspace", r.random() < 0.3), exotic=force.get("exotic", True))
    doc2 = sg.gen_doc(r, r.choice([2, 4, 6]), nsmode, xmlspace=r.random() < 0.3, exotic=False)
    main = force.get("main") or sg.gen_module(r, nsmode, 0, [0])
    main["name"] = "main.xsl"
    sg.assign_prefixes(main, r)
    nb = force.get("nblocks") or r.choice([2, 3, 4])
    blocks = force.get("blocks") or r.sample(sg.BLOCK_NAMES, nb)
    seps = {}
    for m in sg.all_modules(main):
        for k, it in enumerate(m["items"]):
            if it[0] == "decl" and r.random() < 0.2:
                seps[(m["name"], k)] = r.choice(["  ", "\t", "&#10;", " &#9; ", "&#13;&#10;"])
    c = {"id": cid, "cls": cls, "main": main, "doc": doc, "doc2": doc2, "blocks": blocks, "seps": seps}
    if force.get("opts"):
        c["opts"] = force["opts"]
    return c


def module(items, imports=()):
    return {"name": "?", "items": list(items), "imports": list(imports)}


def name_modules(main):
    for i, m in enumerate(sg.all_modules(main)):
        m["name"] = "main.xsl" if i == 0 else "m%d.xsl" % i


def directed_sheets(r, nsmode):
    """boundary stream aimed at the case splits of tester_order_correct: pairs of matching declarations of
    opposite kinds, (a) in one module in both orders and all priority combinations, (b) across an import in
    both directions, (c) across nested imports / sibling imports, (d) equal priority (the last one wins)"""
    if nsmode == "none":
        toks = [("any",), ("q", 0, "a"), ("q", 0, "b")]
    else:
        toks = [("any",), ("ns", 2), ("q", 2, "a"), ("q", 0, "a"), ("ns", 3), ("q", 3, "b")]
    out = []
    for t1 in toks:
        for t2 in toks:
            for k in (True, False):
                out.append(("same-module", module([("decl", k, [t1]), ("decl", not k, [t2])])))
                out.append(("one-attribute", module([("decl", k, [t1, t2]), ("decl", not k, [r.choice(toks)])])))
                out.append(("import-vs-main", module([("decl", k, [t1])], [module([("decl", not k, [t2])])])))
    for _ in range(12):
        t = [r.choice(toks) for _ in range(5)]
        k = [r.random() < 0.5 for _ in range(5)]
        out.append(("sibling-imports", module([], [module([("decl", k[0], [t[0]])]), module([("decl", k[1], [t[1]])])])))
        out.append(("nested-imports", module([("decl", k[4], [t[4]])] if r.random() < 0.3 else [],
                                             [module([("decl", k[0], [t[0]])], [module([("decl", k[1], [t[1]])])]), module([("decl", k[2], [t[2]])], [module([("decl", k[3], [t[3]])])])])))
        out.append(("include", module([("decl", k[0], [t[0]]), ("include", module([("decl", k[1], [t[1]]), ("decl", k[2], [t[2]])])), ("decl", k[3], [t[3]])])))
        out.append(("include-in-import", module([("decl", k[0], [t[0]])], [module([("include", module([("decl", k[1], [t[1]])])), ("decl", k[2], [t[2]])])])))
    return out


def gen_cases(ctx, count, prefix="c"):
    r = ctx.rng
    cases = []

    def add(cls, **force):
        c = gen_case(ctx, "%s%d" % (prefix, len(cases)), cls, **force)
        cases.append(c)
        return c
    # directed: every sheet of the boundary stream on a document with the names it mentions
    for nsmode in ("none", "prefixed", "default"):
        ds = directed_sheets(r, nsmode)
        if not ctx.thorough:
            ds = r.sample(ds, min(len(ds), max(30, count // 6)))
        for cls, main in ds:
            name_modules(main)
            add("directed:" + cls, main=main, nsmode=nsmode, size=r.choice([4, 6, 9]), nblocks=r.choice([1, 2]))
    # every block on its own at least a few times per run
    for b in sg.BLOCK_NAMES:
        for _ in range(2 if not ctx.thorough else 6):
            add("block:" + b, blocks=[b], size=r.choice([5, 9, 14]))
    # empty / whitespace-only elements attribute: no declaration at all
    for _ in range(3):
        add("no-tokens", main=module([("decl", True, [])]))
    # Xerces DOM source (wrapped, whitespace flag computed by the wrapper)
    for _ in range(max(6, count // 12)):
        add("xercesdom", opts="xercesdom")     # whitespace nodes written as CDATA sections / references included
    while len(cases) < count:
        add("random")
    return cases


MALFORMED = [
    ('<xsl:strip-space elements="u:a"/>', "undeclared prefix"),
    ('<xsl:strip-space elements="1a"/>', "not an NCName"),
    ('<xsl:preserve-space elements="a:"/>', "empty local part"),
    ('<xsl:strip-space/>', "elements attribute missing"),
    ('<xsl:strip-space elements="a" bogus="1"/>', "unknown attribute"),
    ('<xsl:strip-space elements="ma:*:b"/>', "two colons"),
    ('<xsl:strip-space elements="**"/>', "two stars"),
    ('<xsl:strip-space elements="*:a"/>', "star prefix"),
]


# ---------------------------------------------------------------------------------------------

def run_all(jobs, exe):
    return xsltrun.run(jobs, exe=exe)


def first_diff(a, b):
    n = min(len(a), len(b))
    i = next((k for k in range(n) if a[k] != b[k]), n)
    return i


def evaluate(ctx, cases, exe, model):
    """-> (correspondence mismatches, oracle failures, known-finding hits)"""
    jobs, meta = [], {}
    for c in cases:
        a, b, p, drop, xs_class = jobs_of(c)
        meta[c["id"]] = (a, b, p, drop, xs_class)
        jobs += [a, b, p]
    res = run_all(jobs, exe)
    lines = [sg.model_line(c["id"], c["main"], c["doc"]) for c in cases] if model else []
    mres = {}
    if model:
        rc, mres, raw = core.run_lines_parallel(model, lines)
        if rc != 0:
            ctx.broken.append("model driver exited with status %d: %s" % (rc, raw[-300:]))
    corr, orc, known = [], [], []
    nontrivial = set()
    for c in cases:
        a, b, p, drop, xs_class = meta[c["id"]]
        ctx.cov["evaluations"] += 1
        ctx.count(c["cls"].split(":")[0])
        for bn in c["blocks"]:
            ctx.count("block:" + bn)
        ra, rb, rp = res[a["id"]], res[b["id"]], res[p["id"]]
        wsn = ws_nodes(c["doc"])
        dropset = set(id(n) for n in drop)
        if xs_class:
            # a declaration would strip a whitespace node that xml:space="preserve" protects (was K-C13-1)
            ctx.count("xml-space-protects-a-node")
        kb = [sg.KNOWN_CLASS_BLOCKS[bn] for bn in c["blocks"] if bn in sg.KNOWN_CLASS_BLOCKS]
        if kb:
            ctx.count("known-class-block")
            if ra[0] == "ok" and rb[0] == "ok" and ra[1] != rb[1]:
                known.append((kb[0], c))
            continue
        if ra[0] != "ok" or rb[0] != "ok" or rp[0] != "ok":
            orc.append({"case": c, "what": "a transformation failed: A=%r B=%r probe=%r" % (ra[:3], rb[:3], rp[:3])})
            continue
        if dropset:
            ctx.count("some-stripped")
        if dropset and len(dropset) < len(wsn):
            ctx.count("some-stripped-some-kept")
        # --- oracle 1: the property text: A (declarations) = B (physically removed, no declarations) ---------
        if ra[1] != rb[1]:
            i = first_diff(ra[1], rb[1])
            orc.append({"case": c, "what": "outputs differ at byte %d: with declarations ...%r, without declarations on the stripped document ...%r"
                        % (i, ra[1][max(0, i - 60):i + 40], rb[1][max(0, i - 60):i + 40])})
        if c.get("opts") == "xercesdom" and any(n.get("form") == "cdata" for n in wsn):
            # in a wrapped (not coalesced) Xerces DOM a CDATA section is a CDATA_SECTION_NODE, which text() does not
            # match whether stripped or not (a data-model matter outside this property): the per-node probe and the
            # model comparison rest on text(), so only the A/B oracle above applies to these cases
            ctx.count("xercesdom-with-cdata-whitespace")
            continue
        # --- oracle 2: per text node, the library's decision (visible to text()) = the Recommendation's ------
        pr = parse_probe(rp[1].decode("utf-8", "replace"))
        seen = set(x for x in pr.get("D", "").split(",") if x)
        lib_dec = "".join("0" if letters(n["data"]) in seen else "1" for n in wsn)
        rec_dec = "".join("1" if id(n) in dropset else "0" for n in wsn)
        if lib_dec != rec_dec:
            k = first_diff(lib_dec, rec_dec)
            orc.append({"case": c, "what": "whitespace text node #%d (%r): the library %s it, XSLT 1.0 section 3.4 %s it (decisions library %s, Recommendation %s)"
                        % (k, letters(wsn[k]["data"]), "strips" if lib_dec[k] == "1" else "keeps", "strips" if rec_dec[k] == "1" else "keeps", lib_dec, rec_dec)})
        if dropset:
            nontrivial.add((sg.sheet_model(c["main"]), lib_dec))
        # --- correspondence: the extracted model's report = the library's probe ------------------------------
        if model:
            ctx.cov["traces_validated_against_impl"] += 1
            m = mres.get(c["id"])
            if m is None or m.startswith("error"):
                corr.append({"case": c, "impl": "", "model": "model driver: %r" % m})
                continue
            mf = dict(x.split("=", 1) for x in m.split(" ") if "=" in x)
            msv = letters("".join(chr(int(h, 16)) for h in mf["SV"].split(".") if h))
            lib = {"D": lib_dec, "SV": pr.get("SV"), "NN": pr.get("NN"), "NT": pr.get("NT"), "KC": pr.get("KC", "").rstrip(","), "CP": pr.get("CP")}
            mod = {"D": mf["D"], "SV": msv, "NN": mf["NN"], "NT": mf["NT"], "KC": mf["KC"], "CP": msv}
            if lib != mod:
                bad = [k for k in lib if lib[k] != mod[k]]
                corr.append({"case": c, "impl": {k: lib[k] for k in bad}, "model": {k: mod[k] for k in bad}, "testers": mf.get("L")})
    ctx.cov["distinct_nontrivial"] += len(nontrivial)
    return corr, orc, known


# ---------------------------------------------------------------------------------------------
# the model of the level="any" walk (StripDefs.number_any) against the library, on the original
# document with declarations and on the physically stripped document without

NUMBER_PROBE = ('<xsl:output method="text"/><xsl:template match="/"><xsl:for-each select="/*/descendant-or-self::node()">'
                '<xsl:number level="any" count="node()" from="b"/>:<xsl:number level="any" count="text()" from="a|c"/>,</xsl:for-each></xsl:template>')
NUMBER_PATTERNS = [  # (from, count) as predicates on a generated node
    (lambda n: n["k"] == "e" and n["ns"] == 0 and n["local"] == "b", lambda n: True),
    (lambda n: n["k"] == "e" and n["ns"] == 0 and n["local"] in ("a", "c"), lambda n: n["k"] == "t"),
]


def number_walk_lines(case, drop):
    """for every visible node below the root, in document order, and both pattern pairs: the walk list"""
    dropset = set(id(n) for n in drop)
    pre = []          # (node, depth) in document order, the document element included

    def visit(n, d):
        pre.append((n, d))
        if n["k"] == "e":
            for k in n["kids"]:
                visit(k, d + 1)
    if case["doc"]["prolog"].strip():      # a comment or processing instruction before the document element: a preceding sibling
        pre.append(({"k": "c", "prolog": True}, 0))
    visit(case["doc"]["root"], 0)
    lines, keys = [], []
    for i, (n, d) in enumerate(pre):
        if id(n) in dropset or n.get("prolog"):
            continue
        for pi, (frm, cnt) in enumerate(NUMBER_PATTERNS):
            items = []
            for (m, dm) in reversed(pre[:i + 1]):
                st = id(m) in dropset
                items.append("%d.%d.%d.%d" % (dm, 0 if st else int(frm(m)), 0 if st else int(cnt(m)), int(st)))
            key = "%s_%d_%d" % (case["id"], i, pi)
            keys.append(key)
            lines.append(key + " N " + " ".join(items))
    return lines, keys


def number_correspondence(ctx, cases, exe, model):
    """-> list of mismatch descriptions"""
    jobs, meta = [], {}
    for c in cases:
        a, b, p, drop, xs = jobs_of(c)
        if xs:
            continue
        ja = dict(a, id=c["id"] + "NA", sheet=sg.module_text(c["main"], True, NUMBER_PROBE, seps=c.get("seps")))
        jb = dict(b, id=c["id"] + "NB", sheet=sg.module_text(c["main"], False, NUMBER_PROBE))
        jobs += [ja, jb]
        meta[c["id"]] = (ja, jb, drop)
    res = run_all(jobs, exe)
    bad = []
    lines, per = [], {}
    for c in cases:
        if c["id"] not in meta:
            continue
        l, keys = number_walk_lines(c, meta[c["id"]][2])
        lines += l
        per[c["id"]] = keys
    rc, mres, raw = core.run_lines_parallel(model, lines)
    differing = 0
    for c in cases:
        if c["id"] not in meta:
            continue
        ja, jb, drop = meta[c["id"]]
        ra, rb = res[ja["id"]], res[jb["id"]]
        if ra[0] != "ok" or rb[0] != "ok":
            bad.append("%s: number probe failed %r %r" % (c["id"], ra[:2], rb[:2]))
            continue
        ctx.cov["traces_validated_against_impl"] += 1
        keys = per[c["id"]]
        exp_a, exp_b = [], []
        for k in range(0, len(keys), 2):
            va = [mres.get(keys[k + j], "? ?").split(" ") for j in (0, 1)]
            exp_a.append(":".join("" if v[0] == "0" else v[0] for v in va))
            exp_b.append(":".join("" if v[1] == "0" else v[1] for v in va))
        got_a = ra[1].decode().split(",")[:-1]
        got_b = rb[1].decode().split(",")[:-1]
        if got_a != exp_a or got_b != exp_b:
            bad.append("%s: xsl:number level=any walk: library A %s B %s, model A %s B %s" % (c["id"], got_a[:30], got_b[:30], exp_a[:30], exp_b[:30]))
        if got_a != got_b:
            differing += 1
    ctx.notes["number_any_from_cases_where_A_differs_from_B"] = differing
    return bad


def shrink_blocks(case, exe):
    """which single observation block already shows the A/B difference"""
    for bn in case["blocks"]:
        a, b, p, _, _ = jobs_of(case, [bn])
        res = run_all([a, b], exe)
        if res[a["id"]] != res[b["id"]]:
            return bn
    return None


def replay_entry(o, exe=None):
    c = o["case"]
    blocks = c["blocks"]
    if exe is not None and "outputs differ" in o["what"]:
        bn = shrink_blocks(c, exe)
        if bn:
            blocks = [bn]
    a, b, p, drop, _ = jobs_of(c, blocks)
    d = {"id": c["id"], "cls": c["cls"], "blocks": blocks, "A": a, "B": b, "probe": p,
         "ws_nodes": [letters(n["data"]) for n in ws_nodes(c["doc"])],
         "rec_stripped": [letters(n["data"]) for n in drop]}
    return "# %s\n%s" % (o["what"], json.dumps(d))


def run_malformed(ctx, exe):
    jobs = []
    for i, (decl, what) in enumerate(MALFORMED):
        sheet = ('<xsl:stylesheet version="1.0" xmlns:xsl="%s" xmlns:ma="urn:u1">%s<xsl:template match="/"><xsl:value-of select="count(//text())"/></xsl:template></xsl:stylesheet>' % (sg.XSL, decl))
        jobs.append({"id": "bad%d" % i, "sheet": sheet, "source": "<a> <b/> </a>"})
    res = run_all(jobs, exe)
    lenient = []
    for i, (decl, what) in enumerate(MALFORMED):
        ctx.count("malformed")
        ctx.cov["evaluations"] += 1
        r = res["bad%d" % i]
        if r[0] == "crash":
            ctx.violation("malformed", "# C13: the library crashes on a malformed declaration (%s)\n%s" % (what, json.dumps(jobs[i])))
        elif r[0] == "ok":
            lenient.append("%s (%s) accepted, output %r" % (decl, what, r[1][:20]))
    ctx.notes["malformed_accepted"] = lenient


def run_corpus(ctx, exe, known):
    """fixed replays: corpus/C13/*.json — entries {"id","kind","A","B","what"}: kind "known:<key>" must still
    show the recorded deviation (else the finding is reported as no longer reproducible in the notes),
    kind "regress" must give identical outputs"""
    d = os.path.join(core.VERIF, "corpus", "C13")
    hits = set()
    if not os.path.isdir(d):
        return hits
    for f in sorted(os.listdir(d)):
        if not f.endswith(".json"):
            continue
        for e in json.load(open(os.path.join(d, f))):
            ctx.cov["evaluations"] += 1
            ctx.count("corpus")
            res = run_all([e["A"], e["B"]], exe)
            ra, rb = res[e["A"]["id"]], res[e["B"]["id"]]
            same = ra == rb and ra[0] == "ok"
            if e["kind"].startswith("known:"):
                key = e["kind"][6:]
                if not same and key in known:
                    hits.add(key)
                elif not same:
                    ctx.violation("corpus", "# C13 corpus entry %s fails and %s is not a listed finding\n%s" % (e["id"], key, json.dumps(e)))
                else:
                    ctx.notes.setdefault("findings_not_reproduced", []).append(key)
            elif not same:
                ctx.violation("corpus", "# C13 corpus entry %s (%s): outputs differ: %r vs %r\n%s" % (e["id"], e.get("what", ""), ra, rb, json.dumps(e)))
    return hits


def run(ctx):
    ctx.assumptions += [
        "the XML parser delivers the text between two markup items as one text node whose whitespace flag is 'all characters are #x20/#x9/#xA/#xD' (exercised with character references and CDATA sections, XalanSourceTree and the Xerces DOM wrapper)",
        "names are compared as (namespace URI, local name); the model's name ids are injective on the generated names",
        "the Coq theorems cover the decision (tester list, xml:space lookup) and the observation languages of StripDefs.v / StripZipDefs.v / StripObsDefs.v; match patterns with steps, sorting comparison, node-set union, document() and result tree fragments are covered by the A/B oracle only",
    ]
    ctx.notes["rule"] = ("distinct_nontrivial = distinct (declaration tree, per-whitespace-node decision vector) pairs in which at least one text node is stripped")
    ok_lib, liblog = core.build_lib("plain")
    if not ok_lib:
        ctx.broken.append("library does not build from the working tree: " + liblog[-500:])
        return ctx.finish(LEVEL)
    proved = ctx.prove(["Properties_C13.v"], ["GenStrip"])
    model, ok_m, mlog = core.build_model(FAMILY)
    if not ok_m:
        ctx.broken.append("model extraction/build failed: " + mlog[-500:])
        model = None
    exe, ok_h, hlog = xsltrun.build()
    if not ok_h:
        ctx.broken.append("xslt driver does not compile against the working tree: " + hlog[-500:])
        return ctx.finish(LEVEL)
    known = {k["key"]: k for k in ctx.known.for_property("C13")}

    hits = run_corpus(ctx, exe, known)
    run_malformed(ctx, exe)
    count = 2000 if not ctx.thorough else 40000
    cases = gen_cases(ctx, count)
    # xml:space="preserve" / "default" nesting on every document of this stream (K-C13-1, repaired)
    xs_cases = [gen_case(ctx, "x%d" % i, "xml-space", xmlspace=True, nblocks=2) for i in range(120 if not ctx.thorough else 2000)]
    # xsl:number level="any" with from patterns (K-C13-2, repaired in /repo): ordinary cases, and the model of the walk
    # (StripDefs.number_any, configuration read from the source) is compared with both sides
    xs_cases += [gen_case(ctx, "y%d" % i, "number-any-from", blocks=["number-any-from"], size=ctx.rng.choice([6, 10, 16])) for i in range(40 if not ctx.thorough else 400)]
    ctx.cov["samples"] = [sg.sheet_model(c["main"]) + " on " + sg.serialize(c["doc"])[:120] for c in cases[200:206]]
    corr, orc, kn = evaluate(ctx, cases + xs_cases, exe, model)
    if model:
        nbad = number_correspondence(ctx, [c for c in xs_cases if c["cls"] == "number-any-from"], exe, model)
        if nbad:
            ctx.broken.append("correspondence number walk (StripDefs.number_any): %d cases differ, e.g. %s" % (len(nbad), nbad[0][:400]))
    if (corr or not proved or not model or ctx.broken) and not orc and not ctx.thorough:
        ctx.escalated = True
        more = gen_cases(ctx, 12000, prefix="e")
        c2, o2, k2 = evaluate(ctx, more, exe, model)
        corr += c2
        orc += o2
        kn += k2
    for key, c in kn:
        hits.add(key)
    for key in sorted(hits):
        if key in known:
            ctx.known_finding("%s %s" % (key, known[key]["what"]))
        else:
            ctx.violation("unlisted", "# C13: deviation of class %s observed but not listed as a known finding\n%s"
                          % (key, "\n".join(replay_entry({"case": c, "what": k}) for k, c in kn if k == key)))
    if corr:
        x = corr[0]
        ctx.broken.append("correspondence strip: %d of %d cases differ between the extracted model and the library, e.g. %s: library %s model %s (testers %s)" % (
            len(corr), ctx.cov["traces_validated_against_impl"], sg.sheet_model(x["case"]["main"])[:200], str(x["impl"])[:200], str(x["model"])[:200], x.get("testers")))
        ctx.notes["correspondence_mismatches"] = [{"impl": str(x["impl"])[:300], "model": str(x["model"])[:300], "sheet": sg.sheet_model(x["case"]["main"])[:300]} for x in corr[:10]]
    if orc:
        orc.sort(key=lambda o: (len(sg.serialize(o["case"]["doc"])) + 50 * len(list(sg.all_modules(o["case"]["main"])))))
        ctx.violation("oracle", "# C13 oracle failures (%d); replay: python3 check.py C13 --replay <this file>\n" % len(orc) +
                      "\n".join(replay_entry(o, exe if i < 3 else None) for i, o in enumerate(orc[:12])))
    ctx.notes["oracle_failures"] = len(orc)
    return ctx.finish(LEVEL, explanation="theorems over the Gallina model of the strip decision (tester list) and of the observations through it; "
                      "census of every consult point regenerated from the source; extracted model against the library's probes; "
                      "independent oracle: declarations on the original document versus no declarations on the physically stripped document (removal per XSLT 1.0 3.4 in Python)")


def replay(ctx, path):
    core.build_lib("plain")
    exe, ok, log = xsltrun.build()
    rc = 0
    for line in open(path):
        if not line.strip() or line.startswith("#"):
            continue
        d = json.loads(line)
        entries = d if isinstance(d, list) else [d]
        for e in entries:
            res = run_all([e["A"], e["B"]] + ([e["probe"]] if "probe" in e else []), exe)
            ra, rb = res[e["A"]["id"]], res[e["B"]["id"]]
            print(e["id"], e.get("cls", e.get("kind", "")), e.get("blocks", ""))
            print("  A (declarations, original document):", ra[0], ra[1][:300] if ra[0] == "ok" else ra[1:])
            print("  B (no declarations, stripped document):", rb[0], rb[1][:300] if rb[0] == "ok" else rb[1:])
            bad = ra != rb or ra[0] != "ok"
            if "probe" in e and res[e["probe"]["id"]][0] == "ok":
                pr = parse_probe(res[e["probe"]["id"]][1].decode("utf-8", "replace"))
                seen = set(x for x in pr.get("D", "").split(",") if x)
                lib = [w for w in e["ws_nodes"] if w not in seen]
                print("  whitespace nodes stripped by the library:", lib, " by XSLT 1.0 3.4:", e["rec_stripped"])
                bad = bad or sorted(lib) != sorted(e["rec_stripped"])
            print("  " + ("FAIL" if bad else "ok"))
            rc |= 1 if bad else 0
    return rc
