(* SerEscDefs.v — C04, layer 2: FormatterToXMLUnicode / XalanXMLSerializerBase as they are:
   special-character predicates over the generated tables, escaping of content and attribute
   values, CDATA sections, comments, processing instructions, the element stack with
   empty-element minimisation, the XML declaration.  Definitions only.
   (No indentation, no DOCTYPE, no standalone: the later C08 builder adds the indent handler.) *)
From Coq Require Import NArith List Bool.
Require Import XV.GenSer XV.SerUtfDefs.
Import ListNotations.
Local Open Scope N_scope.

(* ---- CharFunctor1_0 / CharFunctor1_1 ---------------------------------------------------------- *)
Definition sp_table (v11 : bool) : list N := if v11 then special_chars_1_1 else special_chars_1_0.
Definition sp_last (v11 : bool) : N := if v11 then last_special_1_1 else last_special_1_0.
Definition sp_entry (v11 : bool) (c : N) : N := nth (N.to_nat c) (sp_table v11) 0.

Definition p_range (v11 : bool) (c : N) : bool := sp_last v11 <? c.
Definition p_attribute (v11 : bool) (c : N) : bool :=
  if sp_last v11 <? c then false
  else (if v11 then attribute_gt_1_1 else attribute_gt_1_0) <? sp_entry v11 c.
Definition p_content (v11 : bool) (c : N) : bool :=
  if sp_last v11 <? c then false
  else (if v11 then content_gt_1_1 else content_gt_1_0) <? sp_entry v11 c.
Definition p_forbidden (v11 : bool) (c : N) : bool :=
  if sp_last v11 <? c then false
  else sp_entry v11 c =? (if v11 then forbidden_eq_1_1 else forbidden_eq_1_0).
Definition p_crforbidden (v11 : bool) (c : N) : bool :=
  if sp_last v11 <? c then false
  else sp_entry v11 c =? (if v11 then charref_forbidden_eq_1_1 else charref_forbidden_eq_1_0).

(* ---- the writer as seen by the formatter -------------------------------------------------------- *)
Record fam : Type := mkfam {
  f_kbuf : N;
  f_unit : N -> list item;                  (* m_writer.write(value_type) *)
  f_const : list N -> list item;            (* m_writer.write(s_xxxString, s_xxxStringLength) *)
  f_str : list N -> list item;              (* m_writer.write(const XalanDOMString&) *)
  f_name : list N -> list item;             (* m_writer.writeNameChar *)
  f_comment : list N -> list item;          (* m_writer.writeCommentChars / writePIChars (identical) *)
  f_at : N -> list N -> list item * bool;   (* m_writer.write(chars, start, length) *)
  f_cdata_char : N -> list N -> bool -> list item * bool * bool;   (* m_writer.writeCDATAChar *)
  f_newline : list item                     (* m_writer.outputNewline() *)
}.

Definition s_cdata_open : list N := [60; 33; 91; 67; 68; 65; 84; 65; 91].   (* <![CDATA[ *)
Definition s_cdata_close : list N := [93; 93; 62].                          (* ]]> *)

Definition fam_utf8 : fam :=
  mkfam kbuf_utf8 u8_unit u8_block u8_str u8_str u8_str u8_at
        (fun c r o => let '(its, skip) := u8_at c r in
                      ((if o then u8_block s_cdata_open else []) ++ its, skip, false))
        (u8_str [10]).

Definition fam_utf16 : fam :=
  mkfam kbuf_utf16 u16_unit u16_block u16_block u16_block u16_chars u16_at
        (fun c r o => let '(its, skip) := u16_at c r in
                      ((if o then u16_block s_cdata_open else []) ++ its, skip, false))
        (u16_block [10]).

Definition fam_other (rep : N -> bool) : fam :=
  mkfam kbuf_other (o_unit rep) (o_str rep) (o_str rep) (o_name rep) (o_name rep) (o_at rep)
        (o_cdata_char rep s_cdata_open s_cdata_close)
        (o_str rep [10]).

(* ---- FormatterToXMLUnicode ------------------------------------------------------------------------ *)
Section Formatter.
  Variable F : fam.
  Variable v11 : bool.

  Definition units (l : list N) : list item := flat_map (f_unit F) l.

  (* writeNumericCharacterReference *)
  Definition ncr (n : N) : list item :=
    f_unit F 38 ++ f_unit F 35 ++ f_str F (decimal n) ++ f_unit F 59.

  (* writeDefaultEntity *)
  Definition default_entity (c : N) : option (list item) :=
    if c =? 60 then Some (f_const F [38; 108; 116; 59])
    else if c =? 62 then Some (f_const F [38; 103; 116; 59])
    else if c =? 38 then Some (f_const F [38; 97; 109; 112; 59])
    else None.

  (* writeDefaultEscape *)
  Definition default_escape (c : N) : list item :=
    match default_entity c with
    | Some its => its
    | None =>
        if c =? 10 then f_newline F
        else if p_forbidden v11 c then [IThrow err_forbidden]
        else ncr c
    end.

  (* writeDefaultAttributeEscape *)
  Definition default_attr_escape (c : N) : list item :=
    match default_entity c with
    | Some its => its
    | None =>
        if c =? 34 then f_const F [38; 113; 117; 111; 116; 59]
        else if p_forbidden v11 c then [IThrow err_forbidden]
        else ncr c
    end.

  (* writeNormalizedCharBig *)
  Definition normalized_big (c : N) (r : list N) : list item * bool :=
    if v11 && (c =? 8232) then (ncr c, false) else f_at F c r.

  (* one iteration of the loop of writeCharacters; the run of unescaped characters that the code
     defers (firstIndex .. i) is written here character by character, as safeWriteContent does *)
  Definition content_step (c : N) (r : list N) : list item * bool :=
    if p_range v11 c then normalized_big c r
    else if negb (p_content v11 c) then (f_unit F c, false)
    else (default_escape c, false).

  Definition attr_step (c : N) (r : list N) : list item * bool :=
    if p_range v11 c then normalized_big c r
    else if negb (p_attribute v11 c) then (f_unit F c, false)
    else (default_attr_escape c, false).

  (* writeNormalizedData (comments and PI data): the runs between line feeds go to
     writeCommentChars / writePIChars, which throw for what the encoding cannot represent; a
     character that may only be written as a reference is an error here *)
  (* a character that survives parsing only as a character reference cannot stand in a comment or PI:
     the XML 1.1 control characters, and (when GenSer.comment_eol_is_error: fix 06-K-new-1-comment-pi)
     CR and under 1.1 NEL and LSEP, which a parser would turn into LF *)
  Definition comment_eol (c : N) : bool :=
    comment_eol_is_error && ((c =? 13) || (v11 && ((c =? 133) || (c =? 8232)))).
  Definition p_comment_error (c : N) : bool := p_crforbidden v11 c || comment_eol c.

  Fixpoint normalized_loop (l run_rev : list N) : list item :=
    match l with
    | [] => f_comment F (rev run_rev)
    | c :: r =>
        if c =? 10 then f_comment F (rev run_rev) ++ f_newline F ++ normalized_loop r []
        else if p_comment_error c then [IThrow err_forbidden]
        else normalized_loop r (c :: run_rev)
    end.

  Fixpoint char_loop (step : N -> list N -> list item * bool) (l : list N) : list item :=
    match l with
    | [] => []
    | c :: r =>
        let '(its, skip) := step c r in
        its ++ (if skip then match r with [] => [] | _ :: r' => char_loop step r' end
                else char_loop step r)
    end.

  Definition write_content (s : list N) : list item := char_loop content_step s.
  Definition write_attr_string (s : list N) : list item := char_loop attr_step s.
  Definition write_normalized_data (s : list N) : list item := normalized_loop s [].

  Definition longer_than (k : N) (l : list N) : bool :=
    match skipn (N.to_nat k) l with [] => false | _ => true end.

  (* writeCDATAChars: items and the final value of outsideCDATA *)
  Fixpoint cdata_loop (l : list N) (outside : bool) : list item * bool :=
    match l with
    | [] => ([], outside)
    | c :: r =>
        let plain (_ : unit) :=
          if c =? 10 then let '(its, o) := cdata_loop r outside in (f_newline F ++ its, o)
          else if p_forbidden v11 c then ([IThrow err_forbidden], outside)
          else if (c =? 13) || (v11 && ((c =? 133) || (c =? 8232) || p_crforbidden v11 c)) then
            (* leave the section and write a character reference *)
            let '(its, o) := cdata_loop r true in
            ((if outside then [] else f_const F s_cdata_close) ++ ncr c ++ its, o)
          else
            let '(its, skip, o1) := f_cdata_char F c r outside in
            let '(its2, o2) :=
              if skip then match r with [] => ([], o1) | _ :: r' => cdata_loop r' o1 end
              else cdata_loop r o1 in
            (its ++ its2, o2) in
        if c =? 93 then
          if longer_than cdata_lookahead_gt l then
            match r with
            | a :: b :: r'' =>
                if (a =? 93) && (b =? 62) then
                  let '(its, o) := cdata_loop r'' false in
                  ((if outside then f_const F s_cdata_open else []) ++
                   f_unit F 93 ++ f_unit F 93 ++ f_const F s_cdata_close ++
                   f_const F s_cdata_open ++ f_unit F 62 ++ its, o)
                else plain tt
            | _ => plain tt
            end
          else plain tt
        else plain tt
    end.

  (* writeCDATA (without writeParentTagEnd) *)
  Definition write_cdata (s : list N) : list item :=
    let '(its, o) := cdata_loop s false in
    f_const F s_cdata_open ++ its ++ (if o then [] else f_const F s_cdata_close).

  (* comment(data) without writeParentTagEnd *)
  Definition write_comment (s : list N) : list item :=
    units [60; 33; 45; 45] ++ write_normalized_data s ++ units [45; 45; 62].

  Definition is_xml_ws (c : N) : bool := (c =? 32) || (c =? 9) || (c =? 13) || (c =? 10).

  (* writeProcessingInstruction without writeParentTagEnd *)
  Definition write_pi (target data : list N) : list item :=
    units [60; 63] ++ f_name F target ++
    (match data with c :: _ => if is_xml_ws c then [] else f_unit F 32 | [] => [] end) ++
    write_normalized_data data ++ units [63; 62].

  (* writeXMLHeader: <?xml version="V" encoding="E"?> *)
  Definition write_header (version encoding : list N) : list item :=
    f_const F [60; 63; 120; 109; 108; 32; 118; 101; 114; 115; 105; 111; 110; 61; 34] ++
    f_str F version ++
    f_const F [34; 32; 101; 110; 99; 111; 100; 105; 110; 103; 61; 34] ++
    f_str F encoding ++
    f_const F [34; 63; 62].

  (* ---- events; m_elemStack ------------------------------------------------------------------------ *)
  Inductive event : Type :=
  | EStart (name : list N) (attrs : list (list N * list N))
  | EEnd (name : list N)
  | EText (s : list N)
  | ECdata (s : list N)
  | EComment (s : list N)
  | EPI (target data : list N).

  (* writeParentTagEnd / markParentForChildren *)
  Definition parent_tag_end (st : list bool) : list item * list bool :=
    match st with
    | false :: r => (f_unit F 62, true :: r)
    | _ => ([], st)
    end.

  Definition write_attribute (a : list N * list N) : list item :=
    f_unit F 32 ++ f_name F (fst a) ++ f_unit F 61 ++ f_unit F 34 ++
    write_attr_string (snd a) ++ f_unit F 34.

  Definition event_items (e : event) (st : list bool) : list item * list bool :=
    match e with
    | EStart name attrs =>
        let '(p, st1) := parent_tag_end st in
        (p ++ f_unit F 60 ++ f_name F name ++ flat_map write_attribute attrs, false :: st1)
    | EEnd name =>
        let '(had, st1) := match st with [] => (false, []) | b :: r => (b, r) end in
        ((if had then f_unit F 60 ++ f_unit F 47 ++ f_name F name else f_unit F 47) ++ f_unit F 62, st1)
    | EText s =>
        match s with
        | [] => ([], st)
        | _ => let '(p, st1) := parent_tag_end st in (p ++ write_content s, st1)
        end
    | ECdata s =>
        match s with
        | [] => ([], st)
        | _ => let '(p, st1) := parent_tag_end st in (p ++ write_cdata s, st1)
        end
    | EComment s => let '(p, st1) := parent_tag_end st in (p ++ write_comment s, st1)
    | EPI t d => let '(p, st1) := parent_tag_end st in (p ++ write_pi t d, st1)
    end.

  Fixpoint events_items (es : list event) (st : list bool) : list item :=
    match es with
    | [] => []
    | e :: r => let '(its, st1) := event_items e st in its ++ events_items r st1
    end.

  (* startDocument ... endDocument *)
  Definition document_items (version encoding : list N) (es : list event) : list item :=
    write_header version encoding ++ events_items es [] ++ [IFlush].
End Formatter.

