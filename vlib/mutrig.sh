#!/bin/sh
# Run one property check against a seeded change WITHOUT touching /repo or /verif/.build:
#   vlib/mutrig.sh <ID> <patch.diff> [tier]
# Uses the persistent scratch worktree /tmp/mutrepo (git worktree of /repo) and a copy of /verif in
# /tmp/vmut (its own .build, so the shared library build is not disturbed).
# MUTSLOT=<k> selects an independent rig (/tmp/mutrepo<k>, /tmp/vmut<k>) so that several can run side by side.
set -e
# one user at a time: the scratch worktree and copy are shared
S=${MUTSLOT:-}
if [ -z "$MUTRIG_LOCKED" ]; then MUTRIG_LOCKED=1 exec flock /tmp/mutrig$S.lock env MUTRIG_LOCKED=1 "$0" "$@"; fi
ID=$1; PATCH=$2; TIER=${3:-quick}
[ -d /tmp/mutrepo$S ] || git -C /repo worktree add --detach /tmp/mutrepo$S HEAD -q
git -C /tmp/mutrepo$S checkout -q --detach "$(git -C /repo rev-parse HEAD)"
git -C /tmp/mutrepo$S checkout -- .
mkdir -p /tmp/vmut$S
rsync -a --delete --exclude .build --exclude out --exclude .git --exclude '*.vo' --exclude '*.vos' --exclude '*.vok' --exclude '*.glob' --exclude '.*.aux' --exclude 'coq/Gen*.v' /verif/ /tmp/vmut$S/
# generated facts: copy by CONTENT (new mtime), never by mtime - a run on a mutated tree leaves a regenerated Gen*.v and a
# newer .vo behind; restoring the reference copy with its old mtime would let make keep the stale .vo
for g in /verif/coq/Gen*.v; do b=/tmp/vmut$S/coq/$(basename $g); cmp -s $g $b || cp $g $b; done
if [ -n "$PATCH" ] && [ "$PATCH" != "-" ]; then git -C /tmp/mutrepo$S apply "$PATCH"; fi
cd /tmp/vmut$S && VERIF_REPO=/tmp/mutrepo$S python3 check.py "$ID" --tier "$TIER" 2>&1 | grep -v '^KNOWN-FINDING' | tail -${TAILN:-6}
git -C /tmp/mutrepo$S checkout -- .
