"""C11 (part "cache", family xoCache) -- the value caches of the XObjects XObjectFactoryDefault recycles, as they are in THIS
tree -> coq/GenXoCache.v, consumed by coq/XoCacheDefs.v / Properties_C11x.v and props/C11_cache.py.  Regenerated from /repo
on every run; fail closed.

What is TRANSLATED (may change shape without an AnchorError; the theorems' guard flags_ok decides):
  * XNodeSetBase::clearCachedValues(): a sequence of `m_cachedNumberValue = theBogusNumberValue;`,
    `m_cachedStringValue.clear();` and `if (m_cachedStringValue.empty() == false) { <those two> }`  -> gen_xo_clear_prog
  * the literal of theBogusNumberValue -> its IEEE bits
  * XNodeSet::release() calls clearCachedValues() or not; XNodeSet::set() calls release() or not; the eTypeNodeSet case of
    XObjectFactoryDefault::doReturnObject calls release() before push_back or not
  * XString::set() calls clearCachedValues() or not (and XStringBase::clearCachedValues() is `m_cachedNumberValue = 0.0;`);
    XNumber::set() clears m_cachedStringValue or not
  * eXNodeSetCacheMax / eXStringCacheMax / eXNumberCacheMax
  * XSLT/XResultTreeFrag.cpp: its own theBogusNumberValue; which of the tests `getNodeType() == TEXT_NODE`, `getNextSibling() == 0`
    getSingleTextChildValue() makes (everything else of XResultTreeFrag pinned, including that StylesheetExecutionContextDefault
    constructs a new object for every fragment and release()s + destroys it when it comes back, and that set() has no caller)
What is PINNED token for token (the hand-written machine of coq/XoCacheDefs.v was written against these texts; anything else is
an AnchorError): XNodeSetBase::num / boolean / six str overloads / stringLength and the constructor initialisers, XNodeSet::item /
getLength, XStringBase::num / boolean, XString::str overloads / stringLength, XNumber::num / str overloads / stringLength, XNumberBase::boolean,
XObjectFactoryDefault::createNodeSet(BorrowReturnMutableNodeRefList&) / createString(const XalanDOMString&) / createNumber(double)
and the eTypeString / eTypeNumber cases of doReturnObject; no file of src/xalanc other than the known ones mentions
m_cachedStringValue / m_cachedNumberValue / clearCachedValues."""
import os
import re
import struct
import srcfacts
from srcfacts import AnchorError, need, read, strip_comments, function_body, HEADER


def _sq(s):
    s = re.sub(r"\s+", " ", strip_comments(s)).strip()
    return re.sub(r"(?<![A-Za-z0-9_]) | (?![A-Za-z0-9_])", "", s)


def _overloads(rel, cls, name):
    """{squeezed parameter list: squeezed body} of every definition `cls::name(...) [const] {` in rel"""
    t = strip_comments(read(rel))
    out = {}
    for m in re.finditer(r"\b%s::%s\s*\(([^)]*)\)\s*(?:const)?\s*\{" % (cls, name), t):
        body = _sq(function_body(t[m.start():], r"%s::%s\s*\([^)]*\)\s*(?:const)?\s*\{" % (cls, name), "%s::%s" % (cls, name)))
        key = _sq(m.group(1))
        if key in out:
            raise AnchorError("%s::%s(%s) is defined twice in %s" % (cls, name, key, rel))
        out[key] = body
    return out


def _pin(rel, cls, name, expected):
    got = _overloads(rel, cls, name)
    if got != expected:
        for k in sorted(set(got) | set(expected)):
            if got.get(k) != expected.get(k):
                raise AnchorError("%s::%s(%s) in %s is not the text the machine of coq/XoCacheDefs.v was written against: %s" % (
                    cls, name, k, rel, (got.get(k) or "<no such overload>")[:200]))
    return got


NODE = "const XalanNode*const theNode=item(0);assert(theNode!=0);"
NS_NUM = {"XPathExecutionContext&executionContext":
          "{if(DoubleSupport::equal(m_cachedNumberValue,theBogusNumberValue)==true){m_cachedNumberValue=DoubleSupport::toDouble("
          "str(executionContext),getMemoryManager());}return m_cachedNumberValue;}"}
NS_BOOL = {"XPathExecutionContext&": "{return getLength()>0?true:false;}"}
NS_STR = {
    "XPathExecutionContext&executionContext":
        "{if(m_cachedStringValue.empty()==true&&getLength()>0){" + NODE +
        "DOMServices::getNodeData(*theNode,executionContext,m_cachedStringValue);}return m_cachedStringValue;}",
    "": "{if(m_cachedStringValue.empty()==true&&getLength()>0){" + NODE +
        "DOMServices::getNodeData(*theNode,m_cachedStringValue);}return m_cachedStringValue;}",
    "XPathExecutionContext&executionContext,FormatterListener&formatterListener,MemberFunctionPtr function":
        "{if(m_cachedStringValue.empty()==false){XObject::string(m_cachedStringValue,formatterListener,function);}else if(getLength()>0){"
        + NODE + "DOMServices::getNodeData(*theNode,executionContext,formatterListener,function);}}",
    "FormatterListener&formatterListener,MemberFunctionPtr function":
        "{if(m_cachedStringValue.empty()==false){XObject::string(m_cachedStringValue,formatterListener,function);}else if(getLength()>0){"
        + NODE + "DOMServices::getNodeData(*theNode,formatterListener,function);}}",
    "XPathExecutionContext&executionContext,XalanDOMString&theBuffer":
        "{if(m_cachedStringValue.empty()==false){theBuffer.append(m_cachedStringValue);}else if(getLength()>0){"
        + NODE + "DOMServices::getNodeData(*theNode,executionContext,theBuffer);}}",
    "XalanDOMString&theBuffer":
        "{if(m_cachedStringValue.empty()==false){theBuffer.append(m_cachedStringValue);}else if(getLength()>0){"
        + NODE + "DOMServices::getNodeData(*theNode,theBuffer);}}",
}
NS_LEN = {"XPathExecutionContext&executionContext":
          "{if(m_cachedStringValue.empty()==false){return static_cast<double>(m_cachedStringValue.length());}else if(getLength()==0)"
          "{return 0;}else{" + NODE + "FormatterStringLengthCounter theCounter;DOMServices::getNodeData(*theNode,executionContext,"
          "theCounter,&FormatterListener::characters);return static_cast<double>(theCounter.getCount());}}"}
XS_NUM = {"XPathExecutionContext&executionContext":
          "{if(m_cachedNumberValue==0.0){m_cachedNumberValue=DoubleSupport::toDouble(str(executionContext),getMemoryManager());}"
          "return m_cachedNumberValue;}"}
XS_BOOL = {"XPathExecutionContext&executionContext": "{return!str(executionContext).empty();}"}
XSTR_STR = {
    "XPathExecutionContext&": "{return m_value;}",
    "": "{return m_value;}",
    "XPathExecutionContext&,FormatterListener&formatterListener,MemberFunctionPtr function": "{string(m_value,formatterListener,function);}",
    "FormatterListener&formatterListener,MemberFunctionPtr function": "{string(m_value,formatterListener,function);}",
    "XPathExecutionContext&,XalanDOMString&theBuffer": "{theBuffer.append(m_value);}",
    "XalanDOMString&theBuffer": "{theBuffer.append(m_value);}",
}
XSTR_LEN = {"XPathExecutionContext&": "{return static_cast<double>(m_value.length());}"}
EVENTS = ("assert(theValue.length()==FormatterListener::size_type(theValue.length()));(formatterListener.*function)(theValue.c_str(),"
          "FormatterListener::size_type(theValue.length()));}")
XN_NUM = {"XPathExecutionContext&": "{return m_value;}", "": "{return m_value;}"}
XN_STR = {
    "XPathExecutionContext&": "{if(m_cachedStringValue.empty()==true){NumberToDOMString(m_value,m_cachedStringValue);}return m_cachedStringValue;}",
    "": "{if(m_cachedStringValue.empty()==true){NumberToDOMString(m_value,m_cachedStringValue);}return m_cachedStringValue;}",
    "XPathExecutionContext&executionContext,FormatterListener&formatterListener,MemberFunctionPtr function":
        "{const XalanDOMString&theValue=str(executionContext);" + EVENTS,
    "FormatterListener&formatterListener,MemberFunctionPtr function": "{const XalanDOMString&theValue=str();" + EVENTS,
    "XPathExecutionContext&,XalanDOMString&theBuffer":
        "{if(m_cachedStringValue.empty()==false){theBuffer.append(m_cachedStringValue);}else{NumberToDOMString(m_value,theBuffer);}}",
    "XalanDOMString&theBuffer":
        "{if(m_cachedStringValue.empty()==false){theBuffer.append(m_cachedStringValue);}else{NumberToDOMString(m_value,theBuffer);}}",
}
XN_LEN = {"XPathExecutionContext&executionContext": "{return static_cast<double>(str(executionContext).length());}"}
XN_BOOL = {"XPathExecutionContext&executionContext": "{return XObject::boolean(num(executionContext));}"}


def _create(cache, cls, var, alloc_var_type, alloc, maxname, ctor):
    return ("{if(%(c)s.empty()==false){%(k)s*const %(v)s=%(c)s.back();%(c)s.pop_back();%(v)s->set(theValue);return XObjectPtr(%(v)s);}"
            "else{%(c)s.reserve(%(m)s);%(t)s*const %(w)s=%(a)s.%(f)s(theValue);%(w)s->setFactory(this);return XObjectPtr(%(w)s);}}" % {
                "c": cache, "k": cls, "v": var, "m": maxname, "t": alloc_var_type[1], "w": alloc_var_type[0], "a": alloc, "f": ctor})


CREATE_NS = _create("m_xnodesetCache", "XNodeSet", "theXObject", ("theXObject", "XNodeSet"), "m_xnodesetAllocator", "eXNodeSetCacheMax", "createNodeSet")
CREATE_S = _create("m_xstringCache", "XString", "theXString", ("theXString", "XString"), "m_xstringAllocator", "eXStringCacheMax", "createString")
CREATE_N = _create("m_xnumberCache", "XNumber", "theXNumber", ("theXObject", "XObject"), "m_xnumberAllocator", "eXNumberCacheMax", "createNumber")


def _return_case(enum, cls, var, cache, maxname, alloc, release):
    return ("case XObject::%(e)s:{%(k)s*const %(v)s=static_cast<%(k)s*>(theXObject);if(%(c)s.size()<%(m)s){%(r)s%(c)s.push_back(%(v)s);"
            "bStatus=true;}else{bStatus=%(a)s.destroy(%(v)s);}}break;" % {
                "e": enum, "k": cls, "v": var, "c": cache, "m": maxname, "a": alloc, "r": (var + "->release();") if release else ""})


CACHE_FILES = {"XPath/XStringBase.hpp", "XPath/XStringBase.cpp", "XPath/XNodeSetBase.hpp", "XPath/XNodeSetBase.cpp",
               "XPath/XNumber.hpp", "XPath/XNumber.cpp"}
# a fourth kind with caches of the same design (constructed anew for every fragment, never reused): see _rtf()
UNMODELLED = {"XSLT/XResultTreeFrag.hpp", "XSLT/XResultTreeFrag.cpp"}     # checked by _rtf() below
CLEAR_FILES = {"XPath/XStringBase.hpp", "XPath/XNodeSetBase.hpp", "XPath/XNodeSetBase.cpp", "XPath/XString.hpp", "XPath/XNodeSet.cpp"}


def _scan_tree():
    cached, clears = set(), set()
    for root, dirs, files in os.walk(srcfacts.SRC):
        for fn in files:
            if not fn.endswith((".cpp", ".hpp", ".h", ".c")):
                continue
            p = os.path.join(root, fn)
            try:
                with open(p, encoding="utf-8", errors="replace") as f:
                    t = f.read()
            except OSError:
                continue
            rel = os.path.relpath(p, srcfacts.SRC).replace(os.sep, "/")
            if "m_cachedStringValue" in t or "m_cachedNumberValue" in t:
                cached.add(rel)
            if "clearCachedValues" in t:
                clears.add(rel)
    if cached - UNMODELLED != CACHE_FILES:
        raise AnchorError("m_cachedStringValue / m_cachedNumberValue are mentioned by another set of files than the machine knows: %s"
                          % sorted((cached - UNMODELLED) ^ CACHE_FILES))
    if not clears <= CLEAR_FILES:
        raise AnchorError("clearCachedValues is mentioned by files the machine does not know: %s" % sorted(clears - CLEAR_FILES))


RESET_NUM = "m_cachedNumberValue=theBogusNumberValue;"
CLEAR_STR = "m_cachedStringValue.clear();"
IF_NONEMPTY = ("if(m_cachedStringValue.empty()==false){", "if(!m_cachedStringValue.empty()){", "if(m_cachedStringValue.empty()!=true){")


def _clear_prog(body):
    """the squeezed body `{...}` of XNodeSetBase::clearCachedValues() -> [("do", s) | ("ifne", [s...])], s in {"num", "str"}"""
    t = body[1:-1]
    prog = []
    while t:
        if t.startswith(RESET_NUM):
            prog.append(("do", "num")); t = t[len(RESET_NUM):]
        elif t.startswith(CLEAR_STR):
            prog.append(("do", "str")); t = t[len(CLEAR_STR):]
        else:
            for h in IF_NONEMPTY:
                if t.startswith(h):
                    t = t[len(h):]
                    inner = []
                    while not t.startswith("}"):
                        if t.startswith(RESET_NUM):
                            inner.append("num"); t = t[len(RESET_NUM):]
                        elif t.startswith(CLEAR_STR):
                            inner.append("str"); t = t[len(CLEAR_STR):]
                        else:
                            raise AnchorError("XNodeSetBase::clearCachedValues(): statement not understood inside the if: %s" % t[:120])
                    t = t[1:]
                    if t.startswith("else"):
                        raise AnchorError("XNodeSetBase::clearCachedValues(): an else branch is not understood")
                    prog.append(("ifne", inner))
                    break
            else:
                raise AnchorError("XNodeSetBase::clearCachedValues(): statement not understood: %s" % t[:120])
    return prog


def _statements(body, allowed, what):
    """body `{a;b;}` as a list of statements, each of which must be in allowed"""
    sts = [s + ";" for s in body[1:-1].split(";") if s]
    for s in sts:
        if s not in allowed:
            raise AnchorError("%s: statement not understood: %s" % (what, s[:120]))
    return sts


RTF = "XSLT/XResultTreeFrag.cpp"
RTF_ASSERT = "assert(m_value->getFirstChild()!=0&&m_value->getFirstChild()->getNodeType()==XalanNode::TEXT_NODE);"
RTF_NUM = {"XPathExecutionContext&executionContext":
           "{if(m_cachedNumberValue==theBogusNumberValue){m_cachedNumberValue=DoubleSupport::toDouble(str(executionContext),getMemoryManager());}"
           "return m_cachedNumberValue;}",
           "": "{if(m_cachedNumberValue==theBogusNumberValue){m_cachedNumberValue=DoubleSupport::toDouble(str(),getMemoryManager());}"
               "return m_cachedNumberValue;}"}
RTF_BOOL = {"XPathExecutionContext&": "{return true;}"}
RTF_STR = {
    "XPathExecutionContext&": "{return XResultTreeFrag::str();}",
    "": "{if(m_singleTextChildValue!=0){" + RTF_ASSERT + "return*m_singleTextChildValue;}else if(m_cachedStringValue.empty()==true)"
        "{DOMServices::getNodeData(*m_value,m_cachedStringValue);}return m_cachedStringValue;}",
    "XPathExecutionContext&,FormatterListener&formatterListener,MemberFunctionPtr function": "{XResultTreeFrag::str(formatterListener,function);}",
    "FormatterListener&formatterListener,MemberFunctionPtr function":
        "{if(m_singleTextChildValue!=0){" + RTF_ASSERT + "XObject::string(*m_singleTextChildValue,formatterListener,function);}"
        "else if(m_cachedStringValue.empty()==false){XObject::string(m_cachedStringValue,formatterListener,function);}"
        "else{DOMServices::getNodeData(*m_value,formatterListener,function);}}",
    "XPathExecutionContext&,XalanDOMString&theBuffer": "{XResultTreeFrag::str(theBuffer);}",
    "XalanDOMString&theBuffer":
        "{if(m_singleTextChildValue!=0){theBuffer.append(*m_singleTextChildValue);}else if(m_cachedStringValue.empty()==false)"
        "{theBuffer.append(m_cachedStringValue);}else{DOMServices::getNodeData(*m_value,theBuffer);}}",
}
RTF_LEN = {"XPathExecutionContext&executionContext":
           "{if(m_singleTextChildValue!=0){return static_cast<double>(m_singleTextChildValue->length());}else if(m_cachedStringValue.empty()==false)"
           "{return static_cast<double>(m_cachedStringValue.length());}else{FormatterStringLengthCounter theCounter;DOMServices::getNodeData(*m_value,"
           "executionContext,theCounter,&FormatterListener::characters);return static_cast<double>(theCounter.getCount());}}"}
# never reached with an object that is asked again (the object is destroyed after release(); set() has no caller): pinned all the same
RTF_RELEASE = {"": "{m_singleTextChildValue=0;m_cachedStringValue.clear();m_cachedNumberValue=theBogusNumberValue;"
                   "XalanDocumentFragment*const temp=m_value;m_value=0;return temp;}"}
RTF_SET = {"XalanDocumentFragment&theValue": "{release();m_value=&theValue;m_singleTextChildValue=getSingleTextChildValue(*m_value);}"}
RTF_DEREF = {"": "{if(m_executionContext==0||m_executionContext->returnXResultTreeFrag(this)==false){delete m_value;delete this;}}"}
RTF_FILES = {"XSLT/StylesheetExecutionContext.hpp", "XSLT/StylesheetExecutionContextDefault.cpp", "XSLT/StylesheetExecutionContextDefault.hpp",
             "XSLT/XResultTreeFrag.cpp", "XSLT/XResultTreeFrag.hpp", "XSLT/XResultTreeFragAllocator.hpp", "XalanExtensions/FunctionNodeSet.hpp"}


def _rtf():
    """-> (sentinel, text_test, sibling_test) of XSLT/XResultTreeFrag.cpp, after checking that no XResultTreeFrag is ever reused"""
    _pin(RTF, "XResultTreeFrag", "num", RTF_NUM)
    _pin(RTF, "XResultTreeFrag", "boolean", RTF_BOOL)
    _pin(RTF, "XResultTreeFrag", "str", RTF_STR)
    _pin(RTF, "XResultTreeFrag", "stringLength", RTF_LEN)
    _pin(RTF, "XResultTreeFrag", "release", RTF_RELEASE)
    _pin(RTF, "XResultTreeFrag", "set", RTF_SET)
    _pin(RTF, "XResultTreeFrag", "dereferenced", RTF_DEREF)
    t = _sq(read(RTF))
    m = need(r"const double theBogusNumberValue=([-+0-9.eE]+);", t, "XResultTreeFrag.cpp: const double theBogusNumberValue = <literal>;", 0)
    try:
        bogus = float(m.group(1))
    except ValueError:
        raise AnchorError("XResultTreeFrag.cpp theBogusNumberValue: not a floating literal: " + m.group(1))
    need(r"XResultTreeFrag::XResultTreeFrag\(XalanDocumentFragment&value,MemoryManager&theManager\):XObject\(eTypeResultTreeFrag,theManager\),"
         r"m_value\(&value\),m_singleTextChildValue\(getSingleTextChildValue\(value\)\),m_executionContext\(0\),m_cachedStringValue\(theManager\),"
         r"m_cachedNumberValue\(theBogusNumberValue\)\{\}", t,
         "XResultTreeFrag(XalanDocumentFragment&, MemoryManager&): m_singleTextChildValue(getSingleTextChildValue(value)), "
         "m_cachedStringValue(theManager), m_cachedNumberValue(theBogusNumberValue)", 0)
    m = need(r"inline const XalanDOMString\*getSingleTextChildValue\(const XalanDocumentFragment&theRTreeFrag\)\{const XalanNode\*const theFirstChild="
             r"theRTreeFrag\.getFirstChild\(\);if\(([^{}]*)\)\{return&theFirstChild->getNodeValue\(\);\}else\{return 0;\}\}", t,
             "getSingleTextChildValue: theFirstChild = getFirstChild(); if (<tests>) return &theFirstChild->getNodeValue(); else return 0;", 0)
    tests = m.group(1).split("&&")
    known = {"theFirstChild!=0": "nonnull", "theFirstChild->getNodeType()==XalanNode::TEXT_NODE": "text", "theFirstChild->getNextSibling()==0": "sibling"}
    got = []
    for x in tests:
        if x not in known:
            raise AnchorError("getSingleTextChildValue: test not understood: %s" % x[:120])
        got.append(known[x])
    if got[:1] != ["nonnull"] or len(set(got)) != len(got):
        raise AnchorError("getSingleTextChildValue: `theFirstChild != 0` must be tested first, every test once: %r" % got)
    # every mention of the three members is inside the pinned texts (two constructors: 1 + 2 mentions each of the cached members)
    exp = {"m_singleTextChildValue": 3, "m_cachedStringValue": 3, "m_cachedNumberValue": 3}
    for d in (RTF_NUM, RTF_STR, RTF_LEN, RTF_RELEASE, RTF_SET):
        for b in d.values():
            for k in exp:
                exp[k] += b.count(k)
    for k, n in exp.items():
        if t.count(k) != n:
            raise AnchorError("XResultTreeFrag.cpp mentions %s outside the functions the machine models (%d mentions, expected %d)" % (k, t.count(k), n))
    # never reused: the execution context constructs a new object for every fragment and destroys it when it comes back
    sc = _sq(read("XSLT/StylesheetExecutionContextDefault.cpp"))
    if sc.count("m_xresultTreeFragAllocator.create(*theDocumentFragment);theXResultTreeFrag->setExecutionContext(this);") != 2 \
            or sc.count("m_xresultTreeFragAllocator.create(") != 2:
        raise AnchorError("StylesheetExecutionContextDefault: fragments are not created by m_xresultTreeFragAllocator.create(*theDocumentFragment) "
                          "in exactly the two places the machine knows")
    uses = re.findall(r"theXResultTreeFrag->(\w+)\(", sc)
    if sorted(uses) != ["release", "setExecutionContext", "setExecutionContext"]:
        raise AnchorError("StylesheetExecutionContextDefault calls other members of an XResultTreeFrag than the machine knows: %r" % sorted(uses))
    ret = _overloads("XSLT/StylesheetExecutionContextDefault.cpp", "StylesheetExecutionContextDefault", "returnXResultTreeFrag")
    b = ret.get("XResultTreeFrag*theXResultTreeFrag", "")
    i, j = b.find("theXResultTreeFrag->release();"), b.find("m_xresultTreeFragAllocator.destroy(theXResultTreeFrag);")
    if not (0 <= i < j) or not b.startswith("{assert(theXResultTreeFrag!=0);if(m_xresultTreeFragAllocator.ownsObject(theXResultTreeFrag)==false){return false;}else{"):
        raise AnchorError("StylesheetExecutionContextDefault::returnXResultTreeFrag: not `release()` followed by `m_xresultTreeFragAllocator.destroy`")
    al = _sq(read("XSLT/XResultTreeFragAllocator.cpp"))
    need(r"XResultTreeFragAllocator::create\(XalanDocumentFragment&theValue\)\{data_type\*const theBlock=m_allocator\.allocateBlock\(\);assert\(theBlock!=0\);"
         r"data_type\*const theResult=new\(theBlock\)data_type\(theValue,m_allocator\.getMemoryManager\(\)\);", al,
         "XResultTreeFragAllocator::create(XalanDocumentFragment&): placement new data_type(theValue, ...) - a constructor call every time", 0)
    named = set()
    for root, dirs, files in os.walk(srcfacts.SRC):
        for fn in files:
            if fn.endswith((".cpp", ".hpp")):
                p = os.path.join(root, fn)
                with open(p, encoding="utf-8", errors="replace") as f:
                    if re.search(r"\bXResultTreeFrag\b", f.read()):
                        named.add(os.path.relpath(p, srcfacts.SRC).replace(os.sep, "/"))
    if named != RTF_FILES:
        raise AnchorError("the class XResultTreeFrag is named by another set of files than the machine knows (a caller of set()?): %s"
                          % sorted(named ^ RTF_FILES))
    return bogus, "text" in got, "sibling" in got


def gen_xocache():
    _scan_tree()
    rtf_bogus, rtf_text, rtf_sibling = _rtf()
    base = "XPath/XNodeSetBase.cpp"
    _pin(base, "XNodeSetBase", "num", NS_NUM)
    _pin(base, "XNodeSetBase", "boolean", NS_BOOL)
    _pin(base, "XNodeSetBase", "str", NS_STR)
    _pin(base, "XNodeSetBase", "stringLength", NS_LEN)
    t = _sq(read(base))
    m = need(r"const double theBogusNumberValue=([-+0-9.eE]+);", t, "XNodeSetBase.cpp: const double theBogusNumberValue = <literal>;", 0)
    try:
        bogus = float(m.group(1))
    except ValueError:
        raise AnchorError("theBogusNumberValue: not a floating literal: " + m.group(1))
    bits = struct.unpack(">Q", struct.pack(">d", bogus))[0]
    need(r"XNodeSetBase::XNodeSetBase\(MemoryManager&theMemoryManager\):XObject\(eTypeNodeSet,theMemoryManager\),m_proxy\(\*this\),"
         r"m_cachedStringValue\(theMemoryManager\),m_cachedNumberValue\(theBogusNumberValue\)\{\}", t,
         "XNodeSetBase(MemoryManager&): m_cachedStringValue(theMemoryManager), m_cachedNumberValue(theBogusNumberValue)", 0)
    clear = _overloads(base, "XNodeSetBase", "clearCachedValues")
    if list(clear) != [""]:
        raise AnchorError("XNodeSetBase::clearCachedValues(): expected exactly one definition without parameters")
    prog = _clear_prog(clear[""])
    # every mention of the two members in the file is inside the pinned functions, the two constructors or clearCachedValues()
    n_num = t.count("m_cachedNumberValue")
    n_str = t.count("m_cachedStringValue")
    exp_num = 3 + 3 + clear[""].count("m_cachedNumberValue")
    exp_str = sum(b.count("m_cachedStringValue") for b in list(NS_STR.values()) + list(NS_LEN.values())) + 3 + clear[""].count("m_cachedStringValue")
    if (n_num, n_str) != (exp_num, exp_str):
        raise AnchorError("XNodeSetBase.cpp mentions the cached members outside the functions the machine models (%d/%d mentions, expected %d/%d)"
                          % (n_num, n_str, exp_num, exp_str))
    hpp = _sq(read("XPath/XNodeSetBase.hpp"))
    need(r"mutable XalanDOMString m_cachedStringValue;mutable double m_cachedNumberValue;\};", hpp,
         "XNodeSetBase.hpp: the two mutable members, private, last in the class", 0)
    need(r"protected:[^{}]*void clearCachedValues\(\);", hpp, "XNodeSetBase.hpp: protected non-virtual void clearCachedValues();", 0)

    ns = "XPath/XNodeSet.cpp"
    _pin(ns, "XNodeSet", "item", {"size_type index": "{return m_value->item(index);}"})
    _pin(ns, "XNodeSet", "getLength", {"": "{return m_value->getLength();}"})
    rel = _overloads(ns, "XNodeSet", "release")
    if list(rel) != [""]:
        raise AnchorError("XNodeSet::release(): expected exactly one definition without parameters")
    sts = _statements(rel[""], ("m_value.release();", "clearCachedValues();"), "XNodeSet::release()")
    if sts.count("m_value.release();") != 1:
        raise AnchorError("XNodeSet::release(): expected exactly one m_value.release();")
    release_clears = "clearCachedValues();" in sts
    st = _overloads(ns, "XNodeSet", "set")
    if list(st) != ["BorrowReturnMutableNodeRefList&value"]:
        raise AnchorError("XNodeSet::set(BorrowReturnMutableNodeRefList& value): expected exactly this definition")
    b = st["BorrowReturnMutableNodeRefList&value"]
    if b == "{release();m_value=value;}":
        set_releases = True
    elif b == "{m_value=value;}":
        set_releases = False
    else:
        raise AnchorError("XNodeSet::set(): neither `release(); m_value = value;` nor `m_value = value;`: " + b[:160])

    _pin("XPath/XStringBase.cpp", "XStringBase", "num", XS_NUM)
    _pin("XPath/XStringBase.cpp", "XStringBase", "boolean", XS_BOOL)
    sb = _sq(read("XPath/XStringBase.cpp"))
    if sb.count("m_cachedNumberValue(0.0)") != 2 or sb.count("m_cachedNumberValue") != 3 + 4:
        raise AnchorError("XStringBase.cpp: the constructors must initialise m_cachedNumberValue(0.0) and only num() may use it")
    sbh = _sq(read("XPath/XStringBase.hpp"))
    need(r"void clearCachedValues\(\)\{m_cachedNumberValue=0\.0;\}", sbh, "XStringBase::clearCachedValues() { m_cachedNumberValue = 0.0; }", 0)
    if sbh.count("m_cachedNumberValue") != 2:
        raise AnchorError("XStringBase.hpp mentions m_cachedNumberValue outside clearCachedValues() and the member declaration")
    _pin("XPath/XString.cpp", "XString", "str", XSTR_STR)
    _pin("XPath/XString.cpp", "XString", "stringLength", XSTR_LEN)
    xsh = _sq(read("XPath/XString.hpp"))
    m = need(r"void set\(const XalanDOMString&theString\)(\{[^{}]*\})", xsh, "XString::set(const XalanDOMString& theString) { ... }", 0)
    if m.group(1) == "{m_value=theString;clearCachedValues();}":
        xs_clears = True
    elif m.group(1) == "{m_value=theString;}":
        xs_clears = False
    else:
        raise AnchorError("XString::set(): neither `m_value = theString; clearCachedValues();` nor `m_value = theString;`: " + m.group(1)[:160])

    xn = "XPath/XNumber.cpp"
    _pin(xn, "XNumber", "num", XN_NUM)
    _pin("XPath/XNumberBase.cpp", "XNumberBase", "boolean", XN_BOOL)
    if _overloads(xn, "XNumber", "boolean"):
        raise AnchorError("XNumber::boolean: XNumber is expected to inherit boolean() from XNumberBase")
    _pin(xn, "XNumber", "str", XN_STR)
    _pin(xn, "XNumber", "stringLength", XN_LEN)
    st = _overloads(xn, "XNumber", "set")
    if list(st) != ["double theValue"]:
        raise AnchorError("XNumber::set(double theValue): expected exactly this definition")
    if st["double theValue"] == "{m_value=theValue;m_cachedStringValue.clear();}":
        xn_clears = True
    elif st["double theValue"] == "{m_value=theValue;}":
        xn_clears = False
    else:
        raise AnchorError("XNumber::set(): neither `m_value = theValue; m_cachedStringValue.clear();` nor `m_value = theValue;`: "
                          + st["double theValue"][:160])
    xnt = _sq(read(xn))
    if xnt.count("m_cachedStringValue") != sum(b.count("m_cachedStringValue") for b in XN_STR.values()) + 3 + (1 if xn_clears else 0):
        raise AnchorError("XNumber.cpp mentions m_cachedStringValue outside the functions the machine models")

    fac = "XPath/XObjectFactoryDefault.cpp"
    got = _overloads(fac, "XObjectFactoryDefault", "createNodeSet")
    if got.get("BorrowReturnMutableNodeRefList&theValue") != CREATE_NS:
        raise AnchorError("XObjectFactoryDefault::createNodeSet(BorrowReturnMutableNodeRefList&): not `back(); pop_back(); set(theValue)` / allocator")
    got = _overloads(fac, "XObjectFactoryDefault", "createString")
    if got.get("const XalanDOMString&theValue") != CREATE_S:
        raise AnchorError("XObjectFactoryDefault::createString(const XalanDOMString&): not `back(); pop_back(); set(theValue)` / allocator")
    got = _overloads(fac, "XObjectFactoryDefault", "createNumber")
    if got.get("double theValue") != CREATE_N:
        raise AnchorError("XObjectFactoryDefault::createNumber(double): not `back(); pop_back(); set(theValue)` / allocator")
    ft = _sq(read(fac))
    for cache, n in (("m_xnodesetCache", 8), ("m_xstringCache", 8), ("m_xnumberCache", 8)):
        if len(re.findall(r"\b%s\b" % cache, ft)) != n:
            raise AnchorError("XObjectFactoryDefault.cpp: %s is used in another number of places (%d) than the machine knows (%d: initialiser, "
                              "doReturnObject x2, create x4, reset)" % (cache, len(re.findall(r"\b%s\b" % cache, ft)), n))
    ret = _sq(function_body(strip_comments(read(fac)), r"XObjectFactoryDefault::doReturnObject\s*\([^)]*\)\s*\{", "XObjectFactoryDefault::doReturnObject"))
    if _return_case("eTypeNodeSet", "XNodeSet", "theXNodeSet", "m_xnodesetCache", "eXNodeSetCacheMax", "m_xnodesetAllocator", True) in ret:
        return_releases = True
    elif _return_case("eTypeNodeSet", "XNodeSet", "theXNodeSet", "m_xnodesetCache", "eXNodeSetCacheMax", "m_xnodesetAllocator", False) in ret:
        return_releases = False
    else:
        raise AnchorError("XObjectFactoryDefault::doReturnObject, case eTypeNodeSet: not `if (size() < max) { [release();] push_back } else destroy`")
    if _return_case("eTypeString", "XString", "theXString", "m_xstringCache", "eXStringCacheMax", "m_xstringAllocator", False) not in ret:
        raise AnchorError("XObjectFactoryDefault::doReturnObject, case eTypeString: not `if (size() < max) push_back else destroy`")
    if _return_case("eTypeNumber", "XNumber", "theXNumber", "m_xnumberCache", "eXNumberCacheMax", "m_xnumberAllocator", False) not in ret:
        raise AnchorError("XObjectFactoryDefault::doReturnObject, case eTypeNumber: not `if (size() < max) push_back else destroy`")
    fh = _sq(read("XPath/XObjectFactoryDefault.hpp"))
    maxes = []
    for name in ("eXNodeSetCacheMax", "eXStringCacheMax", "eXNumberCacheMax"):
        m = need(r"\b%s=(\d+)[,}]" % name, fh, "XObjectFactoryDefault.hpp: %s = <n>" % name, 0)
        v = int(m.group(1))
        if not 0 <= v <= 1000:
            raise AnchorError("%s = %d: outside the range the machine is run with (0..1000)" % (name, v))
        maxes.append(v)

    def b(x):
        return "true" if x else "false"

    def coq_stmt(s):
        if s[0] == "do":
            return "XoDo %s" % ("XoResetNum" if s[1] == "num" else "XoClearStr")
        return "XoIfStrNonEmpty [%s]" % "; ".join("XoResetNum" if x == "num" else "XoClearStr" for x in s[1])
    facts = {"clear_prog": prog, "bogus": bogus, "release_clears": release_clears, "set_releases": set_releases,
             "return_releases": return_releases, "xstring_set_clears": xs_clears, "xnumber_set_clears": xn_clears, "cache_max": maxes,
             "rtf_bogus": rtf_bogus, "rtf_text_test": rtf_text, "rtf_sibling_test": rtf_sibling}
    out = [HEADER, "From Coq Require Import ZArith NArith List Bool.\nRequire Import XV.XoCacheAst.\nImport ListNotations.\n\n",
           "(* XPath/XNodeSetBase.cpp: const double theBogusNumberValue = %s;  (IEEE 754 binary64 bits) *)\n" % m_literal(bogus),
           "Definition gen_xo_bogus_bits : Z := %d%%Z.\n" % bits,
           "(* XPath/XNodeSetBase.cpp XNodeSetBase::clearCachedValues(), statement by statement *)\n",
           "Definition gen_xo_clear_prog : list xo_stmt := [%s].\n" % "; ".join(coq_stmt(s) for s in prog),
           "(* XPath/XNodeSet.cpp release(): m_value.release() and clearCachedValues() *)\n",
           "Definition gen_xo_release_clears : bool := %s.\n" % b(release_clears),
           "(* XPath/XNodeSet.cpp set(): release() before m_value = value *)\n",
           "Definition gen_xo_set_releases : bool := %s.\n" % b(set_releases),
           "(* XPath/XObjectFactoryDefault.cpp doReturnObject, case eTypeNodeSet: release() before m_xnodesetCache.push_back *)\n",
           "Definition gen_xo_return_releases : bool := %s.\n" % b(return_releases),
           "(* XPath/XString.hpp set(): clearCachedValues() (XStringBase.hpp: m_cachedNumberValue = 0.0) after m_value = theString *)\n",
           "Definition gen_xo_xstring_set_clears : bool := %s.\n" % b(xs_clears),
           "(* XPath/XNumber.cpp set(): m_cachedStringValue.clear() after m_value = theValue *)\n",
           "Definition gen_xo_xnumber_set_clears : bool := %s.\n" % b(xn_clears),
           "(* XPath/XObjectFactoryDefault.hpp: eXNodeSetCacheMax, eXStringCacheMax, eXNumberCacheMax *)\n",
           "Definition gen_xo_cache_max : N * N * N := (%d, %d, %d)%%N.\n" % tuple(maxes),
           "(* XSLT/XResultTreeFrag.cpp: const double theBogusNumberValue = %s; *)\n" % m_literal(rtf_bogus),
           "Definition gen_xo_rtf_bogus_bits : Z := %d%%Z.\n" % struct.unpack(">Q", struct.pack(">d", rtf_bogus))[0],
           "(* XSLT/XResultTreeFrag.cpp getSingleTextChildValue(): theFirstChild->getNodeType() == XalanNode::TEXT_NODE is tested *)\n",
           "Definition gen_xo_rtf_text_test : bool := %s.\n" % b(rtf_text),
           "(* XSLT/XResultTreeFrag.cpp getSingleTextChildValue(): theFirstChild->getNextSibling() == 0 is tested *)\n",
           "Definition gen_xo_rtf_sibling_test : bool := %s.\n" % b(rtf_sibling)]
    return "".join(out), facts


def m_literal(x):
    return repr(x)


GENERATORS = {"GenXoCache": gen_xocache}
