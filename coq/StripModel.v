(* C13 — proofs about the strip decision (tester list): the list built by addWhitespaceElement and
   postConstruction, searched front to back, implements the XSLT 1.0 section 3.4 rule. *)
From Coq Require Import String List NArith Bool Lia Sorted.
Require Import XV.GenStrip XV.StripDefs.
Open Scope list_scope.
Import ListNotations.

(* facts of the source (GenStrip) the proofs rest on; a change of the source breaks them here *)
Lemma gen_insert_before_equal : insert_before_equal = true. Proof. reflexivity. Qed.
Lemma gen_import_at_front : import_at_front = true. Proof. reflexivity. Qed.
Lemma gen_priorities : rec_priorities_ordered.
Proof. unfold rec_priorities_ordered. repeat split; reflexivity. Qed.

Definition ge_score (x y : tester) : Prop := (score y <= score x)%N.

(* ---------------------------------------------------------------------------------------------- *)
(* addWhitespaceElement *)

Lemma add_ws_unfold : forall t x r,
  add_ws t (x :: r) = if N.leb (score x) (score t) then t :: x :: r else x :: add_ws t r.
Proof. intros. cbn [add_ws]. rewrite gen_insert_before_equal. reflexivity. Qed.

Lemma add_ws_in : forall t l y, In y (add_ws t l) -> y = t \/ In y l.
Proof.
  intros t l. induction l as [|x r IH]; intros y H.
  - cbn in H. destruct H as [H|[]]. left; auto.
  - rewrite add_ws_unfold in H. destruct (N.leb (score x) (score t)).
    + destruct H as [H|H]; [left; auto | right; exact H].
    + destruct H as [H|H]; [right; left; exact H|].
      destruct (IH _ H) as [E|I]; [left; exact E | right; right; exact I].
Qed.

Lemma add_ws_sorted : forall t l, StronglySorted ge_score l -> StronglySorted ge_score (add_ws t l).
Proof.
  intros t l. induction l as [|x r IH]; intros S.
  - cbn. constructor; constructor.
  - rewrite add_ws_unfold. destruct (N.leb (score x) (score t)) eqn:E.
    + apply N.leb_le in E. constructor; [exact S|].
      constructor; [exact E|].
      inversion S as [|? ? Sr Fx]; subst.
      rewrite Forall_forall in *. intros y Hy. specialize (Fx y Hy). unfold ge_score in *. lia.
    + apply N.leb_gt in E. inversion S as [|? ? Sr Fx]; subst.
      constructor; [apply IH; exact Sr|].
      rewrite Forall_forall in *. intros y Hy. destruct (add_ws_in _ _ _ Hy) as [->|I].
      * unfold ge_score. lia.
      * apply Fx; exact I.
Qed.

(* the first match after an insertion *)
Lemma add_ws_find : forall (p : tester -> bool) t l, StronglySorted ge_score l ->
  find p (add_ws t l) =
  match find p l with
  | Some d => if p t && N.leb (score d) (score t) then Some t else Some d
  | None => if p t then Some t else None
  end.
Proof.
  intros p t l. induction l as [|x r IH]; intros S.
  - cbn. destruct (p t); reflexivity.
  - rewrite add_ws_unfold. inversion S as [|? ? Sr Fx]; subst.
    destruct (N.leb (score x) (score t)) eqn:E.
    + apply N.leb_le in E. cbn [find]. destruct (p t) eqn:Pt.
      * destruct (p x) eqn:Px.
        -- cbn. apply N.leb_le in E. rewrite E. reflexivity.
        -- destruct (find p r) eqn:F; [|reflexivity].
           assert (In t0 r) by (apply find_some in F; tauto).
           rewrite Forall_forall in Fx. specialize (Fx _ H). unfold ge_score in Fx.
           assert (N.leb (score t0) (score t) = true) by (apply N.leb_le; lia).
           rewrite H0. reflexivity.
      * cbn. destruct (p x); [reflexivity|]. destruct (find p r); reflexivity.
    + cbn [find]. destruct (p x) eqn:Px.
      * rewrite E. rewrite andb_false_r. reflexivity.
      * apply IH; exact Sr.
Qed.

Lemma own_list_snoc : forall o t, own_list (o ++ [t]) = add_ws t (own_list o).
Proof. intros. unfold own_list. rewrite fold_left_app. reflexivity. Qed.

Lemma own_list_sorted : forall own, StronglySorted ge_score (own_list own).
Proof.
  intros own. induction own as [|t o IH] using rev_ind.
  - constructor.
  - rewrite own_list_snoc. apply add_ws_sorted. exact IH.
Qed.

(* one module: the first match of its list is the applicable match of section 3.4 *)
Lemma own_list_spec : forall n own,
  match find (matches n) (own_list own) with
  | Some d => applicable_in n own d
  | None => no_match n own
  end.
Proof.
  intros n own. induction own as [|t o IH] using rev_ind.
  - cbn. intros d [].
  - rewrite own_list_snoc. rewrite add_ws_find by apply own_list_sorted.
    destruct (find (matches n) (own_list o)) as [d|] eqn:F.
    + destruct IH as (o1 & o2 & Eo & Md & Hle & Hlt).
      destruct (matches n t && N.leb (score d) (score t)) eqn:C.
      * apply andb_true_iff in C. destruct C as [Mt Le]. apply N.leb_le in Le.
        exists o, []. repeat split; auto.
        -- intros d' Hd' Md'. subst o. apply in_app_or in Hd'. destruct Hd' as [I|[->|I]].
           ++ specialize (Hle _ I Md'). lia.
           ++ exact Le.
           ++ specialize (Hlt _ I Md'). lia.
        -- intros d' [].
      * exists o1, (o2 ++ [t]). repeat split; auto.
        -- subst o. rewrite <- app_assoc. reflexivity.
        -- intros d' Hd' Md'. apply in_app_or in Hd'. destruct Hd' as [I|[->|[]]].
           ++ apply Hlt; auto.
           ++ rewrite Md' in C. cbn in C. apply N.leb_gt in C. exact C.
    + destruct (matches n t) eqn:Mt.
      * exists o, []. repeat split; auto.
        -- intros d' Hd' Md'. rewrite (IH _ Hd') in Md'. discriminate.
        -- intros d' [].
      * intros d Hd. apply in_app_or in Hd. destruct Hd as [I|[->|[]]]; auto.
Qed.

(* ---------------------------------------------------------------------------------------------- *)
(* postConstruction: the list is the concatenation of the modules' lists in descending precedence *)

Lemma find_app : forall A (p : A -> bool) l1 l2,
  find p (l1 ++ l2) = match find p l1 with Some d => Some d | None => find p l2 end.
Proof. intros A p l1 l2. induction l1 as [|x r IH]; cbn; [reflexivity|]. destruct (p x); auto. Qed.

Lemma concat_concat : forall A (L : list (list (list A))), concat (concat L) = concat (map (@concat A) L).
Proof. intros A L. induction L as [|x r IH]; cbn; [reflexivity|]. rewrite concat_app, IH. reflexivity. Qed.

Lemma rev_concat : forall A (L : list (list A)), rev (concat L) = concat (rev (map (@rev A) L)).
Proof.
  intros A L. induction L as [|x r IH]; cbn; [reflexivity|].
  rewrite rev_app_distr, IH, concat_app. cbn. rewrite app_nil_r. reflexivity.
Qed.

Fixpoint sheet_ind' (P : sheet -> Prop)
  (H : forall own imps, Forall P imps -> P (Sheet own imps)) (s : sheet) : P s :=
  match s with
  | Sheet own imps =>
      H own imps ((fix go (l : list sheet) : Forall P l :=
                     match l with
                     | [] => Forall_nil P
                     | x :: r => Forall_cons x (sheet_ind' P H x) (go r)
                     end) imps)
  end.

Definition by_precedence (s : sheet) : list (list tester) := rev (postorder s).

Lemma post_construction_by_precedence : forall s,
  post_construction s = concat (map own_list (by_precedence s)).
Proof.
  intros s. induction s as [own imps IH] using sheet_ind'.
  unfold by_precedence. cbn [post_construction postorder].
  unfold imports_vector. rewrite gen_import_at_front.
  rewrite rev_app_distr. cbn [rev app map concat]. f_equal.
  rewrite rev_concat. rewrite concat_map. rewrite concat_concat. f_equal.
  rewrite !map_rev. f_equal. rewrite !map_map.
  apply map_ext_in. intros i Hi. rewrite Forall_forall in IH. rewrite (IH i Hi). reflexivity.
Qed.

Lemma find_modules : forall n (DL : list (list tester)),
  match find (matches n) (concat (map own_list DL)) with
  | Some d => exists hi own lo, DL = hi ++ own :: lo /\ Forall (no_match n) hi /\ applicable_in n own d
  | None => Forall (no_match n) DL
  end.
Proof.
  intros n DL. induction DL as [|own r IH]; cbn [map concat].
  - cbn. constructor.
  - rewrite find_app. pose proof (own_list_spec n own) as S.
    destruct (find (matches n) (own_list own)) as [d|].
    + exists [], own, r. repeat split; auto.
    + destruct (find (matches n) (concat (map own_list r))) as [d|].
      * destruct IH as (hi & o & lo & E & F & A). exists (own :: hi), o, lo. subst r. repeat split; auto.
      * constructor; auto.
Qed.

Theorem tester_order_correct_lemma : forall s n,
  match find (matches n) (post_construction s) with
  | Some d => applicable s n d
  | None => nothing_applies s n
  end.
Proof.
  intros s n. rewrite post_construction_by_precedence.
  pose proof (find_modules n (by_precedence s)) as H.
  destruct (find (matches n) (concat (map own_list (by_precedence s)))) as [d|].
  - destruct H as (hi & own & lo & E & F & A). unfold applicable.
    exists (rev lo), own, (rev hi). repeat split; auto.
    + unfold by_precedence in E. apply (f_equal (@rev _)) in E. rewrite rev_involutive in E.
      rewrite E. rewrite rev_app_distr. cbn. rewrite <- app_assoc. reflexivity.
    + apply Forall_rev. exact F.
  - unfold nothing_applies. unfold by_precedence in H. apply Forall_rev in H. rewrite rev_involutive in H. exact H.
Qed.

(* ---------------------------------------------------------------------------------------------- *)
(* the applicable match is unique up to its strip/preserve kind *)

Lemma split_cases : forall A (l1 l2 r1 r2 : list A) a b,
  l1 ++ a :: r1 = l2 ++ b :: r2 ->
  (l1 = l2 /\ a = b /\ r1 = r2) \/ (In b r1 /\ In a l2) \/ (In a r2 /\ In b l1).
Proof.
  intros A l1. induction l1 as [|x l1 IH]; intros l2 r1 r2 a b E.
  - destruct l2 as [|y l2]; cbn in E.
    + inversion E. left; auto.
    + inversion E; subst. right; left. split; [apply in_or_app; right; left; reflexivity | left; reflexivity].
  - destruct l2 as [|y l2]; cbn in E.
    + inversion E; subst. right; right. split; [apply in_or_app; right; left; reflexivity | left; reflexivity].
    + inversion E; subst. destruct (IH _ _ _ _ _ H1) as [(E1 & E2 & E3)|[[I J]|[I J]]].
      * left. subst. auto.
      * right; left. split; [exact I | right; exact J].
      * right; right. split; [exact I | right; exact J].
Qed.

Lemma applicable_in_unique : forall n own d d', applicable_in n own d -> applicable_in n own d' -> d = d'.
Proof.
  intros n own d d' (o1 & o2 & E & M & Hle & Hlt) (o1' & o2' & E' & M' & Hle' & Hlt').
  rewrite E in E'. destruct (split_cases _ _ _ _ _ _ _ E') as [(_ & Ed & _)|[[I J]|[I J]]]; auto.
  - specialize (Hlt _ I M'). specialize (Hle' _ J M). lia.
  - specialize (Hlt' _ I M). specialize (Hle _ J M'). lia.
Qed.

Lemma applicable_in_has_match : forall n own d, applicable_in n own d -> ~ no_match n own.
Proof.
  intros n own d (o1 & o2 & E & M & _) H. rewrite (H d) in M; [discriminate|].
  subst. apply in_or_app. right. left. reflexivity.
Qed.

Theorem applicable_unique : forall s n d d', applicable s n d -> applicable s n d' -> d = d'.
Proof.
  intros s n d d' (lo & own & hi & E & F & A) (lo' & own' & hi' & E' & F' & A').
  rewrite E in E'. destruct (split_cases _ _ _ _ _ _ _ E') as [(_ & Eo & _)|[[I J]|[I J]]].
  - subst own'. eapply applicable_in_unique; eauto.
  - rewrite Forall_forall in F. exfalso. apply (applicable_in_has_match _ _ _ A'). apply F. exact I.
  - rewrite Forall_forall in F'. exfalso. apply (applicable_in_has_match _ _ _ A). apply F'. exact I.
Qed.

Lemma applicable_not_nothing : forall s n d, applicable s n d -> ~ nothing_applies s n.
Proof.
  intros s n d (lo & own & hi & E & F & A) H. unfold nothing_applies in H. rewrite E in H.
  rewrite Forall_forall in H. apply (applicable_in_has_match _ _ _ A). apply H.
  apply in_or_app. right. left. reflexivity.
Qed.

(* the decision of the code = the kind of the applicable match of the Recommendation *)
Lemma sheet_strip_decide : forall s n, sheet_strip s n = decide (post_construction s) n.
Proof.
  intros s n. unfold sheet_strip, should_strip. destruct (post_construction s); reflexivity.
Qed.

Theorem decision_is_rec : forall s n,
  sheet_strip s n = true <-> exists d, applicable s n d /\ t_strip d = true.
Proof.
  intros s n. rewrite sheet_strip_decide. unfold decide.
  pose proof (tester_order_correct_lemma s n) as H.
  destruct (find (matches n) (post_construction s)) as [d|].
  - split.
    + intros T. exists d. auto.
    + intros (d' & A & T). rewrite (applicable_unique _ _ _ _ H A). exact T.
  - split; [discriminate|]. intros (d' & A & _). exfalso. eapply applicable_not_nothing; eauto.
Qed.

Theorem default_is_preserve : forall s n, nothing_applies s n -> sheet_strip s n = false.
Proof.
  intros s n H. destruct (sheet_strip s n) eqn:E; [|reflexivity].
  apply decision_is_rec in E. destruct E as (d & A & _). exfalso. eapply applicable_not_nothing; eauto.
Qed.

(* a text node that is not whitespace-only is never stripped, whatever the declarations *)
Theorem non_whitespace_never_stripped : forall l pn, should_strip l pn false = false.
Proof. intros l pn. unfold should_strip. destruct l; reflexivity. Qed.

(* harmless reordering: two adjacent testers that no element matches both may be swapped *)
Theorem swap_disjoint_testers : forall l1 l2 t1 t2 n,
  (forall m, matches m t1 && matches m t2 = false) ->
  decide (l1 ++ t1 :: t2 :: l2) n = decide (l1 ++ t2 :: t1 :: l2) n.
Proof.
  intros l1 l2 t1 t2 n D. unfold decide. rewrite !find_app.
  destruct (find (matches n) l1); [reflexivity|]. cbn [find].
  specialize (D n). destruct (matches n t1), (matches n t2); try reflexivity. discriminate.
Qed.

(* the strip decision of a matching strip-space tester is overridden by xml:space="preserve" (fix K-C13-1): the
   upward search is modelled in StripXsDefs.v *)
Lemma gen_xml_space : consults_xml_space = true. Proof. reflexivity. Qed.


(* ---------------------------------------------------------------------------------------------- *)
(* xsl:number level="any" *)

(* (1) pinned configuration (from only on parent moves): without a from pattern the count is the number of
   count-matching nodes at or before the current node, whatever the physical shape *)
Lemma number_chain_no_from : forall every r d, (forall x, In x r -> w_from x = false) ->
  number_chain_cfg every d r = length (filter w_count r).
Proof.
  intros every r. induction r as [|y r IH]; intros d H; cbn [number_chain_cfg filter]; [reflexivity|].
  rewrite (H y (or_introl eq_refl)). rewrite andb_false_r.
  replace (if every then false else false) with false by (destruct every; reflexivity).
  destruct (w_count y); cbn [length]; rewrite IH; auto; intros x Hx; apply H; right; exact Hx.
Qed.

Lemma number_target_no_from : forall l, (forall x, In x l -> w_from x = false) ->
  match number_target l with Some (x :: r) => S (length (filter w_count r)) | _ => 0 end = length (filter w_count l).
Proof.
  intros l. induction l as [|x r IH]; intros H; [reflexivity|].
  cbn [number_target filter]. rewrite (H x (or_introl eq_refl)).
  destruct (w_count x) eqn:C; [reflexivity|]. apply IH. intros y Hy. apply H. right. exact Hy.
Qed.

Lemma number_any_no_from : forall every sf l, (forall x, In x l -> w_from x = false) ->
  number_any_cfg every sf l = length (filter w_count l).
Proof.
  intros every sf l H. unfold number_any_cfg. destruct l as [|x r]; [reflexivity|].
  cbn [number_target_cfg filter]. rewrite (H x (or_introl eq_refl)). rewrite andb_false_r.
  assert (Hr : forall y, In y r -> w_from y = false) by (intros y Hy; apply H; right; exact Hy).
  destruct (w_count x) eqn:C.
  - cbn [length]. rewrite number_chain_no_from; auto.
  - rewrite <- (number_target_no_from r Hr). destruct (number_target r) as [[|y t]|] eqn:T; try reflexivity.
    rewrite number_chain_no_from; [reflexivity|].
    (* t is a suffix of r *)
    clear - T Hr. revert y t T. induction r as [|z r IH]; intros y t T; [discriminate|].
    cbn [number_target] in T. rewrite (Hr z (or_introl eq_refl)) in T. destruct (w_count z).
    + inversion T; subst. intros x Hx. apply Hr. right. exact Hx.
    + apply (IH (fun q Hq => Hr q (or_intror Hq)) y t T).
Qed.

Lemma filter_count_walk_strip : forall l, walk_ok l ->
  filter w_count (walk_strip l) = filter w_count l.
Proof.
  intros l. unfold walk_strip. induction l as [|x r IH]; intros H; [reflexivity|].
  cbn [filter]. destruct (w_stripped x) eqn:S; cbn [negb].
  - destruct (H x (or_introl eq_refl) S) as [_ C]. rewrite C. apply IH. intros y Hy. apply H. right. exact Hy.
  - cbn [filter]. destruct (w_count x); [f_equal|]; apply IH; intros y Hy; apply H; right; exact Hy.
Qed.

Theorem number_any_strip_partial_lemma : forall every sf l, walk_ok l -> (forall x, In x l -> w_from x = false) ->
  number_any_cfg every sf (walk_strip l) = number_any_cfg every sf l.
Proof.
  intros every sf l Ok NF. rewrite !number_any_no_from; auto.
  - rewrite filter_count_walk_strip; auto.
  - intros x Hx. apply NF. unfold walk_strip in Hx. apply filter_In in Hx. tauto.
Qed.

(* (2) repaired configuration (from on every node of the walk): the count is a function of the visible
   predecessors only *)
Definition chain_all (r : list wnode) : nat := number_chain_cfg true 0 r.

Lemma chain_all_depth : forall r d, number_chain_cfg true d r = chain_all r.
Proof.
  intros r. unfold chain_all. induction r as [|y r IH]; intros d; [reflexivity|].
  cbn [number_chain_cfg]. destruct (w_from y); [reflexivity|]. rewrite !(IH (w_depth y)). reflexivity.
Qed.

Lemma target_chain_all : forall r,
  match number_target r with Some (x :: t) => S (number_chain_cfg true (w_depth x) t) | _ => 0 end = chain_all r.
Proof.
  intros r. induction r as [|y r IH]; [reflexivity|].
  unfold chain_all. cbn [number_target number_chain_cfg]. destruct (w_from y); [reflexivity|].
  destruct (w_count y); [rewrite !chain_all_depth; reflexivity|].
  rewrite IH. rewrite chain_all_depth. reflexivity.
Qed.

Lemma number_any_repaired_eq : forall sf x r,
  number_any_cfg true sf (x :: r) =
  if sf && w_from x then 0 else if w_count x then S (chain_all r) else chain_all r.
Proof.
  intros sf x r. unfold number_any_cfg. cbn [number_target_cfg].
  destruct (sf && w_from x); [reflexivity|]. destruct (w_count x); [rewrite chain_all_depth; reflexivity|].
  apply target_chain_all.
Qed.

Lemma chain_all_cons : forall y r,
  chain_all (y :: r) = if w_from y then 0 else if w_count y then S (chain_all r) else chain_all r.
Proof. intros. unfold chain_all at 1. cbn [number_chain_cfg]. rewrite !chain_all_depth. reflexivity. Qed.

Lemma chain_all_strip : forall r, walk_ok r -> chain_all (walk_strip r) = chain_all r.
Proof.
  intros r. induction r as [|y r IH]; intros Ok; [reflexivity|].
  assert (Okr : walk_ok r) by (intros q Hq; apply Ok; right; exact Hq).
  unfold walk_strip. cbn [filter]. fold (walk_strip r). destruct (w_stripped y) eqn:S; cbn [negb].
  - destruct (Ok y (or_introl eq_refl) S) as [F C]. rewrite (chain_all_cons y r), F, C. apply IH; exact Okr.
  - rewrite !chain_all_cons. rewrite (IH Okr). reflexivity.
Qed.

Theorem number_any_repaired_strip : forall sf x r, walk_ok (x :: r) -> w_stripped x = false ->
  number_any_cfg true sf (walk_strip (x :: r)) = number_any_cfg true sf (x :: r).
Proof.
  intros sf x r Ok V. unfold walk_strip. cbn [filter]. rewrite V. cbn [negb]. fold (walk_strip r).
  rewrite !number_any_repaired_eq. rewrite chain_all_strip; [reflexivity|].
  intros q Hq. apply Ok. right. exact Hq.
Qed.
