"""gen_mem — regenerates coq/GenMem.v: the allocation-relevant *structure* of XalanVector / XalanList /
XalanMap / ArenaAllocator / ArenaBlock as booleans that the ledger model (coq/MemDefs.v) branches on.
A fact is `true` when the source has the shape the comment describes, `false` when the function exists
but the shape is gone (the model then follows the other branch and the theorems stop checking);
AnchorError when the function itself cannot be found (fail closed)."""
import re
import srcfacts
from srcfacts import AnchorError, need, read, strip_comments, HEADER, function_body


def has(rx, text):
    return re.search(rx, text, re.S) is not None


def squeeze(text):
    return re.sub(r"\s+", "", text)


def variant(body, what, unrepaired, repaired):
    """The two shapes of an allocation-failure site (whitespace-free text that the body must contain; `@` stands for
    the name of the one local variable of the repaired shape): exactly one of them is present -> False (as found) /
    True (repaired); anything else fails closed."""
    sq = squeeze(body)
    parts = repaired.split("@")
    rx = re.escape(parts[0]) + "".join((r"(?P<v>[A-Za-z_]\w*)" if i == 1 else r"(?P=v)") + re.escape(x) for i, x in enumerate(parts[1:], 1))
    a, b = unrepaired in sq, re.search(rx, sq) is not None
    if a == b:
        raise AnchorError("%s: %s of the two known shapes of the allocation-failure path found" % (what, "both" if a else "neither"))
    return b


def gen_mem():
    v = strip_comments(read("Include/XalanVector.hpp"))
    l = strip_comments(read("Include/XalanList.hpp"))
    m = strip_comments(read("Include/XalanMap.hpp"))
    a = strip_comments(read("PlatformSupport/ArenaAllocator.hpp"))
    b = strip_comments(read("PlatformSupport/ArenaBlock.hpp"))
    bb = strip_comments(read("PlatformSupport/ArenaBlockBase.hpp"))
    facts = {}
    # --- XalanVector
    vd = function_body(v, r"~XalanVector\s*\(\s*\)\s*\{", "~XalanVector")
    facts["vec_dtor_deallocates"] = has(r"if\s*\(\s*m_allocation\s*!=\s*0\s*\)\s*\{[^}]*\bdeallocate\s*\(\s*m_data\s*\)\s*;", vd)
    vs = function_body(v, r"void\s+swap\s*\(\s*ThisType\s*&\s*theOther\s*\)\s*\{", "XalanVector::swap")
    facts["vec_swap_swaps_manager"] = (has(r"theTempManager\s*=\s*m_memoryManager\s*;", vs)
                                       and has(r"[^.\w]m_memoryManager\s*=\s*theOther\s*\.\s*m_memoryManager\s*;", vs)
                                       and has(r"theOther\s*\.\s*m_memoryManager\s*=\s*theTempManager\s*;", vs))
    vg = function_body(v, r"void\s+grow\s*\(\s*const\s+value_type\s*&\s*data\s*\)\s*\{", "XalanVector::grow")
    # allocate the new storage (copy into a temporary), push, swap: the old block is released last
    facts["vec_grow_copy_then_swap"] = has(r"ThisType\s+theTemp\s*\(\s*\*this\s*,\s*\*m_memoryManager\s*,\s*theNewSize\s*\)\s*;\s*theTemp\s*\.\s*doPushBack\s*\(\s*data\s*\)\s*;\s*swap\s*\(\s*theTemp\s*\)", vg)
    vr = function_body(v, r"void\s+doReserve\s*\(\s*size_type\s+theSize\s*\)\s*\{", "XalanVector::doReserve")
    facts["vec_reserve_copy_then_swap"] = has(r"ThisType\s+theTemp\s*\(\s*\*this\s*,\s*\*m_memoryManager\s*,\s*theSize\s*\)\s*;\s*swap\s*\(\s*theTemp\s*\)", vr)
    # --- XalanList
    ld = function_body(l, r"~XalanList\s*\(\s*\)\s*\{", "~XalanList")
    facts["list_dtor_guarded"] = has(r"^\{\s*if\s*\(\s*m_listHead\s*!=\s*0\s*\)\s*\{", ld)
    facts["list_dtor_frees_all"] = (has(r"destroyNode\s*\(", ld) and has(r"deallocate\s*\(\s*freeNode\s*\)", ld)
                                    and has(r"deallocate\s*\(\s*m_listHead\s*\)", ld))
    gh = function_body(l, r"Node\s*&\s*getListHead\s*\(\s*\)\s*\{", "XalanList::getListHead")
    facts["list_head_lazy"] = has(r"if\s*\(\s*0\s*==\s*m_listHead\s*\)\s*\{\s*m_listHead\s*=\s*allocate\s*\(\s*1\s*\)", gh)
    ls = function_body(l, r"void\s+swap\s*\(\s*ThisType\s*&\s*theRHS\s*\)\s*\{", "XalanList::swap")
    facts["list_swap_swaps_manager"] = has(r"swap\s*\(\s*m_memoryManager\s*,\s*theRHS\s*\.\s*m_memoryManager\s*\)", ls)
    le = function_body(l, r"bool\s+empty\s*\(\s*\)\s*const\s*\{", "XalanList::empty")
    lz = function_body(l, r"size_type\s+size\s*\(\s*\)\s*const\s*\{", "XalanList::size")
    # K8 repair: empty() and size() look at m_listHead instead of calling begin()/end() (which create the head node)
    facts["list_empty_nonallocating"] = (has(r"return\s+m_listHead\s*==\s*0\s*\|\|\s*m_listHead\s*->\s*next\s*==\s*m_listHead\s*;", le)
                                         and not has(r"\b(begin|end)\s*\(", le)
                                         and has(r"^\{\s*if\s*\(\s*m_listHead\s*==\s*0\s*\)\s*\{\s*return\s+0\s*;", lz))
    lc = function_body(l, r"void\s+clear\s*\(\s*\)\s*\{", "XalanList::clear")
    facts["list_clear_guarded"] = has(r"^\{\s*if\s*\(\s*m_listHead\s*==\s*0\s*\)\s*\{\s*return\s*;", lc)
    cn = function_body(l, r"Node\s*&\s*constructNode\s*\([^)]*\)\s*\{", "XalanList::constructNode")
    # K-new-4 repair: the fresh free-list node is terminated before the value is constructed in it
    facts["list_fresh_node_terminated"] = has(r"m_freeListHeadPtr\s*=\s*allocate\s*\(\s*1\s*\)\s*;\s*m_freeListHeadPtr\s*->\s*next\s*=\s*0\s*;", cn)
    fn = function_body(l, r"void\s+freeNode\s*\(\s*Node\s*&\s*node\s*\)\s*\{", "XalanList::freeNode")
    facts["list_erase_recycles"] = has(r"node\s*\.\s*next\s*=\s*m_freeListHeadPtr\s*;\s*m_freeListHeadPtr\s*=\s*&\s*node\s*;", fn) and not has(r"deallocate", fn)
    # --- XalanMap
    md = function_body(m, r"~XalanMap\s*\(\s*\)\s*\{", "~XalanMap")
    mcc = function_body(m, r"m_eraseThreshold\s*\(\s*theRhs\s*\.\s*m_eraseThreshold\s*\)\s*\{", "XalanMap copy constructor")
    # K-new-2 repair, part 2: the destructor's body is the helper doReleaseEntries(), which the copy constructor also
    # calls when an insert throws (the destructor does not run for a partially constructed map)
    fill = "const_iteratorentry=theRhs.begin();while(entry!=theRhs.end()){insert(*entry);++entry;}"
    facts["map_copy_guarded"] = variant(mcc, "XalanMap copy constructor", "{" + fill + "assert(",
                                        "{try{" + fill + "}catch(...){doReleaseEntries();throw;}assert(")
    delegating = squeeze(md) == "{doReleaseEntries();}"
    if facts["map_copy_guarded"] != delegating:
        raise AnchorError("~XalanMap / copy constructor: the clean-up of a failed copy and the destructor's body do not go together")
    if delegating:
        md = function_body(m, r"void\s+doReleaseEntries\s*\(\s*\)\s*\{", "XalanMap::doReleaseEntries")
    # K8 repair: m_freeEntries.begin() only for a free list that has entries (so that it has its head node)
    facts["map_dtor_guard_buckets"] = has(r"doRemoveEntries\s*\(\s*\)\s*;\s*if\s*\(\s*!\s*m_buckets\s*\.\s*empty\s*\(\s*\)\s*&&\s*!\s*m_freeEntries\s*\.\s*empty\s*\(\s*\)\s*\)\s*\{[^}]*m_freeEntries\s*\.\s*begin\s*\(\s*\)", md)
    facts["map_dtor_frees_values"] = has(r"deallocate\s*\(\s*toRemove\s*->\s*value\s*\)", md)
    mc = function_body(m, r"void\s+clear\s*\(\s*\)\s*\{", "XalanMap::clear")
    facts["map_clear_recycles"] = has(r"^\{\s*doRemoveEntries\s*\(\s*\)\s*;", mc)
    ce = function_body(m, r"iterator\s+doCreateEntry\s*\([^)]*\)\s*\{", "XalanMap::doCreateEntry")
    # K-new-2 repair, part 1: the value block is released when the free list cannot allocate the node for it
    facts["map_entry_guarded"] = variant(ce, "XalanMap::doCreateEntry",
        "if(m_freeEntries.empty()){m_freeEntries.push_back(Entry(allocate(1)));}",
        "if(m_freeEntries.empty()){value_type*const@=allocate(1);try{m_freeEntries.push_back(Entry(@));}"
        "catch(...){deallocate(@);throw;}}")
    # in both shapes the value block is obtained before the list node (and the head node of a never-used free list)
    facts["map_value_before_node"] = True
    # K23 repair: the entry is counted, and taken out again when the bucket cannot grow
    facts["map_bucket_push_guarded"] = has(r"\+\+\s*m_size\s*;\s*try\s*\{\s*m_buckets\s*\[\s*index\s*\]\s*\.\s*push_back\s*\([^;]*;\s*\}\s*catch\s*\(\s*\.\.\.\s*\)\s*\{\s*doRemoveEntry\s*\([^;]*;\s*throw\s*;", ce)
    # --- ArenaAllocator / ArenaBlock
    ad = function_body(a, r"~ArenaAllocator\s*\(\s*\)\s*\{", "~ArenaAllocator")
    ar = function_body(a, r"void\s+reset\s*\(\s*\)\s*\{", "ArenaAllocator::reset")
    facts["arena_dtor_resets"] = has(r"reset\s*\(\s*\)\s*;", ad) and has(r"m_blocks\s*\.\s*begin\s*\(\s*\)", ar) and has(r"m_blocks\s*\.\s*clear\s*\(\s*\)", ar)
    # K8 repair: reset() does not touch begin()/end() of a block list that was never used
    facts["arena_reset_guarded"] = has(r"^\{\s*if\s*\(\s*m_blocks\s*\.\s*empty\s*\(\s*\)\s*==\s*false\s*\)\s*\{[^}]*m_blocks\s*\.\s*begin\s*\(\s*\)", ar)
    ab = function_body(a, r"allocateBlock\s*\(\s*\)\s*\{", "ArenaAllocator::allocateBlock")
    # K-new-1 repair: the new block is destroyed when the block list cannot allocate the node for it
    facts["arena_block_guarded"] = variant(ab, "ArenaAllocator::allocateBlock",
        "{m_blocks.push_back(ArenaBlockType::create(getMemoryManager(),m_blockSize));}",
        "{ArenaBlockType*const@=ArenaBlockType::create(getMemoryManager(),m_blockSize);"
        "try{m_blocks.push_back(@);}catch(...){XalanDestroy(getMemoryManager(),@);throw;}}")
    # in both shapes the block (struct, then storage) is created before the list node
    facts["arena_create_then_push"] = True
    # the same site in ReusableArenaAllocator (not modelled; the flag tells the oracle which outcome to expect)
    ra = strip_comments(read("PlatformSupport/ReusableArenaAllocator.hpp"))
    rab = function_body(ra, r"allocateBlock\s*\(\s*\)\s*\{", "ReusableArenaAllocator::allocateBlock")
    facts["rarena_block_guarded"] = variant(rab, "ReusableArenaAllocator::allocateBlock",
        "{this->m_blocks.push_front(ReusableArenaBlockType::create(this->getMemoryManager(),this->m_blockSize));",
        "{ReusableArenaBlockType*const@=ReusableArenaBlockType::create(this->getMemoryManager(),this->m_blockSize);"
        "try{this->m_blocks.push_front(@);}catch(...){XalanDestroy(this->getMemoryManager(),@);throw;}")
    bd = function_body(b, r"~ArenaBlock\s*\(\s*\)\s*\{", "~ArenaBlock")
    facts["arenablock_dtor_all_objects"] = has(r"for\s*\(\s*size_type\s+i\s*=\s*0\s*;\s*i\s*<\s*this\s*->\s*m_objectCount\s*;\s*\+\+\s*i\s*\)\s*\{\s*XalanDestroy\s*\(\s*this\s*->\s*m_objectBlock\s*\[\s*i\s*\]\s*\)", bd)
    bbd = function_body(bb, r"~ArenaBlockBase\s*\(\s*\)\s*\{", "~ArenaBlockBase")
    facts["arenablock_dtor_frees_storage"] = has(r"m_allocator\s*\.\s*deallocate\s*\(\s*m_objectBlock", bbd)
    out = HEADER
    out += "(* allocation-relevant structure of the containers and arenas; see translator/gen_mem.py for the shapes *)\n"
    for k in sorted(facts):
        out += "Definition %s : bool := %s.\n" % (k, "true" if facts[k] else "false")
    return out, facts


GENERATORS = {"GenMem": gen_mem}
