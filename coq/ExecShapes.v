(* ExecShapes.v — C11: the digests of the bodies of the helper overloads as they were when the
   hand model of ExecDefs.v was written from them (each digest covers the sequence of calls with
   their resolved signatures, operators, literals, enumerators and control statements of the body;
   names of locals and parameters, comments and asserts are not part of it).  GenExec.helper_shapes
   is recomputed from /repo on every run; ExecModel.helper_bodies_as_modelled compares the two, so a
   change inside one of these bodies invalidates the proof until the model is re-read against it. *)
From Coq Require Import List String.
Import ListNotations.
Local Open Scope string_scope.

Definition pinned_shapes : list (string * string) := [
  ("And :: bool (XalanNode *, XPath::OpCodeMapPositionType, XPathExecutionContext &) const", "f960ae0fabd43bf8");
  ("Or :: bool (XalanNode *, XPath::OpCodeMapPositionType, XPathExecutionContext &) const", "d60195b53746cf15");
  ("Union :: const XObjectPtr (XalanNode *, XPath::OpCodeMapPositionType, XPathExecutionContext &) const", "cdfdd5c231343c19");
  ("Union :: void (XalanNode *, XPath::OpCodeMapPositionType, XPathExecutionContext &, FormatterListener &, XPath::MemberFunctionPtr) const", "4ff5669f959b1026");
  ("Union :: void (XalanNode *, XPath::OpCodeMapPositionType, XPathExecutionContext &, MutableNodeRefList &) const", "a46e68cf13485186");
  ("Union :: void (XalanNode *, XPath::OpCodeMapPositionType, XPathExecutionContext &, XalanDOMString &) const", "cf586b06bdfd9ae4");
  ("Union :: void (XalanNode *, XPath::OpCodeMapPositionType, XPathExecutionContext &, bool &) const", "f3a3ae7a61ef5855");
  ("Union :: void (XalanNode *, XPath::OpCodeMapPositionType, XPathExecutionContext &, double &) const", "9983158be34bd4cb");
  ("div :: double (XalanNode *, XPath::OpCodeMapPositionType, XPathExecutionContext &) const", "879529bffd072b3c");
  ("div :: void (XalanNode *, XPath::OpCodeMapPositionType, XPathExecutionContext &, FormatterListener &, XPath::MemberFunctionPtr) const", "e9a4894770abe559");
  ("equals :: bool (XalanNode *, XPath::OpCodeMapPositionType, XPathExecutionContext &) const", "66520d0f817eadcd");
  ("findNodeSet :: XPath::OpCodeMapPositionType (XPathExecutionContext &, XalanNode *, XPath::OpCodeMapPositionType, XPath::OpCodeMapValueType, MutableNodeRefList &) const", "aebf4e2fc003b0ed");
  ("functionBoolean :: bool (XalanNode *, XPath::OpCodeMapPositionType, XPathExecutionContext &) const", "b10ee3eb08b50287");
  ("functionCeiling :: double (XalanNode *, XPath::OpCodeMapPositionType, XPathExecutionContext &) const", "dc8a1f551004b620");
  ("functionCount :: double (XalanNode *, XPath::OpCodeMapPositionType, XPathExecutionContext &) const", "91ba4dd3c38a2075");
  ("functionFloor :: double (XalanNode *, XPath::OpCodeMapPositionType, XPathExecutionContext &) const", "962ff0ff97542781");
  ("functionLast :: double (XPathExecutionContext &) const", "294e180f48d94c53");
  ("functionLocalName :: const XalanDOMString &(XalanNode *) const", "eb8de1db64597b4d");
  ("functionLocalName :: const XalanDOMString &(XalanNode *, XPath::OpCodeMapPositionType, XPathExecutionContext &) const", "5d833c9b79d0bf4d");
  ("functionName :: const XalanDOMString &(XalanNode *) const", "5e25cbe38aacddea");
  ("functionName :: const XalanDOMString &(XalanNode *, XPath::OpCodeMapPositionType, XPathExecutionContext &) const", "bb1f2d61f7ab8009");
  ("functionNot :: bool (XalanNode *, XPath::OpCodeMapPositionType, XPathExecutionContext &) const", "a4bfa84d439e6178");
  ("functionNumber :: double (XalanNode *, XPath::OpCodeMapPositionType, XPathExecutionContext &) const", "475e038455ff6a2b");
  ("functionNumber :: double (XalanNode *, XPathExecutionContext &) const", "6408060ae81027fd");
  ("functionPosition :: double (XalanNode *, XPathExecutionContext &) const", "a320406798a8c65e");
  ("functionRound :: double (XalanNode *, XPath::OpCodeMapPositionType, XPathExecutionContext &) const", "60480d72d97dcfff");
  ("functionStringLength :: double (XalanNode *, XPath::OpCodeMapPositionType, XPathExecutionContext &) const", "abf912dc03b0f829");
  ("functionStringLength :: double (XalanNode *, XPathExecutionContext &) const", "ac1a3765ee5567b9");
  ("functionSum :: double (XalanNode *, XPath::OpCodeMapPositionType, XPathExecutionContext &) const", "36dd6a7b2d788d3d");
  ("getNumericOperand :: double (XalanNode *, XPath::OpCodeMapPositionType, XPathExecutionContext &) const", "8364b9f6389e3ab5");
  ("group :: const XObjectPtr (XalanNode *, XPath::OpCodeMapPositionType, XPathExecutionContext &) const", "0535452ea2a6ef52");
  ("group :: void (XalanNode *, XPath::OpCodeMapPositionType, XPathExecutionContext &, FormatterListener &, XPath::MemberFunctionPtr) const", "ceacf09ceab0b476");
  ("group :: void (XalanNode *, XPath::OpCodeMapPositionType, XPathExecutionContext &, MutableNodeRefList &) const", "a55b6bf28d80a2e7");
  ("group :: void (XalanNode *, XPath::OpCodeMapPositionType, XPathExecutionContext &, XalanDOMString &) const", "ceacf09ceab0b476");
  ("group :: void (XalanNode *, XPath::OpCodeMapPositionType, XPathExecutionContext &, bool &) const", "ceacf09ceab0b476");
  ("group :: void (XalanNode *, XPath::OpCodeMapPositionType, XPathExecutionContext &, double &) const", "ceacf09ceab0b476");
  ("gt :: bool (XalanNode *, XPath::OpCodeMapPositionType, XPathExecutionContext &) const", "669a7ca64383b211");
  ("gte :: bool (XalanNode *, XPath::OpCodeMapPositionType, XPathExecutionContext &) const", "171fabd7a377bebc");
  ("literal :: const XObjectPtr (XPath::OpCodeMapPositionType, XPathExecutionContext &) const", "2326398de2a7ac2b");
  ("literal :: void (XPath::OpCodeMapPositionType, FormatterListener &, XPath::MemberFunctionPtr) const", "84c4efe888cfc755");
  ("literal :: void (XPath::OpCodeMapPositionType, XalanDOMString &) const", "960f1407e112f469");
  ("literal :: void (XPath::OpCodeMapPositionType, bool &) const", "a0ac99293afc1158");
  ("literal :: void (XPath::OpCodeMapPositionType, double &) const", "5732911719a6baeb");
  ("locationPath :: const XObjectPtr (XalanNode *, XPath::OpCodeMapPositionType, XPathExecutionContext &) const", "028e8abc38c83ceb");
  ("locationPath :: void (XalanNode *, XPath::OpCodeMapPositionType, XPathExecutionContext &, FormatterListener &, XPath::MemberFunctionPtr) const", "3bc5b4a60e8a7ab0");
  ("locationPath :: void (XalanNode *, XPath::OpCodeMapPositionType, XPathExecutionContext &, MutableNodeRefList &) const", "40ab72bfda80c80f");
  ("locationPath :: void (XalanNode *, XPath::OpCodeMapPositionType, XPathExecutionContext &, XalanDOMString &) const", "f7521fbafbf2105f");
  ("locationPath :: void (XalanNode *, XPath::OpCodeMapPositionType, XPathExecutionContext &, bool &) const", "bb20baf78ced7b7f");
  ("locationPath :: void (XalanNode *, XPath::OpCodeMapPositionType, XPathExecutionContext &, double &) const", "cc155e24b9a3b763");
  ("lt :: bool (XalanNode *, XPath::OpCodeMapPositionType, XPathExecutionContext &) const", "07b339193abbca2a");
  ("lte :: bool (XalanNode *, XPath::OpCodeMapPositionType, XPathExecutionContext &) const", "63c7da13e4d888e7");
  ("minus :: double (XalanNode *, XPath::OpCodeMapPositionType, XPathExecutionContext &) const", "56c6e0b7b094c340");
  ("minus :: void (XalanNode *, XPath::OpCodeMapPositionType, XPathExecutionContext &, FormatterListener &, XPath::MemberFunctionPtr) const", "142b75178fdadfca");
  ("mod :: double (XalanNode *, XPath::OpCodeMapPositionType, XPathExecutionContext &) const", "74607a3cfda0935c");
  ("mod :: void (XalanNode *, XPath::OpCodeMapPositionType, XPathExecutionContext &, FormatterListener &, XPath::MemberFunctionPtr) const", "001a5cf773c31777");
  ("mult :: double (XalanNode *, XPath::OpCodeMapPositionType, XPathExecutionContext &) const", "303413b1ebcdebb1");
  ("mult :: void (XalanNode *, XPath::OpCodeMapPositionType, XPathExecutionContext &, FormatterListener &, XPath::MemberFunctionPtr) const", "a0aa5605f97a14b8");
  ("neg :: double (XalanNode *, XPath::OpCodeMapPositionType, XPathExecutionContext &) const", "9b2c3fb66149f0ff");
  ("neg :: void (XalanNode *, XPath::OpCodeMapPositionType, XPathExecutionContext &, FormatterListener &, XPath::MemberFunctionPtr) const", "4037659faac5e446");
  ("notequals :: bool (XalanNode *, XPath::OpCodeMapPositionType, XPathExecutionContext &) const", "94a57c7271b0c6c6");
  ("numberlit :: const XObjectPtr (XPath::OpCodeMapPositionType, XPathExecutionContext &) const", "9c7d313c41e88eff");
  ("numberlit :: double (XPath::OpCodeMapPositionType) const", "ce5edebaca3d3576");
  ("numberlit :: void (XPath::OpCodeMapPositionType, FormatterListener &, XPath::MemberFunctionPtr) const", "0e3ef08ee66e9b18");
  ("numberlit :: void (XPath::OpCodeMapPositionType, XalanDOMString &) const", "9db0701a3d522394");
  ("numberlit :: void (XPath::OpCodeMapPositionType, bool &) const", "3235c40099b17200");
  ("plus :: double (XalanNode *, XPath::OpCodeMapPositionType, XPathExecutionContext &) const", "b9adbb48f715f4e9");
  ("plus :: void (XalanNode *, XPath::OpCodeMapPositionType, XPathExecutionContext &, FormatterListener &, XPath::MemberFunctionPtr) const", "16ad22fa1db4a3c2");
  ("variable :: const XObjectPtr (XPath::OpCodeMapPositionType, XPathExecutionContext &) const", "1c9339e3721a439e")
].
