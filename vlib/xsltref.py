"""Reference interpreter for the XSLT 1.0 core language, written from the Recommendation (sections 2.6,
5-7, 9-12) and NOT from Xalan's code. It is the oracle of C01. It executes a stylesheet given as a
Python AST (the generator vlib/xsltgen.py prints the same AST as XML for the library) over a source
document of vlib/xpgen.py and returns the result TREE by direct construction (no event stream):

   node  = ('e', (uri, local), ((uri, local, value), ...sorted), (children...)) | ('t', s) | ('c', s) | ('p', target, data)

XPath is evaluated by vlib/xpref.py (class Ref), extended here with result tree fragments, current()
and key(). Recoverable errors for which XSLT 1.0 names the recovery ("may ... ignore the attribute")
are recovered that way and counted in `self.flags`.

Stylesheet AST
   sheet = {"imports": [sheet...], "tops": [top...]}
   top   = ("template", {"match": [alt...]|None, "name": s|None, "mode": s|None, "priority": s|None,
                          "params": [(name, vdef)], "body": [instr]})
         | ("variable", name, vdef) | ("param", name, vdef) | ("key", name, [alt...], expr) | ("include", sheet)
   alt   = xpgen path expression ('path', None, [], steps) over child/attribute (+ leading root) steps
   vdef  = ("select", expr) | ("body", [instr]) | ("empty",)
   instr = ("lre", qname, [(qname, avt)], body) | ("element", avt, body) | ("attribute", avt, body)
         | ("text", s) | ("lit", s) | ("value-of", expr) | ("comment", body) | ("pi", avt, body)
         | ("copy", body) | ("copy-of", expr) | ("apply", expr|None, mode|None, [sort], [(name, vdef)])
         | ("call", name, [(name, vdef)]) | ("for-each", expr, [sort], body) | ("if", expr, body)
         | ("choose", [(expr, body)...], body|None) | ("variable", name, vdef) | ("number", expr, format)
   avt   = [str | ("x", expr)]          sort = (expr, "text"|"number", "ascending"|"descending")
"""
from vlib import xpref, xpgen

SHEET_NS = {"p": "urn:p", "q": "urn:q", "xml": xpgen.XML_NS}


# how the library's instructions drive its event machine where XSLT leaves no trace in the result (set by
# props/C01.py from translator facts; only the event SCRIPT for the model depends on it, never the oracle)
EMIT = {"copy-of": True, "value-of-dot": True}     # an empty string still issues a characters() event


class XsltError(Exception):
    pass


class RTF:
    __slots__ = ("nodes",)

    def __init__(self, nodes):
        self.nodes = nodes

    def string(self):
        out = []

        def go(l):
            for n in l:
                if n["k"] == "t":
                    out.append(n["v"])
                elif n["k"] == "e":
                    go(n["ch"])
        go(self.nodes)
        return "".join(out)


class Builder:
    """direct construction of a result tree (XSLT 1.0 section 7)"""

    def __init__(self, flags):
        self.root = []
        self.stack = []
        self.flags = flags

    def _kids(self):
        return self.stack[-1]["ch"] if self.stack else self.root

    def start(self, name):
        n = {"k": "e", "name": name, "attrs": [], "ch": [], "emptied": False}
        self._kids().append(n)
        self.stack.append(n)

    def end(self):
        self.stack.pop()

    def attr(self, name, value):
        # 7.1.3: adding an attribute after children, or to a non-element, is an error the processor may
        # recover from by ignoring the attribute
        if not self.stack:
            self.flags["attr_without_element"] = self.flags.get("attr_without_element", 0) + 1
            return
        top = self.stack[-1]
        if top["ch"]:
            self.flags["attr_after_child"] = self.flags.get("attr_after_child", 0) + 1
            return
        if top["emptied"]:
            # an empty string was "inserted" before this attribute: by 7.6.1 no text node exists, the
            # attribute is legal. (class of a known deviation of the library, see props/C01.findings.txt)
            self.flags["attr_after_empty_text"] = self.flags.get("attr_after_empty_text", 0) + 1
        for a in top["attrs"]:
            if a[0] == name:
                a[1] = value
                self.flags["attr_replaced"] = self.flags.get("attr_replaced", 0) + 1
                if name[0]:
                    # class of known finding K17 (property C14): replacement is decided on the qualified name
                    self.flags["ns_attr_replaced"] = self.flags.get("ns_attr_replaced", 0) + 1
                return
        top["attrs"].append([name, value])

    def text(self, s, via_copy_of=False):
        if s == "":
            if via_copy_of and self.stack and not self.stack[-1]["ch"]:
                self.stack[-1]["emptied"] = True
            return
        k = self._kids()
        if k and k[-1]["k"] == "t":
            k[-1]["v"] += s
        else:
            k.append({"k": "t", "v": s})

    def comment(self, s):
        self._kids().append({"k": "c", "v": s})

    def pi(self, target, s):
        self._kids().append({"k": "p", "t": target, "v": s})

    def add_tree(self, n):
        """deep copy of a result node (from a result tree fragment)"""
        if n["k"] == "e":
            self.start(n["name"])
            for a, v in n["attrs"]:
                self.attr(a, v)
            for c in n["ch"]:
                self.add_tree(c)
            self.end()
        elif n["k"] == "t":
            self.text(n["v"])
        elif n["k"] == "c":
            self.comment(n["v"])
        else:
            self.pi(n["t"], n["v"])


def comment_recovery(s):
    """7.4: "--" inside or "-" at the end of a comment is an error; the processor may recover by inserting a
    space after any "-" followed by another "-" or ending the comment. The library does (idempotent)."""
    out = []
    for i, ch in enumerate(s):
        out.append(ch)
        if ch == "-" and (i + 1 == len(s) or s[i + 1] == "-"):
            out.append(" ")
    return "".join(out)


def freeze(nodes):
    out = []
    for n in nodes:
        if n["k"] == "e":
            out.append(("e", n["name"], tuple(sorted((a[0][0], a[0][1], a[1]) for a in n["attrs"])), freeze(n["ch"])))
        elif n["k"] == "t":
            out.append(("t", n["v"]))
        elif n["k"] == "c":
            out.append(("c", comment_recovery(n["v"])))
        else:
            # XML: the white space after the target is a separator, PI data never starts with it
            out.append(("p", n["t"], n["v"].lstrip(" \t\r\n")))
    return tuple(out)


class XRef(xpref.Ref):
    """xpref.Ref + result tree fragments + XSLT functions"""

    def __init__(self, nodes, interp):
        xpref.Ref.__init__(self, nodes)
        self.interp = interp
        self.current = 0
        self.at_initial = False

    def to_str(self, v):
        if isinstance(v, RTF):
            self.interp.stat("fragment-to-string")
            return v.string()
        return xpref.Ref.to_str(self, v)

    def to_num(self, v):
        if isinstance(v, RTF):
            return xpref.str_to_num(v.string())
        return xpref.Ref.to_num(self, v)

    def to_bool(self, v):
        if isinstance(v, RTF):
            return True
        if isinstance(v, str):
            return len(v) > 0
        return xpref.Ref.to_bool(self, v)

    def compare(self, op, a, b):
        # a result tree fragment behaves as a node-set holding one root node (XSLT 11.1)
        if isinstance(a, RTF):
            a = True if isinstance(b, bool) else a.string()
        if isinstance(b, RTF):
            b = True if isinstance(a, bool) else b.string()
        return xpref.Ref.compare(self, op, a, b)

    def fn(self, name, args, n, pos, size):
        if name in ("position", "last") and self.at_initial and n == 0 and pos == 1 and size == 1:
            # class of a known deviation: position()/last() in the template instantiated for the initial
            # node list (5.1: "a list containing just the root node") / in a top-level variable (11.4)
            k = "initial_position" if self.at_initial == "t" else "global_position"
            self.interp.flags[k] = self.interp.flags.get(k, 0) + 1
        if name == "current":
            return [self.current]
        if name == "key":
            kname = self.to_str(self.ev(args[0], n, pos, size))
            v = self.ev(args[1], n, pos, size)
            if isinstance(v, list):
                vals = {self.string_value(x) for x in v}
            else:
                vals = {self.to_str(v)}
            return self.interp.key_lookup(kname, vals)
        return xpref.Ref.fn(self, name, args, n, pos, size)


class Template:
    __slots__ = ("match", "name", "mode", "prio", "prec", "seq", "params", "body")


def default_priority(alt):
    steps = [s for s in alt[3] if s[0] != "root"]
    if len(steps) != 1 or len(alt[3]) != 1:
        return 0.5
    ax, test, preds = steps[0]
    if preds or ax not in ("child", "attribute"):
        return 0.5
    if isinstance(test, tuple) and test[0] == "name":
        if test[2] is not None:
            return 0.0
        return -0.25 if test[1] is not None else -0.5
    if isinstance(test, tuple) and test[0] == "pi":
        return 0.0 if test[1] is not None else -0.5
    return -0.5


class Interp:
    def __init__(self, sheet, doc_top, fuel=20000, trace=None):
        self.nodes = xpgen.build_nodes(doc_top)
        self.ref = XRef(self.nodes, self)
        self.flags = {}
        self.stats = {}          # dynamic coverage counters (what was actually instantiated)
        self.in_aset = 0         # > 0 while the attributes of an attribute set are instantiated (dynamic extent)
        self.undeclared_stack = [set()]   # per running template instance: names passed to it that it does not declare
        self.fuel = fuel
        self.templates = []
        self.named = {}
        self.globals = {}        # name -> (prec, seq, vdef)
        self.gvalues = {}
        self.gbusy = set()
        self.keys = {}
        self.asets = {}          # attribute sets: name -> [(prec, seq, [used set names], [(avt name, body)])]
        self.keycache = {}
        self.seq = 0
        self.prec = 0
        self.trace = trace       # optional list collecting ('ev', token) of the main output (see xsltgen.ev_script)
        self.depth = 0
        self.text_only = 0
        self.vt = None           # optional: children list of the dynamic execution tree being built
        self.vroot = None
        self.marker_next = False
        self.useidx = 0
        self.insts = []          # binding instances: parts = [str | ("use", idx)] or None
        self.eids = {}
        self.initial_cx = tuple([0, 1, 1])
        self.global_cx = tuple([0, 1, 1])
        self.load(sheet)

    # ---- stylesheet loading: import precedence (2.6.2), includes (2.6.1) ----
    def load(self, sheet):
        for imp in sheet.get("imports", []):
            self.load(imp)
        prec = self.prec
        self.prec += 1
        self.load_tops(sheet["tops"], prec)

    def load_tops(self, tops, prec):
        for t in tops:
            self.seq += 1
            if t[0] == "include":
                self.load_tops(t[1]["tops"], prec)
            elif t[0] == "template":
                d = t[1]
                tm = Template()
                tm.match, tm.name, tm.mode = d.get("match"), d.get("name"), d.get("mode")
                tm.prio = d.get("priority")
                tm.prec, tm.seq = prec, self.seq
                tm.params, tm.body = d.get("params", []), d.get("body", [])
                self.templates.append(tm)
                if tm.name is not None:
                    old = self.named.get(tm.name)
                    if old is None or old.prec < prec:
                        self.named[tm.name] = tm
                    elif old.prec == prec:
                        raise XsltError("duplicate named template")
            elif t[0] in ("variable", "param"):
                old = self.globals.get(t[1])
                if old is None or old[0] < prec:
                    self.globals[t[1]] = (prec, self.seq, t[2])
                elif old[0] == prec:
                    raise XsltError("duplicate global")
            elif t[0] == "key":
                self.keys.setdefault(t[1], []).append((t[2], t[3]))
            elif t[0] == "attribute-set":
                self.asets.setdefault(t[1], []).append((prec, self.seq, t[2], t[3]))
            else:
                raise XsltError("top " + str(t[0]))

    # ---- dynamic execution tree (consumed by the extracted VariablesStack model, never by the oracle) ----
    def enable_vtrace(self):
        self.vroot = []
        self.vt = self.vroot

    def eid(self, key):
        return self.eids.setdefault(key if isinstance(key, str) else id(key), len(self.eids) + 1)

    def vt_push(self, head):
        if self.vt is None:
            return None
        node = list(head) + [[]]
        self.vt.append(node)
        saved = self.vt
        self.vt = node[-1]
        return saved

    def vt_pop(self, saved):
        if saved is not None:
            self.vt = saved

    def new_inst(self, vdef, first_use):
        """binding instance; its printable value is reconstructed from the uses its select made"""
        parts = None
        if vdef[0] == "select":
            e = vdef[1]
            if e[0] == "lit":
                parts = [e[1]]
            elif e[0] == "fn" and e[1] == "concat":
                parts, k = [], first_use
                for a in e[2]:
                    if a[0] == "lit":
                        parts.append(a[1])
                    elif a[0] == "var":
                        parts.append(("use", k))
                        k += 1
                    else:
                        parts = None
                        break
        self.insts.append(parts)
        return len(self.insts)

    def block(self, key, body, cx, env, b, tm, mode):
        saved = self.vt_push(["B", self.eid(key)])
        try:
            self.run(body, cx, env, b, tm, mode)
        finally:
            self.vt_pop(saved)

    # ---- XPath ----
    def xp(self, e, cx, env):
        node, pos, size = cx
        saved = (self.ref.vars, self.ref.current, self.ref.at_initial)
        self.ref.vars = _Env(self, env)
        self.ref.current = node
        self.ref.at_initial = "t" if cx is self.initial_cx else ("g" if cx is self.global_cx else False)
        try:
            return self.ref.ev(e, node, pos, size)
        finally:
            self.ref.vars, self.ref.current, self.ref.at_initial = saved

    def gvalue(self, name):
        if name in self.gvalues:
            return self.gvalues[name]
        if name not in self.globals:
            raise XsltError("unbound variable " + name)
        if name in self.gbusy:
            raise XsltError("circular variable")
        self.gbusy.add(name)
        if self.text_only > 0 and self.globals[name][2][0] == "body":
            # class of a known deviation: a top-level variable holding a fragment, first referenced (and
            # therefore built, lazily) inside the content of xsl:attribute / xsl:comment / xsl:processing-instruction
            self.flags["global_rtf_built_in_text_only_context"] = 1
        saved_to, self.text_only = self.text_only, 0
        try:
            v = self.vdef_value(self.globals[name][2], self.global_cx, {})
        finally:
            self.text_only = saved_to
        self.gbusy.discard(name)
        self.gvalues[name] = v
        return v

    def vdef_value(self, vdef, cx, env):
        if vdef[0] == "select":
            return self.xp(vdef[1], cx, env)
        if vdef[0] == "empty" or not vdef[1]:
            return ""
        b = Builder(self.flags)
        self.depth += 1
        self.block(vdef, vdef[1], cx, dict(env), b, None, None)
        self.depth -= 1
        return RTF(b.root)

    # ---- patterns (5.2), template lookup (5.5), built-in rules (5.8) ----
    def matches(self, alt, n, env):
        ctxs = self.ref.ancestors(n) + [n]
        saved = (self.ref.vars, self.ref.current)
        self.ref.vars = _Env(self, env)
        self.ref.current = n
        try:
            for c in ctxs:
                if n in self.ref.ev(alt, c, 1, 1):
                    return True
            return False
        finally:
            self.ref.vars, self.ref.current = saved

    def find_template(self, n, mode):
        best = None
        for tm in self.templates:
            if tm.match is None or tm.mode != mode:
                continue
            for alt in tm.match:
                if not self.matches(alt, n, {}):
                    continue
                pr = float(tm.prio) if tm.prio is not None else default_priority(alt)
                key = (tm.prec, pr, tm.seq)
                if best is None or key > best[0]:
                    best = (key, tm)
        return best[1] if best else None

    def key_lookup(self, kname, vals):
        if kname not in self.keys:
            raise XsltError("no such key")
        if kname not in self.keycache:
            tab = {}
            for n in self.nodes:
                if n.kind in ("doc", "nsdecl"):
                    continue
                for alts, use in self.keys[kname]:
                    if not any(self.matches(a, n.id, {}) for a in alts):
                        continue
                    v = self.xp(use, (n.id, 1, 1), {})
                    ss = {self.ref.string_value(x) for x in v} if isinstance(v, list) else {self.ref.to_str(v)}
                    for s in ss:
                        tab.setdefault(s, set()).add(n.id)
            self.keycache[kname] = tab
        out = set()
        for s in vals:
            out |= self.keycache[kname].get(s, set())
        return sorted(out)

    # ---- execution ----
    def stat(self, k):
        self.stats[k] = self.stats.get(k, 0) + 1

    def tick(self):
        self.fuel -= 1
        if self.fuel < 0:
            raise XsltError("out of fuel")

    def sorted_nodes(self, nodes, sorts, env):
        if not sorts:
            return nodes
        size = len(nodes)
        if size > 1:
            self.stat("sorted-more-than-one-node")
        keyed = []
        for i, n in enumerate(nodes):
            ks = []
            for e, dt, order in sorts:
                v = self.xp(e, (n, i + 1, size), env)
                if dt == "number":
                    x = self.ref.to_num(v)
                    if x != x:
                        raise XsltError("NaN sort key (order unspecified)")
                    ks.append(x)
                else:
                    ks.append(self.ref.to_str(v))
            keyed.append((ks, n))
        # stable multi-key sort
        for j in range(len(sorts) - 1, -1, -1):
            keyed.sort(key=lambda kn: kn[0][j], reverse=False)
            if sorts[j][2] == "descending":
                # stable descending: reverse, sort, reverse would break stability; do it by grouping
                groups = []
                for kn in keyed:
                    if groups and groups[-1][0] == kn[0][j]:
                        groups[-1][1].append(kn)
                    else:
                        groups.append((kn[0][j], [kn]))
                keyed = [kn for g in reversed(groups) for kn in g[1]]
        return [n for _, n in keyed]

    def apply(self, nodes, mode, params, b, initial=False):
        size = len(nodes)
        for i, n in enumerate(nodes):
            self.tick()
            tm = self.find_template(n, mode)
            cx = self.initial_cx if initial else (n, i + 1, size)
            self.stat("template-for-node" if tm is not None else "builtin-rule:" + self.nodes[n].kind)
            if tm is None:
                saved = self.vt_push(["T", self.eid("builtin-" + self.nodes[n].kind), []])
                try:
                    self.builtin(cx, mode, b)
                finally:
                    self.vt_pop(saved)
            else:
                self.instantiate(tm, cx, params, b, mode)

    def builtin(self, cx, mode, b):
        n = cx[0]
        kind = self.nodes[n].kind
        if kind in ("doc", "elem"):
            saved = self.vt_push(["I", []])
            try:
                self.apply(self.ref.children(n), mode, {}, b)
            finally:
                self.vt_pop(saved)
        elif kind in ("text", "attr"):
            self.emit_text(b, self.ref.string_value(n))
        # comments, processing instructions: nothing

    def instantiate(self, tm, cx, params, b, mode):
        env = {}
        plist = []
        declared = set(n for n, _ in tm.params)
        undeclared = set(params) - declared
        for n in undeclared:
            self.stat("with-param-not-declared-by-template")
            if n in self.globals:
                self.stat("undeclared-with-param-named-like-a-global")
        self.undeclared_stack.append(undeclared)
        saved = self.vt_push(["T", self.eid(tm), plist])
        try:
            for name, vdef in tm.params:
                first = self.useidx
                if name in params:
                    env[name] = params[name]
                    self.stat("param-bound-to-with-param")
                    if isinstance(params[name], RTF):
                        self.stat("param-bound-to-fragment")
                else:
                    self.stat("param-default")
                    env[name] = self.vdef_value(vdef, cx, env)
                plist.append((name, self.new_inst(vdef, first)))
            self.run(tm.body, cx, env, b, tm, mode)
        finally:
            self.undeclared_stack.pop()
            self.vt_pop(saved)

    def avt(self, parts, cx, env):
        out = []
        for p in parts:
            if isinstance(p, str):
                out.append(p)
            else:
                out.append(self.ref.to_str(self.xp(p[1], cx, env)))
        return "".join(out)

    def qname(self, q, attr=False):
        if ":" in q:
            p, l = q.split(":", 1)
            if p not in SHEET_NS:
                raise XsltError("undeclared prefix")
            return (SHEET_NS[p], l)
        return ("", q)

    def body_string(self, body, cx, env, tm, mode, what):
        b = Builder(self.flags)
        self.depth += 1
        self.text_only += 1
        try:
            self.block(body, body, cx, dict(env), b, tm, mode)
        finally:
            self.text_only -= 1
            self.depth -= 1
        out = []
        for n in b.root:
            if n["k"] != "t":
                # 7.1.3/7.3/7.4: non-text nodes in the content are an error; recovery: ignore them
                self.flags["nontext_in_" + what] = self.flags.get("nontext_in_" + what, 0) + 1
                continue
            out.append(n["v"])
        return "".join(out)

    def with_params(self, wps, cx, env):
        out = {}
        self.last_wp = []
        for name, vdef in wps:
            first = self.useidx
            out[name] = self.vdef_value(vdef, cx, env)
            self.last_wp.append((name, self.new_inst(vdef, first)))
        return out

    # event tokens of the MAIN output (depth 0), in the order instructions are instantiated; consumed by
    # the extracted pending-machine model (correspondence), never by the oracle
    def ev(self, tok):
        if self.trace is not None and self.depth == 0:
            self.trace.append(tok)

    def emit_text(self, b, s, via_copy_of=False):
        # via_copy_of: False | "copy-of" | "value-of-dot"
        if s != "" or (via_copy_of and EMIT.get(via_copy_of, True)):
            self.ev("T," + s.encode("utf-8").hex())
        b.text(s, bool(via_copy_of))

    def emit_start(self, b, name, shown):
        if self.depth > 0 and name[0]:
            self.flags["ns_in_rtf"] = self.flags.get("ns_in_rtf", 0) + 1
        self.ev("S," + shown)
        b.start(name)

    def emit_end(self, b, shown):
        self.ev("E," + shown)
        b.end()

    def emit_attr(self, b, name, shown, value, copy=False):
        if self.depth > 0 and name[0] and name[0] != xpgen.XML_NS:
            self.flags["ns_in_rtf"] = self.flags.get("ns_in_rtf", 0) + 1
        self.ev(("CA," if copy else "A,") + shown + "," + value.encode("utf-8").hex())
        b.attr(name, value)

    def apply_sets(self, names, cx, b, tm, mode, active=()):
        """7.1.4: the attributes of the named sets, in order; a set's used sets first; definitions of one name
        merged by import precedence (higher precedence later, so it wins); only top-level bindings visible"""
        for nm in names:
            if nm in active:
                raise XsltError("circular attribute-set")
            if nm not in self.asets:
                raise XsltError("no such attribute-set")
            self.stat("attribute-set-applied")
            for prec, seq, uses, attrs in sorted(self.asets[nm], key=lambda d: (d[0], d[1])):
                self.apply_sets(uses, cx, b, tm, mode, active + (nm,))
                for avt, body in attrs:
                    an = self.qname(self.avt(avt, cx, {}), True)
                    self.in_aset += 1
                    try:
                        v = self.body_string(body, cx, {}, tm, mode, "attribute")
                    finally:
                        self.in_aset -= 1
                    self.emit_attr(b, an, self.shown(an), v)

    def shown(self, name):
        return (name[0] + "^" + name[1]) if name[0] else name[1]

    def run(self, body, cx, env, b, tm, mode):
        for ins in body:
            self.tick()
            k = ins[0]
            if k == "lre":
                nm = self.qname(ins[1])
                self.emit_start(b, nm, self.shown(nm))
                if len(ins) > 4:
                    self.apply_sets(ins[4], cx, b, tm, mode)
                for aq, parts in ins[2]:
                    an = self.qname(aq, True)
                    self.emit_attr(b, an, self.shown(an), self.avt(parts, cx, env))
                self.block(ins, ins[3], cx, dict(env), b, tm, mode)
                self.emit_end(b, self.shown(nm))
            elif k == "element":
                nm = self.qname(self.avt(ins[1], cx, env))
                self.emit_start(b, nm, self.shown(nm))
                if len(ins) > 3:
                    self.apply_sets(ins[3], cx, b, tm, mode)
                self.block(ins, ins[2], cx, dict(env), b, tm, mode)
                self.emit_end(b, self.shown(nm))
            elif k == "attribute":
                an = self.qname(self.avt(ins[1], cx, env), True)
                v = self.body_string(ins[2], cx, env, tm, mode, "attribute")
                self.emit_attr(b, an, self.shown(an), v)
            elif k in ("text", "lit"):
                self.emit_text(b, ins[1])
            elif k == "value-of":
                dot = ins[1] == ("path", None, [], [("self", "node", [])])
                self.marker_next = ins[1][0] == "var"
                self.emit_text(b, self.ref.to_str(self.xp(ins[1], cx, env)), via_copy_of="value-of-dot" if dot else False)
            elif k == "comment":
                s = self.body_string(ins[1], cx, env, tm, mode, "comment")
                self.ev("C," + s.encode("utf-8").hex())
                b.comment(s)
            elif k == "pi":
                t = self.avt(ins[1], cx, env)
                s = self.body_string(ins[2], cx, env, tm, mode, "pi")
                self.ev("P," + t + "," + s.encode("utf-8").hex())
                b.pi(t, s)
            elif k == "copy":
                self.copy_shallow(cx, env, b, ins[1], tm, mode)
            elif k == "copy-of":
                v = self.xp(ins[1], cx, env)
                if isinstance(v, list):
                    for n in v:
                        self.copy_deep(n, b)
                elif isinstance(v, RTF):
                    self.stat("fragment-copied")
                    for n in v.nodes:
                        self.copy_rtf_node(n, b)
                else:
                    self.emit_text(b, self.ref.to_str(v), via_copy_of="copy-of")
            elif k == "apply":
                sel = ins[1] if ins[1] is not None else ("path", None, [], [("child", "node", [])])
                wp = self.with_params(ins[4], cx, env)
                wpi = self.last_wp
                v = self.xp(sel, cx, env)
                if not isinstance(v, list):
                    raise XsltError("apply-templates select is not a node-set")
                nodes = self.sorted_nodes(v, ins[3], env)
                saved = self.vt_push(["I", wpi])
                try:
                    self.apply(nodes, ins[2], wp, b)
                finally:
                    self.vt_pop(saved)
            elif k == "call":
                t2 = self.named.get(ins[1])
                if t2 is None:
                    raise XsltError("no such template")
                self.stat("call-template" + ("-recursive" if t2 is tm else ""))
                wp = self.with_params(ins[2], cx, env)
                saved = self.vt_push(["I", self.last_wp])
                try:
                    self.instantiate(t2, cx, wp, b, mode)
                finally:
                    self.vt_pop(saved)
            elif k == "for-each":
                v = self.xp(ins[1], cx, env)
                if not isinstance(v, list):
                    raise XsltError("for-each select is not a node-set")
                nodes = self.sorted_nodes(v, ins[2], env)
                size = len(nodes)
                if size > 1:
                    self.stat("for-each-over-several-nodes")
                for i, n in enumerate(nodes):
                    self.block(ins, ins[3], (n, i + 1, size), dict(env), b, None, mode)
            elif k == "if":
                if self.ref.to_bool(self.xp(ins[1], cx, env)):
                    self.block(ins, ins[2], cx, dict(env), b, tm, mode)
            elif k == "choose":
                for test, body2 in ins[1]:
                    if self.ref.to_bool(self.xp(test, cx, env)):
                        self.block(body2, body2, cx, dict(env), b, tm, mode)
                        break
                else:
                    if ins[2] is not None:
                        self.block(ins[2], ins[2], cx, dict(env), b, tm, mode)
            elif k == "variable":
                first = self.useidx
                env[ins[1]] = self.vdef_value(ins[2], cx, env)
                if self.vt is not None:
                    self.vt.append(["V", ins[1], self.new_inst(ins[2], first)])
            elif k == "number":
                x = self.ref.to_num(self.xp(ins[1], cx, env))
                self.emit_text(b, format_number_value(x, ins[2]))
            else:
                raise XsltError("instruction " + k)

    def node_name(self, nd):
        return (nd.uri, nd.local)

    def shown_src(self, nd):
        return (nd.uri + "^" + nd.local) if nd.uri else nd.local

    def copy_shallow(self, cx, env, b, body, tm, mode):
        n = cx[0]
        nd = self.nodes[n]
        if nd.kind == "doc":
            self.block(body, body, cx, dict(env), b, tm, mode)
        elif nd.kind == "elem":
            self.emit_start(b, self.node_name(nd), self.shown_src(nd))
            self.block(body, body, cx, dict(env), b, tm, mode)
            self.emit_end(b, self.shown_src(nd))
        elif nd.kind == "text":
            self.emit_text(b, nd.value)
        elif nd.kind == "attr":
            if nd.uri and nd.uri != xpgen.XML_NS:
                # class of a known deviation: an attribute node in a namespace copied on its own (no
                # declaration for its prefix is generated)
                self.flags["ns_attr_copied_alone"] = self.flags.get("ns_attr_copied_alone", 0) + 1
            self.emit_attr(b, self.node_name(nd), self.shown_src(nd), nd.value, copy=True)
        elif nd.kind == "comment":
            self.ev("C," + nd.value.encode("utf-8").hex())
            b.comment(nd.value)
        elif nd.kind == "pi":
            self.ev("P," + nd.qname + "," + nd.value.encode("utf-8").hex())
            b.pi(nd.qname, nd.value)

    def copy_deep(self, n, b):
        nd = self.nodes[n]
        if nd.kind == "doc":
            for c in nd.children:
                self.copy_deep(c.id, b)
        elif nd.kind == "elem":
            self.emit_start(b, self.node_name(nd), self.shown_src(nd))
            for a in nd.attrs:
                if a.kind == "attr":
                    self.emit_attr(b, self.node_name(a), self.shown_src(a), a.value, copy=True)
            for c in nd.children:
                self.copy_deep(c.id, b)
            self.emit_end(b, self.shown_src(nd))
        elif nd.kind == "text":
            self.emit_text(b, nd.value)
        elif nd.kind == "attr":
            if nd.uri and nd.uri != xpgen.XML_NS:
                # class of a known deviation: an attribute node in a namespace copied on its own (no
                # declaration for its prefix is generated)
                self.flags["ns_attr_copied_alone"] = self.flags.get("ns_attr_copied_alone", 0) + 1
            self.emit_attr(b, self.node_name(nd), self.shown_src(nd), nd.value, copy=True)
        elif nd.kind == "comment":
            self.ev("C," + nd.value.encode("utf-8").hex())
            b.comment(nd.value)
        elif nd.kind == "pi":
            self.ev("P," + nd.qname + "," + nd.value.encode("utf-8").hex())
            b.pi(nd.qname, nd.value)

    def copy_rtf_node(self, n, b):
        if n["k"] == "e":
            self.emit_start(b, n["name"], self.shown(n["name"]))
            for a, v in n["attrs"]:
                self.emit_attr(b, a, self.shown(a), v, copy=True)
            for c in n["ch"]:
                self.copy_rtf_node(c, b)
            self.emit_end(b, self.shown(n["name"]))
        elif n["k"] == "t":
            self.emit_text(b, n["v"])
        elif n["k"] == "c":
            self.ev("C," + n["v"].encode("utf-8").hex())
            b.comment(n["v"])
        else:
            self.ev("P," + n["t"] + "," + n["v"].encode("utf-8").hex())
            b.pi(n["t"], n["v"])

    def transform(self):
        b = Builder(self.flags)
        self.apply([0], None, {}, b, initial=True)
        return freeze(b.root)


class _Env(dict):
    """variable lookup: innermost local binding, else the global of highest import precedence (11.4)"""

    def __init__(self, interp, env):
        dict.__init__(self, env)
        self.interp = interp

    def __contains__(self, k):
        return dict.__contains__(self, k) or k in self.interp.globals

    def __getitem__(self, k):
        it = self.interp
        if it.vt is not None:
            it.vt.append(["U", k, it.useidx, it.marker_next])
            it.marker_next = False
            it.useidx += 1
        if dict.__contains__(self, k):
            if it.in_aset:
                # class of a known deviation: a LOCAL binding (variable or param, also of a template called from
                # there or of a top-level variable first evaluated there) read while an attribute set is instantiated
                it.flags["local_binding_read_inside_attribute_set"] = 1
            return dict.__getitem__(self, k)
        if k in it.undeclared_stack[-1]:
            # 11.6: a with-param the template does not declare is ignored: the reference sees the top-level binding
            it.stat("global-read-while-same-named-with-param-was-passed-but-not-declared")
        saved = (self.interp.ref.vars, self.interp.ref.current)
        try:
            return self.interp.gvalue(k)
        finally:
            self.interp.ref.vars, self.interp.ref.current = saved


# ---- xsl:number value= (7.7.1), the formats the generator uses ----
def roman(n):
    out = ""
    for v, s in ((1000, "m"), (900, "cm"), (500, "d"), (400, "cd"), (100, "c"), (90, "xc"), (50, "l"), (40, "xl"),
                 (10, "x"), (9, "ix"), (5, "v"), (4, "iv"), (1, "i")):
        while n >= v:
            out += s
            n -= v
    return out


def alpha(n):
    out = ""
    while n > 0:
        n -= 1
        out = chr(ord("a") + n % 26) + out
        n //= 26
    return out


def format_number_value(x, fmt):
    if x != x or x in (float("inf"), float("-inf")):
        raise XsltError("xsl:number of NaN/Infinity")
    n = int(xpref.xround(x))
    if n < 1:
        raise XsltError("xsl:number below 1")
    if fmt == "1":
        return str(n)
    if fmt == "01":
        return "%02d" % n
    if fmt == "a":
        return alpha(n)
    if fmt == "A":
        return alpha(n).upper()
    if fmt == "i":
        return roman(n)
    if fmt == "I":
        return roman(n).upper()
    raise XsltError("format")


def run(sheet, doc_top, trace=None, fuel=20000, vtrace=False):
    it = Interp(sheet, doc_top, fuel=fuel, trace=trace)
    if vtrace:
        it.enable_vtrace()
    tree = it.transform()
    it.flags["#stats"] = it.stats
    if vtrace:
        return tree, it.flags, it
    return tree, it.flags


# ---- the library's output bytes -> the same tree form ----
def parse_output(data):
    """Parse serialized XML output (possibly several top-level nodes / top-level text) namespace-aware."""
    import xml.parsers.expat
    if data.startswith(b"<?xml"):
        i = data.find(b"?>")
        data = data[i + 2:]
    wrapped = b"<wrap__>" + data + b"</wrap__>"
    p = xml.parsers.expat.ParserCreate(namespace_separator="\x01")
    p.buffer_text = True
    p.ordered_attributes = True
    root = {"k": "e", "name": ("", "wrap__"), "attrs": [], "ch": []}
    stack = [root]

    def split(n):
        if "\x01" in n:
            u, l = n.split("\x01", 1)
            return (u, l)
        return ("", n)

    def se(name, attrs):
        n = {"k": "e", "name": split(name), "attrs": [[split(attrs[i]), attrs[i + 1]] for i in range(0, len(attrs), 2)], "ch": []}
        stack[-1]["ch"].append(n)
        stack.append(n)

    def ee(name):
        stack.pop()

    def cd(s):
        k = stack[-1]["ch"]
        if k and k[-1]["k"] == "t":
            k[-1]["v"] += s
        else:
            k.append({"k": "t", "v": s})

    def cm(s):
        stack[-1]["ch"].append({"k": "c", "v": s})

    def pi(t, d):
        stack[-1]["ch"].append({"k": "p", "t": t, "v": d})
    p.StartElementHandler, p.EndElementHandler = se, ee
    p.CharacterDataHandler, p.CommentHandler, p.ProcessingInstructionHandler = cd, cm, pi
    p.Parse(wrapped, True)
    return freeze(root["ch"][0]["ch"])


def show(tree, ind=0):
    out = []
    for n in tree:
        pad = "  " * ind
        if n[0] == "e":
            out.append("%s<%s%s>" % (pad, "{%s}%s" % n[1] if n[1][0] else n[1][1],
                                     "".join(" %s=%r" % (("{%s}%s" % (u, l)) if u else l, v) for u, l, v in n[2])))
            out.append(show(n[3], ind + 1))
        elif n[0] == "t":
            out.append("%stext %r" % (pad, n[1]))
        elif n[0] == "c":
            out.append("%scomment %r" % (pad, n[1]))
        else:
            out.append("%spi %s %r" % (pad, n[1], n[2]))
    return "\n".join(x for x in out if x)
