(* C08 part "html": facts about the regenerated tables, by computation over the (finite) tables, lifted to all names. *)
From Coq Require Import NArith List Bool Lia ZifyBool ZifyNat ZifyN.
Require Import XV.GenOutopt XV.GenHtml XV.HtmlEnt4Defs XV.HtmlDefs.
Import ListNotations.
Open Scope N_scope.

Lemma str_eqb_eq : forall a b, str_eqb a b = true <-> a = b.
Proof.
  induction a as [|x a IH]; destruct b as [|y b]; cbn; split; intro H; try reflexivity; try discriminate.
  - apply andb_true_iff in H. destruct H as [H1 H2]. apply N.eqb_eq in H1. apply IH in H2. subst. reflexivity.
  - injection H as -> ->. rewrite N.eqb_refl. cbn. apply IH. reflexivity.
Qed.
Lemma str_eqb_refl : forall a, str_eqb a a = true.
Proof. intros a. apply str_eqb_eq. reflexivity. Qed.

Lemma up_low : forall ch, up (low ch) = up ch.
Proof. intros ch. unfold up, low. repeat match goal with |- context [if ?b then _ else _] => destruct b eqn:? end; lia. Qed.
Lemma low_up : forall ch, low (up ch) = low ch.
Proof. intros ch. unfold up, low. repeat match goal with |- context [if ?b then _ else _] => destruct b eqn:? end; lia. Qed.
Lemma low_low : forall ch, low (low ch) = low ch.
Proof. intros ch. unfold low. repeat match goal with |- context [if ?b then _ else _] => destruct b eqn:? end; lia. Qed.
Lemma map_up_low : forall s, map up (map low s) = map up s.
Proof. intros s. rewrite map_map. apply map_ext. apply up_low. Qed.
Lemma map_low_up : forall s, map low (map up s) = map low s.
Proof. intros s. rewrite map_map. apply map_ext. apply low_up. Qed.
Lemma map_low_low : forall s, map low (map low s) = map low s.
Proof. intros s. rewrite map_map. apply map_ext. apply low_low. Qed.

(* the look-up depends on the name up to ASCII case only *)
Lemma elem_find_low : forall name, elem_find (map low name) = elem_find name.
Proof. intros name. unfold elem_find. rewrite map_up_low. reflexivity. Qed.
Lemma elem_is_low : forall f name, elem_is f (map low name) = elem_is f name.
Proof. intros f name. unfold elem_is. rewrite elem_find_low. reflexivity. Qed.
Lemma attr_is_low : forall f e a, attr_is f (map low e) (map low a) = attr_is f e a.
Proof. intros f e a. unfold attr_is. rewrite elem_find_low, map_up_low. reflexivity. Qed.

(* ---- a flag of the table against an independent list of lower-case names -------------------------------- *)
Definition flag_matches (flag : N) (l : list str) : bool :=
  forallb (fun e => Bool.eqb (negb (N.land (snd (fst e)) flag =? 0)) (in_names (map low (fst (fst e))) l)) html_elements &&
  forallb (fun n => elem_is flag n) l &&
  forallb (fun n => str_eqb (map low n) n) l.

Lemma find_some_key : forall (k : str) (t : list (str * N * list (str * N))) e,
  find (fun e => str_eqb (fst (fst e)) k) t = Some e -> In e t /\ fst (fst e) = k.
Proof.
  intros k t e H. apply find_some in H. destruct H as [H1 H2]. apply str_eqb_eq in H2. auto.
Qed.

Lemma in_names_In : forall n l, in_names n l = true <-> In n l.
Proof.
  intros n l. unfold in_names. rewrite existsb_exists. split.
  - intros (x & H1 & H2). apply str_eqb_eq in H2. subst. exact H1.
  - intros H. exists n. split; [exact H | apply str_eqb_refl].
Qed.

Lemma flag_matches_spec : forall flag l, flag_matches flag l = true ->
  forall name, elem_is flag name = in_names (map low name) l.
Proof.
  intros flag l H name. unfold flag_matches in H. apply andb_true_iff in H. destruct H as [H H3].
  apply andb_true_iff in H. destruct H as [H1 H2].
  rewrite forallb_forall in H1, H2, H3.
  destruct (in_names (map low name) l) eqn:E.
  - apply in_names_In in E. pose proof (H2 _ E) as F. rewrite elem_is_low in F. exact F.
  - unfold elem_is, elem_find. destruct (find (fun e => str_eqb (fst (fst e)) (map up name)) html_elements) as [[[k fl] at_]|] eqn:F; [|reflexivity].
    apply find_some_key in F. destruct F as [F1 F2]. cbn in F2. specialize (H1 _ F1). cbn in H1.
    rewrite F2, map_low_up, E in H1. apply Bool.eqb_prop in H1. exact H1.
Qed.

Lemma void_flag : flag_matches flag_EMPTY void4 = true. Proof. vm_compute. reflexivity. Qed.
Lemma raw_flag : flag_matches flag_RAW raw4 = true. Proof. vm_compute. reflexivity. Qed.
Lemma script_flag : flag_matches flag_SCRIPTELEM [[115;99;114;105;112;116]] = true. Proof. vm_compute. reflexivity. Qed.
Lemma head_flag : flag_matches flag_HEADELEM [head_name] = true. Proof. vm_compute. reflexivity. Qed.

Lemma elem_is_void : forall name, elem_is flag_EMPTY name = in_names (map low name) void4.
Proof. exact (flag_matches_spec _ _ void_flag). Qed.
Lemma elem_is_raw : forall name, elem_is flag_RAW name = in_names (map low name) raw4.
Proof. exact (flag_matches_spec _ _ raw_flag). Qed.
Lemma elem_is_script : forall name, elem_is flag_SCRIPTELEM name = str_eqb (map low name) [115;99;114;105;112;116].
Proof.
  intros name. rewrite (flag_matches_spec _ _ script_flag). unfold in_names. cbn [existsb]. rewrite orb_false_r. reflexivity.
Qed.
Lemma elem_is_head : forall name, elem_is flag_HEADELEM name = str_eqb (map low name) head_name.
Proof.
  intros name. rewrite (flag_matches_spec _ _ head_flag). unfold in_names. cbn [existsb]. rewrite orb_false_r. reflexivity.
Qed.

(* ---- the serializer's entity names are HTML 4.01's, and denote the character they are written for --------- *)
(* &apos; is not an HTML 4.01 entity; no path of the serializer reaches it (the apostrophe is not an 'S' unit) *)
Definition xml_entities_html : list (N * str) := filter (fun e => negb (fst e =? 39)) xml_entities.
Definition entity_ok (e : N * str) : bool :=
  match ent4 (snd e) html4_entities with Some cp => (cp =? fst e) && (cp <? 65536) | None => false end &&
  forallb is_alnum (snd e) && negb (match snd e with [] => true | _ => false end).
Lemma entities_agree : forallb entity_ok (xml_entities_html ++ html_entities) = true.
Proof. vm_compute. reflexivity. Qed.

Lemma assoc_in : forall ch t n, assoc ch t = Some n -> In (ch, n) t.
Proof.
  induction t as [|[k v] t IH]; cbn; intros n H; [discriminate|].
  destruct (k =? ch) eqn:E; [apply N.eqb_eq in E; injection H as ->; subst; auto | right; auto].
Qed.

(* the binary search of accumDefaultEntity needs the table sorted by character *)
Fixpoint strictly_sorted (l : list (N * str)) : bool :=
  match l with
  | a :: ((b :: _) as r) => (fst a <? fst b) && strictly_sorted r
  | _ => true
  end.
Lemma html_entities_sorted : strictly_sorted html_entities = true.
Proof. vm_compute. reflexivity. Qed.

(* every entity reference the serializer can write resolves, in the reader, to the character it stands for *)
Lemma default_entity_resolves : forall ch e, ch <> 39 -> default_entity ch = Some e ->
  exists n, e = 38 :: n ++ [59] /\ resolve_ref n = Some [ch] /\ forallb is_alnum n = true /\ n <> [].
Proof.
  intros ch e H39 H. unfold default_entity in H.
  assert (A : forall n, In (ch, n) (xml_entities_html ++ html_entities) ->
              resolve_ref n = Some [ch] /\ forallb is_alnum n = true /\ n <> []).
  { intros n Hin. pose proof entities_agree as G. rewrite forallb_forall in G. specialize (G _ Hin).
    unfold entity_ok in G. cbn [fst snd] in G. apply andb_true_iff in G. destruct G as [G G3].
    apply andb_true_iff in G. destruct G as [G1 G2].
    destruct (ent4 n html4_entities) as [cp|] eqn:E; [|discriminate].
    apply andb_true_iff in G1. destruct G1 as [G1 G4]. apply N.eqb_eq in G1. subst cp.
    split; [|split; [exact G2 | destruct n; [discriminate | discriminate]]].
    unfold resolve_ref. destruct n as [|x n']; [discriminate|].
    assert (x <> 35). { cbn [forallb] in G2. apply andb_true_iff in G2. destruct G2 as [G2 _]. unfold is_alnum, is_letter, is_digit in G2. lia. }
    destruct (x =? 35) eqn:E35; [lia|]. rewrite E. unfold units_of_cp. rewrite G4. reflexivity. }
  destruct (assoc ch xml_entities) as [n|] eqn:E1.
  - injection H as <-. exists n. split; [reflexivity|]. apply A. apply in_or_app. left.
    unfold xml_entities_html. apply filter_In. split; [apply assoc_in; exact E1|]. cbn. destruct (ch =? 39) eqn:E; [lia | reflexivity].
  - destruct (assoc ch html_entities) as [n|] eqn:E2; [|discriminate]. injection H as <-. exists n.
    split; [reflexivity|]. apply A. apply in_or_app. right. apply assoc_in. exact E2.
Qed.
