(* model side of the id() correspondence (C02 id stream).  One case per line, fields separated by '|':
     <id>|D:<doc tokens of the tree the parser reports>|Y:<attribute node id>=<u16 token of its declared type>;...|S:<u16 token>
     <id>|D:...|Y:...|L:<node id>,<node id>,...
   (attributes not listed in Y have type CDATA).  Output: <id>|ns:<ids of fn_id>           *)
let u = u16_of_token

let qn (s : string) = u ("u:" ^ String.concat "," (List.map (fun c -> Printf.sprintf "%x" (Char.code c)) (List.init (String.length s) (fun i -> s.[i]))))

let trees_of_tokens (field : string) : tree list =
  let toks = split_ws field in
  let rec children toks =
    match toks with
    | [] -> ([], [])
    | ")" :: r -> ([], r)
    | t :: r ->
        if t.[0] = '(' then begin
          let name = String.sub t 1 (String.length t - 1) in
          let rec attrs acc = function
            | a :: r when String.length a > 0 && a.[0] = '@' ->
                let e = String.index a '=' in
                attrs ((qn (String.sub a 1 (e - 1)), u (String.sub a (e + 1) (String.length a - e - 1))) :: acc) r
            | r -> (List.rev acc, r) in
          let (ats, r1) = attrs [] r in
          let (ch, r2) = children r1 in
          let (sibs, r3) = children r2 in
          (TElem (qn name, ats, ch) :: sibs, r3)
        end else begin
          let node =
            match t.[0] with
            | 't' -> TTextN (u (String.sub t 2 (String.length t - 2)))
            | 'c' -> TCommentN (u (String.sub t 2 (String.length t - 2)))
            | 'p' ->
                let e = String.index_from t 2 '=' in
                TPiN (qn (String.sub t 2 (e - 2)), u (String.sub t (e + 1) (String.length t - e - 1)))
            | _ -> failwith ("doc token " ^ t) in
          let (sibs, r') = children r in
          (node :: sibs, r')
        end
  in fst (children toks)

let split_on (c : char) (s : string) : string list = if s = "" then [] else String.split_on_char c s

let () =
  let ic = if Array.length Sys.argv > 1 then open_in Sys.argv.(1) else stdin in
  let cdata = u "u:43,44,41,54,41" in
  let last_doc = ref "" and doc = ref [] in
  iter_lines ic (fun line ->
    if line <> "" && line.[0] <> '#' then begin
      let fs = String.split_on_char '|' line in
      if List.length fs >= 4 then begin
        let id = List.nth fs 0 in
        (try
          let fld k = let s = List.nth fs k in String.sub s 2 (String.length s - 2) in
          let docf = fld 1 in
          if docf <> !last_doc then (doc := build_doc (trees_of_tokens docf); last_doc := docf);
          let tys = List.map (fun kv -> let e = String.index kv '=' in
                                (int_of_string (String.sub kv 0 e), u (String.sub kv (e + 1) (String.length kv - e - 1))))
                             (split_on ';' (fld 2)) in
          let ty (a : nat) = match List.assoc_opt (int_of_nat a) tys with Some t -> t | None -> cdata in
          let argf = List.nth fs 3 in
          let arg = if argf.[0] = 'S' then IdStr (u (fld 3))
                    else IdNodes (List.map (fun x -> nat_of_int (int_of_string x)) (split_on ',' (fld 3))) in
          let r = fn_id !doc ty arg in
          Printf.printf "%s|ns:%s\n" id (String.concat "," (List.map (fun n -> string_of_int (int_of_nat n)) r))
        with e -> Printf.printf "%s|modelfail:%s\n" id (Printexc.to_string e))
      end
    end)
