(* SerEscModel2.v — comments and processing instructions: whenever the serializer succeeds, no
   character of the data was one that survives parsing only as a character reference (valid for
   every writer family and for both variants of GenSer.comment_eol_is_error). *)
From Coq Require Import NArith List Bool.
Require Import XV.SerDefs XV.SerUtfModel XV.SerEscModel.
Import ListNotations.
Local Open Scope N_scope.

Lemma lf_is_no_comment_error : forall v11, p_comment_error v11 10 = false.
Proof.
  intros v11. unfold p_comment_error, comment_eol.
  destruct comment_eol_is_error; destruct v11; vm_compute; reflexivity.
Qed.

Lemma normalized_loop_ok_chars : forall F v11 l run_rev bs,
  payload (normalized_loop F v11 l run_rev) = Ok bs ->
  forall c, In c l -> p_comment_error v11 c = false.
Proof.
  intros F v11. induction l as [|c r IH]; intros run_rev bs H x Hx; [destruct Hx|].
  cbn [normalized_loop] in H. destruct (c =? 10) eqn:E10.
  - apply payload_app_inv in H. destruct H as (a & b & _ & Hb & _).
    apply payload_app_inv in Hb. destruct Hb as (b1 & b2 & _ & Hb2 & _).
    destruct Hx as [<-|Hx].
    + apply N.eqb_eq in E10. subst c. apply lf_is_no_comment_error.
    + exact (IH [] b2 Hb2 x Hx).
  - destruct (p_comment_error v11 c) eqn:E; [cbn in H; discriminate|].
    destruct Hx as [<-|Hx]; [exact E|]. exact (IH (c :: run_rev) bs H x Hx).
Qed.

Theorem comment_ok_has_no_reference_only_char : forall F v11 s bs,
  payload (write_comment F v11 s) = Ok bs -> forall c, In c s -> p_comment_error v11 c = false.
Proof.
  intros F v11 s bs H. unfold write_comment in H.
  apply payload_app_inv in H. destruct H as (a & b & _ & Hb & _).
  apply payload_app_inv in Hb. destruct Hb as (b1 & b2 & Hb1 & _ & _).
  exact (normalized_loop_ok_chars F v11 s [] b1 Hb1).
Qed.

Theorem pi_ok_has_no_reference_only_char : forall F v11 t d bs,
  payload (write_pi F v11 t d) = Ok bs -> forall c, In c d -> p_comment_error v11 c = false.
Proof.
  intros F v11 t d bs H. unfold write_pi in H.
  apply payload_app_inv in H. destruct H as (a1 & r1 & _ & H & _).
  apply payload_app_inv in H. destruct H as (a2 & r2 & _ & H & _).
  apply payload_app_inv in H. destruct H as (a3 & r3 & _ & H & _).
  apply payload_app_inv in H. destruct H as (a4 & r4 & H4 & _ & _).
  exact (normalized_loop_ok_chars F v11 d [] a4 H4).
Qed.
