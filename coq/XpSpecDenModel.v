(* XpSpecDenModel.v — the interpreter model [eval] of XpDefs.v computes exactly the relational
   denotational semantics [den] of XpSpecDenDefs.v, for every expression of XpAst.v (without the
   namespace axis, K21) in every admissible context: soundness, completeness, determinism, and the
   compositional equation of [den]. *)
From Coq Require Import ZArith NArith List Bool Arith Lia Relations Sorted SpecFloat.
Require Import XV.GenNum XV.NumDefs XV.XpAst XV.DomDefs XV.XpDefs XV.DomModel XV.XpModel
               XV.XpSpecDefs XV.XpSpecAxesModel XV.XpSpecStepModel XV.XpSpecFuelModel XV.XpSpecEvalModel
               XV.XpSpecArithModel XV.XpSpecDenDefs XV.XpSpecNodeTestModel XV.XpSpecFunModel
               XV.XpSpecRelModel XV.XpSpecExtModel.
Import ListNotations.

(** * sizes of the direct sub-expressions *)
Definition args_size := fix ls (l : list expr) : nat := match l with [] => 0 | x :: r => S (expr_size x + ls r) end.
Definition preds_size := fix ps (l : list (bool * expr)) : nat := match l with [] => 0 | (_, p) :: r => S (expr_size p + ps r) end.
Definition steps_size := fix ss (l : list (axis * ntest * list (bool * expr))) : nat :=
  match l with [] => 0 | (_, _, ps) :: r => S (preds_size ps + ss r) end.

Lemma args_size_in l x : In x l -> expr_size x < S (args_size l).
Proof.
  induction l as [|a l IH]; cbn [In args_size]; intros H; [destruct H|].
  destruct H as [<-|H]; [lia | specialize (IH H); lia].
Qed.

Lemma preds_size_in ps x : In x (map snd ps) -> expr_size x < S (preds_size ps).
Proof.
  induction ps as [|[b p] ps IH]; cbn [map In preds_size snd]; intros H; [destruct H|].
  destruct H as [<-|H]; [lia | specialize (IH H); lia].
Qed.

Lemma steps_size_in st x : In x (flat_map (fun s : step => map snd (snd s)) st) -> expr_size x < S (steps_size st).
Proof.
  induction st as [|[[ax t] ps] st IH]; cbn [flat_map In steps_size snd]; intros H; [destruct H|].
  apply in_app_or in H. destruct H as [H|H]; [pose proof (preds_size_in ps x H); lia | specialize (IH H); lia].
Qed.

Lemma expr_size_path h hp st : expr_size (EPath h hp st) =
  S ((match h with Some x => expr_size x | None => 0 end) + preds_size hp + steps_size st).
Proof. reflexivity. Qed.

Lemma subexpr_size e x : In x (subexprs e) -> expr_size x < expr_size e.
Proof.
  destruct e; cbn [subexprs]; intros H;
    try (destruct H as [<-|[<-|[]]]; cbn [expr_size]; lia);
    try (destruct H as [<-|[]]; cbn [expr_size]; lia);
    try (destruct H);
    try (change (expr_size x < S (args_size l)); apply args_size_in; exact H);
    try (change (expr_size x < S (args_size args)); apply args_size_in; exact H).
  rewrite expr_size_path. apply in_app_or in H. destruct H as [H|H].
  - destruct head as [h|]; [destruct H as [<-|[]]; lia | destruct H].
  - apply in_app_or in H. destruct H as [H|H]; [pose proof (preds_size_in _ _ H) | pose proof (steps_size_in _ _ H)]; lia.
Qed.

Lemma expr_size_pos e : 1 <= expr_size e.
Proof. destruct e; cbn [expr_size]; lia. Qed.

Lemma expr_wf_sub e x : expr_wf e -> In x (subexprs e) -> expr_wf x.
Proof. intros H Hin. inversion H as [? _ HF]; subst. rewrite Forall_forall in HF. apply HF. exact Hin. Qed.

Lemma expr_wf_local e : expr_wf e -> local_wf e.
Proof. intros H. inversion H. assumption. Qed.

(** * the interpreter, one level, as a relation of the values of the sub-expressions *)
Definition Rf (f : nat) : ctx -> expr -> value -> Prop := fun c x w => eval f c x = Ok w.

Lemma bool_iff_eq2 (r r' : bool) (P : Prop) : (r = true <-> P) -> (r' = true <-> P) -> r = r'.
Proof.
  intros H H'. destruct r, r'; try reflexivity.
  - symmetry. apply H'. apply H. reflexivity.
  - apply H. apply H'. reflexivity.
Qed.

Lemma eval_numlit f c t : eval (S f) c (ENumLit t) = Ok (VNum (string_to_number t)).
Proof. reflexivity. Qed.

Lemma ev_num_iff f c x r : 1 <= f ->
  (ev_num (eval f) c x = Ok r <-> exists vx, eval f c x = Ok vx /\ r = to_number c vx).
Proof.
  intros Hf. destruct f as [|f]; [lia|]. unfold ev_num.
  assert (G : (do v <- eval (S f) c x; Ok (to_number c v)) = Ok r <-> exists vx, eval (S f) c x = Ok vx /\ r = to_number c vx).
  { destruct (eval (S f) c x) as [vx|er]; cbn [bind].
    - split; [intros H; inversion H; eexists; split; reflexivity | intros [vx' [E ->]]; inversion E; reflexivity].
    - split; [discriminate | intros [vx' [E _]]; discriminate]. }
  destruct x; exact G.
Qed.

Lemma ev_bool_iff f c x b :
  (ev_bool (eval f) c x = Ok b <-> exists vx, eval f c x = Ok vx /\ b = to_boolean vx).
Proof.
  unfold ev_bool. destruct (eval f c x) as [vx|er]; cbn [bind].
  - split; [intros H; inversion H; eexists; split; reflexivity | intros [vx' [E ->]]; inversion E; reflexivity].
  - split; [discriminate | intros [vx' [E _]]; discriminate].
Qed.

Lemma cmp_case f c op a b v :
  ((do x <- eval f c a; do y <- eval f c b; Ok (VBool (compare c op x y))) = Ok v <-> cmp_den (Rf f) c op a b v).
Proof.
  unfold cmp_den, Rf. split.
  - intros H. destruct (eval f c a) as [va|]; cbn [bind] in H; [|discriminate].
    destruct (eval f c b) as [vb|]; cbn [bind] in H; [|discriminate]. inversion H; subst v.
    exists va, vb, (compare c op va vb). repeat split; try reflexivity; apply compare_rule.
  - intros [va [vb [r [Ha [Hb [-> Hr]]]]]]. rewrite Ha, Hb. cbn [bind]. do 2 f_equal.
    apply (bool_iff_eq2 _ _ (cmp_rule c op va vb)); [apply compare_rule | exact Hr].
Qed.

Lemma arith_case f c (op : dbl -> dbl -> dbl) a b v : 1 <= f ->
  ((do x <- ev_num (eval f) c a; do y <- ev_num (eval f) c b; Ok (VNum (op x y))) = Ok v <-> arith_den (Rf f) c op a b v).
Proof.
  intros Hf. unfold arith_den, Rf. split.
  - intros H. destruct (ev_num (eval f) c a) as [x|] eqn:Ea; cbn [bind] in H; [|discriminate].
    destruct (ev_num (eval f) c b) as [y|] eqn:Eb; cbn [bind] in H; [|discriminate]. inversion H; subst v.
    apply (ev_num_iff f c a x Hf) in Ea. apply (ev_num_iff f c b y Hf) in Eb.
    destruct Ea as [va [Ha ->]]. destruct Eb as [vb [Hb ->]]. exists va, vb. auto.
  - intros [va [vb [Ha [Hb ->]]]].
    assert (Ea : ev_num (eval f) c a = Ok (to_number c va)) by (apply (ev_num_iff f c a _ Hf); eauto).
    assert (Eb : ev_num (eval f) c b = Ok (to_number c vb)) by (apply (ev_num_iff f c b _ Hf); eauto).
    rewrite Ea, Eb. reflexivity.
Qed.

(* n-ary folds that collect per-element results *)
Section FoldA.
  Context {A : Type}.
  Variable G : A -> res (list nat).
  Let F := fun (acc : res (list nat)) (a : A) => do q <- acc; do r0 <- G a; Ok (merge_doc_order q r0).

  Lemma foldA_G : forall l q r, fold_left F l (Ok q) = Ok r <->
    exists rs, Forall2 (fun a r0 => G a = Ok r0) l rs /\ r = fold_left merge_doc_order rs q.
  Proof.
    induction l as [|n l IH]; intros q r; cbn [fold_left].
    - split.
      + intros H. inversion H; subst. exists []. split; [constructor | reflexivity].
      + intros [rs [H ->]]. inversion H; subst. reflexivity.
    - unfold F at 2. cbn [bind]. destruct (G n) as [r0|er] eqn:E; cbn [bind].
      + rewrite IH. split.
        * intros [rs [H ->]]. exists (r0 :: rs). split; [constructor; assumption | reflexivity].
        * intros [rs [H ->]]. inversion H as [|? r0' ? rs' H1 H2]; subst. rewrite E in H1. inversion H1; subst r0'.
          exists rs'. split; [exact H2 | reflexivity].
      + split.
        * intros H. rewrite fold_err in H; [discriminate | reflexivity].
        * intros [rs [H _]]. inversion H as [|? r0' ? rs' H1 H2]; subst. rewrite E in H1. discriminate.
  Qed.
End FoldA.

Lemma Forall2_impl {A B} (P Q : A -> B -> Prop) l1 l2 : (forall a b, P a b -> Q a b) -> Forall2 P l1 l2 -> Forall2 Q l1 l2.
Proof. intros H F. induction F; constructor; auto. Qed.

Lemma nodes_value_unique P v1 v2 : nodes_value P v1 -> nodes_value P v2 -> v1 = v2.
Proof.
  intros [r1 [-> [O1 M1]]] [r2 [-> [O2 M2]]]. f_equal. apply ordered_ext; try assumption.
  intros x. rewrite (M1 x), (M2 x). reflexivity.
Qed.

Lemma union_case f c l v :
  ((do r <- fold_left (fun acc x => do q <- acc; do v0 <- eval f c x; do ns <- as_nodes v0; Ok (merge_doc_order q ns)) l (Ok []);
    Ok (VNodes r)) = Ok v <->
   exists sets, Forall2 (fun x s => Rf f c x (VNodes s)) l sets /\
                nodes_value (fun x => exists s, In s sets /\ In x s) v).
Proof.
  set (G := fun x : expr => do v0 <- eval f c x; as_nodes v0).
  assert (HF : fold_left (fun acc x => do q <- acc; do v0 <- eval f c x; do ns <- as_nodes v0; Ok (merge_doc_order q ns)) l (Ok [])
             = fold_left (fun acc x => do q <- acc; do r0 <- G x; Ok (merge_doc_order q r0)) l (Ok [])).
  { f_equal. apply FunctionalExtensionality.functional_extensionality. intros acc.
    apply FunctionalExtensionality.functional_extensionality. intros x. destruct acc as [q|]; [|reflexivity]. cbn [bind]. unfold G.
    destruct (eval f c x); reflexivity. }
  rewrite HF. clear HF.
  assert (HG : forall x s, G x = Ok s <-> Rf f c x (VNodes s)).
  { intros x s. unfold G, Rf. destruct (eval f c x) as [v0|]; cbn [bind]; [|split; discriminate].
    destruct v0; cbn [as_nodes]; split; intros H; inversion H; reflexivity. }
  assert (HV : forall sets, nodes_value (fun x => exists s, In s sets /\ In x s) (VNodes (fold_left merge_doc_order sets []))).
  { intros sets. exists (fold_left merge_doc_order sets []). split; [reflexivity|].
    split; [apply fold_merge_ordered, ordered_nil|]. intros x. rewrite fold_merge_In. split; [intros [[]|H]; exact H | intros H; right; exact H]. }
  split.
  - intros H. destruct (fold_left _ l (Ok [])) as [r|] eqn:E; cbn [bind] in H; [|discriminate]. inversion H; subst v.
    apply (foldA_G G) in E. destruct E as [sets [H2 ->]]. exists sets. split; [|apply HV].
    eapply Forall2_impl; [|exact H2]. intros x s Hx. apply HG. exact Hx.
  - intros [sets [H2 Hv]].
    assert (E : fold_left (fun acc x => do q <- acc; do r0 <- G x; Ok (merge_doc_order q r0)) l (Ok []) = Ok (fold_left merge_doc_order sets [])).
    { apply (foldA_G G). exists sets. split; [|reflexivity]. eapply Forall2_impl; [|exact H2]. intros x s Hx. apply HG. exact Hx. }
    rewrite E. cbn [bind]. f_equal. eapply nodes_value_unique; [apply HV | exact Hv].
Qed.

Lemma neg_case (x : dbl) : (if d_is_nan x then d_nan else d_neg x) = SFopp x.
Proof. destruct x; reflexivity. Qed.

(* the instantiation of the path theorems for the interpreter *)
Section EvalPaths.
  Variable f : nat.
  Variable c : ctx.
  Hypothesis Hc : ctx_ok c.
  Let d := cx_doc c.
  Let tstP := node_test_denotes d (cx_strip c).
  Let pvR := fun pe x k m w => Rf (S f) (with_node c x (canon x k m)) pe w.

  Lemma eval_steps : forall steps sfuel sub rv, steps <> [] -> steps_wf steps ->
    (forall n, In n sub -> n < length d) -> length steps < sfuel ->
    ((exists r, steps_from (eval (S f)) c sfuel sub rv steps = Ok r) <->
     forall n, In n sub -> path_definedR d tstP pvR steps n) /\
    (forall r, steps_from (eval (S f)) c sfuel sub rv steps = Ok r ->
       ordered r /\ forall x, In x r <-> exists n, In n sub /\ path_denR d tstP pvR steps n x).
  Proof.
    destruct Hc as [Hw [Hn [Hsmall Hv]]].
    apply (steps_from_R (eval (S f)) c (pv_eval (S f) c) (pv_eval_ok (S f) c) (pv_eval_num f c) Hsmall Hw tstP).
    intros ax t n Hn0 Hns Hna. apply (test_node_correct c ax t n Hw Hn0 Hns Hna).
  Qed.

  Lemma eval_preds ax : forall ps (S0 : nat -> Prop) l,
    axis_ordered ax l -> (forall y, In y l <-> S0 y) -> (forall y, S0 y -> y < length d) ->
    ((exists r, apply_preds (eval (S f)) c l ps = Ok r) <-> preds_definedR pvR ax S0 ps) /\
    (forall r, apply_preds (eval (S f)) c l ps = Ok r ->
       axis_ordered ax r /\ forall x, In x r <-> preds_setR pvR ax S0 ps x).
  Proof.
    destruct Hc as [Hw [Hn [Hsmall Hv]]].
    apply (apply_preds_R (eval (S f)) c (pv_eval (S f) c) (pv_eval_ok (S f) c) (pv_eval_num f c) Hsmall).
  Qed.

  Lemma steps_wf_ok steps : steps_wf steps -> steps_ok steps.
  Proof.
    intros H. induction H as [|[[ax t] ps] r [A [B _]] _ IH]; constructor; [split; assumption | exact IH].
  Qed.

  (* the whole list of steps from a set of context nodes, including the empty list of steps *)
  Lemma eval_path_nodes steps (P : nat -> Prop) sub v : steps_wf steps -> ordered sub ->
    (forall n, In n sub <-> P n) -> (forall n, P n -> n < length d) ->
    ((do r <- steps_from (eval (S f)) c (S (length steps)) sub false steps; Ok (VNodes r)) = Ok v <->
     (forall n, P n -> path_definedR d tstP pvR steps n) /\
     nodes_value (fun x => exists n, P n /\ path_denR d tstP pvR steps n x) v).
  Proof.
    intros Hwf Hos HP Hr.
    assert (Hsub : forall n, In n sub -> n < length d) by (intros n Hn; apply Hr, HP, Hn).
    destruct steps as [|st rest].
    - cbn [steps_from bind path_definedR path_denR]. split.
      + intros H. inversion H; subst v. split; [intros; exact I|]. exists sub. split; [reflexivity|]. split; [exact Hos|].
        intros x. rewrite (HP x). split; [intros Hx; exists x; auto | intros [n [Hn ->]]; exact Hn].
      + intros [_ Hv]. f_equal. eapply nodes_value_unique; [|exact Hv]. exists sub. split; [reflexivity|]. split; [exact Hos|].
        intros x. rewrite (HP x). split; [intros Hx; exists x; auto | intros [n [Hn ->]]; exact Hn].
    - destruct (eval_steps (st :: rest) (S (length (st :: rest))) sub false) as [T1 T2]; [discriminate | exact Hwf | exact Hsub | lia|].
      split.
      + intros H. destruct (steps_from (eval (S f)) c (S (length (st :: rest))) sub false (st :: rest)) as [r|] eqn:E; cbn [bind] in H; [|discriminate].
        inversion H; subst v. split.
        * intros n Hn. apply (proj1 T1 (ex_intro _ r eq_refl)). apply HP. exact Hn.
        * destruct (T2 r eq_refl) as [Ho Hm]. exists r. split; [reflexivity|]. split; [exact Ho|].
          intros x. rewrite (Hm x). split; intros [n [Hn Hp]]; exists n; (split; [apply HP; exact Hn | exact Hp]).
      + intros [Hd Hv]. destruct (proj2 T1) as [r E]; [intros n Hn; apply Hd, HP, Hn|].
        rewrite E. cbn [bind]. f_equal. eapply nodes_value_unique; [|exact Hv].
        destruct (T2 r E) as [Ho Hm]. exists r. split; [reflexivity|]. split; [exact Ho|].
        intros x. rewrite (Hm x). split; intros [n [Hn Hp]]; exists n; (split; [apply HP; exact Hn | exact Hp]).
  Qed.
End EvalPaths.

(** * node-set results are nodes of the table *)
Lemma step_wf_of_local h hp st : local_wf (EPath h hp st) -> steps_wf st.
Proof. intros H. exact H. Qed.

Theorem eval_in_range : forall f c e r, expr_size e < f -> ctx_ok c -> expr_wf e ->
  eval f c e = Ok (VNodes r) -> forall x, In x r -> x < length (cx_doc c).
Proof.
  induction f as [|f IH]; intros c e r Hsz Hc Hwf H; [lia|].
  assert (Hf : 1 <= f) by (pose proof (expr_size_pos e); lia).
  destruct f as [|f0]; [lia|]. remember (S f0) as g eqn:Eg.
  assert (IHs : forall c' x r', ctx_ok c' -> In x (subexprs e) -> eval g c' x = Ok (VNodes r') -> forall y, In y r' -> y < length (cx_doc c')).
  { intros c' x r' Hc' Hx. apply IH; [pose proof (subexpr_size e x Hx); lia | exact Hc' | eapply expr_wf_sub; eauto]. }
  cbn [eval] in H. destruct e.
  1-14: scalar_result H.
  - (* union *)
    apply union_case in H. destruct H as [sets [H2 [r0 [E [_ Hm]]]]]. inversion E; subst r0.
    intros x Hx. apply Hm in Hx. destruct Hx as [s [Hs Hx]].
    destruct (Forall2_In_r _ _ _ s H2 Hs) as [a [Ha Hr]]. apply (IHs c a s Hc Ha Hr x Hx).
  - discriminate.
  - destruct Hc as [_ [_ [_ Hv]]]. destruct (lookup_var (cx_vars c) ns local) as [v|] eqn:E; [|discriminate].
    inversion H; subst v. apply (Hv _ _ _ E).
  - apply (IHs c e r Hc (or_introl eq_refl) H).
  - discriminate.
  - apply call_function_scalar in H. discriminate.
  - discriminate.
  - (* location paths *)
    pose proof (step_wf_of_local _ _ _ (expr_wf_local _ Hwf)) as Hst. subst g. rename f0 into f.
    destruct head as [h|].
    + destruct (eval (S f) c h) as [v0|] eqn:Eh; [|destruct h; discriminate].
      assert (H' : (do ns <- as_nodes v0; do l1 <- apply_preds (eval (S f)) c (merge_doc_order [] ns) hpreds;
                    do r0 <- steps_from (eval (S f)) c (S (length steps)) l1 false steps; Ok (VNodes r0)) = Ok (VNodes r))
        by (destruct h; try discriminate; exact H).
      destruct v0 as [| | |ns]; cbn [as_nodes bind] in H'; try discriminate.
      assert (Hns : forall y, In y ns -> y < length (cx_doc c)) by (apply (IHs c h ns Hc); [cbn [subexprs]; left; reflexivity | exact Eh]).
      destruct (apply_preds (eval (S f)) c (merge_doc_order [] ns) hpreds) as [l1|] eqn:Ep; cbn [bind] in H'; [|discriminate].
      assert (Hl1 : forall y, In y l1 -> y < length (cx_doc c)).
      { intros y Hy. apply Hns. apply (sublist_In _ _ _ (apply_preds_sublist _ _ _ _ _ Ep)) in Hy.
        apply merge_In in Hy. destruct Hy as [[]|Hy]. exact Hy. }
      assert (Ho1 : ordered l1).
      { eapply sublist_ordered; [eapply apply_preds_sublist; exact Ep | apply merge_ordered, ordered_nil]. }
      apply (eval_path_nodes f c Hc steps (fun n => In n l1) l1 (VNodes r) Hst Ho1 (fun n => iff_refl _) Hl1) in H'.
      destruct H' as [_ [r0 [E [_ Hm]]]]. inversion E; subst r0. intros x Hx. apply Hm in Hx. destruct Hx as [n [Hn Hp]].
      destruct Hc as [Hw Hrest]. eapply (path_denR_in_range (cx_doc c)); [exact Hw | apply Hl1; exact Hn | exact Hp].
    + assert (Hcn : cx_node c < length (cx_doc c)) by apply Hc.
      apply (eval_path_nodes f c Hc steps (fun n => n = cx_node c) [cx_node c] (VNodes r) Hst (ordered_one _)) in H.
      * destruct H as [_ [r0 [E [_ Hm]]]]. inversion E; subst r0. intros x Hx. apply Hm in Hx. destruct Hx as [n [-> Hp]].
        destruct Hc as [Hw Hrest]. eapply (path_denR_in_range (cx_doc c)); [exact Hw | exact Hcn | exact Hp].
      * intros n. cbn [In]. split; [intros [<-|[]]; reflexivity | intros ->; left; reflexivity].
      * intros n ->. exact Hcn.
Qed.

(** * one level of the interpreter = one level of the semantics *)
Theorem eval_level f c e v : 1 <= f -> expr_size e < S f -> ctx_ok c -> expr_wf e ->
  (eval (S f) c e = Ok v <-> expr_den (Rf f) c e v).
Proof.
  intros Hf Hsz Hc Hwf. destruct f as [|f0]; [lia|]. remember (S f0) as g eqn:Eg. cbn [eval]. destruct e; cbv beta iota zeta delta [expr_den].
  - (* or *)
    split.
    + intros H. destruct (ev_bool (eval g) c e1) as [x|] eqn:Ea; cbn [bind] in H; [|discriminate].
      apply ev_bool_iff in Ea. destruct Ea as [va [Ha ->]]. exists va. split; [exact Ha|].
      destruct (to_boolean va) eqn:Eb.
      * left. inversion H. auto.
      * right. split; [reflexivity|]. destruct (ev_bool (eval g) c e2) as [y|] eqn:Eb2; cbn [bind] in H; [|discriminate].
        apply ev_bool_iff in Eb2. destruct Eb2 as [vb [Hb ->]]. inversion H. exists vb. auto.
    + intros [va [Ha Hr]]. assert (Ea : ev_bool (eval g) c e1 = Ok (to_boolean va)) by (apply ev_bool_iff; eauto).
      rewrite Ea. cbn [bind]. destruct Hr as [[Eb ->]|[Eb [vb [Hb ->]]]]; rewrite Eb; [reflexivity|].
      assert (Eb2 : ev_bool (eval g) c e2 = Ok (to_boolean vb)) by (apply ev_bool_iff; eauto). rewrite Eb2. reflexivity.
  - (* and *)
    split.
    + intros H. destruct (ev_bool (eval g) c e1) as [x|] eqn:Ea; cbn [bind] in H; [|discriminate].
      apply ev_bool_iff in Ea. destruct Ea as [va [Ha ->]]. exists va. split; [exact Ha|].
      destruct (to_boolean va) eqn:Eb.
      * right. split; [reflexivity|]. destruct (ev_bool (eval g) c e2) as [y|] eqn:Eb2; cbn [bind] in H; [|discriminate].
        apply ev_bool_iff in Eb2. destruct Eb2 as [vb [Hb ->]]. inversion H. exists vb. auto.
      * left. inversion H. auto.
    + intros [va [Ha Hr]]. assert (Ea : ev_bool (eval g) c e1 = Ok (to_boolean va)) by (apply ev_bool_iff; eauto).
      rewrite Ea. cbn [bind]. destruct Hr as [[Eb ->]|[Eb [vb [Hb ->]]]]; rewrite Eb; [reflexivity|].
      assert (Eb2 : ev_bool (eval g) c e2 = Ok (to_boolean vb)) by (apply ev_bool_iff; eauto). rewrite Eb2. reflexivity.
  - apply cmp_case. - apply cmp_case. - apply cmp_case. - apply cmp_case. - apply cmp_case. - apply cmp_case.
  - apply arith_case; lia. - apply arith_case; lia. - apply arith_case; lia.
  - (* div *)
    replace d_div with (SFdiv prec emax) by (apply FunctionalExtensionality.functional_extensionality; intros x;
      apply FunctionalExtensionality.functional_extensionality; intros y; symmetry; apply d_div_is_ieee).
    apply arith_case; lia.
  - apply arith_case; lia.
  - (* neg *)
    split.
    + intros H. destruct (ev_num (eval g) c e) as [x|] eqn:Ea; cbn [bind] in H; [|discriminate].
      apply ev_num_iff in Ea; [|lia]. destruct Ea as [va [Ha ->]]. exists va. split; [exact Ha|].
      inversion H. rewrite neg_case. reflexivity.
    + intros [va [Ha ->]]. assert (Ea : ev_num (eval g) c e = Ok (to_number c va)) by (apply ev_num_iff; [lia | eauto]).
      rewrite Ea. cbn [bind]. rewrite neg_case. reflexivity.
  - apply union_case.
  - split; intros H; [inversion H; reflexivity | subst; reflexivity].
  - destruct (lookup_var (cx_vars c) ns local) as [v0|]; split; intros H; inversion H; reflexivity.
  - reflexivity.
  - split; intros H; [inversion H; reflexivity | subst; reflexivity].
  - (* function call *)
    subst g. apply (call_function_den (eval (S f0)) c (fun t => eval_numlit f0 c t)).
  - split; [discriminate | intros []].
  - (* location paths *)
    pose proof (step_wf_of_local _ _ _ (expr_wf_local _ Hwf)) as Hst. subst g. rename f0 into f.
    destruct head as [h|].
    + split.
      * intros H.
        destruct (eval (S f) c h) as [v0|] eqn:Eh; [|destruct h; discriminate].
        assert (Hfh : filter_head h) by (destruct h; try discriminate; exact I).
        assert (H' : (do ns <- as_nodes v0; do l1 <- apply_preds (eval (S f)) c (merge_doc_order [] ns) hpreds;
                      do r0 <- steps_from (eval (S f)) c (S (length steps)) l1 false steps; Ok (VNodes r0)) = Ok v)
          by (destruct h; try discriminate; exact H).
        split; [exact Hfh|].
        destruct v0 as [| | |ns]; cbn [as_nodes bind] in H'; try discriminate. exists ns. split; [exact Eh|].
        assert (Hns : forall y, In y ns -> y < length (cx_doc c)).
        { apply (eval_in_range (S f) c h ns); [pose proof (subexpr_size (EPath (Some h) hpreds steps) h (or_introl eq_refl)); lia | exact Hc |
            eapply expr_wf_sub; [exact Hwf | left; reflexivity] | exact Eh]. }
        split; [exact Hns|].
        assert (Hm0 : forall y, In y (merge_doc_order [] ns) <-> In y ns).
        { intros y. rewrite merge_In. split; [intros [[]|Hy]; exact Hy | intros Hy; right; exact Hy]. }
        assert (Ho0 : axis_ordered AxChild (merge_doc_order [] ns)) by (apply axis_ordered_fwd; [reflexivity | apply merge_ordered, ordered_nil]).
        destruct (eval_preds f c Hc AxChild hpreds (fun y => In y ns) _ Ho0 Hm0 Hns) as [P1 P2].
        destruct (apply_preds (eval (S f)) c (merge_doc_order [] ns) hpreds) as [l1|] eqn:Ep; cbn [bind] in H'; [|discriminate].
        destruct (P2 l1 eq_refl) as [Ho1 Hm1].
        split; [apply P1; eexists; reflexivity|].
        assert (Ho1' : ordered l1) by (apply (doc_order_of_axis_order AxChild l1 Ho1)).
        apply (eval_path_nodes f c Hc steps _ l1 v Hst Ho1' Hm1) in H'; [exact H'|].
        intros n Hn. apply Hns. apply (preds_setR_sub' _ _ _ _ _ Hn).
      * intros [Hfh [ns [Eh [Hns [Hd [Hpd Hv]]]]]]. unfold Rf in Eh.
        assert (Hm0 : forall y, In y (merge_doc_order [] ns) <-> In y ns).
        { intros y. rewrite merge_In. split; [intros [[]|Hy]; exact Hy | intros Hy; right; exact Hy]. }
        assert (Ho0 : axis_ordered AxChild (merge_doc_order [] ns)) by (apply axis_ordered_fwd; [reflexivity | apply merge_ordered, ordered_nil]).
        destruct (eval_preds f c Hc AxChild hpreds (fun y => In y ns) _ Ho0 Hm0 Hns) as [P1 P2].
        destruct (proj2 P1 Hd) as [l1 Ep]. destruct (P2 l1 Ep) as [Ho1 Hm1].
        assert (Ho1' : ordered l1) by (apply (doc_order_of_axis_order AxChild l1 Ho1)).
        assert (Hgoal : (do ns0 <- as_nodes (VNodes ns); do l2 <- apply_preds (eval (S f)) c (merge_doc_order [] ns0) hpreds;
                         do r0 <- steps_from (eval (S f)) c (S (length steps)) l2 false steps; Ok (VNodes r0)) = Ok v).
        { cbn [as_nodes bind]. rewrite Ep. cbn [bind].
          apply (eval_path_nodes f c Hc steps _ l1 v Hst Ho1' Hm1); [|split; assumption].
          intros n Hn. apply Hns. apply (preds_setR_sub' _ _ _ _ _ Hn). }
        destruct h; try contradiction; rewrite Eh; exact Hgoal.
    + assert (Hcn : cx_node c < length (cx_doc c)) by apply Hc.
      rewrite (eval_path_nodes f c Hc steps (fun n => n = cx_node c) [cx_node c] v Hst (ordered_one _)).
      * split; intros [A B]; split.
        -- apply A. reflexivity.
        -- eapply nodes_value_ext; [|exact B]. intros x. split; [intros Hp; exists (cx_node c); auto | intros [n [-> Hp]]; exact Hp].
        -- intros n ->. exact A.
        -- eapply nodes_value_ext; [|exact B]. intros x. split; [intros [n [-> Hp]]; exact Hp | intros Hp; exists (cx_node c); auto].
      * intros n. cbn [In]. split; [intros [<-|[]]; reflexivity | intros ->; left; reflexivity].
      * intros n ->. exact Hcn.
Qed.

(** * the main theorems *)
Theorem eval_is_denF : forall f c e v, expr_size e < f -> ctx_ok c -> expr_wf e ->
  (eval f c e = Ok v <-> denF f c e v).
Proof.
  induction f as [|f IH]; intros c e v Hsz Hc Hwf; [lia|].
  assert (Hf : 1 <= f) by (pose proof (expr_size_pos e); lia).
  rewrite (eval_level f c e v Hf Hsz Hc Hwf). cbn [denF].
  apply expr_den_ext; [exact Hc|]. intros c' x w Hc' Hx. unfold Rf.
  apply IH; [pose proof (subexpr_size e x Hx); lia | exact Hc' | eapply expr_wf_sub; eauto].
Qed.

(* any bound above the size of the expression gives the same relation *)
Theorem den_stable : forall k1 k2 c e v, expr_size e < k1 -> expr_size e < k2 -> ctx_ok c ->
  (denF k1 c e v <-> denF k2 c e v).
Proof.
  induction k1 as [|k1 IH]; intros k2 c e v H1 H2 Hc; [lia|]. destruct k2 as [|k2]; [lia|]. cbn [denF].
  apply expr_den_ext; [exact Hc|]. intros c' x w Hc' Hx.
  pose proof (subexpr_size e x Hx). apply IH; [lia | lia | exact Hc'].
Qed.

Theorem eval_sound f c e v : ctx_ok c -> expr_wf e -> expr_size e < f -> eval f c e = Ok v -> den c e v.
Proof.
  intros Hc Hwf Hsz H. unfold den. apply (den_stable f (S (expr_size e)) c e v Hsz (Nat.lt_succ_diag_r _) Hc).
  apply eval_is_denF; assumption.
Qed.

Theorem eval_complete c e v : ctx_ok c -> expr_wf e -> den c e v ->
  forall f, expr_size e < f -> eval f c e = Ok v.
Proof.
  intros Hc Hwf H f Hsz. apply eval_is_denF; try assumption.
  apply (den_stable (S (expr_size e)) f c e v (Nat.lt_succ_diag_r _) Hsz Hc). exact H.
Qed.

Corollary eval_top_is_den c e v : ctx_ok c -> expr_wf e -> (eval_top c e = Ok v <-> den c e v).
Proof.
  intros Hc Hwf. unfold eval_top. split.
  - apply eval_sound; [assumption | assumption | lia].
  - intros H. apply (eval_complete c e v Hc Hwf H). lia.
Qed.

Theorem den_deterministic c e v1 v2 : ctx_ok c -> expr_wf e -> den c e v1 -> den c e v2 -> v1 = v2.
Proof.
  intros Hc Hwf H1 H2.
  pose proof (eval_complete c e v1 Hc Hwf H1 (S (expr_size e)) (Nat.lt_succ_diag_r _)) as E1.
  pose proof (eval_complete c e v2 Hc Hwf H2 (S (expr_size e)) (Nat.lt_succ_diag_r _)) as E2. congruence.
Qed.

(* the semantics satisfies the compositional equation: the value of an expression in terms of the values
   of its direct sub-expressions *)
Theorem den_compositional c e v : ctx_ok c -> (den c e v <-> expr_den den c e v).
Proof.
  intros Hc. unfold den at 1. cbn [denF]. apply expr_den_ext; [exact Hc|].
  intros c' x w Hc' Hx. unfold den. pose proof (subexpr_size e x Hx).
  apply den_stable; [lia | lia | exact Hc'].
Qed.

(* node-set values are sorted lists of nodes of the table *)
Theorem den_value_ok c e v : ctx_ok c -> expr_wf e -> den c e v -> value_ok (cx_doc c) v.
Proof.
  intros Hc Hwf H. pose proof (eval_complete c e v Hc Hwf H (S (expr_size e)) (Nat.lt_succ_diag_r _)) as E.
  destruct v as [| | |r]; cbn [value_ok]; try exact I. split.
  - eapply eval_nodes_ordered; [|exact E]. intros ns l0 v0 Hl. destruct Hc as [_ [_ [_ Hv]]]. apply (Hv _ _ _ Hl).
  - eapply eval_in_range; [|exact Hc | exact Hwf | exact E]. lia.
Qed.
