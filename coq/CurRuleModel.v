(* C10, part "currule": proofs about coq/CurRuleDefs.v *)
From Coq Require Import List NArith ZArith Bool Lia.
Require Import XV.TmplDefs XV.CurRuleDefs.
Import ListNotations.

(* ------------------------------------------------------------------------------------------ *)
(* induction over execution trees *)

Section InstInd.
  Variable P : inst -> Prop.
  Hypothesis HText : forall k, P (IText k).
  Hypothesis HObs : forall site, P (IObs site).
  Hypothesis HBlock : forall d l, Forall P l -> P (IBlock d l).
  Hypothesis HForEach : forall sel iters, Forall P sel -> Forall P iters -> P (IForEach sel iters).
  Hypothesis HTemplate : forall t d l, Forall P l -> P (ITemplate t d l).
  Hypothesis HCall : forall ps c, Forall P ps -> Forall P c -> P (ICall ps c).
  Hypothesis HApply : forall ps c, Forall P ps -> Forall P c -> P (IApply ps c).
  Hypothesis HImports : forall site n m ch r, Forall P r -> P (IImports site n m ch r).
  Hypothesis HGlobal : forall d l, Forall P l -> P (IGlobal d l).

  Fixpoint inst_ind' (i : inst) : P i :=
    let all := fix go (l : list inst) : Forall P l :=
      match l with
      | [] => Forall_nil P
      | x :: r => Forall_cons x (inst_ind' x) (go r)
      end in
    match i with
    | IText k => HText k
    | IObs site => HObs site
    | IBlock d l => HBlock d l (all l)
    | IForEach sel iters => HForEach sel iters (all sel) (all iters)
    | ITemplate t d l => HTemplate t d l (all l)
    | ICall ps c => HCall ps c (all ps) (all c)
    | IApply ps c => HApply ps c (all ps) (all c)
    | IImports site n m ch r => HImports site n m ch r (all r)
    | IGlobal d l => HGlobal d l (all l)
    end.
End InstInd.

(* ------------------------------------------------------------------------------------------ *)
(* stack algebra *)

Lemma pop_push_t : forall c s, pop_t (push_t c s) = s.
Proof. intros c [a b]; reflexivity. Qed.
Lemma pop_push_i : forall k s, pop_i (push_i k s) = s.
Proof. intros k [a b]; reflexivity. Qed.
Lemma pop_i_pop_t_push : forall k c s, pop_i (pop_t (push_i k (push_t c s))) = s.
Proof. intros k c [a b]; reflexivity. Qed.
Lemma top_push_i : forall k s, top (push_i k s) = top s.
Proof. reflexivity. Qed.
Lemma top_push_t : forall c s, top (push_t c s) = c.
Proof. reflexivity. Qed.
Lemma itop_push_i : forall k s, itop (push_i k s) = k.
Proof. reflexivity. Qed.
Lemma itop_push_t : forall c s, itop (push_t c s) = itop s.
Proof. reflexivity. Qed.

(* ------------------------------------------------------------------------------------------ *)
(* every instance leaves both stacks as it found them (all variants, all trees) *)

Lemma bind_true : forall r f s' o,
  bind r f = (s', o, true) ->
  exists s1 o1 o2, r = (s1, o1, true) /\ f s1 = (s', o2, true) /\ o = o1 ++ o2.
Proof.
  intros [[s1 o1] [|]] f s' o H; cbn in H; [|discriminate].
  destruct (f s1) as [[s2 o2] ok] eqn:E. inversion H; subst. exists s1, o1, o2. auto.
Qed.

Definition balanced_at (f : inst -> st -> res) (i : inst) : Prop :=
  forall s s' o, f i s = (s', o, true) -> s' = s.

Lemma walk_list_balanced : forall f l, Forall (balanced_at f) l ->
  forall s s' o, walk_list f l s = (s', o, true) -> s' = s.
Proof.
  intros f l H. induction H as [|i r Hi Hr IH]; intros s s' o E; cbn in E.
  - inversion E; reflexivity.
  - apply bind_true in E. destruct E as (s1 & o1 & o2 & E1 & E2 & _).
    apply Hi in E1. subst s1. eapply IH; eassumption.
Qed.

Lemma ret_inv : forall s s' o, ret s = (s', o, true) -> s' = s.
Proof. intros s s' o H; inversion H; reflexivity. Qed.

Lemma balanced_lemma : forall v i, balanced_at (walk v) i.
Proof.
  intros v. induction i using inst_ind'; intros s s' o E; cbn [walk] in E.
  - inversion E; reflexivity.
  - inversion E; reflexivity.
  - destruct d.
    + apply bind_true in E. destruct E as (s1 & o1 & o2 & E1 & E2 & _).
      apply (walk_list_balanced _ _ H) in E1. apply ret_inv in E2. subst. apply pop_push_i.
    + eapply walk_list_balanced; eassumption.
  - apply bind_true in E. destruct E as (s1 & o1 & o2 & E1 & E2 & _).
    apply (walk_list_balanced _ _ H) in E1. subst s1.
    apply bind_true in E2. destruct E2 as (s2 & o3 & o4 & E2 & E3 & _).
    apply (walk_list_balanced _ _ H0) in E2. apply ret_inv in E3. subst. apply pop_push_t.
  - apply bind_true in E. destruct E as (s1 & o1 & o2 & E1 & E2 & _).
    apply (walk_list_balanced _ _ H) in E1. apply ret_inv in E2. subst.
    unfold tmpl_start. destruct d; [apply pop_i_pop_t_push | apply pop_push_t].
  - apply bind_true in E. destruct E as (s1 & o1 & o2 & E1 & E2 & _).
    apply (walk_list_balanced _ _ H) in E1. subst s1.
    apply bind_true in E2. destruct E2 as (s2 & o3 & o4 & E2 & E3 & _).
    apply (walk_list_balanced _ _ H0) in E2. apply ret_inv in E3. subst. apply pop_push_i.
  - apply bind_true in E. destruct E as (s1 & o1 & o2 & E1 & E2 & _).
    apply (walk_list_balanced _ _ H) in E1. subst s1.
    apply bind_true in E2. destruct E2 as (s2 & o3 & o4 & E2 & E3 & _).
    apply (walk_list_balanced _ _ H0) in E2. apply ret_inv in E3. subst. apply pop_push_i.
  - destruct (top s); [|discriminate].
    destruct (bind (walk_list (walk v) r (push_i InvOther s)) (fun s1 => ret (pop_i s1))) as [[s1 o1] ok] eqn:E1.
    inversion E; subst.
    apply bind_true in E1. destruct E1 as (s2 & o3 & o4 & E1 & E2 & _).
    apply (walk_list_balanced _ _ H) in E1. apply ret_inv in E2. subst. apply pop_push_i.
  - apply bind_true in E. destruct E as (s1 & o1 & o2 & E1 & E2 & _). apply ret_inv in E2.
    assert (s1 = (if v_global_null v then push_t None s else s)) as ->.
    { destruct d.
      - apply bind_true in E1. destruct E1 as (s2 & o3 & o4 & E1 & E3 & _).
        apply (walk_list_balanced _ _ H) in E1. apply ret_inv in E3. subst. rewrite !pop_push_i. reflexivity.
      - refine (walk_list_balanced _ _ _ _ _ _ E1).
        clear E1. induction H as [|c r Hc Hr IH]; constructor; [|exact IH].
        intros a b c' Ec. apply bind_true in Ec. destruct Ec as (s2 & o3 & o4 & Ec & E3 & _).
        apply Hc in Ec. apply ret_inv in E3. subst. apply pop_push_i. }
    subst. destruct (v_global_null v); [apply pop_push_t | reflexivity].
Qed.

(* ------------------------------------------------------------------------------------------ *)
(* simulation: what the walk sees is what the specification prescribes *)

Definition Sim (r : res) (sr : sres) (s : st) : Prop :=
  snd (fst r) = fst sr /\ snd r = snd sr /\ (snd r = true -> fst (fst r) = s).

Lemma sbind_nil_r : forall a, sbind a ([], true) = a.
Proof. intros [o [|]]; cbn; [rewrite app_nil_r|]; reflexivity. Qed.

Lemma sim_bind : forall r1 sr1 s1 f sr2 s,
  Sim r1 sr1 s1 -> Sim (f s1) sr2 s -> Sim (bind r1 f) (sbind sr1 sr2) s.
Proof.
  intros [[a o1] ok1] [o1' ok1'] s1 f sr2 s (H1 & H2 & H3) H. cbn in H1, H2, H3. subst o1' ok1'.
  destruct ok1; cbn.
  - rewrite (H3 eq_refl). destruct (f s1) as [[b o2] ok2]. destruct sr2 as [o2' ok2'].
    destruct H as (K1 & K2 & K3). cbn in *. subst. repeat split; auto.
  - repeat split; cbn; auto. discriminate.
Qed.

Lemma sim_ret : forall s, Sim (ret s) ([], true) s.
Proof. intros s; repeat split; auto. Qed.

Lemma sim_bind_ret : forall r sr s2 g,
  Sim r sr s2 -> Sim (bind r (fun s' => ret (g s'))) sr (g s2).
Proof.
  intros r sr s2 g H. rewrite <- (sbind_nil_r sr). eapply sim_bind; [exact H | apply sim_ret].
Qed.

Lemma sim_bind_ret' : forall r sr s2 (g : st -> st) s,
  Sim r sr s2 -> g s2 = s -> Sim (bind r (fun s' => ret (g s'))) sr s.
Proof. intros r sr s2 g s H <-. apply sim_bind_ret; exact H. Qed.

Lemma sim_list : forall f g l s,
  Forall (fun i => Sim (f i s) (g i) s) l -> Sim (walk_list f l s) (spec_list g l) s.
Proof.
  intros f g l s H. induction H as [|i r Hi Hr IH]; cbn.
  - apply sim_ret.
  - eapply sim_bind; [exact Hi | exact IH].
Qed.

(* the statement proved by induction over the tree *)
Definition agrees (v : variant) (i : inst) : Prop :=
  forall h s, wf h i = true -> compat h (itop s) = true -> glob_ok v h (top s) i = true ->
              Sim (walk v i s) (spec h (top s) i) s.

Lemma list_inner : forall v l, Forall (agrees v) l ->
  forall h s, forallb (wf h) l = true -> compat h (itop s) = true -> forallb (glob_ok v h (top s)) l = true ->
  Sim (walk_list (walk v) l s) (spec_list (spec h (top s)) l) s.
Proof.
  intros v l H h s Hw Hc Hg. apply sim_list.
  induction H as [|i r Hi Hr IH]; constructor.
  - cbn in Hw, Hg. apply andb_prop in Hw. apply andb_prop in Hg. apply Hi; tauto.
  - cbn in Hw, Hg. apply andb_prop in Hw. apply andb_prop in Hg. apply IH; tauto.
Qed.

Definition kids_wf (d : bool) (l : list inst) : bool :=
  if d then match l with [c] => is_template c && wf ByCall c | _ => false end
  else forallb (wf Ord) l.

Lemma kids_wf_forallb : forall d l, kids_wf d l = true -> forallb (wf (kid_how d)) l = true.
Proof.
  intros [|] l H; cbn in *; [|exact H].
  destruct l as [|c [|? ?]]; try discriminate. apply andb_prop in H. cbn. rewrite (proj2 H). reflexivity.
Qed.

Lemma kids_inner : forall v l, Forall (agrees v) l ->
  forall d s, kids_wf d l = true -> (d = true -> itop s = InvDirect) ->
  forallb (glob_ok v (kid_how d) (top s)) l = true ->
  Sim (walk_list (walk v) l s) (spec_list (spec (kid_how d) (top s)) l) s.
Proof.
  intros v l H d s Hw Hd Hg. apply list_inner; auto.
  - apply kids_wf_forallb; exact Hw.
  - destruct d; cbn; [rewrite (Hd eq_refl)|]; reflexivity.
Qed.

Lemma wf_block : forall h d l, wf h (IBlock d l) = how_eqb h Ord && kids_wf d l.
Proof. reflexivity. Qed.
Lemma wf_template : forall h t d l, wf h (ITemplate t d l) = negb (how_eqb h Ord) && kids_wf d l.
Proof. reflexivity. Qed.
Lemma wf_global : forall h d l, wf h (IGlobal d l) = how_eqb h Ord && kids_wf d l.
Proof. reflexivity. Qed.

Lemma how_eqb_eq : forall a b, how_eqb a b = true -> a = b.
Proof. intros [] []; cbn; congruence. Qed.

(* the select of a for-each: first uses of top-level variables only, and for those neither the
   specification nor the guard looks at the inherited rule once it is null *)
Lemma spec_global_any : forall c l, forallb is_global l = true ->
  spec_list (spec Ord c) l = spec_list (spec Ord None) l.
Proof.
  intros c l. induction l as [|i r IH]; cbn; [reflexivity|]. intros H. apply andb_prop in H.
  rewrite (IH (proj2 H)). destruct i; try discriminate (proj1 H). reflexivity.
Qed.

Lemma glob_global_none : forall v c l, forallb is_global l = true ->
  forallb (glob_ok v Ord c) l = true -> forallb (glob_ok v Ord None) l = true.
Proof.
  intros v c l. induction l as [|i r IH]; cbn; [reflexivity|]. intros H G.
  apply andb_prop in H. apply andb_prop in G. rewrite (IH (proj2 H) (proj2 G)), andb_true_r.
  destruct i; try discriminate (proj1 H). destruct G as [G _]. cbn in G |- *.
  apply andb_prop in G. destruct G as [G G3]. apply andb_prop in G. destruct G as [_ G2].
  rewrite G2, G3, orb_true_r. reflexivity.
Qed.

Lemma agrees_lemma : forall v, v_call_keeps v = true -> forall i, agrees v i.
Proof.
  intros v Hv. induction i using inst_ind'; intros h s Hw Hc Hg.
  - repeat split; auto.
  - repeat split; auto.
  - (* IBlock *)
    rewrite wf_block in Hw. apply andb_prop in Hw. destruct Hw as [_ Hk]. cbn [walk spec glob_ok] in *.
    destruct d.
    + apply (sim_bind_ret' _ _ (push_i InvDirect s) pop_i); [|apply pop_push_i].
      rewrite <- (top_push_i InvDirect s).
      apply (kids_inner v l H true (push_i InvDirect s)); auto.
    + apply (kids_inner v l H false s); auto. discriminate.
  - (* IForEach *)
    cbn [wf] in Hw. apply andb_prop in Hw. destruct Hw as [Hw W4]. apply andb_prop in Hw. destruct Hw as [Hw W3].
    apply andb_prop in Hw. destruct Hw as [Hw W2]. apply andb_prop in Hw. destruct Hw as [Hw W1].
    cbn [walk spec glob_ok] in *. apply andb_prop in Hg. destruct Hg as [Hg1 Hg2].
    eapply sim_bind.
    + rewrite (spec_global_any _ _ W1).
      apply (list_inner v sel H Ord (push_t None s)); auto.
    + apply (sim_bind_ret' _ _ (push_t None s) pop_t); [|apply pop_push_t].
      apply (list_inner v iters H0 Ord (push_t None s)); auto.
  - (* ITemplate *)
    rewrite wf_template in Hw. apply andb_prop in Hw. destruct Hw as [Hh Hk].
    cbn [walk spec glob_ok] in *.
    set (c' := match h with ByMatch => Some t | _ => top s end) in *.
    assert (Es : tmpl_start v t s = push_t c' s).
    { unfold tmpl_start. rewrite Hv. cbn. destruct h; cbn in Hh, Hc; try discriminate.
      - rewrite Hc. reflexivity.
      - apply negb_true_iff in Hc. rewrite Hc. reflexivity. }
    rewrite Es.
    destruct d.
    + apply (sim_bind_ret' _ _ (push_i InvDirect (push_t c' s)) (fun s3 => pop_i (pop_t s3))); [|apply pop_i_pop_t_push].
      apply (kids_inner v l H true (push_i InvDirect (push_t c' s))); auto.
    + apply (sim_bind_ret' _ _ (push_t c' s) pop_t); [|apply pop_push_t].
      apply (kids_inner v l H false (push_t c' s)); auto. discriminate.
  - (* ICall *)
    cbn [wf] in Hw. repeat (apply andb_prop in Hw; destruct Hw as [Hw ?]).
    cbn [walk spec glob_ok] in *. apply andb_prop in Hg. destruct Hg as [Hg1 Hg2].
    eapply sim_bind.
    + apply (list_inner v ps H Ord (push_i InvCall s)); auto.
    + apply (sim_bind_ret' _ _ (push_i InvCall s) pop_i); [|apply pop_push_i].
      apply (list_inner v c H0 ByCall (push_i InvCall s)); auto.
  - (* IApply *)
    cbn [wf] in Hw. repeat (apply andb_prop in Hw; destruct Hw as [Hw ?]).
    cbn [walk spec glob_ok] in *. apply andb_prop in Hg. destruct Hg as [Hg1 Hg2].
    eapply sim_bind.
    + apply (list_inner v ps H Ord (push_i InvOther s)); auto.
    + apply (sim_bind_ret' _ _ (push_i InvOther s) pop_i); [|apply pop_push_i].
      apply (list_inner v c H0 ByMatch (push_i InvOther s)); auto.
  - (* IImports *)
    cbn [wf] in Hw. repeat (apply andb_prop in Hw; destruct Hw as [Hw ?]).
    cbn [walk spec glob_ok] in *. unfold mk_obs.
    destruct (top s) as [t|] eqn:Et.
    + assert (K : Sim (bind (walk_list (walk v) r (push_i InvOther s)) (fun s1 => ret (pop_i s1)))
                      (spec_list (spec ByMatch (Some t)) r) s).
      { apply (sim_bind_ret' _ _ (push_i InvOther s) pop_i); [|apply pop_push_i].
        rewrite <- Et. apply (list_inner v r H ByMatch (push_i InvOther s)); auto.
        rewrite top_push_i, Et. exact Hg. }
      destruct (bind (walk_list (walk v) r (push_i InvOther s)) (fun s1 => ret (pop_i s1))) as [[a b] c].
      destruct (spec_list (spec ByMatch (Some t)) r) as [b' c'].
      destruct K as (K1 & K2 & K3). cbn in *. subst. repeat split; auto.
    + repeat split; cbn; auto; discriminate.
  - (* IGlobal *)
    rewrite wf_global in Hw. apply andb_prop in Hw. destruct Hw as [_ Hk].
    cbn [walk spec glob_ok] in *.
    apply andb_prop in Hg. destruct Hg as [Hg Hg3]. apply andb_prop in Hg. destruct Hg as [Hg1 Hg2].
    set (s0 := if v_global_null v then push_t None s else s).
    assert (T0 : top s0 = None).
    { unfold s0. destruct (v_global_null v); [reflexivity|]. cbn in Hg1. destruct (top s); [discriminate|reflexivity]. }
    assert (B : (if v_global_null v then pop_t s0 else s0) = s).
    { unfold s0. destruct (v_global_null v); [apply pop_push_t | reflexivity]. }
    apply (sim_bind_ret' _ _ s0 (fun s1 => if v_global_null v then pop_t s1 else s1)); [|exact B].
    destruct d.
    + cbn in Hg2. rewrite Hg2.
      apply (sim_bind_ret' _ _ (push_i InvCall (push_i InvDirect s0)) (fun s' => pop_i (pop_i s')));
        [|rewrite !pop_push_i; reflexivity].
      rewrite <- T0. change (top s0) with (top (push_i InvCall (push_i InvDirect s0))).
      apply (list_inner v l H ByCall); auto.
      * apply (kids_wf_forallb true); exact Hk.
      * rewrite !top_push_i, T0. exact Hg3.
    + apply sim_list. cbn in Hk.
      clear Hg2. induction H as [|c0 r0 Hc0 Hr0 IH]; constructor.
      * cbn in Hk, Hg3. apply andb_prop in Hk. apply andb_prop in Hg3.
        apply (sim_bind_ret' _ _ (push_i InvOther s0) pop_i); [|apply pop_push_i].
        rewrite <- T0. rewrite <- (top_push_i InvOther s0). apply Hc0; try tauto.
        rewrite top_push_i, T0. tauto.
      * cbn in Hk, Hg3. apply andb_prop in Hk. apply andb_prop in Hg3. apply IH; tauto.
Qed.

(* with both repairs of the evaluation of top-level variables the guard holds for every tree *)
Lemma glob_ok_repaired : forall v, v_global_null v = true -> v_global_direct v = true ->
  forall i h cr, glob_ok v h cr i = true.
Proof.
  intros v Hn Hd.
  induction i using inst_ind'; intros h cr; cbn [glob_ok]; auto.
  - apply forallb_forall. intros x Hx. rewrite Forall_forall in H. apply H; exact Hx.
  - rewrite Forall_forall in H, H0. apply andb_true_intro; split; apply forallb_forall; intros x Hx; auto.
  - apply forallb_forall. intros x Hx. rewrite Forall_forall in H. apply H; exact Hx.
  - rewrite Forall_forall in H, H0. apply andb_true_intro; split; apply forallb_forall; intros x Hx; auto.
  - rewrite Forall_forall in H, H0. apply andb_true_intro; split; apply forallb_forall; intros x Hx; auto.
  - apply forallb_forall. intros x Hx. rewrite Forall_forall in H. apply H; exact Hx.
  - rewrite Hn, Hd, orb_true_r. cbn. apply forallb_forall. intros x Hx. rewrite Forall_forall in H. apply H; exact Hx.
Qed.

Lemma glob_ok_fixed : forall i h cr, glob_ok fixed_variant h cr i = true.
Proof. exact (glob_ok_repaired fixed_variant eq_refl eq_refl). Qed.

(* ------------------------------------------------------------------------------------------ *)
(* statements used by Properties_C10r.v *)

Lemma sim_lemma : forall v, v_call_keeps v = true ->
  forall i h s, wf h i = true -> compat h (itop s) = true -> glob_ok v h (top s) i = true ->
  forall s' o ok, walk v i s = (s', o, ok) ->
  (o, ok) = spec h (top s) i /\ (ok = true -> s' = s).
Proof.
  intros v Hv i h s Hw Hc Hg s' o ok E.
  destruct (agrees_lemma v Hv i h s Hw Hc Hg) as (K1 & K2 & K3). rewrite E in *. cbn in *.
  destruct (spec h (top s) i) as [a b]. cbn in *. subst. auto.
Qed.

Lemma variant_lemma : forall v, v_call_keeps v = true ->
  forall i h s, wf h i = true -> compat h (itop s) = true ->
  v_global_null v && v_global_direct v = true \/ glob_ok v h (top s) i = true ->
  forall s' o ok, walk v i s = (s', o, ok) ->
  (o, ok) = spec h (top s) i /\ (ok = true -> s' = s).
Proof.
  intros v Hv i h s Hw Hc [Hr|Hg]; [|exact (sim_lemma v Hv i h s Hw Hc Hg)].
  apply andb_prop in Hr. apply (sim_lemma v Hv i h s Hw Hc). apply glob_ok_repaired; tauto.
Qed.

Lemma fixed_lemma :
  forall i h s, wf h i = true -> compat h (itop s) = true ->
  forall s' o ok, walk fixed_variant i s = (s', o, ok) ->
  (o, ok) = spec h (top s) i /\ (ok = true -> s' = s).
Proof.
  intros i h s Hw Hc. apply (sim_lemma fixed_variant eq_refl i h s Hw Hc). apply glob_ok_fixed.
Qed.

(* xsl:call-template is transparent: what is seen inside the called template is what would be seen
   if its content stood in the place of the call *)
Lemma call_lemma : forall v, v_call_keeps v = true ->
  forall t d l s, wf Ord (ICall [] [ITemplate t d l]) = true -> glob_ok v Ord (top s) (ICall [] [ITemplate t d l]) = true ->
  forall s1 o1 ok1 s2 o2 ok2,
  walk v (ICall [] [ITemplate t d l]) s = (s1, o1, ok1) ->
  walk v (IBlock d l) s = (s2, o2, ok2) ->
  o1 = o2 /\ ok1 = ok2.
Proof.
  intros v Hv t d l s Hw Hg s1 o1 ok1 s2 o2 ok2 E1 E2.
  destruct (sim_lemma v Hv _ Ord s Hw eq_refl Hg _ _ _ E1) as [A _].
  assert (Hw2 : wf Ord (IBlock d l) = true).
  { rewrite wf_block.
    change (how_eqb Ord Ord && forallb (wf Ord) [] && forallb is_template [ITemplate t d l] &&
            (wf ByCall (ITemplate t d l) && true) = true) in Hw.
    rewrite wf_template in Hw. cbn in Hw. rewrite andb_true_r in Hw. exact Hw. }
  assert (Hg2 : glob_ok v Ord (top s) (IBlock d l) = true).
  { cbn [glob_ok forallb] in Hg |- *. rewrite andb_true_r in Hg. exact Hg. }
  destruct (sim_lemma v Hv _ Ord s Hw2 eq_refl Hg2 _ _ _ E2) as [B _].
  assert (S : spec Ord (top s) (ICall [] [ITemplate t d l]) = spec Ord (top s) (IBlock d l)).
  { cbn [spec spec_list sbind fst snd app]. destruct (spec_list (spec (kid_how d) (top s)) l) as [a [|]]; cbn; rewrite ?app_nil_r; reflexivity. }
  rewrite S in A. rewrite <- B in A. inversion A; auto.
Qed.

(* the content of xsl:for-each sees a null rule, whatever rule surrounds it *)
Lemma for_each_lemma : forall v, v_call_keeps v = true ->
  forall sel site rest s s' o ok,
  wf Ord (IForEach sel [IBlock false (IObs site :: rest)]) = true ->
  glob_ok v Ord (top s) (IForEach sel [IBlock false (IObs site :: rest)]) = true ->
  walk v (IForEach sel [IBlock false (IObs site :: rest)]) s = (s', o, ok) ->
  snd (spec_list (spec Ord (top s)) sel) = true ->
  In {| o_site := site; o_cur := None; o_ai := None |} o.
Proof.
  intros v Hv sel site rest s s' o ok Hw Hg E Hsel.
  destruct (sim_lemma v Hv _ Ord s Hw eq_refl Hg _ _ _ E) as [A _].
  cbn [spec spec_list] in A. destruct (spec_list (spec Ord (top s)) sel) as [a b]. cbn in Hsel. subst b.
  destruct (spec_list (spec (kid_how false) None) rest) as [c d]. cbn in A. inversion A.
  apply in_or_app. right. destruct d; left; reflexivity.
Qed.

(* xsl:apply-imports where the current rule is null: the error, and nothing is instantiated *)
Lemma imports_null_lemma : forall v site n m ch r s,
  top s = None -> walk v (IImports site n m ch r) s = (s, [{| o_site := site; o_cur := None; o_ai := Some (n, m, ch) |}], false).
Proof. intros v site n m ch r s H. cbn [walk]. unfold mk_obs. rewrite H. reflexivity. Qed.

(* ------------------------------------------------------------------------------------------ *)
(* composition with the C10 model of findTemplate: the decision of xsl:apply-imports *)

Require Import XV.TmplTree XV.Properties_C10.

Lemma choice_lemma :
  forall (node : Type) (key_of : node -> nkey) (pmatch : N -> node -> bool) pa (node_of : N -> node) s shape_of,
  (forall p sub, subsheet s p = Some sub -> pa = true \/ uniform_union_priorities sub = true) ->
  (forall p sub n, subsheet s p = Some sub -> matcher_respects_shapes node key_of pmatch sub (node_of n) shape_of) ->
  forall o, coded_choice node key_of pmatch pa node_of s o -> specified_choice node pmatch node_of s o.
Proof.
  intros node key_of pmatch pa node_of s shape_of Hu Hm o.
  unfold coded_choice, specified_choice.
  destruct (o_ai o) as [[[n mode] ch]|]; [|trivial]. destruct (o_cur o) as [t|]; [|trivial].
  intros (cs & Hcs & Hch).
  rewrite csubsheet_compile in Hcs. destruct (subsheet s (tr_path t)) as [sub|] eqn:Es; [|discriminate].
  cbn in Hcs. inversion Hcs; subst cs.
  exists sub, (find_template node key_of pmatch pa true (compile sub) mode (node_of n) true).
  split; [reflexivity|]. split; [|exact Hch].
  exact (proj2 (apply_imports_scope node key_of pmatch pa s (tr_path t) sub mode (node_of n) shape_of Es
                  (Hu _ _ Es) (Hm _ _ n Es))).
Qed.

Lemma end_to_end_lemma :
  forall (node : Type) (key_of : node -> nkey) (pmatch : N -> node -> bool) pa (node_of : N -> node) s shape_of,
  (forall p sub, subsheet s p = Some sub -> pa = true \/ uniform_union_priorities sub = true) ->
  (forall p sub n, subsheet s p = Some sub -> matcher_respects_shapes node key_of pmatch sub (node_of n) shape_of) ->
  forall v, v_call_keeps v = true ->
  forall i h st, wf h i = true -> compat h (itop st) = true -> glob_ok v h (top st) i = true ->
  forall st' o ok, walk v i st = (st', o, ok) ->
  Forall (coded_choice node key_of pmatch pa node_of s) o ->
  o = fst (spec h (top st) i) /\
  Forall (specified_choice node pmatch node_of s) (fst (spec h (top st) i)).
Proof.
  intros node key_of pmatch pa node_of s shape_of Hu Hm v Hv i h st Hw Hc Hg st' o ok E Hcoded.
  destruct (sim_lemma v Hv i h st Hw Hc Hg _ _ _ E) as [A _].
  destruct (spec h (top st) i) as [a b]. inversion A; subst. cbn. split; [reflexivity|].
  eapply Forall_impl; [|exact Hcoded]. apply (choice_lemma node key_of pmatch pa node_of s shape_of Hu Hm).
Qed.
