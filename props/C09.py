"""C09 — a node matches a pattern exactly when the pattern, as an expression, selects it."""
import os
from vlib import core, patgen

LEVEL = "proof"
FAMILY = "pat"

# no known-finding class is left for C09: match_iff_select holds without a guard (K14 and K15 repaired),
# every disagreement between the matcher and the defining expression is a violation


def T(name):
    return ("n", name)


def S(sep, axis, test, preds=(), style=0):
    return (sep, axis, test, list(preds), style)


CORPUS = [
    # (label, document tuple, pattern)
    ("k14", [("e", "x", [], [("e", "a", [], [("e", "b", [], [])])])], [("abs", [S("c", "c", T("a")), S("d", "c", T("b"))])]),
    ("k15", [("e", "c", [], [("e", "a", [], [("e", "y", [], [("e", "a", [], [("e", "b", [], [])])])])])],
     [("rel", [S("c", "c", T("c")), S("c", "c", T("a")), S("d", "c", T("b"))])]),
    ("node-root", [("e", "a", [], [("e", "b", [], []), ("t", "t")])], [("rel", [S("c", "c", "N")])]),
    ("node-root2", [("e", "a", [], [("e", "b", [], []), ("t", "t")])], [("rel", [S("c", "c", T("foo")), S("c", "c", "N")])]),
    ("node-docelem", [("e", "a", [], [("e", "a", [], [])])], [("rel", [S("c", "c", "N"), S("c", "c", T("a"))])]),
    ("attr-text", [("e", "a", [("x", "1")], [("e", "b", [], []), ("t", "t"), ("c", "c"), ("p", "p", "d")])], [("rel", [S("c", "a", "T")])]),
    ("attr-comment", [("e", "a", [("x", "1")], [("t", "t"), ("c", "c")])], [("rel", [S("c", "c", T("a")), S("c", "a", "C")])]),
    ("attr-pos", [("e", "a", [("x", "1"), ("y", "2")], [("e", "b", [("x", "3")], [])])], [("rel", [S("c", "a", T("x"), [("num", 1)])])]),
    ("attr-last", [("e", "a", [("x", "1"), ("y", "2")], [("e", "b", [("x", "3")], [])])], [("rel", [S("c", "a", "w", [("poslast",)])])]),
    ("attr-node-pos", [("e", "a", [("x", "1"), ("y", "2")], [])], [("rel", [S("c", "a", "N", [("num", 1)])])]),
    # fixed 83d7faf: stale position() cache across the predicates of one step
    ("f-poscache", [("e", "a", [], [("e", "b", [], []), ("e", "b", [], []), ("e", "c", [], [])])],
     [("rel", [S("c", "c", "w", [("poslast",), ("pos", "eq", 1)])])]),
    ("pos-after-plain", [("e", "a", [], [("e", "b", [], []), ("e", "b", [("x", "1")], []), ("e", "b", [("x", "2")], [])])],
     [("rel", [S("c", "c", T("b"), [("hasattr", "x"), ("pos", "eq", 1)])])]),
    ("root-desc", [("e", "a", [], [("e", "b", [], [("e", "a", [], [])])])], [("abs", [S("d", "c", T("a"))])]),
    ("root-only", [("e", "a", [], [])], [("abs", [])]),
    ("any-any", [("e", "a", [], [("e", "a", [], [("e", "b", [], [("e", "b", [], [])])])])],
     [("rel", [S("c", "c", T("a"), [("num", 1)]), S("d", "c", T("b")), S("d", "c", T("b"))])]),
]


def make_cases(ctx, n_docs, per_doc, prefix=""):
    """returns list of dicts: id, doc (tuple), nodes (arena), pat, cls"""
    r = ctx.rng
    cases = []
    for di in range(n_docs):
        top = patgen.gen_doc(r, big=(ctx.thorough and di % 7 == 0))
        nodes = patgen.arena(top)
        enames = sorted({n for k, n, _ in nodes if k == "e"}) + ["a", "b"]
        for pi in range(per_doc):
            k = r.random()
            shape = ("guarded" if k < 0.55 else None if k < 0.7 else "k1415" if k < 0.82 else "node" if k < 0.9
                     else "attrpos" if k < 0.96 else "attrkind")
            pat = patgen.gen_pattern(r, enames, shape)
            cases.append({"id": "%sd%dp%d" % (prefix, di, pi), "top": top, "nodes": nodes, "pat": pat, "cls": shape or "any"})
    return cases


def corpus_cases():
    out = []
    for label, top, pat in CORPUS:
        out.append({"id": "corpus-" + label, "top": top, "nodes": patgen.arena(top), "pat": pat, "cls": "corpus"})
    return out


def impl_line(c):
    return "%s|D:%s|X:%s" % (c["id"], patgen.xml_of(c["top"]).encode().hex(), patgen.pattern_text(c["pat"]).encode().hex())


def model_line(c):
    return "%s %s %s" % (c["id"], patgen.arena_tokens(c["nodes"]), patgen.pattern_tok(c["pat"]))


def replay_text(c, n=None, extra=""):
    s = "# pattern: %s\n# document: %s\n" % (patgen.pattern_text(c["pat"]), patgen.xml_of(c["top"]))
    if n is not None:
        s += "# node %d (%s)\n" % (n, c["nodes"][n][0] + (":" + c["nodes"][n][1] if c["nodes"][n][1] else ""))
    if extra:
        s += "# " + extra + "\n"
    s += "# replay: .build/pat_plain < this file   (M: getMatchScore per node, S: defining expression per node)\n"
    return s + impl_line(c) + "\n"


def parse_impl(r):
    """'K:..|M:..|S:..' -> (kinds, M bools, S bools or None)"""
    f = dict(x.split(":", 1) for x in r.split("|") if ":" in x)
    if "M" not in f:
        return None
    m = [ch not in "-" for ch in f["M"]]
    s = None if f.get("S", "E") == "E" else [ch == "1" for ch in f["S"]]
    return f.get("K", ""), m, s, f["M"]


def parse_model(r):
    f = dict(x.split(":", 1) for x in r.split(" ") if ":" in x)
    if "M" not in f:
        return None
    return f["W"] == "1", f["G"], [ch == "1" for ch in f["M"]], [ch == "1" for ch in f["S"]]


def evaluate(ctx, cases, impl, model):
    """returns (corr, spec_corr, oracle_failures)"""
    ilines = [impl_line(c) for c in cases]
    rc_i, res_i, raw_i = core.run_lines_parallel(impl, ilines, sep="|")
    res_m = {}
    if model:
        rc_m, res_m, raw_m = core.run_lines_parallel(model, [model_line(c) for c in cases])
    corr, scorr, orc = [], [], []
    if rc_i != 0:
        orc.append({"case": None, "what": "implementation driver exited with status %d: %s" % (rc_i, raw_i[-300:]), "known": None})
    seen = set()
    for c in cases:
        ctx.count("shape:" + c["cls"])
        ri = res_i.get(c["id"])
        if ri is None:
            orc.append({"case": c, "node": None, "what": "no result from the implementation (crash?)", "known": None})
            continue
        pi = parse_impl(ri)
        if pi is None:
            # a generated pattern must compile
            orc.append({"case": c, "node": None, "what": "the library rejected the pattern or the document: " + ri, "known": None})
            continue
        kinds, M, Sx, Mraw = pi
        if kinds != patgen.kinds_string(c["nodes"]):
            ctx.broken.append("node numbering of the generator differs from the library's tree for %s: %s vs %s" % (
                patgen.xml_of(c["top"]), kinds, patgen.kinds_string(c["nodes"])))
            continue
        if "!" in Mraw:
            orc.append({"case": c, "node": Mraw.index("!"), "what": "getMatchScore threw an exception", "known": None})
        ctx.cov["evaluations"] += len(M)
        key = (patgen.pattern_text(c["pat"]), kinds)
        nontrivial = any(M) or (Sx is not None and any(Sx))
        if key not in seen and nontrivial:
            seen.add(key)
        pm = parse_model(res_m[c["id"]]) if model and c["id"] in res_m else None
        for p in c["pat"]:
            ctx.count("steps:%d" % len(p[1]))
            if any(s[0] == "d" for s in p[1]):
                ctx.count("with-//")
            if any(any(patgen.pred_positional(q) for q in s[3]) for s in p[1]):
                ctx.count("with-positional-predicate")
            if any(s[1] == "a" for s in p[1]):
                ctx.count("with-attribute-step")
        if len(c["pat"]) > 1:
            ctx.count("union")
        if model:
            if pm is None:
                corr.append({"case": impl_line(c), "pattern": patgen.pattern_text(c["pat"]), "impl": Mraw, "model": res_m.get(c["id"])})
            else:
                wf, G, Mm, Sm = pm
                ctx.cov["traces_validated_against_impl"] += len(M)
                if not wf:
                    ctx.broken.append("wf_doc is false for a generated document: " + patgen.xml_of(c["top"]))
                if Mm != M:
                    n = next(i for i in range(len(M)) if i >= len(Mm) or Mm[i] != M[i])
                    corr.append({"pattern": patgen.pattern_text(c["pat"]), "doc": patgen.xml_of(c["top"]), "node": n,
                                 "impl": "".join("1" if x else "0" for x in M), "model": "".join("1" if x else "0" for x in Mm), "c": c})
                if Sx is not None and Sm != Sx:
                    n = next(i for i in range(len(Sx)) if i >= len(Sm) or Sm[i] != Sx[i])
                    scorr.append({"pattern": patgen.pattern_text(c["pat"]), "doc": patgen.xml_of(c["top"]), "node": n,
                                  "impl": "".join("1" if x else "0" for x in Sx), "model": "".join("1" if x else "0" for x in Sm), "c": c})
                ctx.count("shape-ok" if G == "11" else "shape-rejected")
        # ---- the oracle: getMatchScore against the defining expression, both from the library
        if Sx is None:
            orc.append({"case": c, "node": None, "what": "the pattern does not evaluate as an expression", "known": None})
            continue
        for n in range(len(M)):
            if M[n] == Sx[n]:
                continue
            pos = M[n] and not Sx[n]
            what = ("matches, but no ancestor-or-self context selects it" if pos else
                    "does not match, but the expression selects it from an ancestor-or-self")
            known = None
            orc.append({"case": c, "node": n, "what": what, "known": known})
    ctx.cov["distinct_nontrivial"] = ctx.cov.get("distinct_nontrivial", 0) + len(seen)
    return corr, scorr, orc


# ---------------------------------------------------------------------------------------------
# in-stylesheet observation: the same matcher behind template match, xsl:key match and xsl:number count;
# id()/key() heads (they need a stylesheet); the defining expression evaluated inside the same run

XSL = "http://www.w3.org/1999/XSL/Transform"


def xesc(s):
    return s.replace("&", "&amp;").replace("<", "&lt;").replace('"', "&quot;")


def sheet_for(ptext, use_key):
    P = xesc(ptext)
    kind = ("concat(substring('r',1,number(not(parent::node()))),substring('e',1,number(boolean(self::*))),"
            "substring('t',1,number(boolean(self::text()))),substring('c',1,number(boolean(self::comment()))),"
            "substring('p',1,number(boolean(self::processing-instruction()))),"
            "substring('a',1,number(count(.|../@*)=count(../@*))))")
    body = ['<xsl:stylesheet version="1.0" xmlns:xsl="%s" xmlns:p="urn:p" xmlns:q="urn:q"><xsl:output method="text"/>' % XSL,
            '<xsl:key name="k" match="*" use="name()"/>']
    if use_key:
        body.append('<xsl:key name="m" match="%s" use="\'v\'"/>' % P)
    body.append('<xsl:template match="/"><xsl:for-each select="/ | //node() | //@*"><xsl:variable name="n" select="."/>')
    body.append('<xsl:value-of select="%s"/>' % kind)
    body.append('<xsl:apply-templates select="." mode="m"/>')
    body.append('<xsl:value-of select="number(boolean(ancestor-or-self::node()[count((%s)|$n) = count(%s)]))"/>' % (P, P))
    if use_key:
        body.append('<xsl:value-of select="number(count($n|key(\'m\',\'v\')) = count(key(\'m\',\'v\')))"/>')
    else:
        body.append('<xsl:text>-</xsl:text>')
    body.append('<xsl:variable name="c"><xsl:number count="%s" level="single"/></xsl:variable>' % P)
    body.append('<xsl:value-of select="number(string($c) != \'\')"/><xsl:text>;</xsl:text>')
    body.append('</xsl:for-each></xsl:template>')
    body.append('<xsl:template match="%s" mode="m" priority="9">1</xsl:template>' % P)
    body.append('<xsl:template match="node()|@*|/" mode="m" priority="-9">0</xsl:template>')
    body.append('</xsl:stylesheet>')
    return "".join(body)


def add_fn_head(r, path, nodes, enames):
    """an id()/key() headed path: mostly short, plain steps so that matches are frequent"""
    head, steps = path
    if r.random() < 0.12:
        text, ids = "id('zz')", []
    else:
        nm = r.choice(enames)
        text, ids = "key('k','%s')" % nm, [i for i, (k, n, _) in enumerate(nodes) if k == "e" and n == nm]
    if r.random() < 0.7:
        steps = []
        n = r.choice([0, 1, 1, 2, 2, 3])
        for i in range(n):
            axis = "a" if (i == n - 1 and r.random() < 0.25) else "c"
            test = r.choice([("n", "x"), "w", "N"]) if axis == "a" else r.choice([("n", r.choice(enames)), ("n", r.choice(enames)), "w", "N", "T"])
            preds = [patgen.gen_pred(r, enames)] if r.random() < 0.2 else []
            steps.append((r.choice(["c", "d", "d"]), axis, test, preds, 0))
    else:
        steps = [s for s in steps]
        if steps:
            s0 = steps[0]
            steps[0] = (r.choice(["c", "d"]) if head == "rel" else s0[0],) + tuple(s0[1:])
    return (("fn", text, ids), steps)


def sheet_cases(ctx, n_docs, per_doc):
    r = ctx.rng
    cases = []
    for di in range(n_docs):
        top = patgen.gen_doc(r)
        nodes = patgen.arena(top)
        enames = sorted({n for k, n, _ in nodes if k == "e"}) + ["a", "b"]
        for pi in range(per_doc):
            k = r.random()
            shape = "guarded" if k < 0.6 else None if k < 0.8 else "k1415"
            pat = patgen.gen_pattern(r, enames, shape)
            has_fn = False
            if r.random() < 0.4:
                j = r.randrange(len(pat))
                pat[j] = add_fn_head(r, pat[j], nodes, enames)
                has_fn = True
            cases.append({"id": "s%dp%d" % (di, pi), "top": top, "nodes": nodes, "pat": pat, "cls": "sheet-fn" if has_fn else "sheet",
                          "use_key": not has_fn})
    return cases


def evaluate_sheets(ctx, cases, model):
    from vlib import xsltrun
    corr, scorr, orc = [], [], []
    xs = [{"id": c["id"], "sheet": sheet_for(patgen.pattern_text(c["pat"]), c["use_key"]), "source": patgen.xml_of(c["top"])} for c in cases]
    res = xsltrun.run(xs)
    res_m = {}
    if model:
        rc_m, res_m, raw_m = core.run_lines_parallel(model, [model_line(c) for c in cases])
    for c in cases:
        ctx.count("shape:" + c["cls"])
        r = res[c["id"]]
        ptext = patgen.pattern_text(c["pat"])

        def rep(what, n=None):
            return ("# in-stylesheet observation (vlib/xsltrun.py): pattern %s\n# source: %s\n# stylesheet: %s\n# %s%s\n" % (
                ptext, patgen.xml_of(c["top"]), sheet_for(ptext, c["use_key"]), what, "" if n is None else " (node %d)" % n))
        if r[0] != "ok":
            orc.append({"sheet": rep("the transformation failed: %r" % (r,)), "known": None, "size": len(c["nodes"])})
            continue
        recs = [x for x in r[1].decode("utf-8", "replace").split(";") if x]
        vis = [i for i, (k, _, _) in enumerate(c["nodes"]) if k != "n"]
        if len(recs) != len(vis) or any(rec[0] != c["nodes"][i][0] for rec, i in zip(recs, vis)):
            ctx.broken.append("in-stylesheet walk does not visit the nodes in the generator's order: %s vs %s" % (
                "".join(x[0] for x in recs), patgen.kinds_string(c["nodes"])))
            continue
        N = len(c["nodes"])
        T, Sx, K, Nb = [False] * N, [False] * N, [None] * N, [False] * N
        for rec, i in zip(recs, vis):
            T[i], Sx[i], K[i], Nb[i] = rec[1] == "1", rec[2] == "1", (None if rec[3] == "-" else rec[3] == "1"), rec[4] == "1"
        ctx.cov["evaluations"] += len(vis)
        pm = parse_model(res_m[c["id"]]) if model and c["id"] in res_m else None
        if model:
            if pm is None:
                corr.append({"pattern": ptext, "doc": patgen.xml_of(c["top"]), "node": None, "impl": "".join("1" if x else "0" for x in T), "model": res_m.get(c["id"])})
            else:
                wf, G, Mm, Sm = pm
                ctx.cov["traces_validated_against_impl"] += len(vis)
                for i in vis:
                    if Mm[i] != T[i]:
                        corr.append({"pattern": ptext, "doc": patgen.xml_of(c["top"]), "node": i, "where": "template match",
                                     "impl": "".join("1" if x else "0" for x in T), "model": "".join("1" if x else "0" for x in Mm)})
                        break
                for i in vis:
                    if Sm[i] != Sx[i]:
                        scorr.append({"pattern": ptext, "doc": patgen.xml_of(c["top"]), "node": i, "where": "in-stylesheet expression",
                                      "impl": "".join("1" if x else "0" for x in Sx), "model": "".join("1" if x else "0" for x in Sm)})
                        break
        for i in vis:
            def known_for(actual):
                if pm is None:
                    return None
                wf, G, Mm, Sm = pm
                return None
            if T[i] != Sx[i]:
                orc.append({"sheet": rep("template match=P %s for the node but the defining expression says %s" % ("fires" if T[i] else "does not fire", Sx[i]), i),
                            "known": known_for(T[i]), "size": N})
            if K[i] is not None and K[i] != Sx[i]:
                orc.append({"sheet": rep("xsl:key match=P %s the node but the defining expression says %s" % ("indexes" if K[i] else "does not index", Sx[i]), i),
                            "known": known_for(K[i]), "size": N})
            # xsl:number level=single count=P prints something iff some ancestor-or-self matches P
            j, anc = i, False
            while j is not None:
                anc = anc or T[j]
                j = c["nodes"][j][2]
            if Nb[i] != anc:
                orc.append({"sheet": rep("xsl:number count=P level=single is %s although %s ancestor-or-self fires the template" % (
                    "non-empty" if Nb[i] else "empty", "an" if anc else "no"), i), "known": None, "size": N})
    return corr, scorr, orc


# ---------------------------------------------------------------------------------------------
# result tree fragments: the same in-stylesheet observations on a tree the stylesheet builds itself and converts
# with exsl:node-set() / xalan:nodeset().  Its root is a DOCUMENT_FRAGMENT_NODE, not a DOCUMENT_NODE: it matches
# '/', it is not the child of anything, and it may have text and several elements as children.  The oracle is the
# defining expression evaluated in the same run (no model involved).

FRAG_CORPUS = [
    # (label, fragment tuple, pattern)
    ("frag-node-a", [("e", "a", [], [("e", "b", [], []), ("e", "a", [], [("e", "b", [], [])])])],
     [("rel", [S("c", "c", "N"), S("c", "c", T("a"))])]),
    ("frag-node-desc-a", [("e", "a", [], [("e", "b", [], []), ("e", "a", [], [("e", "b", [], [])])])],
     [("rel", [S("c", "c", "N"), S("d", "c", T("a"))])]),
    ("frag-node", [("e", "a", [], [("e", "b", [], [])]), ("t", "t")], [("rel", [S("c", "c", "N")])]),
    ("frag-node-text", [("t", "t"), ("e", "a", [("x", "1")], [("t", "u")])], [("rel", [S("c", "c", "N"), S("c", "c", "T")])]),
    ("frag-node-node-pos", [("e", "a", [], [("e", "b", [], [])]), ("e", "b", [], [])],
     [("rel", [S("c", "c", "N"), S("c", "c", "N", [("num", 1)])])]),
    ("frag-node-a-b", [("e", "a", [], [("e", "b", [], []), ("e", "a", [], [("e", "b", [], [])])])],
     [("rel", [S("c", "c", "N"), S("c", "c", T("a")), S("d", "c", T("b"))])]),
    ("frag-abs-a", [("e", "a", [], [("e", "a", [], [])]), ("e", "b", [], [])], [("abs", [S("c", "c", T("a"))])]),
    ("frag-abs-desc", [("e", "a", [], [("e", "a", [], [])]), ("t", "t")], [("abs", [S("d", "c", "N")])]),
    ("frag-root", [("e", "a", [], [])], [("abs", [])]),
    ("frag-star-a", [("e", "a", [], [("e", "a", [], [])])], [("rel", [S("c", "c", "w"), S("c", "c", T("a"))])]),
    ("frag-node-attr", [("e", "a", [("x", "1")], [("e", "b", [("x", "2")], [])])], [("rel", [S("c", "c", "N"), S("c", "a", T("x"))])]),
]


def frag_body(top):
    """the content of an xsl:variable that builds the tree 'top' (comments, processing instructions and
    white space written in a stylesheet would be dropped by the stylesheet reader, so they are instructions)"""
    out = []

    def go(t):
        if t[0] == "e":
            out.append("<" + t[1] + "".join(' %s="%s"' % (a, xesc(v)) for a, v in t[2]) + ">")
            for c in t[3]:
                go(c)
            out.append("</" + t[1] + ">")
        elif t[0] == "t":
            out.append("<xsl:text>%s</xsl:text>" % xesc(t[1]))
        elif t[0] == "c":
            out.append("<xsl:comment>%s</xsl:comment>" % xesc(t[1]))
        else:
            out.append('<xsl:processing-instruction name="%s">%s</xsl:processing-instruction>' % (t[1], xesc(t[2])))
    for t in top:
        go(t)
    return "".join(out)


def frag_sheet_for(ptext, top, fn):
    """sheet_for() with the walk over the converted fragment instead of the source document"""
    P = xesc(ptext)
    kind = ("concat(substring('r',1,number(not(parent::node()))),substring('e',1,number(boolean(self::*))),"
            "substring('t',1,number(boolean(self::text()))),substring('c',1,number(boolean(self::comment()))),"
            "substring('p',1,number(boolean(self::processing-instruction()))),"
            "substring('a',1,number(count(.|../@*)=count(../@*))))")
    body = ['<xsl:stylesheet version="1.0" xmlns:xsl="%s" xmlns:p="urn:p" xmlns:q="urn:q" xmlns:exsl="http://exslt.org/common" '
            'xmlns:xalan="http://xml.apache.org/xalan" exclude-result-prefixes="exsl xalan"><xsl:output method="text"/>' % XSL,
            '<xsl:key name="m" match="%s" use="\'v\'"/>' % P,
            '<xsl:variable name="f">%s</xsl:variable>' % frag_body(top),
            '<xsl:template match="/"><xsl:variable name="F" select="%s($f)"/>' % fn,
            '<xsl:for-each select="$F | $F//node() | $F//@*"><xsl:variable name="n" select="."/>',
            '<xsl:value-of select="%s"/>' % kind,
            '<xsl:apply-templates select="." mode="m"/>',
            '<xsl:value-of select="number(boolean(ancestor-or-self::node()[count((%s)|$n) = count(%s)]))"/>' % (P, P),
            '<xsl:value-of select="number(count($n|key(\'m\',\'v\')) = count(key(\'m\',\'v\')))"/>',
            '<xsl:variable name="c"><xsl:number count="%s" level="single"/></xsl:variable>' % P,
            '<xsl:value-of select="number(string($c) != \'\')"/><xsl:text>;</xsl:text>',
            '</xsl:for-each></xsl:template>',
            '<xsl:template match="%s" mode="m" priority="9">1</xsl:template>' % P,
            '<xsl:template match="node()|@*|/" mode="m" priority="-9">0</xsl:template>',
            '</xsl:stylesheet>']
    return "".join(body)


def frag_cases(r, n_docs, per_doc):
    """r is the stream's own random.Random (seeded from ctx.rng after every other draw of the check)"""
    cases = []
    for label, top, pat in FRAG_CORPUS:
        cases.append({"id": "fc-" + label, "top": top, "nodes": patgen.arena(top), "pat": pat, "cls": "frag-corpus", "fn": "exsl:node-set"})
    for di in range(n_docs):
        top = list(patgen.gen_doc(r))
        enames0 = sorted({n for k, n, _ in patgen.arena(top) if k == "e"}) or ["a"]
        # what a document cannot have: text and further elements as children of the root
        for _ in range(r.choice([0, 1, 1, 2, 3])):
            at = r.randrange(len(top) + 1)
            if r.random() < 0.45:
                if (at > 0 and top[at - 1][0] == "t") or (at < len(top) and top[at][0] == "t"):
                    continue
                top.insert(at, ("t", r.choice(["t", "1", " ", "xy"])))
            else:
                top.insert(at, patgen.gen_elem(r, r.choice([0, 1, 2]), 2, enames0, 0.3))
        if sum(patgen.count_nodes(t) for t in top) > 60:
            continue
        nodes = patgen.arena(top)
        enames = sorted({n for k, n, _ in nodes if k == "e"}) + ["a", "b"]
        fn = r.choice(["exsl:node-set", "exsl:node-set", "xalan:nodeset"])
        for pi in range(per_doc):
            k = r.random()
            shape = "node" if k < 0.4 else "guarded" if k < 0.65 else None if k < 0.85 else "k1415"
            pat = patgen.gen_pattern(r, enames, shape)
            if r.random() < 0.25:
                # a path that starts at a child of anything: node() as the leftmost step of a relative path
                j = r.randrange(len(pat))
                head, steps = pat[j]
                lead = ("c", "c", "N", [patgen.gen_pred(r, enames)] if r.random() < 0.2 else [], 0)
                rest = [((r.choice(["c", "c", "d"]),) + tuple(st[1:])) if i == 0 and head == "rel" else st for i, st in enumerate(steps)]
                pat[j] = ("rel", [lead] + rest[:3])
            cases.append({"id": "f%dp%d" % (di, pi), "top": top, "nodes": nodes, "pat": pat, "cls": "frag-" + (shape or "any"), "fn": fn})
    return cases


def frag_replay_line(c):
    import json
    return "fragment " + json.dumps({"top": c["top"], "pattern": patgen.pattern_text(c["pat"]), "fn": c["fn"]})


def judge_frag(top, nodes, ptext, fn, r):
    """r: result of xsltrun for frag_sheet_for(ptext, top, fn) -> (list of (what, node), broken message or None, evaluations)"""
    if r[0] != "ok":
        return [("the transformation failed: %r" % (r,), None)], None, 0
    recs = [x for x in r[1].decode("utf-8", "replace").split(";") if x]
    vis = [i for i, (k, _, _) in enumerate(nodes) if k != "n"]
    if len(recs) != len(vis) or any(rec[0] != nodes[i][0] for rec, i in zip(recs, vis)):
        return [], "fragment walk does not visit the nodes in the generator's order: %s vs %s (%s)" % (
            "".join(x[0] for x in recs), patgen.kinds_string(nodes), frag_body(top)), 0
    N = len(nodes)
    Tm, Sx, K, Nb = [False] * N, [False] * N, [False] * N, [False] * N
    for rec, i in zip(recs, vis):
        Tm[i], Sx[i], K[i], Nb[i] = rec[1] == "1", rec[2] == "1", rec[3] == "1", rec[4] == "1"
    bad = []
    for i in vis:
        if Tm[i] != Sx[i]:
            bad.append(("template match=P %s for the node but the defining expression says %s" % ("fires" if Tm[i] else "does not fire", Sx[i]), i))
        if K[i] != Sx[i]:
            bad.append(("xsl:key match=P %s the node but the defining expression says %s" % ("indexes" if K[i] else "does not index", Sx[i]), i))
        j, anc = i, False
        while j is not None:
            anc = anc or Sx[j]
            j = nodes[j][2]
        if Nb[i] != anc:
            bad.append(("xsl:number count=P level=single is %s although the defining expression selects %s ancestor-or-self" % (
                "non-empty" if Nb[i] else "empty", "an" if anc else "no"), i))
    return bad, None, len(vis)


def evaluate_frags(ctx, cases):
    from vlib import xsltrun
    orc = []
    xs = [{"id": c["id"], "sheet": frag_sheet_for(patgen.pattern_text(c["pat"]), c["top"], c["fn"]), "source": "<r/>"} for c in cases]
    res = xsltrun.run(xs)
    for c in cases:
        ctx.count("shape:" + c["cls"])
        ctx.count("fragment-via:" + c["fn"])
        ptext = patgen.pattern_text(c["pat"])
        if sum(1 for k, _, par in c["nodes"] if par == 0 and k in "et") > 1:
            ctx.count("fragment-with-several-top-level-nodes")
        bad, broken, n_eval = judge_frag(c["top"], c["nodes"], ptext, c["fn"], res[c["id"]])
        if broken:
            ctx.broken.append(broken)
            continue
        ctx.cov["evaluations"] += n_eval
        ctx.cov["fragment_evaluations"] = ctx.cov.get("fragment_evaluations", 0) + n_eval
        for what, i in bad:
            txt = ("# result tree fragment converted with %s (vlib/xsltrun.py, source <r/>): pattern %s\n# fragment: %s\n# stylesheet: %s\n# %s%s\n"
                   "# replay: python3 check.py C09 --replay <this file>   (runs the stylesheet, compares template / key / number with the defining expression per node)\n%s\n" % (
                       c["fn"], ptext, patgen.xml_of(c["top"]), xs[cases.index(c)]["sheet"], what,
                       "" if i is None else " (node %d, %s)" % (i, c["nodes"][i][0] + (":" + c["nodes"][i][1] if c["nodes"][i][1] else "")),
                       frag_replay_line(c)))
            orc.append({"sheet": txt, "known": None, "size": len(c["nodes"])})
    return orc


def run_fragments(ctx):
    """own random stream, seeded from ctx.rng after everything else has drawn: the other streams keep their draws"""
    import random
    r = random.Random(ctx.rng.getrandbits(64))
    cases = frag_cases(r, *((70, 8) if not ctx.thorough else (700, 10)))
    orc = evaluate_frags(ctx, cases)
    ctx.notes["fragment_oracle_failures"] = len(orc)
    if orc:
        orc.sort(key=lambda o: (o["size"], len(o["sheet"])))
        txt = ("# C09 oracle failures on result tree fragments: template match / xsl:key match / xsl:number count disagree with\n"
               "# 'some ancestor-or-self context selects the node' on a tree converted with exsl:node-set() / xalan:nodeset()\n")
        seen = set()
        for o in orc:
            key = o["sheet"].split("\n")[0] + o["sheet"].split("\n")[1]
            if key in seen:
                continue
            seen.add(key)
            txt += o["sheet"]
            if len(seen) >= 12:
                break
        ctx.violation("oracle-fragment", txt)


def run(ctx):
    ctx.assumptions += [
        "namespaces: one prefix declaration (xmlns:p on the document element) besides the implicit xmlns:xml, no default namespace; name tests prefix:name and prefix:* are modelled (an expanded name is a pair coded as one number)",
        "predicates of the generated patterns are drawn from a 14-construct language (position()/last() comparisons, number literals, last(), count(), @a, child and parent tests, true(), not/and/or); the theorems quantify over arbitrary predicate functions with a sound positional flag",
        "no xsl:strip-space (shouldStripSourceNode is false)",
        "id()/key() heads are part of the Coq model and theorems (node-set abstract) but are not exercised at the XPath API level (no DTD ids, no keys there)",
    ]
    ctx.notes["rule"] = "distinct = distinct (pattern text, document kind string); non-trivial = at least one node matches or is selected"
    ok_lib, liblog = core.build_lib("plain")
    if not ok_lib:
        ctx.broken.append("library does not build from the working tree: " + liblog[-500:])
        return ctx.finish(LEVEL)
    proved = ctx.prove(["Properties_C09.v"], ["GenPat"])
    model, ok_m, mlog = core.build_model(FAMILY)
    if not ok_m:
        ctx.broken.append("model extraction/build failed: " + mlog[-500:])
        model = None
    impl, ok_h, hlog = core.build_harness("pat", "plain")
    if not ok_h:
        ctx.broken.append("harness does not compile against the working tree: " + hlog[-500:])
        return ctx.finish(LEVEL)

    known = {k["key"]: k for k in ctx.known.for_property("C09")}
    n_docs, per_doc = (600, 12) if not ctx.thorough else (4000, 14)
    cases = corpus_cases() + make_cases(ctx, n_docs, per_doc)
    ctx.cov["samples"] = ["%s  on  %s" % (patgen.pattern_text(c["pat"]), patgen.xml_of(c["top"])[:120]) for c in cases[:3] + cases[40:49]]
    corr, scorr, orc = evaluate(ctx, cases, impl, model)
    c3, s3, o3 = evaluate_sheets(ctx, sheet_cases(ctx, *((90, 8) if not ctx.thorough else (900, 10))), model)
    corr += c3
    scorr += s3
    orc += o3
    new = [o for o in orc if not (o["known"] and o["known"] in known)]
    if (corr or scorr or not proved or not model) and not new and not ctx.thorough:
        ctx.escalated = True
        c2, s2, o2 = evaluate(ctx, make_cases(ctx, 1500, 14, prefix="w"), impl, model)
        corr += c2
        scorr += s2
        orc += o2
        new = [o for o in orc if not (o["known"] and o["known"] in known)]
    hits = {}
    for o in orc:
        if o["known"] and o["known"] in known:
            hits[o["known"]] = hits.get(o["known"], 0) + 1
    for k in sorted(hits):
        ctx.known_finding("%s %s" % (k, known[k]["what"]))
    ctx.notes["known_class_hits"] = hits
    if corr:
        e = corr[0]
        ctx.broken.append("correspondence pat: %d cases differ between the extracted matcher and XPath::getMatchScore, e.g. pattern %r on %s node %s: library %s model %s" % (
            len(corr), e.get("pattern"), e.get("doc"), e.get("node"), e.get("impl"), e.get("model")))
        ctx.notes["correspondence_mismatches"] = [{k: v for k, v in e.items() if k != "c"} for e in corr[:20]]
    if scorr:
        e = scorr[0]
        ctx.broken.append("correspondence pat (specification side): %d cases differ between the extracted select_spec and XPath::execute, e.g. pattern %r on %s node %s: library %s model %s" % (
            len(scorr), e.get("pattern"), e.get("doc"), e.get("node"), e.get("impl"), e.get("model")))
        ctx.notes["spec_correspondence_mismatches"] = [{k: v for k, v in e.items() if k != "c"} for e in scorr[:20]]
    if new:
        def size(o):
            if o.get("sheet"):
                return (o.get("size", 0), len(o["sheet"]))
            return (len(o["case"]["nodes"]) if o.get("case") else 0, len(patgen.pattern_text(o["case"]["pat"])) if o.get("case") else 0)
        new.sort(key=size)
        txt = "# C09 oracle failures: XPath::getMatchScore disagrees with 'some ancestor-or-self context selects the node'\n"
        for o in new[:25]:
            if o.get("sheet"):
                txt += o["sheet"]
            elif o.get("case"):
                txt += replay_text(o["case"], o.get("node"), o["what"])
            else:
                txt += "# " + o["what"] + "\n"
        ctx.violation("oracle", txt)
    ctx.notes["oracle_failures"] = len(new)
    # the compile half (pattern compiler, name tests with namespaces, score classes): built as its own family (props/C09_compile.py)
    try:
        import importlib
        compile_part = importlib.import_module("props.C09_compile")
    except ImportError:
        compile_part = None
    if compile_part is not None:
        compile_part.run_part(ctx)
    # result tree fragments (own stream, drawn last)
    run_fragments(ctx)
    return ctx.finish(LEVEL, explanation="theorems over the Gallina model of stepPattern/doStepPredicate/handleFoundIndex and of the pattern compiler's op-code choice + correspondence of the extracted matcher (and of the extracted specification) with the rebuilt library on every node + independent oracle inside the library (getMatchScore vs XPath::execute over all ancestor-or-self contexts)")


def replay(ctx, path):
    core.build_lib("plain")
    impl, ok_h, hlog = core.build_harness("pat", "plain")
    flines = [l for l in open(path) if l.startswith("fragment ")]
    if flines:
        import json
        from vlib import xsltrun
        bad = 0
        for l in flines:
            d = json.loads(l[len("fragment "):])
            nodes = patgen.arena(d["top"])
            sheet = frag_sheet_for(d["pattern"], d["top"], d["fn"])
            r = xsltrun.run([{"id": "x", "sheet": sheet, "source": "<r/>"}])["x"]
            print("pattern %s on the fragment %s (%s)" % (d["pattern"], patgen.xml_of(d["top"]), d["fn"]))
            print("  per node: kind, template fires, defining expression selects, key indexes, xsl:number non-empty:",
                  r[1].decode("utf-8", "replace") if r[0] == "ok" else r)
            found, broken, _ = judge_frag(d["top"], nodes, d["pattern"], d["fn"], r)
            for what, i in found:
                print("  node %s: %s" % (i, what))
            bad += len(found) + (1 if broken else 0)
        print("disagreements on fragments:", bad)
        return 1 if bad else 0
    lines = [l for l in open(path) if l.strip() and not l.startswith("#")]
    rc, out = core.sh([impl], input="".join(lines))
    print(out)
    bad = 0
    for l in out.split("\n"):
        f = dict(x.split(":", 1) for x in l.split("|") if ":" in x)
        if "M" in f and "S" in f and len(f["M"]) == len(f["S"]):
            bad += sum(1 for a, b in zip(f["M"], f["S"]) if (a != "-") != (b == "1"))
    print("nodes where matcher and defining expression disagree:", bad)
    return 1 if bad else 0
