// C20, part "arena": ReusableArenaAllocator<T> driven by operation scripts; every observable result is printed and
// judged by props/C20_arena.py against the trivial specification "a set of live objects".
//   input line:  <id> <blockSize> <destroyBlocks 0|1> <op> <op> ...      ops: a = allocate+construct+commit,
//                d<k> = destroyObject(k-th live object, in allocation order), x = destroyObject(an object of ANOTHER
//                allocator), r = reset()
//   output line: <id> <obs> <obs> ... e<destructor calls while the allocator itself is destroyed>
//                a<fresh 0|1><owns 0|1>   d<returned 0|1><destructor calls><still owned 0|1>   x<returned 0|1><destructor calls>
//                r<destructor calls>
#include <xalanc/Include/PlatformDefinitions.hpp>
#include <xercesc/util/PlatformUtils.hpp>
#include <xalanc/Include/XalanMemoryManagement.hpp>
#include <xalanc/PlatformSupport/ReusableArenaAllocator.hpp>
#include <iostream>
#include <sstream>
#include <string>
#include <vector>
#include <set>
#include <cstdlib>

#include <xalanc/Include/XalanDeque.hpp>
#include <xalanc/PlatformSupport/XalanArrayAllocator.hpp>
#include <xercesc/framework/MemoryManager.hpp>

using namespace xalanc;

// counts what it is asked for; used by the "copy" lines: <id> copy <n> <blockSize>  ->  <id> c<allocations made on the
// SOURCE's manager while the deque is copied into a container of another manager><outstanding on either manager after both
// are destroyed><elements equal 0|1>
struct CountMM : public xercesc::MemoryManager
{
    long allocs, live;
    CountMM() : allocs(0), live(0) {}
    virtual void* allocate(XMLSize_t n) { ++allocs; ++live; return std::malloc(n == 0 ? 1 : n); }
    virtual void deallocate(void* p) { if (p != 0) { --live; std::free(p); } }
    virtual xercesc::MemoryManager* getExceptionMemoryManager() { return this; }
};

static long g_dtors = 0;
static std::set<const void*> g_destroyed_twice;
static std::set<const void*> g_alive;

struct Obj
{
    // the first word is a pointer, as in the library's own pooled objects (vtable): never looks like a free-list stamp
    const void* self;
    long        pad[3];
    Obj() : self(this) { pad[0] = pad[1] = pad[2] = 0x5a5a5a5a; g_alive.insert(this); }
    ~Obj() { ++g_dtors; if (g_alive.erase(this) == 0) g_destroyed_twice.insert(this); self = 0; }
};

int main()
{
    xercesc::XMLPlatformUtils::Initialize();
    MemoryManager& mm = XalanMemMgrs::getDefaultXercesMemMgr();
    std::string line;
    while (std::getline(std::cin, line))
    {
        if (line.empty() || line[0] == '#') continue;
        std::istringstream in(line);
        std::string id, op; unsigned bs; int db;
        in >> id;
        {
            std::string second;
            std::streampos pos = in.tellg();
            in >> second;
            if (second == "copy")
            {
                unsigned n = 0, dbs = 10;
                in >> n >> dbs;
                CountMM ma, mb;
                long during = 0; bool same = true;
                {
                    typedef XalanDeque<long> DequeType;
                    DequeType d1(ma, 0, dbs);
                    for (unsigned i = 0; i < n; ++i) d1.push_back(long(i) * 7 + 1);
                    const long before = ma.allocs;
                    DequeType d2(d1, mb);
                    during = ma.allocs - before;
                    if (d2.size() != d1.size()) same = false;
                    for (unsigned i = 0; same && i < n; ++i) if (d2[i] != d1[i]) same = false;
                }
                std::cout << id << " c" << during << (ma.live + mb.live) << (same ? 1 : 0) << std::endl;
                continue;
            }
            if (second == "arr")
            {
                // <id> arr <blockSize> <count>...  ->  <id> r<blocks outstanding after clear() + one more allocate + destruction>
                unsigned abs_ = 10; in >> abs_;
                CountMM m;
                {
                    XalanArrayAllocator<long> a(m, abs_);
                    unsigned c;
                    while (in >> c) { long* p = a.allocate(c); for (unsigned i = 0; i < c; ++i) p[i] = long(i); }
                    a.clear();
                    long* q = a.allocate(3); q[0] = q[1] = q[2] = 1;
                }
                std::cout << id << " r" << m.live << std::endl;
                continue;
            }
            in.seekg(pos);
        }
        in >> bs >> db;
        std::ostringstream out;
        out << id;
        g_destroyed_twice.clear();
        long atEnd = 0;
        {
            ReusableArenaAllocator<Obj> other(mm, 4, false);
            Obj* foreign = other.allocateBlock(); new (foreign) Obj; other.commitAllocation(foreign);
            {
                ReusableArenaAllocator<Obj> a(mm, (ReusableArenaAllocator<Obj>::size_type) bs, db != 0);
                std::vector<Obj*> live;
                while (in >> op)
                {
                    long before = g_dtors;
                    if (op == "a")
                    {
                        Obj* p = a.allocateBlock();
                        bool fresh = true;
                        for (size_t i = 0; i < live.size(); ++i) if (live[i] == p) fresh = false;
                        new (p) Obj; a.commitAllocation(p);
                        live.push_back(p);
                        out << " a" << (fresh ? 1 : 0) << (a.ownsObject(p) ? 1 : 0);
                    }
                    else if (op[0] == 'd')
                    {
                        size_t k = (size_t) std::atoi(op.c_str() + 1);
                        if (k >= live.size()) { out << " d-"; continue; }
                        Obj* p = live[k];
                        bool ret = a.destroyObject(p);
                        live.erase(live.begin() + k);
                        bool others = true;
                        for (size_t i = 0; i < live.size(); ++i) if (!a.ownsObject(live[i]) || live[i]->self != live[i]) others = false;
                        out << " d" << (ret ? 1 : 0) << (g_dtors - before) << (others ? 1 : 0);
                    }
                    else if (op == "x")
                    {
                        bool ret = a.destroyObject(foreign);
                        out << " x" << (ret ? 1 : 0) << (g_dtors - before);
                    }
                    else if (op == "r")
                    {
                        a.reset();
                        out << " r" << (g_dtors - before);
                        live.clear();
                    }
                }
                atEnd = g_dtors;
            }
            atEnd = g_dtors - atEnd;
        }
        out << " e" << atEnd << " t" << g_destroyed_twice.size();
        std::cout << out.str() << std::endl;
    }
    return 0;
}
