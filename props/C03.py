"""C03 — no input crashes, hangs or corrupts memory; every failure is a reported error.

PARTIAL by design.  Proof leg: Properties_C03.v over GenSafe.v (census of fixed buffers / unsafe libc
calls / double->integer casts against the audited list, buffer bounds, catch tables).  Dynamic leg:
structure-aware exploration of every public entry point through harness/safe.cpp built against
the ASan+UBSan library (and the plain one for the resource-limit replays), one long-lived
transformer per batch, per-batch timeout, crash isolation down to a single input."""
import os, re, resource, subprocess, time
from concurrent.futures import ThreadPoolExecutor
from vlib import core

LEVEL = "proof"
FAMILY = "safe"
XSLNS = "http://www.w3.org/1999/XSL/Transform"
HEAD = ("<xsl:stylesheet version='1.0' xmlns:xsl='" + XSLNS + "' xmlns:str='http://exslt.org/strings' "
        "xmlns:math='http://exslt.org/math' xmlns:set='http://exslt.org/sets' xmlns:dyn='http://exslt.org/dynamic' "
        "xmlns:x='http://xml.apache.org/xalan' exclude-result-prefixes='str math set dyn x'>")
TAIL = "</xsl:stylesheet>"
DOC = ("<?xml version='1.0'?><doc xmlns:p='urn:p' id='d'><a n='1'>one<b>1.5</b></a><a n='2' p:q='z'>two<b>-7</b><!--c--><?pi x?></a>"
       "<a n='10'>ten<b>1e3</b><c xml:lang='en'>x &amp; y</c></a><p:e>&#x10000;&#xE9;</p:e></doc>")


def b_(x):
    return x if isinstance(x, bytes) else x.encode("utf-8", "surrogatepass")


def sheet(body, out="text", extra=""):
    return HEAD + ("<xsl:output method='%s'%s/>" % (out, extra)) + body + TAIL


def tmpl(body, out="text", extra=""):
    return sheet("<xsl:template match='/'>" + body + "</xsl:template>", out, extra)


def vo(expr, out="text"):
    return tmpl('<xsl:value-of select="%s"/>' % expr.replace("&", "&amp;").replace("<", "&lt;").replace('"', "&quot;"), out)


class Case:
    __slots__ = ("id", "entry", "S", "D", "X", "P", "cls", "expect", "known", "opts", "tag")

    def __init__(self, entry, S="", D=DOC, X="", P=None, cls="", expect=None, known=None, opts="", tag=None):
        self.id, self.entry, self.S, self.D, self.X, self.P, self.cls, self.expect, self.known = None, entry, S, D, X, P, cls, expect, known
        self.opts, self.tag = opts, tag

    def line(self):
        s = "%s|E:%s|S:%s|D:%s|X:%s" % (self.id, self.entry, b_(self.S).hex(), b_(self.D).hex(), b_(self.X).hex())
        if self.P:
            s += "|P:" + ";".join("%s=%s" % (k, b_(v).hex()) for k, v in self.P.items())
        if self.opts:
            s += "|O:" + self.opts
        return s


# ---------------------------------------------------------------------------------------------
# generators (every random choice from ctx.rng)

BASE_BODIES = [
    "<xsl:template match='/'><xsl:apply-templates select='//a'><xsl:sort select='@n' data-type='number' order='descending'/></xsl:apply-templates></xsl:template>"
    "<xsl:template match='a'><xsl:number level='any' count='a|b' format='1.a.I'/><xsl:value-of select='concat(@n, substring(., 1, 2))'/></xsl:template>",
    "<xsl:key name='k' match='a' use='@n'/><xsl:template match='/'><xsl:for-each select=\"key('k', '2') | key('k', 10)\"><xsl:copy-of select='.'/></xsl:for-each>"
    "<xsl:value-of select=\"format-number(sum(//b[number(.) = number(.)]), '#,##0.00;(#)')\"/></xsl:template>",
    "<xsl:variable name='v' select='//a[2]'/><xsl:param name='p' select=\"'dflt'\"/><xsl:template match='/'><out><xsl:attribute name='x{$p}'>v<xsl:value-of select='$v/@n'/></xsl:attribute>"
    "<xsl:element name='{name(//a[1])}' namespace='urn:{$p}'><xsl:comment>c</xsl:comment><xsl:processing-instruction name='pi'>d</xsl:processing-instruction></xsl:element>"
    "<xsl:choose><xsl:when test='$v'>y</xsl:when><xsl:otherwise>n</xsl:otherwise></xsl:choose></out></xsl:template>",
    "<xsl:strip-space elements='*'/><xsl:preserve-space elements='c'/><xsl:template match='@*|node()'><xsl:copy><xsl:apply-templates select='@*|node()'/></xsl:copy></xsl:template>"
    "<xsl:template match='b[. &gt; 0]' priority='2'><pos><xsl:value-of select='round(.) div 0'/></pos></xsl:template>",
    "<xsl:decimal-format name='f' decimal-separator=',' grouping-separator='.' NaN='nan' infinity='inf'/><xsl:attribute-set name='s'><xsl:attribute name='q'>1</xsl:attribute></xsl:attribute-set>"
    "<xsl:template match='/'><r xsl:use-attribute-sets='s'><xsl:value-of select=\"format-number(1234567.891, '#.##0,00', 'f')\"/><xsl:value-of select=\"translate(string(//c), 'xy', 'YX')\"/>"
    "<xsl:if test=\"lang('en')\">L</xsl:if><xsl:value-of select='generate-id(//a) = generate-id(//a[1])'/><xsl:message>m</xsl:message></r></xsl:template>",
    "<xsl:template match='/'><xsl:call-template name='t'><xsl:with-param name='n' select='5'/></xsl:call-template></xsl:template>"
    "<xsl:template name='t'><xsl:param name='n'/><xsl:if test='$n &gt; 0'><xsl:value-of select='$n'/><xsl:call-template name='t'><xsl:with-param name='n' select='$n - 1'/></xsl:call-template></xsl:if></xsl:template>",
    "<xsl:template match='/'><xsl:value-of select=\"str:padding(3, 'ab')\"/><xsl:value-of select=\"math:constant('PI', 5)\"/><xsl:value-of select='count(set:distinct(//a/@n))'/>"
    "<xsl:value-of select=\"dyn:evaluate('1 + 1')\"/><xsl:copy-of select='x:nodeset(//b)[1]'/></xsl:template>",
]

EXPRS = ["1 + 2 * 3 - 4 div 5 mod 6", "//a[@n > 1][last()]/b", "count(//a | //b) = 5 and not(false()) or 1 < 2", "substring('abcdef', 2, 3)", "string-length(normalize-space(' a  b '))",
         "sum(//b)", "concat('a', \"b\", 1, true())", "//a[position() = 2]/following-sibling::*[1]/preceding::node()", "id('d')", "name(/*/*[last()])", "-(-1)", "boolean(//p:e)",
         "floor(-1.5) + ceiling(1.5) + round(2.5)", "starts-with(string(//c), 'x') and contains('abc', 'b')", "substring-before('a=b', '=')", "translate('abc', 'ab', 'B')",
         "number('12.50') * 2", "//a/ancestor-or-self::*/@*", "//*[self::a or self::b][1]", "string(//comment()) = 'c'", "local-name(//processing-instruction())", "//a[b = -7]/@n", ".5 + 5.", "lang('en')",
         "key('k', 1)", "document('')/*", "format-number(1.5, '0.0')", "current()", "system-property('xsl:version')", "unparsed-entity-uri('e')", "generate-id()", "function-available('str:padding')"]

XSL_ELEMS = ["apply-imports", "apply-templates", "attribute", "attribute-set", "call-template", "choose", "comment", "copy", "copy-of", "decimal-format", "element", "fallback", "for-each",
             "if", "import", "include", "key", "message", "namespace-alias", "number", "otherwise", "output", "param", "preserve-space", "processing-instruction", "sort", "strip-space",
             "stylesheet", "template", "text", "transform", "value-of", "variable", "when", "with-param"]
XSL_ATTRS = {"select": ["//a", ".", "1", "'", "//[", "$x", ""], "match": ["a", "/", "a[", "key('k','v')", "a|b", "//"], "name": ["n", "p:n", "xsl:n", "1x", "", "{1}"],
             "test": ["1", "", "(", "true()"], "mode": ["m", "#x", ""], "priority": ["1", "x", "1e5", "-0.5"], "use": ["@n", "", "("], "value": ["1", "0", "-1", "'x'", "1 div 0", "99999999999999999999"],
             "format": ["1", "A", "i", "001", "&#x661;", "", "1.1.1.1"], "level": ["single", "any", "multiple", "x"], "count": ["a", "a["], "from": ["a", "/", "foo"], "href": ["", "x.xsl", "#", "file:///nonexistent"],
             "elements": ["*", "a b", "p:*", "1"], "method": ["xml", "html", "text", "x:y", "bogus"], "encoding": ["UTF-8", "UTF-16", "ISO-8859-1", "us-ascii", "bogus", ""], "version": ["1.0", "1.1", "2.0", "x"],
             "indent": ["yes", "no", "x"], "data-type": ["text", "number", "q:x", "x"], "order": ["ascending", "descending", "x"], "lang": ["en", "sv", "", "x-y-z"], "case-order": ["upper-first", "x"],
             "use-attribute-sets": ["s", "s s", "t"], "namespace": ["urn:x", "", "{1}"], "disable-output-escaping": ["yes", "x"], "terminate": ["yes", "x"], "stylesheet-prefix": ["xsl", "#default", "q"],
             "result-prefix": ["p", "#default"], "grouping-separator": [",", "", "ab"], "grouping-size": ["3", "0", "-1", "x"], "letter-value": ["traditional", "alphabetic", "x"],
             "decimal-separator": [".", "", "ab"], "cdata-section-elements": ["a", "p:e q"], "doctype-system": ["x.dtd"], "omit-xml-declaration": ["yes", "x"], "standalone": ["yes", "x"],
             "exclude-result-prefixes": ["p", "#default", "zz"], "extension-element-prefixes": ["x", "zz"], "id": ["i"], "xml:space": ["preserve", "x"]}

UNICODE = {"astral": "\U0001D4B3", "bmp": "€é", "bidi": "‮א‬", "nonchar": "￾￿", "combining": "á̀", "bom": "﻿",
           "lone_high": "\ud800", "lone_low": "\udc00", "reversed_pair": "\udc00\ud800", "c1": "\u0085\u009f", "ls": " ", "max": "\U0010ffff"}
CHARREFS = ["&#0;", "&#x1;", "&#xD800;", "&#xDFFF;", "&#xFFFE;", "&#x110000;", "&#x10FFFF;", "&#99999999999999999999;", "&#x;", "&#9;&#10;&#13;", "&#x85;", "&#xFFFFFFFFF;"]
PARAMS = ["'a'", "\"a", "'a''", "''", "1 div 0", "//x[", "'\"'", "\"'\"", "$p", "//a", "'" + "x" * 1100 + "'", "1" * 400, "concat('a', \"'\", 'b')", "'€'", "", " ", "'a' 'b'", "-", "0 div 0"]


def digits_of_exp(rng, e):
    """a plain XPath number literal (no exponent notation) of magnitude 10^e"""
    lead = rng.choice(["1", "9", "17976931348623157", "4", "123456789"])
    if e >= 0:
        s = (lead + "0" * (e + 1))[:e + 1]
        return s + rng.choice(["", "", ".5", ".0"])
    return "0." + "0" * (-e - 1) + lead


def expected_number_string(lit):
    """what string(number) must be for a literal: digits only, value round-trips (independent oracle)"""
    try:
        return float(lit)
    except ValueError:
        return None


def gen_numbers(ctx, exps):
    r = ctx.rng
    out = []
    for e in exps:
        lit = digits_of_exp(r, e)
        neg = r.random() < 0.3
        slit = ("-" if neg else "") + lit
        v = float(slit)
        k = r.randrange(8)
        if k == 0:
            out.append(Case("T", vo(slit), cls="num:value-of", expect=("number", v)))
        elif k == 1:
            out.append(Case(r.choice("TXQ"), vo("//a[%s]" % lit), X="//a[%s]" % lit, cls="num:predicate"))
        elif k == 2:
            fmt = r.choice(["1", "A", "a", "i", "I", "01", "&#x3b1;"])
            rv = round(v) if abs(v) < 1e300 else 0
            known = None
            exp_ = ("count", rv) if fmt == "1" and 0.5 <= v < 2.0 ** 63 else None
            out.append(Case("T", tmpl("<xsl:number value='%s' format='%s'/>" % (slit, fmt)), cls="num:xsl-number:" + ("big" if known else "ok"), expect=exp_, known=known))
        elif k == 3:
            out.append(Case(r.choice("TX"), vo("substring('abcdefghij', %s, %s)" % (slit, r.choice([lit, "2", "1 div 0"]))), X="substring('abcdefghij', %s, %s)" % (slit, lit), cls="num:substring"))
        elif k == 4:
            pat = r.choice(["0.0", "#,##0.###", "0" * 40 + "." + "0" * 40, "#", "0.0%", "0.0E0", "'x'0", "‰ 0"])
            out.append(Case("T", vo("format-number(%s, '%s')" % (slit, pat)), cls="num:format-number"))
        elif k == 5:
            out.append(Case(r.choice("TX"), vo("round(%s) + floor(%s) + ceiling(%s) mod 7" % (slit, slit, slit)), X="string(round(%s)) = string(floor(%s))" % (slit, slit), cls="num:round"))
        elif k == 6:
            out.append(Case("T", tmpl("<xsl:for-each select='//a'><xsl:sort select='@n * %s' data-type='number'/><xsl:value-of select='position() * %s'/></xsl:for-each>" % (slit, slit)), cls="num:sort"))
        else:
            out.append(Case("T", vo("number('%s') = %s" % (slit, slit)), cls="num:string-to-number", expect=("text", "true")))
    return out


def gen_ladders(ctx, depths, fn_depths):
    out = []
    for d in depths:
        out.append(Case("X", X="(" * d + "1" + ")" * d, cls="ladder:parens:%d" % d))
        out.append(Case("T", vo("(" * d + "1" + ")" * d), cls="ladder:parens-in-sheet:%d" % d))
        out.append(Case("T", tmpl("<xsl:copy-of select='.'/><xsl:value-of select='count(//*)'/>", "xml"), D="<a>" * d + "x" + "</a>" * d, cls="ladder:source-elements:%d" % d))
        out.append(Case("T", tmpl("<e>" * d + "<xsl:value-of select='1'/>" + "</e>" * d, "xml"), cls="ladder:literal-elements:%d" % d))
        rec = sheet("<xsl:param name='d' select='%d'/><xsl:template match='/'><xsl:call-template name='r'><xsl:with-param name='n' select='$d'/></xsl:call-template></xsl:template>"
                    "<xsl:template name='r'><xsl:param name='n'/><xsl:if test='$n &gt; 0'><y><xsl:call-template name='r'><xsl:with-param name='n' select='$n - 1'/></xsl:call-template></y></xsl:if></xsl:template>" % d, "xml")
        out.append(Case("T", rec, cls="ladder:template-recursion:%d" % d))
        out.append(Case("A", rec, P={"d": str(d)}, cls="ladder:template-recursion-capi:%d" % d))
        out.append(Case("X", X="a" + "[a" * d + "]" * d, cls="ladder:predicates:%d" % d))
        out.append(Case("X", X="/".join(["*"] * d), cls="ladder:steps:%d" % d))
        out.append(Case("X", X=" or ".join(["1"] * d), cls="ladder:or-chain:%d" % d))
    for d in fn_depths:
        out.append(Case("X", X="string(" * d + "1" + ")" * d, cls="ladder:function-calls:%d" % d))
        out.append(Case("X", X="-" * d + "1", cls="ladder:unary-minus:%d" % d))
    return out


def gen_long(ctx, sizes):
    r = ctx.rng
    out = []
    for s in sizes:
        for n in (s - 1, s, s + 1):
            name = "n" * n
            k = r.randrange(9)
            if k == 0:
                out.append(Case("T", tmpl("<%s a='%s'/>" % (name, "v" * n), "xml"), cls="long:literal-name:%d" % s))
            elif k == 1:
                out.append(Case("T", vo("%s(1)" % name), cls="long:unknown-function-message:%d" % s))
            elif k == 2:
                digs = ("1" * (n - 2) + ".5")[:n] if n > 3 else "1"
                out.append(Case(r.choice("TX"), vo("number('%s') > 0" % digs), X="number(' %s') > 0" % digs, cls="long:numeral:%d" % s))
            elif k == 3:
                out.append(Case("T", tmpl("<xsl:value-of select='$%s'/>" % name), cls="long:undefined-variable-message:%d" % s))
            elif k == 4:
                out.append(Case("T", tmpl("<xsl:value-of select='//%s'/>" % name), D="<%s>%s</%s>" % (name, "t" * n, name), cls="long:source-name:%d" % s))
            elif k == 5:
                out.append(Case("T", vo("format-number(1.5, '%s')" % ("#" * (n - 3) + "0.0")), cls="long:format-pattern:%d" % s))
            elif k == 6:
                out.append(Case("T", tmpl("<xsl:number value='%d' format='%s'/>" % (r.randrange(1, 5000), "0" * (n - 1) + "1")), cls="long:number-format:%d" % s))
            elif k == 7:
                out.append(Case("T", tmpl("<xsl:call-template name='%s'/>" % name), cls="long:missing-template-message:%d" % s))
            else:
                out.append(Case("T", tmpl("<xsl:message terminate='yes'>%s</xsl:message>" % ("m" * n)), cls="long:terminate-message:%d" % s))
    return out


def gen_unicode(ctx, n):
    r = ctx.rng
    out = []
    keys = sorted(UNICODE)
    for _ in range(n):
        k = r.choice(keys)
        u = UNICODE[k]
        where = r.randrange(7)
        enc = r.choice(["UTF-8", "UTF-16", "ISO-8859-1", "us-ascii", "UTF-32", "windows-1252"])
        meth = r.choice(["xml", "html", "text"])
        extra = " encoding='%s'" % enc + r.choice(["", " indent='yes'", " cdata-section-elements='c'", " version='1.1'"])
        if where == 0:
            out.append(Case("T", tmpl("<c>%s</c><xsl:comment>%s</xsl:comment>" % (u, u), meth, extra), cls="unicode:%s:literal" % k))
        elif where == 1:
            out.append(Case("T", tmpl("<xsl:copy-of select='/'/>", meth, extra), D="<c a='%s'>%s</c>" % (u, u), cls="unicode:%s:source" % k))
        elif where == 2:
            out.append(Case("X", X="string-length('%s') + count(//*[. = '%s'])" % (u, u), cls="unicode:%s:xpath" % k))
        elif where == 3:
            out.append(Case("T", tmpl("<c><xsl:value-of select='$p'/></c>", meth, extra).replace("<xsl:template match='/'>", "<xsl:param name='p'/><xsl:template match='/'>"), P={"p": "'%s'" % u}, cls="unicode:%s:param" % k))
        elif where == 4:
            out.append(Case("T", tmpl("<c><xsl:value-of select=\"translate(substring('a%sb', 2, 1), 'a', '%s')\"/></c>" % (u, u), meth, extra), cls="unicode:%s:split" % k))
        elif where == 5:
            out.append(Case("T", tmpl("<xsl:element name='e%s'><xsl:attribute name='a%s'>v</xsl:attribute></xsl:element>" % (u, u), meth, extra), cls="unicode:%s:names" % k))
        else:
            out.append(Case("Q", X="contains('%s', '%s')" % (u, u), D="<a>%s</a>" % u, cls="unicode:%s:capi" % k))
    for c in CHARREFS:
        out.append(Case("T", tmpl("<c>%s</c>" % c, "xml"), cls="unicode:charref:sheet"))
        out.append(Case("T", tmpl("<xsl:copy-of select='/'/>", "xml"), D="<c a='%s'>%s</c>" % (c, c), cls="unicode:charref:source"))
    raw = [b"\xff", b"\xc0\x80", b"\xed\xa0\x80", b"\xf8\x88\x80\x80\x80", b"\xe2\x82", b"\x80", b"\xf4\x90\x80\x80", b"\x00", b"\xef\xbb\xbf"]
    for rb in raw:
        base = b_(tmpl("<c>X</c>", "xml"))
        out.append(Case("T", base.replace(b"X", rb), cls="unicode:invalid-utf8:sheet"))
        out.append(Case("T", tmpl("<xsl:copy-of select='/'/>", "xml"), D=b"<c>" + rb + b"</c>", cls="unicode:invalid-utf8:source"))
        out.append(Case("X", X=b"string-length('" + rb + b"')", cls="unicode:invalid-utf8:xpath"))
        out.append(Case("Q", X=b"'" + rb + b"' = 'a'", cls="unicode:invalid-utf8:capi"))
    return out


def gen_elements(ctx, n):
    r = ctx.rng
    out = []
    anames = sorted(XSL_ATTRS)
    for _ in range(n):
        el = r.choice(XSL_ELEMS)
        attrs = []
        for _ in range(r.choice([0, 1, 1, 2, 3, 5])):
            a = r.choice(anames)
            attrs.append((a, r.choice(XSL_ATTRS[a])))
        if attrs and r.random() < 0.15:
            attrs.append(attrs[0])      # duplicate attribute: not well-formed
        astr = "".join(" %s=\"%s\"" % (a, v.replace("&", "&amp;").replace("<", "&lt;").replace('"', "&quot;")) for a, v in attrs)
        inner = r.choice(["", "t", "<xsl:text>x</xsl:text>", "<xsl:sort/>", "<xsl:with-param name='w'/>", "<xsl:when test='1'/>", "<xsl:fallback/>", "<e/>"])
        x = "<xsl:%s%s>%s</xsl:%s>" % (el, astr, inner, el)
        place = r.randrange(3)
        if place == 0:
            s = sheet(x + "<xsl:template match='/'><xsl:apply-templates/></xsl:template>", "xml")
        elif place == 1:
            s = tmpl(x, "xml")
        else:
            s = tmpl("<xsl:for-each select='//a'>" + x + "</xsl:for-each>", "xml")
        legal_text = all(a in ("disable-output-escaping", "xml:space") for a, _ in attrs)
        out.append(Case(r.choice("TTTCA"), s, cls="element:" + el, known=("K-new-4" if el == "text" and not legal_text else None)))
    return out


def gen_number_walks(ctx):
    out = []
    ctxs = ["/", "/*", "//a[2]", "//b[1]", "//a[1]/@n", "//a[1]/text()", "//comment()", "//processing-instruction()", "//p:e", "/doc/a[3]/c"]
    for level in ("single", "multiple", "any"):
        for count in (None, "a", "a|b", "foo", "node()", "@*", "text()"):
            for frm in (None, "a", "foo", "/", "doc", "node()"):
                c = ctx.rng.choice(ctxs)
                attrs = " level='%s'" % level + (" count='%s'" % count if count else "") + (" from='%s'" % frm if frm else "")
                body = "<xsl:for-each select='%s'>[<xsl:number%s format='1.1'/>]</xsl:for-each>" % (c, attrs)
                if c == "/":
                    body = "[<xsl:number%s/>]" % attrs
                out.append(Case("T", tmpl(body).replace("<xsl:stylesheet ", "<xsl:stylesheet xmlns:p='urn:p' ", 1), cls="number-walk:%s" % level))
    return out


def mutate_bytes(r, data):
    data = bytearray(b_(data))
    for _ in range(r.choice([1, 1, 2, 4])):
        if not data:
            break
        op = r.randrange(6)
        i = r.randrange(len(data))
        if op == 0:
            data[i] = r.randrange(256)
        elif op == 1:
            del data[i:i + r.choice([1, 1, 2, 8])]
        elif op == 2:
            data[i:i] = bytes([r.choice(b"<>&'\"/=[](){}$@:;#! \x00\xff\xc3")])
        elif op == 3:
            data = data[:i]
        elif op == 4:
            j = min(len(data), i + r.choice([4, 16, 64]))
            data[i:i] = data[i:j] * r.choice([1, 2, 8])
        else:
            j = r.randrange(len(data))
            data[i], data[j] = data[j], data[i]
    return bytes(data)


def mutate_tokens(r, text):
    toks = re.findall(r"<[^>]*>|[^<]+", text)
    if len(toks) < 3:
        return text
    op = r.randrange(6)
    i = r.randrange(1, len(toks))
    if op == 0:      # delete an end tag
        ends = [k for k, t in enumerate(toks) if t.startswith("</")]
        if ends:
            del toks[r.choice(ends)]
    elif op == 1:    # duplicate a subtree-ish span
        j = min(len(toks), i + r.choice([1, 2, 5]))
        toks[i:i] = toks[i:j]
    elif op == 2:    # swap two tokens
        j = r.randrange(1, len(toks))
        toks[i], toks[j] = toks[j], toks[i]
    elif op == 3:    # swap attributes between two tags
        tags = [k for k, t in enumerate(toks) if re.match(r"<[\w:]+\s", t)]
        if len(tags) >= 2:
            a, b = r.sample(tags, 2)
            ma, mb = re.match(r"(<[\w:]+)(.*)$", toks[a], re.S), re.match(r"(<[\w:]+)(.*)$", toks[b], re.S)
            toks[a], toks[b] = ma.group(1) + mb.group(2), mb.group(1) + ma.group(2)
    elif op == 4:    # delete a token
        del toks[i]
    else:            # replace an expression
        ks = [k for k, t in enumerate(toks) if "select=" in t or "test=" in t or "match=" in t]
        if ks:
            k = r.choice(ks)
            toks[k] = re.sub(r"(select|test|match)=(['\"])(.*?)\2", lambda m: "%s=%s%s%s" % (m.group(1), m.group(2), mutate_expr(r, m.group(3)), m.group(2)), toks[k], count=1)
    return "".join(toks)


def mutate_expr(r, e):
    toks = re.findall(r"[A-Za-z_][\w.\-]*|\d+\.?\d*|'[^']*'|\"[^\"]*\"|::|//|!=|<=|>=|\S", e)
    for _ in range(r.choice([1, 1, 2, 3])):
        op = r.randrange(5)
        if not toks:
            break
        i = r.randrange(len(toks))
        if op == 0:
            del toks[i]
        elif op == 1:
            toks.insert(i, r.choice(["(", ")", "[", "]", "/", "//", "|", "'", '"', "::", "@", "$", ",", "*", "-", " ", "..", "!", "=", "<", "1e5", ".", "::*", "ancestor::", "9" * 25, "text()", "$v", "node("]))
        elif op == 2:
            toks[i] = toks[r.randrange(len(toks))]
        elif op == 3:
            toks = toks[:i]
        else:
            toks[i:i] = toks[i:i + 3]
    return " ".join(toks) if r.random() < 0.5 else "".join(toks)


def gen_mutations(ctx, n):
    r = ctx.rng
    out = []
    for _ in range(n):
        body = r.choice(BASE_BODIES)
        s = sheet(body, r.choice(["xml", "html", "text"]), r.choice(["", " indent='yes'", " encoding='UTF-16'", " encoding='us-ascii'"]))
        d = DOC
        lvl = r.randrange(5)
        if "<xsl:call-template" in body and lvl in (0, 2):
            lvl = 4      # K19 class: a mutated self-recursive template may lose its bound; it is only run unmodified
        entry = r.choice("TTTTCA")
        if lvl == 0:
            out.append(Case(entry, mutate_bytes(r, s), d, cls="mutate:bytes:sheet"))
        elif lvl == 1:
            out.append(Case(entry, s, mutate_bytes(r, d), cls="mutate:bytes:source"))
        elif lvl == 2:
            out.append(Case(entry, mutate_tokens(r, s), d, cls="mutate:tokens:sheet"))
        elif lvl == 3:
            out.append(Case(entry, s, mutate_tokens(r, d), cls="mutate:tokens:source"))
        else:
            out.append(Case(entry, s, d, cls="valid:sheet"))
    for _ in range(n):
        e = r.choice(EXPRS)
        m = mutate_expr(r, e) if r.random() < 0.8 else e
        k = r.randrange(4)
        if k == 0:
            out.append(Case("X", X=m, cls="mutate:xpath:evaluator"))
        elif k == 1:
            out.append(Case("Q", X=m, D="<a><b>1</b></a>", cls="mutate:xpath:capi"))
        elif k == 2:
            out.append(Case("T", vo(m), cls="mutate:xpath:select"))
        else:
            out.append(Case("T", sheet("<xsl:template match=\"%s\">m</xsl:template>" % m.replace("&", "&amp;").replace("<", "&lt;").replace('"', "&quot;")), cls="mutate:xpath:match"))
    # unterminated literals / tokens at the very end of the expression string (tokenizer scans)
    for q in ("'", '"'):
        for pre in ("", "a", "a=", "concat(", "a[.=", "//*[@x=" + q + "y" + q + "]|"):
            for tail in ("", "x", "xyz" * 50, "\\", "x ", "x" + ("'" if q == '"' else '"')):
                x = pre + q + tail
                out.append(Case(r.choice("XXQ"), X=x, D="<a/>", cls="tokenizer:unterminated-literal"))
    for x in ("$", "a:", "a::", "@", "1.", ".", "..", "a/", "a//", "a[", "a[1", "f(", "f(1,", "!", "<", "a|", "-", "1 div", "*", ":", "::", "$a:", "a:*:", "processing-instruction(", "processing-instruction('x'", "9" * 400, "." * 50, "/" * 50):
        out.append(Case(r.choice("XQT"), vo(x), X=x, D="<a/>", cls="tokenizer:truncated-token"))
    for p in PARAMS:
        s = sheet("<xsl:param name='p' select='1'/><xsl:template match='/'><xsl:value-of select='$p'/><xsl:copy-of select='$p'/></xsl:template>", "xml")
        out.append(Case(r.choice("TA"), s, P={"p": p}, cls="param:expression", known=("K-new-3" if "$" in p else None)))
        out.append(Case("T", s, P={p[:40] or "q": "1"}, cls="param:name"))
    return out


# ---------------------------------------------------------------------------------------------
# serializer buffer-boundary sweep: every writer family x every kind of multi-unit emission, placed at
# every alignment across the end of the writer's buffer.  The stray store of an off-by-one guard lands
# inside the writer object (not seen by ASan), so the oracle is: same status as the reference alignment,
# and output == reference output with the pad lengthened (computed in Python), besides crash / sanitizer
# report / non-zero exit.

SWEEP_WRITERS = [("xml", "UTF-8"), ("xml", "UTF-16"), ("xml", "ISO-8859-1"), ("xml", "US-ASCII"), ("xml", "UTF-32"),
                 ("html", "UTF-8"), ("html", "ISO-8859-1"), ("text", "UTF-8"), ("text", "ISO-8859-1")]
SWEEP_CONTEXTS = ["text", "attr", "comment", "pi", "cdata", "indent"]
SWEEP_EMISSIONS = [("utf8-2", "\u00e9"), ("utf8-3", "\u20ac"), ("utf8-4/surrogate-pair", "\U0001F600"), ("lt", "<"), ("amp", "&"), ("quot", '"'),
                   ("lf", "\n"), ("cr", "\r"), ("tab", "\t"), ("nbsp", "\u00a0"), ("cdata-end", "]]>"),
                   ("run", "\u00e9\u00e9\u20ac\u20ac\U0001F600\U0001F600")]
SWEEP_REFS = (3, 40)


def sweep_sheet(method, enc, ctxk):
    extra = " encoding='%s'" % enc
    if ctxk == "cdata":
        extra += " cdata-section-elements='out'"
    if ctxk == "indent":
        extra += " indent='yes'"
    body = {
        "text": "<out><xsl:value-of select='/d/@p'/><xsl:value-of select='/d/@x'/>TZ</out>",
        "cdata": "<out><xsl:value-of select='/d/@p'/><xsl:value-of select='/d/@x'/>TZ</out>",
        "attr": "<out q=\"{/d/@p}{/d/@x}TZ\"/>",
        "comment": "<out><xsl:comment><xsl:value-of select='/d/@p'/><xsl:value-of select='/d/@x'/>TZ</xsl:comment></out>",
        "pi": "<out><xsl:processing-instruction name='p'><xsl:value-of select='/d/@p'/><xsl:value-of select='/d/@x'/>TZ</xsl:processing-instruction></out>",
        "indent": "<out q='{/d/@p}'><b><c>t</c><xsl:value-of select='/d/@x'/></b><b/></out>",
    }[ctxk]
    return "<xsl:stylesheet version='1.0' xmlns:xsl='%s'><xsl:output method='%s'%s/><xsl:template match='/'>%s</xsl:template></xsl:stylesheet>" % (XSLNS, method, extra, body)


def sweep_case(method, enc, ctxk, ename, x, n):
    src = "<d p='%s' x='%s'/>" % ("a" * n, "".join("&#x%X;" % ord(ch) for ch in x))
    return Case("T", sweep_sheet(method, enc, ctxk), D=src, opts="full", cls="boundary:%s:%s:%s:%s" % (method, enc, ctxk, ename),
                tag=(method, enc, ctxk, ename, x, n))


def sweep_combos(thorough):
    out = []
    for method, enc in SWEEP_WRITERS:
        for ctxk in SWEEP_CONTEXTS:
            if method == "text" and ctxk != "text":
                continue
            if method == "html" and ctxk == "cdata":
                continue
            for ename, x in SWEEP_EMISSIONS:
                if ctxk == "indent" and ename not in ("utf8-4/surrogate-pair", "lf", "run"):
                    continue
                if ename == "run" and not thorough:
                    continue      # six characters in a row: thorough tier only (its window is up to 60 alignments wide)
                out.append((method, enc, ctxk, ename, x))
    return out


def pad_units(ref_out):
    """(unit bytes of one pad character, offset of the pad in units) located in a reference output"""
    for codec in ("utf-32-le", "utf-32-be", "utf-16-le", "utf-16-be", "utf-8"):
        u = "a".encode(codec)
        i = ref_out.find(u * SWEEP_REFS[0])
        if i >= 0 and i % len(u) == 0:
            return u, i // len(u), codec
    return None, None, None


def boundary_sweep(ctx, asan, plain, sizes):
    """returns a list of failures in the format of evaluate()"""
    combos = sweep_combos(ctx.thorough)
    bufsizes = sorted(set(sizes)) or [512]      # kBufferSize of the writers / XalanOutputStream, from the translator
    # phase 1: references (two alignments far from any buffer end)
    refs = []
    for cb in combos:
        for n in SWEEP_REFS:
            refs.append(sweep_case(*cb, n))
    for i, c in enumerate(refs):
        c.id = "r%d" % i
    res, events = run_cases(ctx, asan, plain, refs, 100)
    failures = [(k, c, d, rp, known_class(c, k)) for k, c, d, rp in events if not k.endswith("-not-reproduced")]
    ref = {}
    for c in refs:
        f = res.get(c.id)
        if f is not None:
            ref[(c.tag[:4], c.tag[5])] = f
    cases = []
    plan = {}
    for cb in combos:
        f0, f1 = ref.get((cb[:4], SWEEP_REFS[0])), ref.get((cb[:4], SWEEP_REFS[1]))
        if f0 is None or f1 is None:
            continue
        if f0[0] != "0":
            base = ("status", f0[0])
            unit, h, codec = b"a", 50, "utf-8"
        else:
            o0, o1 = bytes.fromhex(f0[3]), bytes.fromhex(f1[3])
            unit, h, codec = pad_units(o0)
            if unit is None or o1 != o0.replace(unit * SWEEP_REFS[0], unit * SWEEP_REFS[1], 1):
                ctx.notes.setdefault("not_judged", []).append("boundary sweep: the two reference alignments of %s do not differ by the pad only" % (cb[:4],))
                continue
            base = ("output", o0, unit)
        plan[cb[:4]] = base
        # units the emission occupies in the output (a character reference or an entity is one guarded run)
        if base[0] == "output":
            tail = o0.find("TZ".encode(codec), (h + SWEEP_REFS[0]) * len(unit))
            span = ((tail // len(unit)) - h - SWEEP_REFS[0] if tail >= 0 else 16) + 3
        else:
            span = 12
        span = max(6, min(span, 64))
        if ctx.thorough:
            # from 1: with an empty pad the event stream itself differs (no empty text node / CDATA section, no space in a PI)
            ns = sorted(set(range(1, max(bufsizes) + 48)) | {n for b in bufsizes for n in range(2 * b - h - span, 2 * b - h + 3)})
        else:
            ns = sorted({n for b in bufsizes for n in range(b - h - span, b - h + 3) if n >= 1})
        for n in ns:
            if n not in SWEEP_REFS:
                cases.append(sweep_case(*cb, n))
    for i, c in enumerate(cases):
        c.id = "b%d" % i
    res, events = run_cases(ctx, asan, plain, cases, 120)
    failures += [(k, c, d, rp, known_class(c, k)) for k, c, d, rp in events if not k.endswith("-not-reproduced")]
    for c in cases:
        ctx.cov["evaluations"] += 1
        ctx.count("boundary:%s:%s" % (c.tag[0], c.tag[1]))
        ctx.count("boundary-context:" + c.tag[2])
        ctx.count("boundary-emission:" + c.tag[3])
        f = res.get(c.id)
        if f is None:
            continue
        ctx.cov["traces_validated_against_impl"] += 1
        base = plan[c.tag[:4]]
        n = c.tag[5]
        what = None
        if f[0] == "exc":
            what = "a C++ exception left the entry point: %s" % f[1]
        elif base[0] == "status":
            if f[0] != base[1]:
                what = "status %s, but status %s with a pad of %d characters" % (f[0], base[1], SWEEP_REFS[0])
        elif f[0] != "0":
            what = "status %s, but success with a pad of %d characters" % (f[0], SWEEP_REFS[0])
        else:
            exp = base[1].replace(base[2] * SWEEP_REFS[0], base[2] * n, 1)
            got = bytes.fromhex(f[3])
            if got != exp:
                k = next((i for i in range(min(len(got), len(exp))) if got[i] != exp[i]), min(len(got), len(exp)))
                what = ("output differs from the expectation (reference output with the pad lengthened) at byte %d of %d/%d: got ...%r, expected ...%r"
                        % (k, len(got), len(exp), got[max(0, k - 6):k + 10], exp[max(0, k - 6):k + 10]))
        if what:
            failures.append(("buffer-boundary", c, "%s output in %s, %s context, emission %s (%r) after N=%d pad characters: %s"
                             % (c.tag[0], c.tag[1], c.tag[2], c.tag[3], c.tag[4], n, what), [c.line()], known_class(c, "buffer-boundary")))
    ctx.notes["boundary_sweep"] = {"combinations": len(combos), "cases": len(cases) + len(refs), "alignments_per_combination": (len(cases) // max(1, len(plan)))}
    return failures, cases + refs


# ---------------------------------------------------------------------------------------------
# running

ENV = {"ASAN_OPTIONS": "detect_leaks=1:allocator_may_return_null=1:detect_stack_use_after_return=0:max_malloc_fill_size=0:hard_rss_limit_mb=3000",
       "UBSAN_OPTIONS": "print_stacktrace=1:halt_on_error=1", "LSAN_OPTIONS": "exitcode=23"}
REPORT_RX = re.compile(r"(ERROR: (?:AddressSanitizer|LeakSanitizer)[^\n]*|[^\n]*runtime error:[^\n]*|terminate called[^\n]*|what\(\)[^\n]*)")


# Hang detection is by CPU time, never by wall-clock time (the machine may be heavily loaded).
# Measured once on an idle machine (ASan+UBSan build, one case per process, user+system seconds):
#   slowest known-good quick-tier case     1.1 s   (ladder:literal-elements:1000)
#   slowest known-good thorough-tier case 24.9 s   (ladder:literal-elements:5000; predicates:5000 20.3 s)
#   a batch of 40 ordinary cases           < 6 s
SLOWEST_GOOD_CPU = {"quick": 1.1, "thorough": 24.9}
CPU_FACTOR = 20
BATCH_CPU = 300            # CPU seconds for one batch process (>= 50 x the measured batch cost)
WALL_BACKSTOP = 900        # seconds; expiry is "not judged", never a violation


def single_cpu_limit(thorough):
    return int(max(60, CPU_FACTOR * SLOWEST_GOOD_CPU["thorough" if thorough else "quick"] + 100))


def run_proc(exe, lines, cpu, limit_as=None, limit_stack=None, wall=WALL_BACKSTOP):
    """returns (results {id: fields}, status, last_begun, stderr)
       status: 'ok' | 'cpu-limit' (RLIMIT_CPU hit) | 'wall-backstop' (not judged) | 'exit:<rc>'"""
    def pre():
        resource.setrlimit(resource.RLIMIT_CPU, (int(cpu), int(cpu) + 5))
        if limit_as:
            resource.setrlimit(resource.RLIMIT_AS, (limit_as, limit_as))
        if limit_stack:
            resource.setrlimit(resource.RLIMIT_STACK, (limit_stack, limit_stack))
    env = dict(os.environ)
    env.update(ENV)
    p = subprocess.Popen([exe], stdin=subprocess.PIPE, stdout=subprocess.PIPE, stderr=subprocess.PIPE, env=env, preexec_fn=pre)
    try:
        out, err = p.communicate(("\n".join(lines) + "\n").encode(), timeout=wall)
        if p.returncode == 0:
            status = "ok"
        elif p.returncode in (-24, -9) and b"Sanitizer" not in err and b"runtime error" not in err:
            status = "cpu-limit"      # SIGXCPU at the soft limit (SIGKILL at the hard one)
        else:
            status = "exit:%d" % p.returncode
    except subprocess.TimeoutExpired:
        p.kill()
        out, err = p.communicate()
        status = "wall-backstop"
    res, last = {}, None
    for l in out.decode("utf-8", "replace").split("\n"):
        if l.startswith("#begin "):
            last = l[7:].strip()
        elif l and not l.startswith("#"):
            f = l.split("|")
            res[f[0]] = f[1:]
    return res, status, last, err.decode("utf-8", "replace")


def report_of(err):
    m = REPORT_RX.findall(err)
    frames = re.findall(r"#\d+ 0x[0-9a-f]+ in ([^\n]*)", err)
    lib = [f for f in frames if "/src/xalanc/" in f][:3]
    return (" ; ".join(m[:2]) + (" @ " + " <- ".join(x.split(" /")[-1] if " /" in x else x for x in lib) if lib else ""))[:600]


class Runner:
    def __init__(self, ctx, exe, plain_exe):
        self.ctx, self.exe, self.plain = ctx, exe, plain_exe
        self.single_cpu = single_cpu_limit(ctx.thorough)
        self.events = []      # (kind, case, detail, replay_lines)
        self.not_judged = []

    def batch(self, cases):
        """run the cases in one process; on a crash / CPU-limit hit isolate the case and continue after it"""
        results = {}
        todo = list(cases)
        while todo:
            lines = [c.line() for c in todo]
            cpu = BATCH_CPU if len(todo) > 1 else self.single_cpu
            res, status, last, err = run_proc(self.exe, lines, cpu)
            results.update(res)
            if status == "ok":
                break
            pending = [c for c in todo if c.id not in res]
            if not pending:
                if status == "wall-backstop":
                    self.not_judged.append("wall-clock backstop under load after all cases of a batch answered")
                    break
                # every case answered, the process still failed: leak report or failure at exit
                self.events.append(("exit", None, "%s after all cases answered: %s" % (status, report_of(err)), lines))
                self.isolate_exit(todo)
                break
            culprit = pending[0]
            idx = todo.index(culprit)
            if status == "wall-backstop":
                self.not_judged.append("not judged: wall-clock backstop under load (%s, %d cases of the batch re-queued singly)" % (culprit.cls, len(pending)))
                for c in pending:      # run them one per process; still only the CPU limit judges
                    r1, s1, _, e1 = run_proc(self.exe, [c.line()], self.single_cpu)
                    results.update(r1)
                    if s1 == "wall-backstop":
                        self.not_judged.append("not judged: wall-clock backstop under load (%s, alone)" % c.cls)
                    elif s1 != "ok" and c.id not in r1:
                        self.judge_single(c, s1, e1)
                break
            # isolated re-run: only what the single case does alone counts
            r1, s1, _, e1 = run_proc(self.exe, [culprit.line()], self.single_cpu)
            if s1 == "wall-backstop":
                self.not_judged.append("not judged: wall-clock backstop under load (%s, alone)" % culprit.cls)
            elif s1 != "ok" and culprit.id not in r1:
                self.judge_single(culprit, s1, e1)
            else:
                results.update(r1)
                kind = "hang" if status == "cpu-limit" else ("memory-exhaustion" if "hard rss limit" in err else "crash")
                if status == "cpu-limit":
                    # the batch used up its CPU budget but the case is fine alone: not a hang of this input
                    self.events.append((kind + "-not-reproduced", culprit, status + " in the batch, fine alone", lines[:idx + 1]))
                else:
                    # depends on the history in the same process: shrink the prefix, keeping the culprit last
                    prefix = todo[:idx]

                    def fails(pre):
                        rr, ss, _, _ = run_proc(self.exe, [c.line() for c in pre] + [culprit.line()], BATCH_CPU)
                        return ss not in ("ok", "wall-backstop", "cpu-limit") and culprit.id not in rr
                    if fails(prefix):
                        small = core.shrink_list(prefix, fails, max_steps=40)
                        self.events.append((kind + "-with-history", culprit, status + " " + report_of(err), [c.line() for c in small] + [culprit.line()]))
                    else:
                        self.events.append((kind + "-not-reproduced", culprit, status + " " + report_of(err), lines[:idx + 1]))
            todo = todo[idx + 1:]
        return results

    def judge_single(self, c, s1, e1):
        """the case failed alone under the ASan build with status s1"""
        if s1 == "cpu-limit":
            # a hang is reported only when the plain build, alone, also runs into the CPU limit
            r2, s2, _, e2 = run_proc(self.plain, [c.line()], self.single_cpu)
            if s2 == "cpu-limit":
                self.events.append(("hang", c, "alone, the case exceeds %d s of CPU time in the ASan build and in the plain build "
                                    "(slowest known-good case: %.1f s)" % (self.single_cpu, SLOWEST_GOOD_CPU["thorough" if self.ctx.thorough else "quick"]), [c.line()]))
            else:
                self.not_judged.append("not judged: %s exceeds the CPU limit under ASan only (plain build: %s)" % (c.cls, s2))
            return
        kind = "memory-exhaustion" if "hard rss limit" in e1 else "crash"
        self.events.append((kind, c, (s1 + " " + report_of(e1)).strip(), [c.line()]))

    def isolate_exit(self, cases):
        for c in cases:
            r, s, _, e = run_proc(self.exe, [c.line()], self.single_cpu)
            if s not in ("ok", "wall-backstop", "cpu-limit"):
                self.events.append(("exit-single", c, s + " " + report_of(e), [c.line()]))
                return


TAG_RX = re.compile(rb"<(/?)([A-Za-z_][\w:.\-]*)((?:[^>'\"]|'[^']*'|\"[^\"]*\")*?)(/?)>")


def misplaced_with_param(sheet_bytes):
    """known finding K-new-5: an xsl:with-param whose parent is not xsl:call-template / xsl:apply-templates"""
    stack = []
    for m in TAG_RX.finditer(sheet_bytes):
        close, name, _, selfclose = m.group(1), m.group(2), m.group(3), m.group(4)
        if close:
            if stack:
                stack.pop()
            continue
        if name == b"xsl:with-param" and (not stack or stack[-1] not in (b"xsl:call-template", b"xsl:apply-templates")):
            return True
        if not selfclose:
            stack.append(name)
    return False


def self_recursive_template(sheet_bytes):
    """known finding K19: a named template that calls itself (depth bounded only by its data)"""
    for m in re.finditer(rb"<xsl:template\b[^>]*\bname=(['\"])([^'\"]*)\1[^>]*>(.*?)</xsl:template>", sheet_bytes, re.S):
        if re.search(rb"<xsl:call-template\b[^>]*\bname=(['\"])" + re.escape(m.group(2)) + rb"\1", m.group(3)):
            return True
    return False


def known_class(c, kind):
    """the known-finding class of a failing case, decided from the input alone (same guards as the generators use)"""
    if c is None:
        return None
    if c.known:
        return c.known
    S = b_(c.S)
    if c.entry in "TCA":
        if misplaced_with_param(S):
            return "K-new-5"
        for mm in re.finditer(rb"\bmatch=(['\"])(.*?)\1", S, re.S):
            if any(re.fullmatch(rb"\s*/\s*/\s*", alt) for alt in mm.group(2).split(b"|")):
                return "K-new-6"      # a pattern, or an alternative of a union, that is just '//' (also written '/ /')
        if any(a not in (b"disable-output-escaping", b"xml:space")
               for t in re.findall(rb"<xsl:text\b([^>]*)>", S) for a in re.findall(rb"([A-Za-z_][\w:.\-]*)\s*=", re.sub(rb"'[^']*'|\"[^\"]*\"", b"''", t))):
            return "K-new-4"
        if kind in ("hang", "memory-exhaustion", "escaped-exception") and self_recursive_template(S):
            return "K19"
        for a in re.findall(rb"str:padding\s*\(([^,)]*)", S):
            if not re.fullmatch(rb"\s*\d{1,4}\s*", a):
                return "K-new-2"      # length argument other than a small non-negative integer literal
        for a in re.findall(rb"math:constant\s*\(\s*(?:'[^']*'|\"[^\"]*\"|&quot;.*?&quot;)\s*,([^)]*)", S):
            if not (re.fullmatch(rb"\s*\d{1,2}\s*", a) and int(a) < 17):
                return "K-new-1"      # precision that is not a literal below the smallest table size
    if c.P and any("$" in v for v in c.P.values() if isinstance(v, str)):
        return "K-new-3"
    return None


def judge(c, f):
    """f = [status, m, post, hexout, len]; returns None or (kind, text)"""
    if f[0] == "exc":
        return ("escaped-exception", "a C++ exception left the entry point: %s (follow-up: %s)" % (f[1], f[2]))
    rc, m, post = int(f[0]), f[1], f[2]
    if post.startswith("bad"):
        return ("unusable-after-failure", "after status %d the same transformer/evaluator fails the known-good job: %s" % (rc, post))
    if rc != 0 and m != "1":
        return ("empty-message", "status %d with an empty error message" % rc)
    if rc == 0 and c.expect is not None:
        out = bytes.fromhex(f[3]).decode("utf-8", "replace") if len(f) > 3 else ""
        n = int(f[4]) if len(f) > 4 and f[4].isdigit() else len(out)
        kind, val = c.expect
        if kind == "text" and out != val:
            return ("wrong-output", "output %r, expected %r" % (out, val))
        if kind == "count" and n <= 96 and out != str(val):
            return ("wrong-output", "xsl:number printed %r, expected %r" % (out, str(val)))
        if kind == "number" and n <= 96:
            if not re.fullmatch(r"-?\d+(\.\d+)?|NaN|-?Infinity", out):
                return ("wrong-output", "string(number) = %r is not a number" % out)
            if out not in ("NaN", "Infinity", "-Infinity") and float(out) != val and not (abs(val) < 2.0 ** -63):
                return ("wrong-output", "string(%r) = %r does not convert back" % (val, out))
    return None


def corpus_cases():
    """replays of the known findings; keyed by class, each run in its own process"""
    inf = sheet("<xsl:template match='/'><xsl:call-template name='r'/></xsl:template><xsl:template name='r'>x<xsl:call-template name='r'/></xsl:template>")
    return {
        "K19": Case("T", inf, cls="corpus:K19"),
        "K20": Case("X", X="(" * 20000 + "1" + ")" * 20000, D="<a/>", cls="corpus:K20"),
        "K9": Case("T", tmpl("<xsl:number value='1" + "0" * 30 + "'/>"), cls="corpus:K9", expect=("count", int(1e30))),
        "K-new-1": Case("T", vo("math:constant('PI', 50)"), cls="corpus:K-new-1"),
        "K-new-2": Case("T", vo("str:padding(-1)"), cls="corpus:K-new-2"),
        "K-new-3": Case("T", sheet("<xsl:param name='p' select='1'/><xsl:template match='/'><xsl:value-of select='$p'/></xsl:template>"), P={"p": "$q"}, cls="corpus:K-new-3"),
        "K-new-4": Case("T", tmpl("<xsl:text bogus='1'></xsl:text>", "xml"), cls="corpus:K-new-4"),
        "K-new-5": Case("T", tmpl("<xsl:if test='1'><xsl:with-param name='w' select='1'/></xsl:if>", "xml"), cls="corpus:K-new-5"),
        "K-new-6": Case("T", sheet("<xsl:template match='/ /'>x</xsl:template>"), cls="corpus:K-new-6"),
        # repaired by 6d0ffbc: xsl:copy of an element where only text nodes can be created popped stacks it never pushed (SIGSEGV)
        "K-core2-2": Case("T", tmpl("<o><xsl:for-each select='//*'><xsl:processing-instruction name='p'><xsl:copy/></xsl:processing-instruction>"
                                     "<xsl:attribute name='a'><xsl:copy>x</xsl:copy></xsl:attribute></xsl:for-each></o>", "xml"), cls="corpus:K-core2-2"),
    }


def write_corpus():
    d = os.path.join(core.VERIF, "corpus", "C03")
    os.makedirs(d, exist_ok=True)
    for k, c in corpus_cases().items():
        c.id = k
        p = os.path.join(d, k.lower().replace("-", "") + ".txt")
        txt = "# C03 %s: feed this line to .build/safe_asan or .build/safe_plain (see props/C03.py corpus_cases)\n%s\n" % (k, c.line())
        if not os.path.exists(p) or open(p).read() != txt:
            with open(p, "w") as f:
                f.write(txt)


def build_cases(ctx, scale):
    r = ctx.rng
    facts = ctx.notes.get("safe_facts") or {}
    sizes = sorted(set(facts.get("sizes") or [100, 101, 200, 347, 512, 1024]) | {100, 200, 512, 1024, 4096})
    allexp = list(range(-330, 310))
    if ctx.thorough:
        exps = allexp * 3
        depths, fn_depths = [10, 100, 1000, 5000], [10, 100, 1000]
    else:
        edge = [-330, -324, -323, -308, -64, -63, -36, -35, -19, -1, 0, 1, 9, 10, 15, 16, 17, 18, 19, 20, 21, 22, 23, 38, 63, 88, 89, 90, 99, 100, 101, 199, 200, 307, 308, 309]
        exps = edge + r.sample(allexp, 60 * scale)
        depths, fn_depths = [10, 100, 1000], [10, 100, 1000]      # 5000 only in the thorough tier (25 s of CPU under ASan)
    cases = []
    cases += gen_numbers(ctx, exps)
    cases += gen_ladders(ctx, depths, fn_depths)
    cases += gen_long(ctx, sizes)
    cases += gen_number_walks(ctx)
    cases += gen_unicode(ctx, (40 if not ctx.thorough else 600) * scale)
    cases += gen_elements(ctx, (150 if not ctx.thorough else 4000) * scale)
    cases += gen_mutations(ctx, (170 if not ctx.thorough else 6000) * scale)
    for e in range(-330, 310, 13 if not ctx.thorough else 1):      # platform-layer conversions, every magnitude
        for x in (float("1e%d" % e), -float("1.7976931348623157e%d" % min(e, 308))):
            import struct
            cases.append(Case("N", X="%016x" % struct.unpack(">Q", struct.pack(">d", x))[0], cls="num:platform-conversions"))
    for i, c in enumerate(cases):
        c.id = "c%d" % i
    return cases


def run_cases(ctx, exe, plain, cases, batch_size):
    heavy = [c for c in cases if c.cls.startswith("ladder:")]
    light = [c for c in cases if not c.cls.startswith("ladder:")]
    batches = [light[i:i + batch_size] for i in range(0, len(light), batch_size)] + [[c] for c in heavy]
    runner = Runner(ctx, exe, plain)
    results = {}
    with ThreadPoolExecutor(core.NPROC) as ex:
        for res in ex.map(runner.batch, batches):
            results.update(res)
    if runner.not_judged:
        ctx.notes.setdefault("not_judged", []).extend(runner.not_judged)
    return results, runner.events


def evaluate(ctx, exe, plain, cases, batch_size=40):
    results, events = run_cases(ctx, exe, plain, cases, batch_size)
    failures = []     # (kind, case or None, text, replay lines, known key or None)
    for kind, c, detail, replay in events:
        if kind.endswith("-not-reproduced"):
            # a batch ended early but neither the case alone nor the batch prefix reproduces it (machine load): recorded, not judged
            ctx.notes.setdefault("not_reproduced", []).append("%s %s %s" % (kind, c.cls if c else "-", detail[:120]))
            continue
        failures.append((kind, c, detail, replay, known_class(c, kind)))
    status_hist = {}
    for c in cases:
        ctx.count(c.cls.split(":")[0] + ":" + c.cls.split(":")[1] if ":" in c.cls else c.cls)
        ctx.count("entry:" + c.entry)
        f = results.get(c.id)
        ctx.cov["evaluations"] += 1
        if f is None:
            continue
        ctx.cov["traces_validated_against_impl"] += 1
        status_hist[f[0]] = status_hist.get(f[0], 0) + 1
        j = judge(c, f)
        if j:
            failures.append((j[0], c, j[1], [c.line()], known_class(c, j[0])))
    return failures, status_hist


def observe(ctx, exe, c, **limits):
    """run one corpus case alone; returns None (fine: reported error or correct result), a text (what fails),
       and records 'not judged' when only the wall-clock backstop ended the run"""
    r, s, _, e = run_proc(exe, [c.line()], single_cpu_limit(True), **limits)
    f = r.get(c.id)
    if s == "wall-backstop":
        ctx.notes.setdefault("not_judged", []).append("not judged: wall-clock backstop under load (corpus %s)" % c.id)
        return None
    if f is not None:
        j = judge(c, f)
        if j:
            return j[1]
        return None if s == "ok" else "answered, then the process ended with %s %s" % (s, report_of(e))
    return ("%s %s" % (s, report_of(e))).strip()


def replay_known(ctx, plain, asan):
    """re-run every stored replay on the current tree; returns {key: observed failure text or None}"""
    cs = corpus_cases()
    for k, c in cs.items():
        c.id = k
    obs = {}
    # K19: unbounded template recursion under a 1.5 GB address-space limit (plain build)
    obs["K19"] = observe(ctx, plain, cs["K19"], limit_as=1500 << 20)
    # K20: 20000 nested parentheses on a 1 MB stack (100000 on the default 8 MB stack need 30 s)
    obs["K20"] = observe(ctx, plain, cs["K20"], limit_stack=1 << 20)
    obs["K9"] = observe(ctx, plain, cs["K9"])
    for k in sorted(cs):
        if k not in obs:
            obs[k] = observe(ctx, asan, cs[k])
            if obs[k] is None and k in ("K-new-2", "K-new-3", "K-new-5", "K-new-6"):
                obs[k] = observe(ctx, plain, cs[k])      # these end the plain build with SIGSEGV
    return obs


def run(ctx):
    ctx.assumptions += [
        "PARTIAL: Coq covers the enumerated mechanisms only (fixed buffers of the census, catch tables, cast guards); memory safety of all other code, stack depth and leaks are sampled under ASan+UBSan+LSan, not proved",
        "exceptions outside the five caught families (std::exception family, xercesc::OutOfMemoryException) are not raised: they would leave transform() (uncaught_exception_classes); template recursion is cut at eMaximumTemplateNestingDepth, genuine memory exhaustion by huge inputs remains outside the claim",
        "conflicts_bound: the patterns visited by findTemplate are pairwise distinct and at most m_patternCount (C10's model), priorities above the 'none' score",
        "integer conversions are instantiated with at most 64-bit scalar types; sprintf behaves as modelled in C18 (printf_fits)",
        "census keys identify a site by file, text and count; the enclosing guards of a cast beyond its own statement are audited by hand",
        "sanitizer build: GCC -fsanitize=address,undefined (float-cast-overflow is not part of it: the range guards in front of the casts are anchored by the translator and proved sufficient, cast_guarded_*)",
    ]
    for v in ("plain", "asan"):
        ok_lib, liblog = core.build_lib(v)
        if not ok_lib:
            ctx.broken.append("library (%s) does not build from the working tree: %s" % (v, liblog[-500:]))
            return ctx.finish(LEVEL)
    proved = ctx.prove(["Properties_C03.v"], ["GenSafe", "GenNum"])
    try:
        import srcfacts
        ctx.notes["safe_facts"] = {k: v for k, v in srcfacts.GENERATORS["GenSafe"]()[1].items() if k != "cast_list"}
    except Exception as e:       # the translator failure is already recorded by prove()
        ctx.notes["safe_facts"] = {}
    plain, ok_p, plog = core.build_harness("safe", "plain")
    asan, ok_a, alog = core.build_harness("safe", "asan")
    if not (ok_p and ok_a):
        ctx.broken.append("harness does not compile against the working tree: " + (plog + alog)[-600:])
        return ctx.finish(LEVEL)
    write_corpus()
    known = {k["key"]: k for k in ctx.known.for_property("C03")}
    ctx.notes["rule"] = ("distinct_nontrivial = distinct (entry point, stylesheet, source, expression, params) inputs that reached the library and produced a status line; "
                         "every case line is one API call sequence on a long-lived transformer/evaluator followed, after a failure, by the known-good job")

    # corpus: re-confirm the known findings
    obs = replay_known(ctx, plain, asan)
    ctx.notes["known_replays"] = obs
    for k, o in sorted(obs.items()):
        if o is not None and k in known:
            ctx.known_finding("%s %s [observed: %s]" % (k, known[k]["what"], o[:200]))
        elif o is not None:
            ctx.violation("corpus_" + k, "# C03 corpus replay %s fails and is not listed as a known finding: %s\n%s" % (k, o, corpus_cases()[k].line() if False else ""))

    scale = 1
    cases = build_cases(ctx, scale)
    ctx.cov["samples"] = [("%s %s" % (c.cls, (c.X or c.S)[:100])) for c in cases[:3] + cases[len(cases) // 2: len(cases) // 2 + 3] + cases[-3:]]
    failures, hist = evaluate(ctx, asan, plain, cases)
    bf, bcases = boundary_sweep(ctx, asan, plain, (ctx.notes.get("safe_facts") or {}).get("writer_sizes") or [])
    failures += bf
    cases = cases + bcases
    new = [f for f in failures if not (f[4] and f[4] in known)]
    if (not proved or ctx.broken) and not new and not ctx.thorough:
        ctx.escalated = True
        more = build_cases(ctx, 3)
        for i, c in enumerate(more):
            c.id = "w%d" % i
        f2, h2 = evaluate(ctx, asan, plain, more)
        failures += f2
        for k, v in h2.items():
            hist[k] = hist.get(k, 0) + v
        cases += more
    ctx.cov["distinct_nontrivial"] = len({(c.entry, b_(c.S), b_(c.D), b_(c.X), tuple(sorted((c.P or {}).items()))) for c in cases})
    ctx.notes["status_histogram"] = hist
    reported = {}
    new = []
    for f in failures:
        if f[4] and f[4] in known:
            reported[f[4]] = reported.get(f[4], 0) + 1
        else:
            new.append(f)
    ctx.notes["known_class_hits"] = reported
    for k in sorted(reported):
        if not any(w.startswith(k + " ") for w in ctx.known_lines):
            ctx.known_finding("%s %s" % (k, known[k]["what"]))
    seen_kinds = {}
    for kind, c, text, replay, _ in new:
        key = (kind, re.sub(r"0x[0-9a-f]+|\d+", "#", text)[:160])
        if key in seen_kinds:
            seen_kinds[key] += 1
            continue
        seen_kinds[key] = 1
        if len(seen_kinds) > 12:
            continue
        head = "# C03 %s: %s\n# class: %s\n# replay: feed the line(s) below to .build/safe_asan (stdin)\n" % (kind, text, c.cls if c else "-")
        ctx.violation(kind.replace("-", "_"), head + "\n".join(replay))
    ctx.notes["oracle_failures"] = len(new)
    # erroneous-input streams + the guard models (circular definitions, depth limits): props/C03_errors.py
    if os.path.exists(os.path.join(core.VERIF, "props", "C03_errors.py")) and os.environ.get("VERIF_C03_NO_ERRORS_PART") != "1":
        __import__("importlib").import_module("props.C03_errors").run_part(ctx)
    return ctx.finish(LEVEL, explanation="theorems over generated buffer/catch/cast facts and the audited census + sanitizer-supported exploration of all entry points (partial by design)")


def replay(ctx, path):
    core.build_lib("asan")
    exe, ok, log = core.build_harness("safe", "asan")
    lines = [l.strip() for l in open(path) if l.strip() and not l.startswith("#")]
    res, status, last, err = run_proc(exe, lines, single_cpu_limit(True))
    print(status, report_of(err))
    for k, v in res.items():
        print(k, "|".join(v)[:300])
    return 0 if status == "ok" else 1
