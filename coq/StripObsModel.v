(* C13 — keys, xsl:number level="single" and sort keys are strip-equivalent (from the lemmas of StripTreeModel.v) *)
From Coq Require Import String List NArith Bool.
Require Import XV.StripDefs XV.StripTreeModel XV.StripObsDefs.
Open Scope list_scope.
Import ListNotations.

Lemma ctx_string_equiv : forall st c, ctx_visible st c = true ->
  ctx_string no_strip (strip_ctx st c) = ctx_string st c.
Proof.
  intros st c H. unfold ctx_string, strip_ctx. cbn [c_pk c_self].
  apply rs_string_value. unfold ctx_visible, visible in H. destruct (stripped st (c_pk c) (c_self c)); [discriminate|reflexivity].
Qed.

Lemma filter_map_visible : forall st (f g : ctx -> bool) (l : list ctx),
  Forall (fun c => ctx_visible st c = true) l ->
  (forall c, ctx_visible st c = true -> g (strip_ctx st c) = f c) ->
  map (strip_ctx st) (filter f l) = filter g (map (strip_ctx st) l).
Proof.
  intros st f g l H E. induction l as [|x r IH]; [reflexivity|].
  inversion H as [|? ? Hx Hr]; subst. cbn [filter map]. rewrite (E x Hx).
  destruct (f x); cbn [map]; rewrite IH; auto.
Qed.

Lemma root_visible : forall st n a ks, ctx_visible st (root_ctx (Elem n a ks)) = true.
Proof. reflexivity. Qed.

Lemma strip_root : forall st d, strip_ctx st (root_ctx d) = root_ctx (remove_stripped st root_key d).
Proof. reflexivity. Qed.

Lemma all_matching_equiv : forall st m n a ks,
  map (strip_ctx st) (all_matching st m (Elem n a ks)) = all_matching no_strip m (remove_stripped st root_key (Elem n a ks)).
Proof.
  intros. unfold all_matching. rewrite path_equiv by apply root_visible. rewrite strip_root. reflexivity.
Qed.

Lemma all_matching_visible : forall st m n a ks,
  Forall (fun c => ctx_visible st c = true) (all_matching st m (Elem n a ks)).
Proof. intros. unfold all_matching. apply path_visible. apply root_visible. Qed.

Theorem key_dot_equiv : forall st m v n a ks,
  map (strip_ctx st) (key_dot st m v (Elem n a ks)) = key_dot no_strip m v (remove_stripped st root_key (Elem n a ks)).
Proof.
  intros. unfold key_dot. rewrite <- all_matching_equiv.
  apply filter_map_visible; [apply all_matching_visible|].
  intros c Hc. rewrite ctx_string_equiv by exact Hc. reflexivity.
Qed.

Lemma text_children_values_equiv : forall st c, ctx_visible st c = true ->
  text_children_values no_strip (strip_ctx st c) = text_children_values st c.
Proof.
  intros st c H. unfold text_children_values. rewrite <- step_equiv by exact H.
  rewrite map_map. apply map_ext_in. intros x Hx. apply ctx_string_equiv.
  pose proof (step_visible st {| s_axis := AxChild; s_test := TText; s_pred := PAll |} c H) as V.
  rewrite Forall_forall in V. apply V. exact Hx.
Qed.

Theorem key_text_equiv : forall st m v n a ks,
  map (strip_ctx st) (key_text st m v (Elem n a ks)) = key_text no_strip m v (remove_stripped st root_key (Elem n a ks)).
Proof.
  intros. unfold key_text. rewrite <- all_matching_equiv.
  apply filter_map_visible; [apply all_matching_visible|].
  intros c Hc. rewrite text_children_values_equiv by exact Hc. reflexivity.
Qed.

Theorem number_single_equiv : forall st t c, ctx_visible st c = true ->
  number_single no_strip t (strip_ctx st c) = number_single st t c.
Proof.
  intros st t c H. unfold number_single. cbn [strip_ctx c_self]. rewrite test_node_rs.
  destruct (test_node t (c_self c)); [|reflexivity].
  rewrite <- step_equiv by exact H. rewrite map_length. reflexivity.
Qed.

Theorem sort_keys_equiv : forall st l, Forall (fun c => ctx_visible st c = true) l ->
  sort_keys no_strip (map (strip_ctx st) l) = sort_keys st l.
Proof.
  intros st l H. unfold sort_keys. rewrite map_map. apply map_ext_in. intros c Hc.
  apply ctx_string_equiv. rewrite Forall_forall in H. apply H. exact Hc.
Qed.
