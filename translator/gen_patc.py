"""C09 (part "compile", family patc) - facts of the match-pattern compiler and of the match scores consumed by
coq/PatcDefs.v / PatcScoreDefs.v (GenPatc.v).  Regenerated from /repo on every run; fail closed (AnchorError).

  XPathProcessorImpl::Pattern / LocationPathPattern / IdKeyPattern / RelativePathPattern / StepPattern /
  AbbreviatedNodeTestStep / Argument / initMatchPattern
        the whole function body (comments stripped, white space squeezed) must be the text the model was written from;
        the MATCH_* / FROM_ROOT / NODETYPE_* op codes each body appends are emitted in source order, the keywords the
        bodies test (s_functionIDString, s_functionKeyString, s_childString, s_attributeString) as code units
  XPath::eMatchScore      enumerators in order (the order is the priority order the stylesheet relies on)
  XPath::NodeTester::testXxx    every two-argument test function returns eMatchScoreNone or exactly ONE other score:
        emitted as (function, score); the constructor's dispatch on the node-test op code and the step type is matched
        as a whole
  XPath::getTargetData    whole body matched; the scores of its switch are emitted
"""
import re
import srcfacts
from srcfacts import AnchorError, need, read, strip_comments, function_body, HEADER
import gen_xpc
from gen_xpc import _squeeze, _nl, _n, _b

PI_CPP = "XPath/XPathProcessorImpl.cpp"
XP_CPP = "XPath/XPath.cpp"
XP_HPP = "XPath/XPath.hpp"

_BODIES = {
    "Pattern": """{ while(true) { LocationPathPattern(); if(tokenIs(XalanUnicode::charVerticalLine) == true) { nextToken(); }
        else { break; } } }""",
    "IdKeyPattern": "{ m_requireLiterals = true; FunctionCall(); m_requireLiterals = false; }",
    "RelativePathPattern": "{ StepPattern(); while(tokenIs(XalanUnicode::charSolidus) == true) { nextToken(); StepPattern(); } }",
    "StepPattern": "{ AbbreviatedNodeTestStep(); }",
    "Argument": """{ assert(m_expression != 0); if (m_requireLiterals == false || isCurrentLiteral() == true) { Expr(); }
        else { error(XalanMessages::LiteralArgumentIsRequired); } }""",
    "LocationPathPattern": """{ assert(m_xpath != 0); assert(m_expression != 0);
        const int opPos = m_expression->opCodeMapLength();
        m_expression->appendOpCode(XPathExpression::eOP_LOCATIONPATHPATTERN);
        bool fStepRequired = false;
        if(lookahead(XalanUnicode::charLeftParenthesis, 1) == true && (tokenIs(s_functionIDString) == true || tokenIs(s_functionKeyString) == true))
        { IdKeyPattern();
          if(tokenIs(XalanUnicode::charSolidus) == true && lookahead(XalanUnicode::charSolidus, 1) == true)
          { const int newOpPos = m_expression->opCodeMapLength();
            const XPathExpression::OpCodeMapValueVectorType theArgs(1, 4, m_constructionContext->getMemoryManager());
            m_expression->appendOpCode(XPathExpression::eMATCH_ANY_ANCESTOR_WITH_FUNCTION_CALL, theArgs);
            m_expression->updateOpCodeLength(newOpPos);
            nextToken(); } }
        else if(tokenIs(XalanUnicode::charSolidus) == true)
        { const int newOpPos = m_expression->opCodeMapLength();
          const XPathExpression::OpCodeMapValueVectorType theArgs(1, 4, m_constructionContext->getMemoryManager());
          if(lookahead(XalanUnicode::charSolidus, 1) == true)
          { m_expression->appendOpCode( XPathExpression::eMATCH_ANY_ANCESTOR_WITH_PREDICATE, theArgs);
            m_expression->appendOpCode(XPathExpression::eNODETYPE_NODE);
            nextToken();
            fStepRequired = true; }
          else
          { m_expression->appendOpCode(XPathExpression::eFROM_ROOT, theArgs);
            m_expression->appendOpCode(XPathExpression::eNODETYPE_ROOT); }
          m_expression->updateOpCodeLength(newOpPos);
          nextToken(); }
        if (fStepRequired == true && (m_token.empty() == true || tokenIs(XalanUnicode::charVerticalLine) == true))
        { error(XalanMessages::ExpectedNodeTest); }
        if(m_token.empty() == false)
        { if (!tokenIs(XalanUnicode::charVerticalLine) == true) { RelativePathPattern(); }
          else if (lookahead(XalanUnicode::charVerticalLine, -1) == true) { error( XalanMessages::UnexpectedTokenFound_1Param, m_token); } }
        m_expression->appendOpCode(XPathExpression::eENDOP);
        m_expression->updateOpCodeLength(XPathExpression::eOP_LOCATIONPATHPATTERN, opPos); }""",
    "AbbreviatedNodeTestStep": """{ assert(m_xpath != 0); assert(m_expression != 0);
        const int opPos = m_expression->opCodeMapLength();
        int matchTypePos = -1;
        XPathExpression::eOpCodes axisType = XPathExpression::eENDOP;
        if(tokenIs(XalanUnicode::charCommercialAt) == true)
        { axisType = XPathExpression::eMATCH_ATTRIBUTE; m_expression->appendOpCode(axisType); nextToken(); }
        else if(lookahead(s_axisString, 1) == true)
        { if(tokenIs(s_attributeString) == true) { axisType = XPathExpression::eMATCH_ATTRIBUTE; m_expression->appendOpCode(axisType); }
          else if(tokenIs(s_childString) == true)
          { matchTypePos = m_expression->opCodeMapLength(); axisType = XPathExpression::eMATCH_IMMEDIATE_ANCESTOR; m_expression->appendOpCode(axisType); }
          else { error(XalanMessages::OnlyChildAndAttributeAxesAreAllowed); }
          nextToken(); nextToken(); }
        else if(tokenIs(XalanUnicode::charSolidus) == true)
        { if(lookahead(s_axisString, 2) == false && lookahead(XalanUnicode::charCommercialAt, 1) == false)
          { matchTypePos = m_expression->opCodeMapLength(); axisType = XPathExpression::eMATCH_IMMEDIATE_ANCESTOR; m_expression->appendOpCode(axisType); }
          else
          { nextToken();
            if (tokenIs(XalanUnicode::charCommercialAt) == true) { axisType = XPathExpression::eMATCH_ATTRIBUTE; m_expression->appendOpCode(axisType); }
            else
            { if(tokenIs(s_attributeString) == true) { axisType = XPathExpression::eMATCH_ATTRIBUTE; m_expression->appendOpCode(axisType); }
              else if(tokenIs(s_childString) == true)
              { matchTypePos = m_expression->opCodeMapLength(); axisType = XPathExpression::eMATCH_IMMEDIATE_ANCESTOR; m_expression->appendOpCode(axisType); }
              else { error(XalanMessages::OnlyChildAndAttributeAxesAreAllowed); }
              nextToken(); } }
          nextToken(); }
        else
        { if(tokenIs(XalanUnicode::charSolidus) == true) { nextToken(); }
          matchTypePos = m_expression->opCodeMapLength(); axisType = XPathExpression::eMATCH_IMMEDIATE_ANCESTOR; m_expression->appendOpCode(axisType); }
        m_expression->appendOpCode(XPathExpression::eENDOP);
        NodeTest();
        m_expression->updateOpCodeLengthAfterNodeTest(opPos);
        while(tokenIs(XalanUnicode::charLeftSquareBracket) == true) { Predicate(); }
        if(matchTypePos > -1 && tokenIs(XalanUnicode::charSolidus) == true && lookahead(XalanUnicode::charSolidus, 1) == true)
        { assert(m_expression->opCodeMapLength() > matchTypePos);
          m_expression->setOpCodeMapValue(matchTypePos, XPathExpression::eMATCH_ANY_ANCESTOR); }
        m_expression->updateOpCodeLength(opPos); }""",
}

# the same functions after fixes/C09c/01_pattern_grammar.patch (each function: exactly one of the two texts)
_BODIES_FIXED = {
    "Argument": """{
 assert(m_expression != 0);
 if (m_requireLiterals == false)
 {
 Expr();
 }
 else if (isCurrentLiteral() == true)
 {
 PrimaryExpr();
 if (tokenIs(XalanUnicode::charComma) == false &&
 tokenIs(XalanUnicode::charRightParenthesis) == false)
 {
 error(XalanMessages::LiteralArgumentIsRequired);
 }
 }
 else
 {
 error(XalanMessages::LiteralArgumentIsRequired);
 }
}""",
    "IdKeyPattern": """{
 assert(m_expression != 0);
 const int opPos = m_expression->opCodeMapLength();
 const bool fKey = tokenIs(s_functionKeyString);
 m_requireLiterals = true;
 FunctionCall();
 m_requireLiterals = false;
 const int argCount = m_expression->getOpCodeMapValue(opPos + 3);
 if (fKey == true && argCount != 2)
 {
 error(
 XalanMessages::FunctionTakesTwoArguments_1Param,
 s_functionKeyString);
 }
 else if (fKey == false && argCount != 1)
 {
 error(
 XalanMessages::FunctionAcceptsOneArgument_1Param,
 s_functionIDString);
 }
}""",
    "LocationPathPattern": """{
 assert(m_xpath != 0);
 assert(m_expression != 0);
 const int opPos = m_expression->opCodeMapLength();
 m_expression->appendOpCode(XPathExpression::eOP_LOCATIONPATHPATTERN);
 bool fStepRequired = false;
 bool fHead = false;
 if(lookahead(XalanUnicode::charLeftParenthesis, 1) == true &&
 (tokenIs(s_functionIDString) == true ||
 tokenIs(s_functionKeyString) == true))
 {
 IdKeyPattern();
 fHead = true;
 if (m_token.empty() == false &&
 tokenIs(XalanUnicode::charSolidus) == false &&
 tokenIs(XalanUnicode::charVerticalLine) == false)
 {
 error(
 XalanMessages::UnexpectedTokenFound_1Param,
 m_token);
 }
 if(tokenIs(XalanUnicode::charSolidus) == true && lookahead(XalanUnicode::charSolidus, 1) == true)
 {
 const int newOpPos = m_expression->opCodeMapLength();
 const XPathExpression::OpCodeMapValueVectorType theArgs(1, 4, m_constructionContext->getMemoryManager());
 m_expression->appendOpCode(XPathExpression::eMATCH_ANY_ANCESTOR_WITH_FUNCTION_CALL,
 theArgs);
 m_expression->updateOpCodeLength(newOpPos);
 nextToken();
 }
 }
 else if(tokenIs(XalanUnicode::charSolidus) == true)
 {
 const int newOpPos = m_expression->opCodeMapLength();
 fHead = true;
 const XPathExpression::OpCodeMapValueVectorType theArgs(1, 4, m_constructionContext->getMemoryManager());
 if(lookahead(XalanUnicode::charSolidus, 1) == true)
 {
 m_expression->appendOpCode(
 XPathExpression::eMATCH_ANY_ANCESTOR_WITH_PREDICATE,
 theArgs);
 m_expression->appendOpCode(XPathExpression::eNODETYPE_NODE);
 nextToken();
 fStepRequired = true;
 }
 else
 {
 m_expression->appendOpCode(XPathExpression::eFROM_ROOT,
 theArgs);
 m_expression->appendOpCode(XPathExpression::eNODETYPE_ROOT);
 }
 m_expression->updateOpCodeLength(newOpPos);
 nextToken();
 }
 if (m_token.empty() == false &&
 tokenIs(XalanUnicode::charVerticalLine) == false)
 {
 if (fStepRequired == true &&
 tokenIs(XalanUnicode::charSolidus) == true)
 {
 error(XalanMessages::ExpectedNodeTest);
 }
 RelativePathPattern();
 }
 else if (fStepRequired == true || fHead == false)
 {
 error(XalanMessages::ExpectedNodeTest);
 }
 m_expression->appendOpCode(XPathExpression::eENDOP);
 m_expression->updateOpCodeLength(XPathExpression::eOP_LOCATIONPATHPATTERN,
 opPos);
}""",
}

# the part of initMatchPattern after tokenize()
_INIT_TAIL = """tokenize(expression); m_expression->appendOpCode(XPathExpression::eOP_MATCHPATTERN); nextToken(); Pattern();
    if (m_token.empty() == false) { error(XalanMessages::ExtraIllegalTokens); } m_expression->appendOpCode(XPathExpression::eENDOP);
    m_expression->shrink();"""

SCORES = ["eMatchScoreNone", "eMatchScoreNodeTest", "eMatchScoreNSWild", "eMatchScoreQName", "eMatchScoreOther"]

# the model's view of NodeTester's constructor: (node-test shape, attribute-like step?) -> test function
_DISPATCH = [
    ("eNODETYPE_COMMENT", None, "testComment"), ("eNODETYPE_TEXT", None, "testText"),
    ("eNODETYPE_PI/1", None, "testPI"), ("eNODETYPE_PI/2", None, "testPIName"),
    ("eNODETYPE_NODE", True, "testAttributeTotallyWild"), ("eNODETYPE_NODE", False, "testNode"),
    ("eNODETYPE_ROOT", None, "testRoot"),
    ("eNODENAME/wild", True, "testAttributeTotallyWild"), ("eNODENAME/nc", True, "testAttributeNCName"),
    ("eNODENAME/ns", True, "testAttributeNamespaceOnly"), ("eNODENAME/q", True, "testAttributeQName"),
    ("eNODENAME/wild", False, "testElementTotallyWild"), ("eNODENAME/nc", False, "testElementNCName"),
    ("eNODENAME/ns", False, "testElementNamespaceOnly"), ("eNODENAME/q", False, "testElementQName"),
]


TESTERS = ["testComment", "testText", "testPI", "testPIName", "testNode", "testRoot", "testAttributeNCName", "testAttributeQName",
           "testAttributeNamespaceOnly", "testAttributeTotallyWild", "testElementNCName", "testElementQName",
           "testElementNamespaceOnly", "testElementTotallyWild", "testDefault"]
SHAPES = ["eNODETYPE_COMMENT", "eNODETYPE_TEXT", "eNODETYPE_PI/1", "eNODETYPE_PI/2", "eNODETYPE_NODE", "eNODETYPE_ROOT",
          "eNODENAME/wild", "eNODENAME/nc", "eNODENAME/ns", "eNODENAME/q"]


def _body(cpp, name):
    return _squeeze(function_body(cpp, r"\nXPathProcessorImpl::%s\s*\(\s*\)\s*\{" % name, "XPathProcessorImpl::" + name))


def _tester_scores(xp):
    """every XPath::NodeTester::testXxx(const XalanNode&, XalanNode::NodeType) const: the scores it can return"""
    out = []
    for m in re.finditer(r"XPath::eMatchScore\s+XPath::NodeTester::(test\w+)\s*\(\s*const\s+XalanNode\s*&[^)]*\)\s*const\s*\{", xp):
        name = m.group(1)
        body = function_body(xp[m.start():], r"XPath::NodeTester::%s\s*\([^)]*\)\s*const\s*\{" % name, "NodeTester::" + name)
        rets = re.findall(r"return\s+(\w+)\s*;", body)
        if not rets or any(r not in SCORES for r in rets):
            raise AnchorError("NodeTester::%s: a return that is not an eMatchScore enumerator: %r" % (name, rets))
        pos = sorted(set(r for r in rets if r != "eMatchScoreNone"))
        if len(pos) > 1:
            raise AnchorError("NodeTester::%s returns more than one positive score: %r" % (name, pos))
        out.append((name, pos[0] if pos else "eMatchScoreNone"))
    names = [n for n, _ in out]
    if len(set(names)) != len(names):
        raise AnchorError("NodeTester: a test function is defined twice")
    return out


def _dispatch(xp):
    """the constructor NodeTester(xpath, executionContext, opPos, argLen, stepType): which test function for which test"""
    m = need(r"XPath::NodeTester::NodeTester\s*\(\s*const\s+XPath\s*&\s*xpath\s*,", xp, "NodeTester(const XPath&, ...) constructor")
    body = _squeeze(function_body(xp[m.start():], r"OpCodeMapValueType\s+stepType\s*\)\s*:[^{]*\{", "NodeTester constructor body"))
    attr = "stepType==XPathExpression::eFROM_ATTRIBUTES||stepType==XPathExpression::eMATCH_ATTRIBUTE"
    T = lambda f: "m_testFunction=&NodeTester::%s;" % f
    expect = [
        "case XPathExpression::eNODETYPE_COMMENT:" + T("testComment") + "break;",
        "case XPathExpression::eNODETYPE_TEXT:" + T("testText") + "break;",
        "case XPathExpression::eNODETYPE_PI:if(argLen==1){" + T("testPI") + "}else if(argLen==2){" + T("testPIName"),
        "case XPathExpression::eNODETYPE_NODE:if(%s){%s}else{%s}break;" % (attr, T("testAttributeTotallyWild"), T("testNode")),
        "case XPathExpression::eNODETYPE_ROOT:" + T("testRoot") + "break;",
        "if(m_targetNamespace==0&&theExpression.getOpCodeMapValue(opPos+2)==XPathExpression::eELEMWILDCARD){isTotallyWild=true;}else{m_targetLocalName=getStringFromTokenQueue(theExpression,opPos+2);}",
        "if(%s){if(isTotallyWild==true){%s}else if(m_targetNamespace==0){assert(m_targetLocalName!=0);%s}else if(m_targetLocalName==0){assert(m_targetNamespace!=0);%s}else{assert(m_targetNamespace!=0&&m_targetLocalName!=0);%s}}"
        % (attr, T("testAttributeTotallyWild"), T("testAttributeNCName"), T("testAttributeNamespaceOnly"), T("testAttributeQName")),
        "else{if(isTotallyWild==true){%s}else if(m_targetNamespace==0){%s}else if(m_targetLocalName==0){assert(m_targetNamespace!=0);%s}else{assert(m_targetNamespace!=0&&m_targetLocalName!=0);%s}}"
        % (T("testElementTotallyWild"), T("testElementNCName"), T("testElementNamespaceOnly"), T("testElementQName")),
        "default:" + T("testDefault") + "break;",
    ]
    at = 0
    for piece in expect:
        p = _squeeze(piece)
        i = body.find(p, at)
        if i < 0:
            raise AnchorError("NodeTester constructor: expected dispatch piece not found (in order): " + piece[:90])
        at = i + len(p)
    return _DISPATCH


# the conditions under which each test function says "match" (coq/PatcScoreDefs.v tester_accepts was written from these)
_TESTER_GUARDS = {
    "testComment": "if(XalanNode::COMMENT_NODE==nodeType)",
    "testText": "if(XalanNode::TEXT_NODE==nodeType&&shouldStripSourceNode(static_cast<const XalanText&>(context))==false)",
    "testPI": "if(XalanNode::PROCESSING_INSTRUCTION_NODE==nodeType)",
    "testPIName": "if(XalanNode::PROCESSING_INSTRUCTION_NODE==nodeType&&context.getNodeName()==*m_targetLocalName)",
    "testNode": "if((nodeType!=XalanNode::TEXT_NODE&&nodeType!=XalanNode::CDATA_SECTION_NODE)||shouldStripSourceNode(static_cast<const XalanText&>(context))==false)",
    "testRoot": "if(XalanNode::DOCUMENT_NODE==nodeType||XalanNode::DOCUMENT_FRAGMENT_NODE==nodeType)",
    "testAttributeNCName": "if(XalanNode::ATTRIBUTE_NODE!=nodeType||isNamespaceDeclaration(context)==true||matchLocalName(context)==false)",
    "testAttributeQName": "if(XalanNode::ATTRIBUTE_NODE!=nodeType||isNamespaceDeclaration(context)==true||matchLocalNameAndNamespaceURI(context)==false)",
    "testAttributeNamespaceOnly": "if(XalanNode::ATTRIBUTE_NODE!=nodeType||isNamespaceDeclaration(context)==true||matchNamespaceURI(context)==false)",
    "testAttributeTotallyWild": "if(XalanNode::ATTRIBUTE_NODE!=nodeType||isNamespaceDeclaration(context)==true)",
    "testElementNCName": "if(XalanNode::ELEMENT_NODE!=nodeType||matchLocalName(context)==false)",
    "testElementQName": "if(XalanNode::ELEMENT_NODE!=nodeType||matchLocalNameAndNamespaceURI(context)==false)",
    "testElementNamespaceOnly": "if(XalanNode::ELEMENT_NODE!=nodeType||matchNamespaceURI(context)==false)",
    "testElementTotallyWild": "if(XalanNode::ELEMENT_NODE!=nodeType)",
}
_MATCHERS = {
    "matchLocalName": "{assert(m_targetLocalName!=0);return context.getNamespaceURI().empty()==true&&DOMServices::getLocalNameOfNode(context)==*m_targetLocalName;}",
    "matchNamespaceURI": "{assert(m_targetNamespace!=0);return context.getNamespaceURI()==*m_targetNamespace;}",
    "matchLocalNameAndNamespaceURI": "{assert(m_targetNamespace!=0&&m_targetLocalName!=0);return DOMServices::getLocalNameOfNode(context)==*m_targetLocalName&&context.getNamespaceURI()==*m_targetNamespace;}",
}


def _tester_guards(xp):
    for name, guard in _TESTER_GUARDS.items():
        body = _squeeze(function_body(xp, r"XPath::NodeTester::%s\s*\(\s*const\s+XalanNode\s*&[^)]*\)\s*const\s*\{" % name, "NodeTester::" + name))
        if guard not in body or body.count("if(") != 1:
            raise AnchorError("NodeTester::%s: its one condition is not the one the score model was written from" % name)
    for name, text in _MATCHERS.items():
        body = _squeeze(function_body(xp, r"XPath::NodeTester::%s\s*\(\s*const\s+XalanNode\s*&\s*context\s*\)\s*const\s*\{" % name, "NodeTester::" + name))
        if body != text:
            raise AnchorError("NodeTester::%s is not the comparison the score model was written from" % name)


def _target_data(xp):
    body = _squeeze(function_body(xp, r"\nXPath::getTargetData\s*\([^)]*\)\s*const\s*\{", "XPath::getTargetData"))
    S = lambda s: "score=%s;" % s
    expect = [
        "case XPathExpression::eOP_FUNCTION:targetLocalName=PSEUDONAME_ANY;" + S("eMatchScoreOther"),
        "case XPathExpression::eFROM_ROOT:targetLocalName=PSEUDONAME_ROOT;" + S("eMatchScoreOther"),
        "case XPathExpression::eMATCH_ATTRIBUTE:fIsAttribute=true;case XPathExpression::eMATCH_ANY_ANCESTOR:case XPathExpression::eMATCH_IMMEDIATE_ANCESTOR:",
        "case XPathExpression::eNODETYPE_COMMENT:targetLocalName=PSEUDONAME_COMMENT;" + S("eMatchScoreNodeTest"),
        "case XPathExpression::eNODETYPE_TEXT:targetLocalName=PSEUDONAME_TEXT;" + S("eMatchScoreNodeTest"),
        "case XPathExpression::eNODETYPE_NODE:targetLocalName=PSEUDONAME_NODE;" + S("eMatchScoreNodeTest"),
        "case XPathExpression::eNODETYPE_PI:{const OpCodeMapValueType argLen=m_expression.getOpCodeArgumentLength(opPos-3);targetLocalName=PSEUDONAME_PI;if(argLen==1){%s}else if(argLen==2){%s}}break;"
        % (S("eMatchScoreNodeTest"), S("eMatchScoreQName")),
        "if(targetLocalName!=0){if(targetLocalName==PSEUDONAME_ANY){targetLocalName=PSEUDONAME_ANY;if(targetNamespace==0||*targetNamespace==PSEUDONAME_ANY){%s}else{%s}}else{%s}}else{targetLocalName=PSEUDONAME_ANY;if(targetNamespace==0||*targetNamespace==PSEUDONAME_ANY){%s}else{%s}}"
        % (S("eMatchScoreNodeTest"), S("eMatchScoreNSWild"), S("eMatchScoreQName"), S("eMatchScoreNodeTest"), S("eMatchScoreNSWild")),
        "if(stepCount>1||opPos+3<nextStepPos){" + S("eMatchScoreOther") + "}",
    ]
    at = 0
    for piece in expect:
        p = _squeeze(piece)
        i = body.find(p, at)
        if i < 0:
            raise AnchorError("XPath::getTargetData: expected piece not found (in order): " + piece[:90])
        at = i + len(p)
    return srcfacts.fingerprint(body)


def gen_patc():
    uni = gen_xpc._unicode_table()
    cpp = strip_comments(read(PI_CPP))
    xp = strip_comments(read(XP_CPP))
    hpp = strip_comments(read(XP_HPP))
    fixed = {}
    for name, text in _BODIES.items():
        got = _body(cpp, name)
        if got == _squeeze(text):
            fixed[name] = False
        elif name in _BODIES_FIXED and got == _squeeze(strip_comments(_BODIES_FIXED[name])):
            fixed[name] = True
        else:
            raise AnchorError("XPathProcessorImpl::%s is not the text the pattern-compiler model was written from (neither shape)" % name)
    init = _squeeze(function_body(cpp, r"\nXPathProcessorImpl::initMatchPattern\s*\([^)]*\)\s*\{", "XPathProcessorImpl::initMatchPattern"))
    if _squeeze(_INIT_TAIL) not in init:
        raise AnchorError("XPathProcessorImpl::initMatchPattern is not tokenize; eOP_MATCHPATTERN; nextToken; Pattern; ExtraIllegalTokens; eENDOP")
    # m_requireLiterals is written in IdKeyPattern and initXPath only, read in Argument only
    cn = _squeeze(cpp)
    if cn.count("m_requireLiterals=true") != 1 or cn.count("m_requireLiterals==") != 1:
        raise AnchorError("m_requireLiterals: set to true / tested somewhere else than IdKeyPattern / Argument")
    if cn.count("Argument();") != 1 or "while(tokenIs(XalanUnicode::charRightParenthesis)==false&&m_token.empty()==false){if(tokenIs(XalanUnicode::charComma)==true){error(XalanMessages::NoPrecedingArgument);}Argument();" not in cn:
        raise AnchorError("FunctionCallArguments does not call Argument() once per argument")
    ps = gen_xpc._string_arrays(cpp, "XPathProcessorImpl", uni)
    kws = []
    for short, nm in (("id", "s_functionIDString"), ("key", "s_functionKeyString"), ("child", "s_childString"), ("attribute", "s_attributeString")):
        if nm not in ps:
            raise AnchorError("XPathProcessorImpl::%s not found" % nm)
        kws.append((short, nm, ps[nm]))
    # op codes appended by the two compiling bodies, in source order
    ops_lpp = re.findall(r"XPathExpression::(e[A-Z][A-Z_]*)\b", (_BODIES_FIXED if fixed["LocationPathPattern"] else _BODIES)["LocationPathPattern"])
    ops_step = re.findall(r"XPathExpression::(e[A-Z][A-Z_]*)\b", _BODIES["AbbreviatedNodeTestStep"])
    # scores
    m = need(r"enum\s+eMatchScore\s*\{([^}]*)\}", hpp, "XPath::eMatchScore")
    enum = [x.strip() for x in m.group(1).split(",") if x.strip()]
    if enum != SCORES:
        raise AnchorError("XPath::eMatchScore is not %r but %r" % (SCORES, enum))
    testers = _tester_scores(xp)
    _tester_guards(xp)
    disp = _dispatch(xp)
    known = dict(testers)
    for f in TESTERS:
        if f not in known:
            raise AnchorError("NodeTester::%s is not defined" % f)
    td_fp = _target_data(xp)
    sc = lambda s: str(SCORES.index(s))
    strs = lambda xs: "[" + "; ".join('"%s"' % x for x in xs) + "]"
    L = [HEADER.rstrip("\n"),
         "(* by translator/gen_patc.py; match-pattern compiler and match-score facts (family patc) *)",
         "From Coq Require Import List NArith String.", "Import ListNotations.", "Open Scope string_scope.", ""]
    for short, nm, units in kws:
        L.append("Definition gen_patc_kw_%s : list N := %s.   (* XPathProcessorImpl::%s *)" % (short, _nl(units), nm))
    L += ["(* which shape the three functions touched by fixes/C09c/01_pattern_grammar.patch have *)",
          "Definition gen_patc_fix_args : bool := %s.    (* Argument(): a required literal is compiled by PrimaryExpr() and must be followed by ',' or ')' *)" % _b(fixed["Argument"]),
          "Definition gen_patc_fix_count : bool := %s.   (* IdKeyPattern(): id takes one argument, key two *)" % _b(fixed["IdKeyPattern"]),
          "Definition gen_patc_fix_lpp : bool := %s.     (* LocationPathPattern(): no empty alternative, no '///', '/' or '//' between an id()/key() head and a step *)" % _b(fixed["LocationPathPattern"]),
          "(* the compiling functions have the text the model was written from (whole bodies compared) *)",
          "Definition gen_patc_bodies_matched : list string := %s." % strs(sorted(_BODIES)),
          "Definition gen_patc_lpp_ops : list string := %s." % strs(ops_lpp),
          "Definition gen_patc_step_ops : list string := %s." % strs(ops_step),
          "(* XPath::eMatchScore, in order; scores below are indices into this list *)",
          "Definition gen_patc_scores : list string := %s." % strs(SCORES),
          "(* XPath::NodeTester::testXxx, numbered as in gen_patc_tester_names: the one score other than eMatchScoreNone each can",
          "   return (0 = never matches).  Numbers, not strings: the tables are consumed by extracted code *)",
          "Definition gen_patc_tester_names : list string := %s." % strs(TESTERS),
          "Definition gen_patc_tester_score : list (nat * nat) := [" +
          "; ".join('(%d, %s)' % (TESTERS.index(n), sc(s)) for n, s in testers if n in TESTERS) + "].",
          "(* NodeTester constructor: (node test shape as in gen_patc_shape_names, step is FROM_ATTRIBUTES / MATCH_ATTRIBUTE (2 = irrelevant),",
          "   test function) *)",
          "Definition gen_patc_shape_names : list string := %s." % strs(SHAPES),
          "Definition gen_patc_dispatch : list (nat * nat * nat) := [" +
          "; ".join('(%d, %d, %d)' % (SHAPES.index(t), 2 if a is None else (1 if a else 0), TESTERS.index(f)) for t, a, f in disp) + "].",
          "(* XPath::getTargetData: switch matched piece by piece; scores: function/root head Other, node types NodeTest, named PI QName,",
          "   name tests NodeTest / NSWild / QName, more than one step or a predicate Other *)",
          'Definition gen_patc_target_data_fp : string := "%s".' % td_fp,
          ""]
    facts = {"fix_args": fixed["Argument"], "fix_count": fixed["IdKeyPattern"], "fix_lpp": fixed["LocationPathPattern"], "keywords": {s: "".join(map(chr, u)) for s, _, u in kws}, "testers": dict(testers)}
    return "\n".join(L), facts


GENERATORS = {"GenPatc": gen_patc}
