(* ContMapModel.v — proofs about the XalanMap model: representation invariant (unique node ids and
   keys, erased flag <=> node on the free list, every live entry referenced from bucket
   hash(key) mod n, every bucket reference points to a node of this map, buckets well-formed
   vectors), preserved by every operation; find = lookup by key; refinement of whole op sequences
   to the ordered association-list specification.  For every hash function. *)
From Coq Require Import List Arith Bool Lia.
Require Import XV.GenCont XV.ContVecDefs XV.ContVecModel XV.ContMapDefs.
Import ListNotations.

Definition ids (l : list node) : list nat := map nid l.
Definition keys (l : list node) : list nat := map nkey l.

(* ---------------------------------------------------------------------------------------------- *)
(* generic list facts *)
Lemma find_app {A} (f : A -> bool) a b :
  find f (a ++ b) = match find f a with Some x => Some x | None => find f b end.
Proof. induction a; simpl; [reflexivity|]. destruct (f a); [reflexivity | apply IHa]. Qed.

Lemma NoDup_snoc {A} (l : list A) x : NoDup l -> ~ In x l -> NoDup (l ++ [x]).
Proof.
  induction l; intros N H; simpl.
  - constructor; [intros []|constructor].
  - inversion N; subst. constructor.
    + intros I. apply in_app_or in I. destruct I as [I|[I|[]]]; [contradiction|]. subst. apply H. left. reflexivity.
    + apply IHl; [assumption|]. intros I. apply H. right. assumption.
Qed.

Lemma NoDup_snoc_inv {A} (l : list A) x : NoDup (l ++ [x]) -> NoDup l /\ ~ In x l.
Proof.
  intros N. split.
  - apply NoDup_remove_1 in N. rewrite app_nil_r in N. assumption.
  - apply NoDup_remove_2 in N. rewrite app_nil_r in N. assumption.
Qed.

Lemma find_by_id : forall l nd, NoDup (ids l) -> In nd l -> find (fun x => nid x =? nid nd) l = Some nd.
Proof.
  induction l; intros nd N I; [contradiction|]. simpl in *. inversion N; subst.
  destruct I as [->|I]; [rewrite Nat.eqb_refl; reflexivity|].
  destruct (nid a =? nid nd) eqn:E.
  - apply Nat.eqb_eq in E. exfalso. apply H1. rewrite E. apply in_map. assumption.
  - apply IHl; assumption.
Qed.

Lemma find_id_some : forall l id nd, find (fun x => nid x =? id) l = Some nd -> In nd l /\ nid nd = id.
Proof. intros. apply find_some in H. destruct H. split; [assumption | apply Nat.eqb_eq; assumption]. Qed.

Lemma key_unique : forall l a b, NoDup (keys l) -> In a l -> In b l -> nkey a = nkey b -> a = b.
Proof.
  induction l; intros x y N Ix Iy E; [contradiction|]. simpl in *. inversion N; subst.
  destruct Ix as [->|Ix], Iy as [->|Iy]; auto.
  - exfalso. apply H1. rewrite E. apply in_map. assumption.
  - exfalso. apply H1. rewrite <- E. apply in_map. assumption.
Qed.

Lemma id_unique : forall l a b, NoDup (ids l) -> In a l -> In b l -> nid a = nid b -> a = b.
Proof.
  induction l; intros x y N Ix Iy E; [contradiction|]. simpl in *. inversion N; subst.
  destruct Ix as [->|Ix], Iy as [->|Iy]; auto.
  - exfalso. apply H1. rewrite E. apply in_map. assumption.
  - exfalso. apply H1. rewrite <- E. apply in_map. assumption.
Qed.

(* upd_bucket *)
Lemma upd_length : forall i f bs, length (upd_bucket i f bs) = length bs.
Proof. induction i; destruct bs; simpl; auto. Qed.

Lemma nth_upd_same : forall i f bs, i < length bs -> nth i (upd_bucket i f bs) vempty = f (nth i bs vempty).
Proof. induction i; destruct bs; simpl; intros; try lia; auto. apply IHi. lia. Qed.

Lemma nth_upd_other : forall i j f bs, i <> j -> nth j (upd_bucket i f bs) vempty = nth j bs vempty.
Proof.
  induction i; destruct bs; simpl; intros; auto.
  - destruct j; [lia | reflexivity].
  - destruct j; [reflexivity|]. apply IHi. lia.
Qed.

Lemma Forall_upd : forall (P : vec -> Prop) i f bs, Forall P bs -> (forall b, P b -> P (f b)) -> Forall P (upd_bucket i f bs).
Proof.
  induction i; destruct bs; simpl; intros; auto; inversion H; subst; constructor; auto.
Qed.

Section MapProofs.
Variable hash : nat -> nat.
Notation home := (do_hash hash).

Record minv (m : xmap) (next : nat) : Prop := {
  i_ide : NoDup (ids (m_entries m));
  i_idf : NoDup (ids (m_free m));
  i_disj : forall id, In id (ids (m_entries m)) -> In id (ids (m_free m)) -> False;
  i_live : Forall (fun nd => nerased nd = false) (m_entries m);
  i_dead : Forall (fun nd => nerased nd = true) (m_free m);
  i_keys : NoDup (keys (m_entries m));
  i_size : m_size m = length (m_entries m);
  i_nb : m_entries m <> [] -> 1 <= length (m_buckets m);
  i_home : forall nd, In nd (m_entries m) ->
           In (nid nd) (vdata (nth (home (nkey nd) (length (m_buckets m))) (m_buckets m) vempty));
  i_refs : forall j id, In id (vdata (nth j (m_buckets m) vempty)) ->
           In id (ids (m_entries m)) \/ In id (ids (m_free m));
  i_fresh : forall id, In id (ids (m_entries m)) \/ In id (ids (m_free m)) -> id < next;
  i_minb : 1 <= m_minb m;
  i_bwf : Forall wf (m_buckets m) }.

Lemma minv_mono : forall m n n', minv m n -> n <= n' -> minv m n'.
Proof. intros m n n' [] L. constructor; auto. intros id H. specialize (i_fresh0 id H). lia. Qed.

(* dereferencing *)
Lemma deref_entry : forall m nx nd, minv m nx -> In nd (m_entries m) -> deref m (nid nd) = Some nd.
Proof.
  intros m nx nd I H. unfold deref. rewrite find_app.
  rewrite (find_by_id _ nd (i_ide _ _ I) H). reflexivity.
Qed.

Lemma deref_some : forall m id nd, deref m id = Some nd ->
  (In nd (m_entries m) \/ In nd (m_free m)) /\ nid nd = id.
Proof.
  intros m id nd H. unfold deref in H. apply find_id_some in H. destruct H as [H E].
  split; [apply in_app_or; assumption | assumption].
Qed.

Lemma deref_live : forall m nx id nd, minv m nx -> deref m id = Some nd -> nerased nd = false -> In nd (m_entries m).
Proof.
  intros m nx id nd I H E. apply deref_some in H. destruct H as [[H|H] _]; [assumption|].
  pose proof (i_dead _ _ I) as D. rewrite Forall_forall in D. rewrite (D _ H) in E. discriminate.
Qed.

(* find() returns the entry with the key, if there is one *)
Lemma map_find_correct : forall m nx k, minv m nx ->
  map_find hash m k = find (fun nd => nkey nd =? k) (m_entries m).
Proof.
  intros m nx k I. unfold map_find.
  destruct (m_size m =? 0) eqn:E0.
  { apply Nat.eqb_eq in E0. rewrite (i_size _ _ I) in E0. destruct (m_entries m); [reflexivity | discriminate]. }
  set (b := nth (home k (length (m_buckets m))) (m_buckets m) vempty).
  destruct (find (fun nd => nkey nd =? k) (m_entries m)) as [nd|] eqn:F.
  - apply find_some in F. destruct F as [Hin Hk]. apply Nat.eqb_eq in Hk.
    assert (Hb : In (nid nd) (vdata b)).
    { unfold b. rewrite <- Hk. apply (i_home _ _ I). assumption. }
    destruct (find (ref_matches m k) (vdata b)) as [id|] eqn:G.
    + apply find_some in G. destruct G as [_ G]. unfold ref_matches in G.
      destruct (deref m id) as [nd'|] eqn:D; [|discriminate].
      apply andb_prop in G. destruct G as [G1 G2]. apply negb_true_iff in G1. apply Nat.eqb_eq in G2.
      pose proof (deref_live _ _ _ _ I D G1) as Hin'.
      f_equal. apply (key_unique (m_entries m)); [apply (i_keys _ _ I) | assumption | assumption | congruence].
    + exfalso. pose proof (find_none _ _ G _ Hb) as Hn. unfold ref_matches in Hn.
      rewrite (deref_entry _ _ _ I Hin) in Hn.
      pose proof (i_live _ _ I) as L. rewrite Forall_forall in L. rewrite (L _ Hin) in Hn.
      simpl in Hn. rewrite Hk, Nat.eqb_refl in Hn. discriminate.
  - destruct (find (ref_matches m k) (vdata b)) as [id|] eqn:G; [|reflexivity].
    exfalso. apply find_some in G. destruct G as [_ G]. unfold ref_matches in G.
    destruct (deref m id) as [nd'|] eqn:D; [|discriminate].
    apply andb_prop in G. destruct G as [G1 G2]. apply negb_true_iff in G1.
    pose proof (deref_live _ _ _ _ I D G1) as Hin'.
    rewrite (find_none _ _ F _ Hin') in G2. discriminate.
Qed.

Lemma al_find_contents : forall l k,
  al_find k (map (fun nd => (nkey nd, nval nd)) l) = option_map nval (find (fun nd => nkey nd =? k) l).
Proof. induction l; intros; simpl; [reflexivity|]. destruct (nkey a =? k); [reflexivity | apply IHl]. Qed.

(* ---------------------------------------------------------------------------------------------- *)
(* rehash *)
Definition place (n : nat) (bs : list vec) (nd : node) : list vec :=
  upd_bucket (home (nkey nd) n) (fun b => do_push_back b (nid nd)) bs.

Lemma home_lt : forall k n, 1 <= n -> home k n < n.
Proof. intros. unfold do_hash. apply Nat.mod_upper_bound. lia. Qed.

Lemma place_fold : forall l n bs, length bs = n -> 1 <= n ->
  length (fold_left (place n) l bs) = n /\
  (forall j id, In id (vdata (nth j bs vempty)) -> In id (vdata (nth j (fold_left (place n) l bs) vempty))) /\
  (forall nd, In nd l -> In (nid nd) (vdata (nth (home (nkey nd) n) (fold_left (place n) l bs) vempty))) /\
  (forall j id, In id (vdata (nth j (fold_left (place n) l bs) vempty)) -> In id (vdata (nth j bs vempty)) \/ In id (ids l)) /\
  (Forall wf bs -> Forall wf (fold_left (place n) l bs)).
Proof.
  induction l; intros n bs L N; simpl.
  { repeat split; auto. intros _ []. }
  assert (L' : length (place n bs a) = n) by (unfold place; rewrite upd_length; assumption).
  destruct (IHl n (place n bs a) L' N) as (A & B & C & D & E).
  assert (Hstep : forall j id, In id (vdata (nth j bs vempty)) -> In id (vdata (nth j (place n bs a) vempty))).
  { intros j id H. unfold place. destruct (Nat.eq_dec (home (nkey a) n) j) as [<-|Ne].
    - rewrite nth_upd_same by (rewrite L; apply home_lt; assumption). rewrite push_data. apply in_or_app. left. assumption.
    - rewrite nth_upd_other by assumption. assumption. }
  split; [assumption|]. split; [|split; [|split]].
  - intros j id H. apply B, Hstep, H.
  - intros nd [<-|H]; [|apply C; assumption].
    apply B. unfold place. rewrite nth_upd_same by (rewrite L; apply home_lt; assumption).
    rewrite push_data. apply in_or_app. right. left. reflexivity.
  - intros j id H. destruct (D j id H) as [H1|H1]; [|right; right; assumption].
    unfold place in H1. destruct (Nat.eq_dec (home (nkey a) n) j) as [<-|Ne].
    + rewrite nth_upd_same in H1 by (rewrite L; apply home_lt; assumption). rewrite push_data in H1.
      apply in_app_or in H1. destruct H1 as [H1|[H1|[]]]; [left; assumption | right; left; assumption].
    + rewrite nth_upd_other in H1 by assumption. left. assumption.
  - intros W. apply E. unfold place. apply Forall_upd; [assumption | intros; apply push_wf; assumption].
Qed.

Lemma nth_repeat_vempty : forall n j, nth j (repeat vempty n) vempty = vempty.
Proof. induction n; destruct j; simpl; auto. Qed.

Lemma Forall_repeat_wf : forall n, Forall wf (repeat vempty n).
Proof. induction n; simpl; constructor; auto. unfold wf, vsize. simpl. lia. Qed.

Lemma grow_n_pos : forall s, 1 <= s -> 1 <= s * map_grow_num / map_grow_den.
Proof.
  intros. apply Nat.div_le_lower_bound; unfold map_grow_den, map_grow_num; lia.
Qed.

Lemma rehash_ok : forall m nx, minv m nx -> 1 <= m_size m ->
  minv (rehash hash m) nx /\ 1 <= length (m_buckets (rehash hash m)) /\ m_entries (rehash hash m) = m_entries m /\
  m_free (rehash hash m) = m_free m /\ m_size (rehash hash m) = m_size m.
Proof.
  intros m nx I S. unfold rehash. set (n := m_size m * map_grow_num / map_grow_den).
  assert (N : 1 <= n) by (apply grow_n_pos; assumption).
  destruct (place_fold (m_entries m) n (repeat vempty n) (repeat_length _ _) N) as (A & B & C & D & E).
  fold (place n). simpl. split; [|repeat split; auto; rewrite A; assumption].
  destruct I. constructor; simpl; auto.
  - intros _. rewrite A. assumption.
  - intros nd H. rewrite A. apply C. assumption.
  - intros j id H. destruct (D j id H) as [H1|H1]; [|left; assumption].
    rewrite nth_repeat_vempty in H1. destruct H1.
  - apply E, Forall_repeat_wf.
Qed.

(* ---------------------------------------------------------------------------------------------- *)
(* doCreateEntry *)
Definition ensure_buckets (m : xmap) : xmap :=
  if length (m_buckets m) =? 0
  then mkmap (m_lfn m) (m_lfd m) (m_minb m) (m_size m) (m_entries m) (m_free m) (repeat vempty (m_minb m)) (m_ec m) (m_thr m)
  else m.
Definition maybe_rehash (m : xmap) : xmap :=
  if length (m_buckets m) <? m_lfn m * m_size m / m_lfd m then rehash hash m else m.
Definition attach_with (m : xmap) (x : node) (fr' : list node) (k v : nat) : xmap :=
  mkmap (m_lfn m) (m_lfd m) (m_minb m) (S (m_size m)) (m_entries m ++ [mknode (nid x) k v false]) fr'
        (upd_bucket (home k (length (m_buckets m))) (fun b => do_push_back b (nid x)) (m_buckets m)) (m_ec m) (m_thr m).

Lemma ensure_ok : forall m nx, minv m nx ->
  minv (ensure_buckets m) nx /\ 1 <= length (m_buckets (ensure_buckets m)) /\
  m_entries (ensure_buckets m) = m_entries m /\ m_free (ensure_buckets m) = m_free m /\ m_size (ensure_buckets m) = m_size m.
Proof.
  intros m nx I. unfold ensure_buckets. destruct (length (m_buckets m) =? 0) eqn:E.
  - apply Nat.eqb_eq in E. simpl. rewrite repeat_length.
    assert (En : m_entries m = []).
    { destruct (m_entries m) eqn:F; [reflexivity|]. pose proof (i_nb _ _ I) as H. rewrite F in H.
      assert (1 <= length (m_buckets m)) by (apply H; discriminate). lia. }
    split; [|repeat split; auto; apply (i_minb _ _ I)].
    destruct I. constructor; simpl; auto.
    + intros _. rewrite repeat_length. assumption.
    + intros nd H. rewrite En in H. destruct H.
    + intros j id H. rewrite nth_repeat_vempty in H. destruct H.
    + apply Forall_repeat_wf.
  - apply Nat.eqb_neq in E. split; [assumption|]. split; [lia|]. auto.
Qed.

Lemma maybe_rehash_ok : forall m nx, minv m nx -> 1 <= length (m_buckets m) ->
  minv (maybe_rehash m) nx /\ 1 <= length (m_buckets (maybe_rehash m)) /\
  m_entries (maybe_rehash m) = m_entries m /\ m_free (maybe_rehash m) = m_free m /\ m_size (maybe_rehash m) = m_size m.
Proof.
  intros m nx I L. unfold maybe_rehash.
  destruct (length (m_buckets m) <? m_lfn m * m_size m / m_lfd m) eqn:E; [|split; [assumption|]; split; [assumption|]; auto].
  apply Nat.ltb_lt in E. apply rehash_ok; [assumption|].
  destruct (m_size m); [|lia]. rewrite Nat.mul_0_r in E. rewrite Nat.div_0_l in E; [lia|].
  intros Z. rewrite Z in E. simpl in E. lia.
Qed.

Lemma attach_with_ok : forall m nx nx' x fr' k v,
  minv m nx -> nx <= nx' -> 1 <= length (m_buckets m) -> ~ In k (keys (m_entries m)) ->
  NoDup (ids fr') -> ~ In (nid x) (ids fr') -> ~ In (nid x) (ids (m_entries m)) ->
  (forall id, In id (ids fr') -> In id (ids (m_free m))) ->
  (forall id, In id (ids (m_free m)) -> id = nid x \/ In id (ids fr')) ->
  nid x < nx' -> Forall (fun nd => nerased nd = true) fr' ->
  minv (attach_with m x fr' k v) nx'.
Proof.
  intros m nx nx' x fr' k v I Lnx L Hk N1 N2 N3 Sub Sup Fx De.
  assert (IdsE : ids (m_entries m ++ [mknode (nid x) k v false]) = ids (m_entries m) ++ [nid x]).
  { unfold ids. rewrite map_app. reflexivity. }
  assert (Hidx : home k (length (m_buckets m)) < length (m_buckets m)) by (apply home_lt; assumption).
  destruct I. constructor; unfold attach_with; simpl; auto.
  - rewrite IdsE. apply NoDup_snoc; assumption.
  - rewrite IdsE. intros id H1 H2. apply in_app_or in H1. destruct H1 as [H1|[<-|[]]].
    + apply (i_disj0 id H1). apply Sub. assumption.
    + contradiction.
  - apply Forall_forall. intros nd H. apply in_app_or in H. destruct H as [H|[<-|[]]]; [|reflexivity].
    rewrite Forall_forall in i_live0. apply i_live0. assumption.
  - unfold keys. rewrite map_app. simpl. apply NoDup_snoc; assumption.
  - rewrite app_length. simpl. lia.
  - intros _. rewrite upd_length. assumption.
  - intros nd H. rewrite upd_length. apply in_app_or in H. destruct H as [H|[<-|[]]].
    + destruct (Nat.eq_dec (home k (length (m_buckets m))) (home (nkey nd) (length (m_buckets m)))) as [Eq|Ne].
      * rewrite <- Eq. rewrite nth_upd_same by assumption. rewrite push_data. apply in_or_app. left.
        rewrite Eq. apply i_home0. assumption.
      * rewrite nth_upd_other by assumption. apply i_home0. assumption.
    + simpl. rewrite nth_upd_same by assumption. rewrite push_data. apply in_or_app. right. left. reflexivity.
  - intros j id H. rewrite IdsE.
    assert (Hold : In id (vdata (nth j (m_buckets m) vempty)) -> In id (ids (m_entries m) ++ [nid x]) \/ In id (ids fr')).
    { intros H0. destruct (i_refs0 j id H0) as [H1|H1].
      - left. apply in_or_app. left. assumption.
      - destruct (Sup id H1) as [->|H2]; [left; apply in_or_app; right; left; reflexivity | right; assumption]. }
    destruct (Nat.eq_dec (home k (length (m_buckets m))) j) as [<-|Ne].
    + rewrite nth_upd_same in H by assumption. rewrite push_data in H. apply in_app_or in H.
      destruct H as [H|[<-|[]]]; [apply Hold; assumption|]. left. apply in_or_app. right. left. reflexivity.
    + rewrite nth_upd_other in H by assumption. apply Hold. assumption.
  - rewrite IdsE. intros id [H|H].
    + apply in_app_or in H. destruct H as [H|[<-|[]]]; [|assumption].
      assert (id < nx) by (apply i_fresh0; left; assumption). lia.
    + assert (id < nx) by (apply i_fresh0; right; apply Sub; assumption). lia.
  - apply Forall_upd; [assumption | intros; apply push_wf; assumption].
Qed.

Lemma create_entry_eq : forall m nx k v,
  create_entry hash m nx k v =
  let m2 := maybe_rehash (ensure_buckets m) in
  if length (m_free m2) =? 0 then (attach_with m2 (mknode nx 0 0 false) [] k v, S nx)
  else (attach_with m2 (last (m_free m2) (mknode 0 0 0 false)) (removelast (m_free m2)) k v, nx).
Proof.
  intros. unfold create_entry. fold (ensure_buckets m). fold (maybe_rehash (ensure_buckets m)).
  simpl. destruct (length (m_free (maybe_rehash (ensure_buckets m))) =? 0); reflexivity.
Qed.

Lemma create_entry_ok : forall m nx k v, minv m nx -> ~ In k (keys (m_entries m)) ->
  minv (fst (create_entry hash m nx k v)) (snd (create_entry hash m nx k v)) /\
  nx <= snd (create_entry hash m nx k v) /\
  contents (fst (create_entry hash m nx k v)) = contents m ++ [(k, v)].
Proof.
  intros m nx k v I Hk. rewrite create_entry_eq.
  destruct (ensure_ok m nx I) as (I1 & L1 & E1 & F1 & S1).
  destruct (maybe_rehash_ok _ nx I1 L1) as (I2 & L2 & E2 & F2 & S2).
  set (m2 := maybe_rehash (ensure_buckets m)) in *. cbv zeta.
  assert (En : m_entries m2 = m_entries m) by congruence.
  assert (Hk2 : ~ In k (keys (m_entries m2))) by (rewrite En; assumption).
  destruct (length (m_free m2) =? 0) eqn:E; simpl.
  - apply Nat.eqb_eq in E. destruct (m_free m2) eqn:Fr; [|discriminate].
    split; [|split; [lia|]].
    + apply (attach_with_ok m2 nx (S nx)); simpl; auto;
        try (rewrite Fr; simpl; intros; tauto); try (constructor; fail).
      intros H. pose proof (i_fresh _ _ I2 nx (or_introl H)). lia.
    + unfold contents, attach_with. simpl. rewrite map_app, En. reflexivity.
  - apply Nat.eqb_neq in E. assert (Fr : m_free m2 <> []) by (intros Z; rewrite Z in E; apply E; reflexivity).
    pose proof (app_removelast_last (mknode 0 0 0 false) Fr) as Sp.
    set (x := last (m_free m2) (mknode 0 0 0 false)) in *. set (fr' := removelast (m_free m2)) in *.
    assert (IdsF : ids (m_free m2) = ids fr' ++ [nid x]) by (rewrite Sp; unfold ids; rewrite map_app; reflexivity).
    pose proof (i_idf _ _ I2) as N. rewrite IdsF in N. apply NoDup_snoc_inv in N. destruct N as [N1 N2].
    split; [|split; [lia|]].
    + apply (attach_with_ok m2 nx nx); auto.
      * intros H. apply (i_disj _ _ I2 (nid x) H). rewrite IdsF. apply in_or_app. right. left. reflexivity.
      * intros id H. rewrite IdsF. apply in_or_app. left. assumption.
      * intros id H. rewrite IdsF in H. apply in_app_or in H. destruct H as [H|[<-|[]]]; auto.
      * apply (i_fresh _ _ I2). right. rewrite IdsF. apply in_or_app. right. left. reflexivity.
      * pose proof (i_dead _ _ I2) as D. rewrite Sp in D. rewrite Forall_forall in *. intros nd H. apply D. apply in_or_app. left. assumption.
    + unfold contents, attach_with. simpl. rewrite map_app, En. reflexivity.
Qed.

(* ---------------------------------------------------------------------------------------------- *)
(* doRemoveEntry *)
Lemma filter_all {A} (f : A -> bool) l : (forall x, In x l -> f x = true) -> filter f l = l.
Proof.
  induction l; intros H; simpl; [reflexivity|]. rewrite (H a (or_introl eq_refl)). f_equal. apply IHl.
  intros x Hx. apply H. right. assumption.
Qed.

Lemma split_by_id : forall l nd, NoDup (ids l) -> In nd l ->
  exists e1 e2, l = e1 ++ nd :: e2 /\ filter (fun x => negb (nid x =? nid nd)) l = e1 ++ e2.
Proof.
  intros l nd N H. destruct (in_split _ _ H) as (e1 & e2 & ->). exists e1, e2. split; [reflexivity|].
  unfold ids in N. rewrite map_app in N. simpl in N.
  pose proof (NoDup_remove_2 _ _ _ N) as N2.
  rewrite filter_app. simpl. rewrite Nat.eqb_refl. simpl. f_equal; apply filter_all; intros x Hx;
    apply negb_true_iff, Nat.eqb_neq; intros Eq; apply N2; apply in_or_app; [left|right]; rewrite <- Eq; apply in_map; assumption.
Qed.

Lemma erase_contents : forall e1 e2 nd, NoDup (keys (e1 ++ nd :: e2)) ->
  al_erase (nkey nd) (map (fun x => (nkey x, nval x)) (e1 ++ nd :: e2)) = map (fun x => (nkey x, nval x)) (e1 ++ e2).
Proof.
  intros e1 e2 nd N. unfold keys in N. rewrite map_app in N. simpl in N.
  pose proof (NoDup_remove_2 _ _ _ N) as N2.
  unfold al_erase. rewrite !map_app. simpl. rewrite filter_app. simpl. rewrite Nat.eqb_refl. simpl.
  f_equal; apply filter_all; intros x Hx; apply in_map_iff in Hx; destruct Hx as (y & <- & Hy); simpl;
    apply negb_true_iff, Nat.eqb_neq; intros Eq; apply N2; apply in_or_app; [left|right]; rewrite <- Eq; apply in_map; assumption.
Qed.

Lemma remove_entry_ok : forall m nx nd, minv m nx -> In nd (m_entries m) ->
  minv (remove_entry m (nid nd)) nx /\
  contents (remove_entry m (nid nd)) = al_erase (nkey nd) (contents m) /\
  length (m_entries (remove_entry m (nid nd))) + 1 = length (m_entries m).
Proof.
  intros m nx nd I H. unfold remove_entry. rewrite (find_by_id _ nd (i_ide _ _ I) H).
  destruct (split_by_id _ nd (i_ide _ _ I) H) as (e1 & e2 & Sp & Fl). rewrite Fl.
  assert (IdsE : ids (m_entries m) = ids e1 ++ nid nd :: ids e2) by (rewrite Sp; unfold ids; rewrite map_app; reflexivity).
  assert (IdsE' : ids (e1 ++ e2) = ids e1 ++ ids e2) by (unfold ids; rewrite map_app; reflexivity).
  assert (IdsF : ids (m_free m ++ [mknode (nid nd) (nkey nd) (nval nd) true]) = ids (m_free m) ++ [nid nd])
    by (unfold ids; rewrite map_app; reflexivity).
  assert (Sub : forall x, In x (e1 ++ e2) -> In x (m_entries m)).
  { intros x Hx. rewrite Sp. apply in_app_or in Hx. apply in_or_app. destruct Hx; [left | right; right]; assumption. }
  pose proof (i_ide _ _ I) as N. rewrite IdsE in N.
  split; [|split].
  - destruct I. constructor; simpl.
    + rewrite IdsE'. apply (NoDup_remove_1 _ _ _ N).
    + rewrite IdsF. apply NoDup_snoc; [assumption|]. intros Hf. apply (i_disj0 (nid nd)); [|assumption].
      rewrite IdsE. apply in_or_app. right. left. reflexivity.
    + rewrite IdsE', IdsF. intros id H1 H2. apply in_app_or in H2. destruct H2 as [H2|[<-|[]]].
      * apply (i_disj0 id); [|assumption]. rewrite IdsE. apply in_app_or in H1. apply in_or_app. destruct H1; [left | right; right]; assumption.
      * apply (NoDup_remove_2 _ _ _ N). assumption.
    + rewrite Forall_forall in *. intros x Hx. apply i_live0, Sub, Hx.
    + rewrite Forall_forall in *. intros x Hx. apply in_app_or in Hx. destruct Hx as [Hx|[<-|[]]]; [apply i_dead0; assumption | reflexivity].
    + rewrite Sp in i_keys0. unfold keys in *. rewrite map_app in *. simpl in i_keys0. apply (NoDup_remove_1 _ _ _ i_keys0).
    + rewrite i_size0, Sp, !app_length. simpl. lia.
    + intros Ne. apply i_nb0. rewrite Sp. intros Z. destruct e1; discriminate.
    + intros x Hx. apply i_home0, Sub, Hx.
    + intros j id Hj. rewrite IdsE', IdsF. destruct (i_refs0 j id Hj) as [H1|H1].
      * rewrite IdsE in H1. apply in_app_or in H1. destruct H1 as [H1|[<-|H1]].
        -- left. apply in_or_app. left. assumption.
        -- right. apply in_or_app. right. left. reflexivity.
        -- left. apply in_or_app. right. assumption.
      * right. apply in_or_app. left. assumption.
    + rewrite IdsE', IdsF. intros id [Hi|Hi].
      * apply i_fresh0. left. rewrite IdsE. apply in_app_or in Hi. apply in_or_app. destruct Hi; [left | right; right]; assumption.
      * apply in_app_or in Hi. destruct Hi as [Hi|[<-|[]]]; apply i_fresh0; [right; assumption|].
        left. rewrite IdsE. apply in_or_app. right. left. reflexivity.
    + assumption.
    + assumption.
  - unfold contents. simpl. rewrite Sp. symmetry. apply erase_contents. rewrite <- Sp. apply (i_keys _ _ I).
  - simpl. rewrite Sp, !app_length. simpl. lia.
Qed.

(* compactBuckets *)
Lemma compact_bucket_data : forall m b, vdata (compact_bucket m b) = filter (fun id => negb (ref_erased m id)) (vdata b).
Proof.
  intros. unfold compact_bucket. match goal with |- context [if ?c then _ else _] => destruct c end.
  - rewrite copy_with_data. reflexivity.
  - reflexivity.
Qed.

Lemma filter_len_le {A} (f : A -> bool) l : length (filter f l) <= length l.
Proof. induction l; simpl; [lia|]. destruct (f a); simpl; lia. Qed.

Lemma compact_bucket_wf : forall m b, wf b -> wf (compact_bucket m b).
Proof.
  intros m b W. unfold compact_bucket. match goal with |- context [if ?c then _ else _] => destruct c end.
  - apply copy_with_wf.
  - unfold wf, vsize in *. simpl. pose proof (filter_len_le (fun id => negb (ref_erased m id)) (vdata b)). lia.
Qed.

Lemma compact_ok : forall m nx, minv m nx -> minv (compact m) nx.
Proof.
  intros m nx I. pose proof I as I0. destruct I. constructor; unfold compact; simpl; auto.
  - intros Ne. rewrite map_length. auto.
  - intros nd H. rewrite map_length.
    change vempty with (compact_bucket m vempty). rewrite map_nth. rewrite compact_bucket_data.
    apply filter_In. split; [apply i_home0; assumption|].
    unfold ref_erased. rewrite (deref_entry _ _ _ I0 H). rewrite Forall_forall in i_live0. rewrite (i_live0 _ H). reflexivity.
  - intros j id H. change vempty with (compact_bucket m vempty) in H. rewrite map_nth in H.
    rewrite compact_bucket_data in H. apply filter_In in H. destruct H as [H _]. apply (i_refs0 j id H).
  - rewrite Forall_forall in *. intros b Hb. apply in_map_iff in Hb. destruct Hb as (b0 & <- & Hb0).
    apply compact_bucket_wf, i_bwf0, Hb0.
Qed.

Lemma minv_ec : forall m nx ec, minv m nx ->
  minv (mkmap (m_lfn m) (m_lfd m) (m_minb m) (m_size m) (m_entries m) (m_free m) (m_buckets m) ec (m_thr m)) nx.
Proof. intros m nx ec []. constructor; simpl; assumption. Qed.

Lemma do_erase_ok : forall m nx nd, minv m nx -> In nd (m_entries m) ->
  minv (do_erase m (nid nd)) nx /\ contents (do_erase m (nid nd)) = al_erase (nkey nd) (contents m).
Proof.
  intros m nx nd I H. destruct (remove_entry_ok m nx nd I H) as (I1 & C1 & _).
  unfold do_erase. set (m1 := remove_entry m (nid nd)) in *. cbv zeta.
  match goal with |- context [if ?c then _ else _] => destruct c end.
  - split.
    + apply (minv_ec (compact _)). apply compact_ok. apply (minv_ec m1). assumption.
    + exact C1.
  - split; [apply (minv_ec m1); assumption | exact C1].
Qed.

(* doRemoveEntries / clear *)
Lemma remove_entries_ok : forall fuel m nx, minv m nx -> length (m_entries m) < fuel ->
  minv (remove_entries fuel m) nx /\ m_entries (remove_entries fuel m) = [].
Proof.
  induction fuel; intros m nx I L; [lia|]. simpl.
  destruct (m_size m =? 0) eqn:E.
  - apply Nat.eqb_eq in E. rewrite (i_size _ _ I) in E. split; [assumption|]. destruct (m_entries m); [reflexivity | discriminate].
  - destruct (m_entries m) as [|nd rest] eqn:En; [split; auto|].
    assert (Hin : In nd (m_entries m)) by (rewrite En; left; reflexivity).
    destruct (remove_entry_ok m nx nd I Hin) as (I1 & _ & L1).
    apply IHfuel; [assumption|]. rewrite En in L1. simpl in *. lia.
Qed.

Lemma map_clear_ok : forall m nx, minv m nx -> minv (map_clear m) nx /\ contents (map_clear m) = [].
Proof.
  intros m nx I. unfold map_clear.
  destruct (remove_entries_ok (S (length (m_entries m))) m nx I (Nat.lt_succ_diag_r _)) as (I1 & E1).
  set (m1 := remove_entries (S (length (m_entries m))) m) in *.
  split; [|unfold contents; simpl; rewrite E1; reflexivity].
  destruct I1. constructor; simpl; auto.
  - intros Ne. contradiction.
  - intros nd H. rewrite E1 in H. destruct H.
  - intros j id H. change vempty with (clear vempty) in H. rewrite map_nth in H. rewrite clear_data in H. destruct H.
  - rewrite Forall_forall in *. intros b Hb. apply in_map_iff in Hb. destruct Hb as (b0 & <- & Hb0). apply clear_wf, i_bwf0, Hb0.
Qed.

(* insert / operator[] / erase / set *)
Lemma find_key_none : forall l k, ~ In k (keys l) <-> find (fun nd => nkey nd =? k) l = None.
Proof.
  induction l; intros k; simpl; [tauto|]. destruct (nkey a =? k) eqn:E.
  - apply Nat.eqb_eq in E. split; [intros H; exfalso; apply H; left; assumption | discriminate].
  - apply Nat.eqb_neq in E. rewrite <- IHl. tauto.
Qed.

Lemma al_insert_contents_none : forall l k v, find (fun nd => nkey nd =? k) l = None ->
  al_insert k v (map (fun nd => (nkey nd, nval nd)) l) = map (fun nd => (nkey nd, nval nd)) l ++ [(k, v)].
Proof. intros. unfold al_insert. rewrite al_find_contents, H. reflexivity. Qed.

Lemma al_insert_contents_some : forall l k v nd, find (fun nd => nkey nd =? k) l = Some nd ->
  al_insert k v (map (fun nd => (nkey nd, nval nd)) l) = map (fun nd => (nkey nd, nval nd)) l.
Proof. intros. unfold al_insert. rewrite al_find_contents, H. reflexivity. Qed.

Lemma map_insert_ok : forall m nx k v, minv m nx ->
  minv (fst (map_insert hash m nx k v)) (snd (map_insert hash m nx k v)) /\
  nx <= snd (map_insert hash m nx k v) /\
  contents (fst (map_insert hash m nx k v)) = al_insert k v (contents m).
Proof.
  intros m nx k v I. unfold map_insert. rewrite (map_find_correct m nx k I).
  destruct (find (fun nd => nkey nd =? k) (m_entries m)) as [nd|] eqn:F; simpl.
  - split; [assumption|]. split; [lia|]. unfold contents. symmetry. eapply al_insert_contents_some. eassumption.
  - destruct (create_entry_ok m nx k v I) as (A & B & C); [apply find_key_none; assumption|].
    split; [assumption|]. split; [assumption|]. rewrite C. unfold contents. symmetry. apply al_insert_contents_none. assumption.
Qed.

Lemma set_val_ok : forall m nx k v, minv m nx ->
  minv (set_val hash m k v) nx /\ contents (set_val hash m k v) = al_set k v (contents m).
Proof.
  intros m nx k v I. unfold set_val. rewrite (map_find_correct m nx k I).
  destruct (find (fun nd => nkey nd =? k) (m_entries m)) as [nd|] eqn:F.
  - apply find_some in F. destruct F as [Hin Hk]. apply Nat.eqb_eq in Hk.
    set (g := fun x => if nid x =? nid nd then mknode (nid x) (nkey x) v (nerased x) else x).
    assert (Gid : forall x, nid (g x) = nid x) by (intros x; unfold g; destruct (nid x =? nid nd); reflexivity).
    assert (Gkey : forall x, nkey (g x) = nkey x) by (intros x; unfold g; destruct (nid x =? nid nd); reflexivity).
    assert (Ger : forall x, nerased (g x) = nerased x) by (intros x; unfold g; destruct (nid x =? nid nd); reflexivity).
    assert (IdsG : ids (map g (m_entries m)) = ids (m_entries m)) by (unfold ids; rewrite map_map; apply map_ext; assumption).
    assert (KeysG : keys (map g (m_entries m)) = keys (m_entries m)) by (unfold keys; rewrite map_map; apply map_ext; assumption).
    split.
    + destruct I. constructor; simpl; rewrite ?IdsG, ?KeysG, ?map_length; auto.
      * rewrite Forall_forall in *. intros x Hx. apply in_map_iff in Hx. destruct Hx as (y & <- & Hy). rewrite Ger. auto.
      * intros Ne. apply i_nb0. intros Z. rewrite Z in Ne. apply Ne. reflexivity.
      * intros x Hx. apply in_map_iff in Hx. destruct Hx as (y & <- & Hy). rewrite Gid, Gkey. auto.
    + unfold contents. simpl. unfold al_set. rewrite !map_map.
      pose proof (i_keys _ _ I) as NK. pose proof (i_ide _ _ I) as NI.
      apply map_ext_in. intros x Hx. simpl.
      assert (Heq : (nid x =? nid nd) = (nkey x =? k)).
      { destruct (nid x =? nid nd) eqn:E1; destruct (nkey x =? k) eqn:E2; try reflexivity.
        - apply Nat.eqb_eq in E1. apply Nat.eqb_neq in E2. exfalso. apply E2.
          rewrite (id_unique _ x nd NI Hx Hin E1). assumption.
        - apply Nat.eqb_neq in E1. apply Nat.eqb_eq in E2. exfalso. apply E1.
          rewrite (key_unique _ x nd NK Hx Hin); [reflexivity | congruence]. }
      unfold g. rewrite Heq. destruct (nkey x =? k); reflexivity.
  - split; [assumption|]. unfold contents, al_set. rewrite map_map. symmetry.
    rewrite <- (map_id (map _ _)) at 1. rewrite map_map. apply map_ext_in. intros x Hx. simpl.
    pose proof (find_none _ _ F x Hx) as E. simpl in E. rewrite E. reflexivity.
Qed.

Lemma map_index_ok : forall m nx k, minv m nx ->
  let r := map_index hash m nx k in
  minv (fst (fst r)) (snd (fst r)) /\ nx <= snd (fst r) /\
  contents (fst (fst r)) = al_insert k 0 (contents m) /\
  snd r = match al_find k (contents m) with Some v => v | None => 0 end.
Proof.
  intros m nx k I. unfold map_index. rewrite (map_find_correct m nx k I).
  unfold contents at 2 3. rewrite al_find_contents.
  destruct (find (fun nd => nkey nd =? k) (m_entries m)) as [nd|] eqn:F; simpl.
  - split; [assumption|]. split; [lia|]. split; [|reflexivity].
    unfold contents. symmetry. eapply al_insert_contents_some. eassumption.
  - destruct (create_entry_ok m nx k 0 I) as (A & B & C); [apply find_key_none; assumption|].
    destruct (create_entry hash m nx k 0) as [m' n'] eqn:CE. simpl in *.
    split; [assumption|]. split; [assumption|]. split; [|reflexivity].
    rewrite C. symmetry. apply al_insert_contents_none. assumption.
Qed.

Lemma map_erase_ok : forall m nx k, minv m nx ->
  minv (fst (map_erase hash m k)) nx /\
  contents (fst (map_erase hash m k)) = al_erase k (contents m) /\
  snd (map_erase hash m k) = match al_find k (contents m) with Some _ => 1 | None => 0 end.
Proof.
  intros m nx k I. unfold map_erase. rewrite (map_find_correct m nx k I).
  unfold contents at 3. rewrite al_find_contents.
  destruct (find (fun nd => nkey nd =? k) (m_entries m)) as [nd|] eqn:F; simpl.
  - apply find_some in F. destruct F as [Hin Hk]. apply Nat.eqb_eq in Hk.
    destruct (do_erase_ok m nx nd I Hin) as (A & B). rewrite Hk in B. auto.
  - split; [assumption|]. split; [|reflexivity].
    unfold contents, al_erase. symmetry. apply filter_all. intros p Hp. apply in_map_iff in Hp.
    destruct Hp as (x & <- & Hx). simpl. pose proof (find_none _ _ F x Hx) as E. simpl in E. rewrite E. reflexivity.
Qed.

(* copy constructor *)
Lemma copy_fold_ok : forall l m nx, minv m nx -> NoDup (keys l) ->
  (forall nd, In nd l -> ~ In (nkey nd) (keys (m_entries m))) ->
  let r := fold_left (fun '(m, n) nd => map_insert hash m n (nkey nd) (nval nd)) l (m, nx) in
  minv (fst r) (snd r) /\ nx <= snd r /\ contents (fst r) = contents m ++ map (fun nd => (nkey nd, nval nd)) l /\
  m_minb (fst r) = m_minb m.
Proof.
  induction l; intros m nx I N D; simpl.
  { split; [assumption|]. split; [lia|]. split; [symmetry; apply app_nil_r | reflexivity]. }
  inversion N; subst.
  assert (Hk : ~ In (nkey a) (keys (m_entries m))) by (apply D; left; reflexivity).
  assert (F : find (fun nd => nkey nd =? nkey a) (m_entries m) = None) by (apply find_key_none; assumption).
  assert (MI : map_insert hash m nx (nkey a) (nval a) = create_entry hash m nx (nkey a) (nval a)).
  { unfold map_insert. rewrite (map_find_correct m nx _ I), F. reflexivity. }
  rewrite MI.
  destruct (create_entry_ok m nx (nkey a) (nval a) I Hk) as (A & B & C).
  assert (Mb : m_minb (fst (create_entry hash m nx (nkey a) (nval a))) = m_minb m).
  { rewrite create_entry_eq. cbv zeta. unfold maybe_rehash, ensure_buckets, rehash.
    repeat match goal with |- context [if ?c then _ else _] => destruct c end; reflexivity. }
  destruct (create_entry hash m nx (nkey a) (nval a)) as [m' n'] eqn:CE. simpl in A, B, C, Mb.
  assert (D' : forall nd, In nd l -> ~ In (nkey nd) (keys (m_entries m'))).
  { intros nd Hnd Hin. assert (Kc : keys (m_entries m') = map fst (contents m')) by (unfold keys, contents; rewrite map_map; reflexivity).
    rewrite Kc, C, map_app in Hin. apply in_app_or in Hin. destruct Hin as [Hin|[Hin|[]]].
    - apply (D nd (or_intror Hnd)). unfold keys, contents in *. rewrite map_map in Hin. exact Hin.
    - simpl in Hin. apply H1. rewrite Hin. apply in_map. assumption. }
  destruct (IHl m' n' A H2 D') as (P & Q & R & S).
  split; [assumption|]. split; [lia|]. split; [|congruence].
  rewrite R, C, <- app_assoc. reflexivity.
Qed.

Lemma map_copy_ok : forall r nx, minv r nx ->
  let c := map_copy hash r nx in
  minv (fst c) (snd c) /\ nx <= snd c /\ contents (fst c) = contents r.
Proof.
  intros r nx I. unfold map_copy.
  set (m0 := mkmap (m_lfn r) (m_lfd r) (m_minb r) 0 [] [] (repeat vempty (S (m_lfn r * m_size r / m_lfd r))) 0 (m_thr r)).
  assert (I0 : minv m0 nx).
  { constructor; simpl.
    - constructor.
    - constructor.
    - intros id [].
    - constructor.
    - constructor.
    - constructor.
    - reflexivity.
    - intros H; contradiction.
    - intros nd [].
    - intros j id H. destruct j; simpl in H; [destruct H|]. rewrite nth_repeat_vempty in H. destruct H.
    - intros id [[]|[]].
    - apply (i_minb _ _ I).
    - constructor; [unfold wf, vsize; simpl; lia | apply Forall_repeat_wf]. }
  destruct (copy_fold_ok (m_entries r) m0 nx I0 (i_keys _ _ I)) as (A & B & C & _).
  { intros nd _ []. }
  split; [assumption|]. split; [assumption|]. rewrite C. reflexivity.
Qed.

Lemma swap_into_ok : forall a b nx, 1 <= m_minb a -> minv b nx -> minv (swap_into a b) nx /\ contents (swap_into a b) = contents b.
Proof. intros a b nx Ma []. split; [constructor; simpl; assumption | reflexivity]. Qed.

Lemma map_assign_ok : forall a r nx, 1 <= m_minb a -> minv r nx ->
  let c := map_assign hash a r nx in
  minv (fst c) (snd c) /\ nx <= snd c /\ contents (fst c) = contents r.
Proof.
  intros a r nx Ma I. unfold map_assign. destruct (map_copy_ok r nx I) as (A & B & C).
  destruct (map_copy hash r nx) as [t n'] eqn:E. simpl in *.
  destruct (swap_into_ok a t n' Ma A) as (P & Q). split; [assumption|]. split; [assumption|]. congruence.
Qed.

(* ---------------------------------------------------------------------------------------------- *)
(* refinement of op sequences *)
Definition mrel (s : mstate) (t : sstate) : Prop :=
  contents (mreg0 s) = s0 t /\ contents (mreg1 s) = s1 t /\ mcur s = scur t.
Definition sinv (s : mstate) : Prop := minv (mreg0 s) (mnext s) /\ minv (mreg1 s) (mnext s).

Definition mop_ok (o : mop) : bool := match o with MNew _ _ minb _ => 1 <=? minb | _ => true end.

Lemma set_cur_m_ok : forall s t m n l, mrel s t -> sinv s -> mnext s <= n -> minv m n -> contents m = l ->
  mrel (set_cur_m s m n) (set_cur_s t l) /\ sinv (set_cur_m s m n).
Proof.
  intros s t m n l (A & B & C) (I0 & I1) L I E. unfold set_cur_m, set_cur_s, mrel, sinv. rewrite C.
  destruct (scur t); simpl.
  - split; [auto|]. split; [eapply minv_mono; eassumption | assumption].
  - split; [auto|]. split; [assumption | eapply minv_mono; eassumption].
Qed.

Lemma set_oth_m_ok : forall s t m n l, mrel s t -> sinv s -> mnext s <= n -> minv m n -> contents m = l ->
  mrel (set_oth_m s m n) (set_oth_s t l) /\ sinv (set_oth_m s m n).
Proof.
  intros s t m n l (A & B & C) (I0 & I1) L I E. unfold set_oth_m, set_oth_s, mrel, sinv. rewrite C.
  destruct (scur t); simpl.
  - split; [auto|]. split; [assumption | eapply minv_mono; eassumption].
  - split; [auto|]. split; [eapply minv_mono; eassumption | assumption].
Qed.

Lemma mstep_refines : forall s t o, mrel s t -> sinv s -> mop_ok o = true ->
  snd (mstep hash s o) = snd (sstep t o) /\ mrel (fst (mstep hash s o)) (fst (sstep t o)) /\ sinv (fst (mstep hash s o)).
Proof.
  intros s t o R I Ok.
  assert (C : contents (cur_map s) = cur_s t).
  { destruct R as (A & B & D). unfold cur_map, cur_s. rewrite D. destruct (scur t); assumption. }
  assert (O : contents (oth_map s) = oth_s t).
  { destruct R as (A & B & D). unfold oth_map, oth_s. rewrite D. destruct (scur t); assumption. }
  assert (IC : minv (cur_map s) (mnext s)) by (destruct I; unfold cur_map; destruct (mcur s); assumption).
  assert (IO : minv (oth_map s) (mnext s)) by (destruct I; unfold oth_map; destruct (mcur s); assumption).
  destruct o; unfold mstep, sstep.
  - (* insert *)
    destruct (map_insert_ok (cur_map s) (mnext s) k v IC) as (P & Q & S).
    destruct (map_insert hash (cur_map s) (mnext s) k v) as [m' n'] eqn:E. simpl in *.
    split; [reflexivity|]. apply set_cur_m_ok; auto. rewrite S, C. reflexivity.
  - (* m[k] = v *)
    destruct (map_index_ok (cur_map s) (mnext s) k IC) as (P & Q & S & _).
    destruct (map_index hash (cur_map s) (mnext s) k) as [[m' n'] r] eqn:E. simpl in *.
    destruct (set_val_ok m' n' k v P) as (P2 & S2).
    split; [reflexivity|]. apply set_cur_m_ok; auto. rewrite S2, S, C. reflexivity.
  - (* m[k] *)
    destruct (map_index_ok (cur_map s) (mnext s) k IC) as (P & Q & S & T).
    destruct (map_index hash (cur_map s) (mnext s) k) as [[m' n'] r] eqn:E. simpl in *.
    split; [rewrite T, C; reflexivity|]. apply set_cur_m_ok; auto. rewrite S, C. reflexivity.
  - (* find *)
    simpl. split; [|split; assumption].
    rewrite (map_find_correct _ _ k IC). rewrite <- C. unfold contents. rewrite al_find_contents.
    destruct (find (fun nd => nkey nd =? k) (m_entries (cur_map s))) as [nd|] eqn:F; simpl; [|reflexivity].
    apply find_some in F. destruct F as [_ F]. apply Nat.eqb_eq in F. rewrite F. reflexivity.
  - (* erase key *)
    destruct (map_erase_ok (cur_map s) (mnext s) k IC) as (P & S & T).
    destruct (map_erase hash (cur_map s) k) as [m' r] eqn:E. simpl in *.
    split; [rewrite T, C; reflexivity|]. apply set_cur_m_ok; auto. rewrite S, C. reflexivity.
  - (* erase iterator *)
    destruct (map_erase_ok (cur_map s) (mnext s) k IC) as (P & S & T). simpl.
    split; [reflexivity|]. apply set_cur_m_ok; auto. rewrite S, C. reflexivity.
  - (* clear *)
    destruct (map_clear_ok (cur_map s) (mnext s) IC) as (P & S). simpl.
    split; [reflexivity|]. apply set_cur_m_ok; auto.
  - (* copy *)
    destruct (map_copy_ok (cur_map s) (mnext s) IC) as (P & Q & S).
    destruct (map_copy hash (cur_map s) (mnext s)) as [m' n'] eqn:E. simpl in *.
    split; [reflexivity|]. apply set_oth_m_ok; auto. rewrite S, C. reflexivity.
  - (* assign *)
    destruct (map_assign_ok (cur_map s) (oth_map s) (mnext s) (i_minb _ _ IC) IO) as (P & Q & S).
    destruct (map_assign hash (cur_map s) (oth_map s) (mnext s)) as [m' n'] eqn:E. simpl in *.
    split; [reflexivity|]. apply set_cur_m_ok; auto. rewrite S, O. reflexivity.
  - (* self-assign *)
    destruct (map_assign_ok (cur_map s) (cur_map s) (mnext s) (i_minb _ _ IC) IC) as (P & Q & S).
    destruct (map_assign hash (cur_map s) (cur_map s) (mnext s)) as [m' n'] eqn:E. simpl in *.
    split; [reflexivity|].
    destruct (set_cur_m_ok s t m' n' (cur_s t) R I Q P) as (R' & I'); [rewrite S, C; reflexivity|].
    split; [|assumption].
    destruct R' as (A & B & D). destruct R as (A0 & B0 & D0). unfold mrel, set_cur_s, cur_s in *.
    destruct (scur t); simpl in *; auto.
  - (* swap *)
    destruct R as (A & B & D). destruct I as (I0 & I1). simpl.
    destruct (swap_into_ok (mreg0 s) (mreg1 s) (mnext s) (i_minb _ _ I0) I1) as (P0 & Q0).
    destruct (swap_into_ok (mreg1 s) (mreg0 s) (mnext s) (i_minb _ _ I1) I0) as (P1 & Q1).
    split; [reflexivity|]. unfold mrel, sinv. simpl. rewrite Q0, Q1. auto.
  - (* select *)
    destruct R as (A & B & D). destruct I as (I0 & I1). simpl. unfold mrel, sinv. simpl. auto.
  - (* new *)
    unfold mop_ok in Ok. apply Nat.leb_le in Ok. simpl. split; [reflexivity|]. apply set_cur_m_ok; auto.
    constructor; simpl.
    + constructor.
    + constructor.
    + intros id [].
    + constructor.
    + constructor.
    + constructor.
    + reflexivity.
    + intros H; contradiction.
    + intros nd [].
    + intros j id H. destruct j; destruct H.
    + intros id [[]|[]].
    + assumption.
    + constructor.
Qed.

Lemma mrun_refines : forall ops s t, mrel s t -> sinv s -> forallb mop_ok ops = true ->
  map (fun '(r, n, c, _) => (r, n, c)) (mrun hash s ops) = srun t ops.
Proof.
  induction ops; intros s t R I Ok; simpl; [reflexivity|].
  simpl in Ok. apply andb_prop in Ok. destruct Ok as [Ok1 Ok2].
  destruct (mstep_refines s t a R I Ok1) as (A & B & C).
  destruct (mstep hash s a) as [s' r] eqn:E1. destruct (sstep t a) as [t' r'] eqn:E2. simpl in *.
  rewrite (IHops s' t' B C Ok2). subst r'. f_equal. f_equal.
  - f_equal.
    assert (Cc : contents (cur_map s') = cur_s t').
    { destruct B as (B0 & B1 & D). unfold cur_map, cur_s. rewrite D. destruct (scur t'); assumption. }
    assert (Ic : minv (cur_map s') (mnext s')) by (destruct C; unfold cur_map; destruct (mcur s'); assumption).
    rewrite (i_size _ _ Ic), <- Cc. unfold contents. rewrite map_length. reflexivity.
  - destruct B as (B0 & B1 & D). unfold cur_map, cur_s. rewrite D. destruct (scur t'); assumption.
Qed.

Lemma sinv_run : forall ops s, sinv s -> forallb mop_ok ops = true ->
  Forall (fun '(_, _, _, m) => exists nx, minv m nx) (mrun hash s ops).
Proof.
  induction ops; intros s I Ok; simpl; [constructor|].
  simpl in Ok. apply andb_prop in Ok. destruct Ok as [Ok1 Ok2].
  set (t := mkss (contents (mreg0 s)) (contents (mreg1 s)) (mcur s)).
  assert (R : mrel s t) by (unfold mrel; simpl; auto).
  destruct (mstep_refines s t a R I Ok1) as (_ & _ & C).
  destruct (mstep hash s a) as [s' r] eqn:E1. simpl in *.
  constructor; [|apply IHops; assumption].
  exists (mnext s'). destruct C; unfold cur_map; destruct (mcur s'); assumption.
Qed.

Lemma new_map_ok : forall a b c d nx, 1 <= c -> minv (new_map a b c d) nx.
Proof.
  intros. constructor; simpl.
  - constructor.
  - constructor.
  - intros id [].
  - constructor.
  - constructor.
  - constructor.
  - reflexivity.
  - intros H0; contradiction.
  - intros nd [].
  - intros j id H0. destruct j; destruct H0.
  - intros id [[]|[]].
  - assumption.
  - constructor.
Qed.

Theorem map_refines_fmap_lemma : forall a b c d e f g h ops,
  1 <= c -> 1 <= g -> forallb mop_ok ops = true ->
  map (fun '(r, n, cts, _) => (r, n, cts)) (mrun hash (mkms (new_map a b c d) (new_map e f g h) false 0) ops)
  = srun (mkss [] [] false) ops.
Proof.
  intros. apply mrun_refines; [unfold mrel; simpl; auto | | assumption].
  split; simpl; apply new_map_ok; assumption.
Qed.

Theorem map_invariant_lemma : forall a b c d e f g h ops,
  1 <= c -> 1 <= g -> forallb mop_ok ops = true ->
  Forall (fun '(_, _, _, m) => exists nx, minv m nx) (mrun hash (mkms (new_map a b c d) (new_map e f g h) false 0) ops).
Proof.
  intros. apply sinv_run; [|assumption]. split; simpl; apply new_map_ok; assumption.
Qed.

Theorem set_refines_lemma : forall ops,
  map (fun '(r, n, cts, _) => (r, n, cts)) (set_run hash ops) = srun (mkss [] [] false) (map set_to_map ops).
Proof.
  intros. unfold set_run, default_map. apply map_refines_fmap_lemma.
  - unfold map_default_min_buckets. lia.
  - unfold map_default_min_buckets. lia.
  - induction ops as [|o r IH]; [reflexivity|]. simpl. rewrite IH. destruct o; reflexivity.
Qed.

End MapProofs.
