(* C11 part "cache": proofs about the machine of XoCacheDefs.v.  For ALL conversions to_num / num_to_str, all
   flag records passing the decidable guard flags_ok, and ALL histories: the cached machine observes what the
   cache-less specification observes. *)
From Coq Require Import ZArith NArith List Bool SpecFloat Lia.
Require Import XV.NumDefs XV.XoCacheAst XV.GenXoCache XV.XoCacheDefs.
Import ListNotations.

(* ---- lists ---- *)
Lemma upd_map_same : forall {A B} (f : A -> B) (l : list A) i x y,
  nth_error l i = Some y -> f x = f y -> map f (upd l i x) = map f l.
Proof.
  induction l as [|h t IH]; intros [|i] x y H E; simpl in *; try discriminate.
  - inversion H; subst. now rewrite E.
  - f_equal. eapply IH; eauto.
Qed.
Lemma Forall_upd : forall {A} (P : A -> Prop) (l : list A) i x, Forall P l -> P x -> Forall P (upd l i x).
Proof.
  induction l as [|h t IH]; intros [|i] x HF Hx; simpl; auto; inversion HF; subst; constructor; auto.
Qed.
Lemma Forall_del : forall {A} (P : A -> Prop) (l : list A) i, Forall P l -> Forall P (del l i).
Proof.
  induction l as [|h t IH]; intros [|i] HF; simpl; auto; inversion HF; subst; auto.
Qed.
Lemma map_del : forall {A B} (f : A -> B) (l : list A) i, map f (del l i) = del (map f l) i.
Proof.
  induction l as [|h t IH]; intros [|i]; simpl; auto. now rewrite IH.
Qed.
Lemma Forall_nth : forall {A} (P : A -> Prop) (l : list A) i x, Forall P l -> nth_error l i = Some x -> P x.
Proof.
  intros A P l i x HF H. rewrite Forall_forall in HF. apply HF. eapply nth_error_In; eauto.
Qed.
Lemma nth_map : forall {A B} (f : A -> B) (l : list A) i, nth_error (map f l) i = option_map f (nth_error l i).
Proof.
  induction l as [|h t IH]; intros [|i]; simpl; auto.
Qed.
Lemma str_empty_nil : forall s, str_empty s = true -> s = [].
Proof. destruct s; simpl; congruence. Qed.
Lemma str_empty_false : forall s, str_empty s = false -> s <> [].
Proof. destruct s; simpl; congruence. Qed.
Lemma has_nodes_false : forall v, has_nodes v = false -> v = [].
Proof. destruct v; simpl; congruence. Qed.

Section Proofs.
Variable to_num : str -> dbl.
Variable num_to_str : dbl -> str.
Variable fl : xo_flags.

(* not cached: empty string, the sentinel itself *)
Definition clean (o : xobj) : Prop := cstr o = [] /\ cnum o = f_bogus fl.

(* THE INVARIANT: a cached value, when present, is the conversion of the payload the object holds now *)
Definition ok_obj (o : xobj) : Prop :=
  match pl o with
  | PNodes vals => (cstr o = [] \/ cstr o = first_data vals)
                   /\ (is_bogus fl (cnum o) = true \/ cnum o = to_num (first_data vals))
  | PStr s => is_zero (cnum o) = true \/ cnum o = to_num s
  | PNum v => cstr o = [] \/ cstr o = num_to_str v
  | PFrag cs => match csing o with Some v => v = frag_string cs | None => True end
                /\ (cstr o = [] \/ cstr o = frag_string cs)
                /\ (is_rtf_bogus fl (cnum o) = true \/ cnum o = to_num (frag_string cs))
  end.

(* ---- clearCachedValues ---- *)
Definition absR (o : xobj) (a : bool * bool) : Prop :=
  str_empty (cstr o) = fst a /\ (snd a = true -> cnum o = f_bogus fl).

Lemma run_simple_abs : forall s o a, absR o a ->
  absR (run_simple fl o s) (abs_simple a s) /\ pl (run_simple fl o s) = pl o.
Proof.
  intros [] [p cs cn sg] [a1 a2] [H1 H2]; simpl in *; repeat split; auto.
Qed.
Lemma fold_simple_abs : forall b o a, absR o a ->
  absR (fold_left (run_simple fl) b o) (fold_left abs_simple b a) /\ pl (fold_left (run_simple fl) b o) = pl o.
Proof.
  induction b as [|s b IH]; intros o a H; simpl; auto.
  destruct (run_simple_abs s o a H) as [H1 H2].
  destruct (IH _ _ H1) as [H3 H4]. split; congruence.
Qed.
Lemma run_stmt_abs : forall st o a, absR o a ->
  absR (run_stmt fl o st) (abs_stmt a st) /\ pl (run_stmt fl o st) = pl o.
Proof.
  intros [s|b] o a H; simpl.
  - now apply run_simple_abs.
  - destruct H as [H1 H2]. rewrite H1. destruct (fst a) eqn:E.
    + unfold absR. repeat split; auto; congruence.
    + apply fold_simple_abs. unfold absR. split; auto; congruence.
Qed.
Lemma fold_stmt_abs : forall prog o a, absR o a ->
  absR (fold_left (run_stmt fl) prog o) (fold_left abs_stmt prog a) /\ pl (fold_left (run_stmt fl) prog o) = pl o.
Proof.
  induction prog as [|s b IH]; intros o a H; simpl; auto.
  destruct (run_stmt_abs s o a H) as [H1 H2].
  destruct (IH _ _ H1) as [H3 H4]. split; congruence.
Qed.
Lemma clear_resets : clear_resets_both fl = true ->
  forall o, clean (clear_cached fl o) /\ pl (clear_cached fl o) = pl o.
Proof.
  intros HC o. unfold clear_resets_both in HC. simpl in HC.
  apply andb_prop in HC. destruct HC as [HT HF]. rewrite andb_true_r in HF.
  assert (HA : absR o (str_empty (cstr o), false)) by (split; simpl; [auto|discriminate]).
  destruct (fold_stmt_abs (f_clear fl) o _ HA) as [[H1 H2] H3].
  fold (clear_cached fl o) in *. fold (abs_clear fl (str_empty (cstr o), false)) in *.
  split; auto.
  destruct (str_empty (cstr o)).
  - apply andb_prop in HT. destruct HT as [Ha Hb]. split.
    + apply str_empty_nil. congruence.
    + auto.
  - apply andb_prop in HF. destruct HF as [Ha Hb]. split.
    + apply str_empty_nil. congruence.
    + auto.
Qed.

(* ---- one question ---- *)
Lemma ask_ok : forall q o, ok_obj o ->
  ok_obj (fst (ask to_num num_to_str fl q o)) /\ pl (fst (ask to_num num_to_str fl q o)) = pl o
  /\ snd (ask to_num num_to_str fl q o) = conv to_num num_to_str (pl o) q.
Proof.
  intros q [p cs cn sg]. unfold ok_obj, ask. simpl. destruct p as [vals|s|v|fs]; intros H.
  - destruct H as [Hs Hn]. destruct q; simpl;
      unfold ns_num, ns_str_ref, ns_str_buf, ns_len; simpl.
    + (* num *) destruct (is_bogus fl cn) eqn:EB; simpl.
      * destruct (str_empty cs) eqn:ES; simpl.
        -- apply str_empty_nil in ES. subst cs. destruct (has_nodes vals) eqn:EN; simpl; auto.
           apply has_nodes_false in EN. subst vals. simpl. auto.
        -- apply str_empty_false in ES. destruct Hs as [Hs|Hs]; [contradiction|]. subst cs. auto.
      * destruct Hn as [Hn|Hn]; [discriminate|]. subst cn. rewrite EB. auto.
    + (* str ref *) destruct (str_empty cs) eqn:ES; simpl.
      * apply str_empty_nil in ES. subst cs. destruct (has_nodes vals) eqn:EN; simpl; auto.
        apply has_nodes_false in EN. subst vals. simpl. auto.
      * apply str_empty_false in ES. destruct Hs as [Hs|Hs]; [contradiction|]. subst cs. auto.
    + (* buffer *) destruct (str_empty cs) eqn:ES; simpl.
      * apply str_empty_nil in ES. subst cs. destruct (has_nodes vals) eqn:EN; simpl; auto.
        apply has_nodes_false in EN. subst vals. simpl. auto.
      * apply str_empty_false in ES. destruct Hs as [Hs|Hs]; [contradiction|]. subst cs. auto.
    + (* events *) destruct (str_empty cs) eqn:ES; simpl.
      * apply str_empty_nil in ES. subst cs. destruct (has_nodes vals) eqn:EN; simpl; auto.
        apply has_nodes_false in EN. subst vals. simpl. auto.
      * apply str_empty_false in ES. destruct Hs as [Hs|Hs]; [contradiction|]. subst cs. auto.
    + (* length *) destruct (str_empty cs) eqn:ES; simpl.
      * apply str_empty_nil in ES. subst cs. destruct (has_nodes vals) eqn:EN; simpl; auto.
        apply has_nodes_false in EN. subst vals. simpl. auto.
      * apply str_empty_false in ES. destruct Hs as [Hs|Hs]; [contradiction|]. subst cs. auto.
    + auto.
  - destruct q; simpl; auto. unfold xs_num. simpl.
    destruct (is_zero cn) eqn:EZ; simpl; auto.
    destruct H as [H|H]; [congruence|]. subst cn. rewrite EZ. auto.
  - destruct q; simpl; auto; unfold xn_str_ref, xn_str_buf; simpl;
      (destruct (str_empty cs) eqn:ES; simpl;
       [apply str_empty_nil in ES; subst cs; simpl; auto
       |apply str_empty_false in ES; destruct H as [H|H]; [contradiction|]; subst cs; auto]).
  - destruct H as [Hg [Hs Hn]].
    assert (SR : snd (rtf_str_ref (mk_obj (PFrag fs) cs cn sg) fs) = frag_string fs
                 /\ pl (fst (rtf_str_ref (mk_obj (PFrag fs) cs cn sg) fs)) = PFrag fs
                 /\ csing (fst (rtf_str_ref (mk_obj (PFrag fs) cs cn sg) fs)) = sg
                 /\ cnum (fst (rtf_str_ref (mk_obj (PFrag fs) cs cn sg) fs)) = cn
                 /\ (cstr (fst (rtf_str_ref (mk_obj (PFrag fs) cs cn sg) fs)) = []
                     \/ cstr (fst (rtf_str_ref (mk_obj (PFrag fs) cs cn sg) fs)) = frag_string fs)).
    { unfold rtf_str_ref. simpl. destruct sg as [v|].
      - simpl. repeat split; auto.
      - destruct (str_empty cs) eqn:ES.
        + apply str_empty_nil in ES. subst cs. simpl. repeat split; auto.
        + apply str_empty_false in ES. destruct Hs as [Hs|Hs]; [contradiction|]. subst cs.
          simpl. repeat split; auto. }
    destruct q; simpl.
    + (* num *) unfold rtf_num. simpl. destruct (is_rtf_bogus fl cn) eqn:EB.
      * destruct (rtf_str_ref (mk_obj (PFrag fs) cs cn sg) fs) as [o1 r] eqn:E1.
        simpl in SR. destruct SR as [R1 [R2 [R3 [R4 R5]]]]. subst r. simpl.
        unfold set_cnum. simpl. rewrite R2, R3. repeat split; auto.
      * destruct Hn as [Hn|Hn]; [congruence|]. subst cn. simpl. rewrite EB. repeat split; auto.
    + (* str ref *) destruct (rtf_str_ref (mk_obj (PFrag fs) cs cn sg) fs) as [o1 r] eqn:E1.
      simpl in SR. destruct SR as [R1 [R2 [R3 [R4 R5]]]]. subst r. simpl. rewrite R2, R3, R4. repeat split; auto.
    + (* buffer *) unfold rtf_str_buf. simpl. repeat split; auto. destruct sg as [v|]; [congruence|].
      destruct (str_empty cs) eqn:ES; simpl; auto.
      apply str_empty_false in ES. destruct Hs as [Hs|Hs]; [contradiction|]. congruence.
    + (* events *) unfold rtf_str_buf. simpl. repeat split; auto. destruct sg as [v|]; [congruence|].
      destruct (str_empty cs) eqn:ES; simpl; auto.
      apply str_empty_false in ES. destruct Hs as [Hs|Hs]; [contradiction|]. congruence.
    + (* length *) unfold rtf_len. simpl. repeat split; auto. destruct sg as [v|]; [congruence|].
      destruct (str_empty cs) eqn:ES; simpl; auto.
      apply str_empty_false in ES. destruct Hs as [Hs|Hs]; [contradiction|]. congruence.
    + repeat split; auto.
Qed.

(* ---- recycling ---- *)
Hypothesis FOK : flags_ok fl = true.

Lemma fl_clear : clear_resets_both fl = true.
Proof. pose proof FOK as F. unfold flags_ok in F. rewrite !andb_true_iff in F. tauto. Qed.
Lemma fl_sentinel : is_bogus fl (f_bogus fl) = true.
Proof. pose proof FOK as F. unfold flags_ok in F. rewrite !andb_true_iff in F. unfold is_bogus. tauto. Qed.
Lemma fl_release : f_release_clears fl = true.
Proof. pose proof FOK as F. unfold flags_ok in F. rewrite !andb_true_iff in F. tauto. Qed.
Lemma fl_set_or_return : f_set_releases fl || f_return_releases fl = true.
Proof. pose proof FOK as F. unfold flags_ok in F. rewrite !andb_true_iff in F. tauto. Qed.
Lemma fl_xs : f_xs_set_clears fl = true.
Proof. pose proof FOK as F. unfold flags_ok in F. rewrite !andb_true_iff in F. tauto. Qed.
Lemma fl_xn : f_xn_set_clears fl = true.
Proof. pose proof FOK as F. unfold flags_ok in F. rewrite !andb_true_iff in F. tauto. Qed.
Lemma fl_rtf_text : f_rtf_text_test fl = true.
Proof. pose proof FOK as F. unfold flags_ok in F. rewrite !andb_true_iff in F. tauto. Qed.
Lemma fl_rtf_sibling : f_rtf_sibling_test fl = true.
Proof. pose proof FOK as F. unfold flags_ok in F. rewrite !andb_true_iff in F. tauto. Qed.
Lemma fl_rtf_sentinel : is_rtf_bogus fl (f_rtf_bogus fl) = true.
Proof. pose proof FOK as F. unfold flags_ok in F. rewrite !andb_true_iff in F. unfold is_rtf_bogus. tauto. Qed.

(* getSingleTextChildValue: when it delivers a value, that value is the string-value of the whole fragment *)
Lemma single_text_child_is_the_string : forall cs v,
  single_text_child fl cs = Some v -> v = frag_string cs.
Proof.
  intros [|c rest] v; unfold single_text_child; [discriminate|].
  rewrite fl_rtf_text, fl_rtf_sibling. simpl.
  destruct c; simpl; try discriminate. destruct rest; simpl; try discriminate.
  intros E. inversion E; subst. unfold frag_string. simpl. now rewrite app_nil_r.
Qed.

Lemma fresh_ok : forall p, ok_obj (fresh fl p) /\ pl (fresh fl p) = p.
Proof.
  intros [vals|s|v|cs]; unfold ok_obj; simpl; split; auto.
  - split; auto. left. apply fl_sentinel.
  - split; [|split; auto].
    + destruct (single_text_child fl cs) as [v|] eqn:E; auto. now apply single_text_child_is_the_string.
    + left. apply fl_rtf_sentinel.
Qed.
Lemma ns_release_clean : forall o, clean (ns_release fl o).
Proof.
  intros o. unfold ns_release. rewrite fl_release. apply clear_resets. apply fl_clear.
Qed.
Lemma clean_ok : forall o vals, clean o -> ok_obj (set_pl (PNodes vals) o).
Proof.
  intros [p cs cn sg] vals [H1 H2]. unfold ok_obj. simpl in *. subst. split; auto. left. apply fl_sentinel.
Qed.

(* what the node-set stack may hold: anything if set() releases, otherwise only clean objects *)
Definition ns_stack_ok (o : xobj) : Prop := f_set_releases fl = true \/ clean o.

Lemma ns_set_ok : forall o vals, ns_stack_ok o -> ok_obj (ns_set fl o vals) /\ pl (ns_set fl o vals) = PNodes vals.
Proof.
  intros o vals H. unfold ns_set. split; [|reflexivity].
  destruct (f_set_releases fl) eqn:E.
  - apply clean_ok. apply ns_release_clean.
  - destruct H as [H|H]; [congruence|]. now apply clean_ok.
Qed.
Lemma xs_set_ok : forall o s, ok_obj (xs_set fl o s) /\ pl (xs_set fl o s) = PStr s.
Proof.
  intros [p cs cn sg] s. unfold xs_set. rewrite fl_xs. unfold ok_obj. simpl. auto.
Qed.
Lemma xn_set_ok : forall o v, ok_obj (xn_set fl o v) /\ pl (xn_set fl o v) = PNum v.
Proof.
  intros [p cs cn sg] s. unfold xn_set. rewrite fl_xn. unfold ok_obj. simpl. auto.
Qed.

Definition winv (w : world) : Prop := Forall ok_obj (live w) /\ Forall ns_stack_ok (st_ns w).

Lemma create_ok : forall p w, winv w ->
  winv (create fl p w) /\ map pl (live (create fl p w)) = map pl (live w) ++ [p].
Proof.
  intros p w [HL HS]. unfold create.
  assert (K : forall o rest a b c, ok_obj o -> pl o = p -> Forall ns_stack_ok rest ->
            winv (mk_world (live w ++ [o]) rest a b) /\ map pl (live (mk_world (live w ++ [o]) rest a c)) = map pl (live w) ++ [p]).
  { intros o rest a b c H1 H2 H3. split; [split|]; cbn [live st_ns]; auto.
    - apply Forall_app. split; auto.
    - rewrite map_app. cbn [map]. now rewrite H2. }
  destruct p as [vals|s|v|cs].
  - destruct (st_ns w) as [|o rest] eqn:E.
    + destruct (fresh_ok (PNodes vals)) as [F1 F2]. apply K; auto.
    + inversion HS; subst. destruct (ns_set_ok o vals H1) as [F1 F2]. apply K; auto.
  - destruct (st_s w) as [|o rest] eqn:E.
    + destruct (fresh_ok (PStr s)) as [F1 F2]. apply K; auto.
    + destruct (xs_set_ok o s) as [F1 F2]. apply K; auto.
  - destruct (st_n w) as [|o rest] eqn:E.
    + destruct (fresh_ok (PNum v)) as [F1 F2]. apply K; auto.
    + destruct (xn_set_ok o v) as [F1 F2]. apply K; auto.
  - destruct (fresh_ok (PFrag cs)) as [F1 F2]. apply K; auto.
Qed.

Lemma give_back_ok : forall o w, winv w -> winv (give_back fl o w) /\ live (give_back fl o w) = live w.
Proof.
  intros o w [HL HS]. unfold give_back.
  destruct (pl o).
  - destruct (Nat.ltb _ _); simpl; [|split; [split|]; auto].
    split; [split|]; simpl; auto. constructor; auto.
    destruct (f_return_releases fl) eqn:E.
    + right. apply ns_release_clean.
    + left. pose proof fl_set_or_return as H. rewrite E in H. now rewrite orb_false_r in H.
  - destruct (Nat.ltb _ _); simpl; split; try split; auto.
  - destruct (Nat.ltb _ _); simpl; split; try split; auto.
  - split; [split|]; auto.
Qed.

Lemma step_ok : forall x w, winv w ->
  winv (fst (step to_num num_to_str fl w x))
  /\ map pl (live (fst (step to_num num_to_str fl w x))) = fst (ref_step to_num num_to_str (map pl (live w)) x)
  /\ snd (step to_num num_to_str fl w x) = snd (ref_step to_num num_to_str (map pl (live w)) x).
Proof.
  intros [p|i q|i] w HW; simpl.
  - destruct (create_ok p w HW) as [H1 H2]. auto.
  - rewrite nth_map. destruct (nth_error (live w) i) as [o|] eqn:E; simpl; auto.
    destruct HW as [HL HS].
    destruct (ask_ok q o (Forall_nth _ _ _ _ HL E)) as [A1 [A2 A3]].
    destruct (ask to_num num_to_str fl q o) as [o' r]. simpl in *.
    split; [split|split]; simpl; auto.
    + apply Forall_upd; auto.
    + eapply upd_map_same; eauto.
    + now rewrite A3.
  - destruct (nth_error (live w) i) as [o|] eqn:E; simpl.
    + destruct HW as [HL HS].
      assert (HW' : winv (mk_world (del (live w) i) (st_ns w) (st_s w) (st_n w))).
      { split; simpl; auto. now apply Forall_del. }
      destruct (give_back_ok o _ HW') as [G1 G2]. split; auto. rewrite G2. simpl.
      split; auto. apply map_del.
    + split; auto. split; auto.
      (* nothing at that index: the reference drops nothing either *)
      clear -E. revert i E. induction (live w) as [|h t IH]; intros [|i] E; simpl in *; auto; try discriminate.
      f_equal. auto.
Qed.

Lemma run_ok : forall ops w, winv w ->
  run to_num num_to_str fl w ops = ref_run to_num num_to_str (map pl (live w)) ops.
Proof.
  induction ops as [|x ops IH]; intros w HW; simpl; auto.
  destruct (step_ok x w HW) as [S1 [S2 S3]].
  destruct (step to_num num_to_str fl w x) as [w' r].
  destruct (ref_step to_num num_to_str (map pl (live w)) x) as [h' r']. simpl in *. subst.
  f_equal. now apply IH.
Qed.

(* a fragment whose only child is a text node: the constructor takes the shortcut, and every string answer is the value
   of that text node without m_cachedStringValue ever being filled *)
Lemma shortcut_is_taken : forall v q,
  csing (fresh fl (PFrag [FText v])) = Some v
  /\ cstr (fst (ask to_num num_to_str fl q (fresh fl (PFrag [FText v])))) = [].
Proof.
  intros v q. unfold fresh, single_text_child. rewrite fl_rtf_text, fl_rtf_sibling. simpl. split; auto.
  destruct q; unfold ask; simpl; auto.
  unfold rtf_num. simpl. destruct (is_rtf_bogus fl (f_rtf_bogus fl)); simpl; auto.
Qed.

Lemma winv_w0 : winv w0.
Proof. split; constructor. Qed.

(* every observation of every history is the conversion of the payload the object holds at that moment *)
Lemma observations_are_conversions : forall ops,
  run to_num num_to_str fl w0 ops = ref_run to_num num_to_str [] ops.
Proof. intros ops. now rewrite (run_ok ops w0 winv_w0). Qed.

(* the invariant itself, for every reachable world *)
Fixpoint world_after (w : world) (ops : list op) : world :=
  match ops with [] => w | x :: rest => world_after (fst (step to_num num_to_str fl w x)) rest end.
Lemma invariant_reachable : forall ops w, winv w -> winv (world_after w ops).
Proof.
  induction ops as [|x ops IH]; intros w HW; simpl; auto. apply IH. apply step_ok. auto.
Qed.
Lemma cached_values_are_current : forall ops o,
  In o (live (world_after w0 ops)) -> ok_obj o.
Proof.
  intros ops o HI. destruct (invariant_reachable ops w0 winv_w0) as [HL _].
  rewrite Forall_forall in HL. auto.
Qed.

End Proofs.

(* ---- what the sentinels do (no hypothesis on the flags) ---- *)
Section Sentinels.
Variable to_num : str -> dbl.
Variable num_to_str : dbl -> str.
Variable fl : xo_flags.

(* num() on an object with nothing cached leaves string and number of the first node in the two members *)
Lemma num_fills_both_members : forall o vals,
  pl o = PNodes vals -> cstr o = [] -> is_bogus fl (cnum o) = true ->
  cstr (fst (ask to_num num_to_str fl QNum o)) = first_data vals
  /\ cnum (fst (ask to_num num_to_str fl QNum o)) = to_num (first_data vals).
Proof.
  intros [p cs cn sg] vals H1 H2 H3. simpl in *. subst. unfold ask. simpl. unfold ns_num, ns_str_ref. simpl.
  rewrite H3. simpl. destruct vals; simpl; auto.
Qed.
(* ... so the number is found again by the next num() exactly when it is not (IEEE-)equal to the sentinel *)
Lemma number_is_kept_unless_it_is_the_sentinel : forall o vals,
  pl o = PNodes vals -> cstr o = [] -> is_bogus fl (cnum o) = true ->
  is_bogus fl (cnum (fst (ask to_num num_to_str fl QNum o))) = is_bogus fl (to_num (first_data vals)).
Proof.
  intros o vals H1 H2 H3. now destruct (num_fills_both_members o vals H1 H2 H3) as [_ ->].
Qed.
(* an empty string-value is never "cached": str() leaves the object as it was *)
Lemma empty_string_value_is_not_kept : forall o vals,
  pl o = PNodes vals -> cstr o = [] -> first_data vals = [] ->
  fst (ask to_num num_to_str fl QStrRef o) = o.
Proof.
  intros [p cs cn sg] vals H1 H2 H3. simpl in *. subst. unfold ask. simpl. unfold ns_str_ref. simpl.
  destruct (has_nodes vals); simpl; auto. rewrite H3. reflexivity.
Qed.
End Sentinels.

(* ---- the seeded shape (seeded/C11_f) ---- *)
Definition s_20 : str := [50; 48]%N.
Definition c11f_history : list op :=
  [Create (PNodes []); Ask 0 QNum; Return 0; Create (PNodes [s_20]); Ask 0 QNum].

Lemma seeded_guard_rejects : flags_ok seeded_flags = false.
Proof. vm_compute. reflexivity. Qed.
Lemma seeded_refuted :
  run string_to_number number_to_string seeded_flags w0 c11f_history = [ONum S754_nan; ONum S754_nan]
  /\ ref_run string_to_number number_to_string [] c11f_history = [ONum S754_nan; ONum (string_to_number s_20)]
  /\ string_to_number s_20 <> S754_nan.
Proof. vm_compute. repeat split; discriminate. Qed.

(* ---- XResultTreeFrag: getSingleTextChildValue without the test for a following sibling ---- *)
Definition s_2 : str := [50]%N.
Definition s_0 : str := [48]%N.
Definition rtf_history : list op :=
  [Create (PFrag [FText s_2; FElem s_0]); Ask 0 QStrRef; Ask 0 QNum].
Lemma no_sibling_test_guard_rejects : flags_ok no_sibling_test_flags = false.
Proof. vm_compute. reflexivity. Qed.
Lemma no_sibling_test_refuted :
  run string_to_number number_to_string no_sibling_test_flags w0 rtf_history = [OStr s_2; ONum (string_to_number s_2)]
  /\ ref_run string_to_number number_to_string [] rtf_history = [OStr s_20; ONum (string_to_number s_20)]
  /\ string_to_number s_2 <> string_to_number s_20.
Proof. vm_compute. repeat split; discriminate. Qed.

(* ---- this tree ---- *)
Lemma this_tree_guard : flags_ok gen_flags = true.
Proof. vm_compute. reflexivity. Qed.
Lemma this_tree_observations : forall to_num num_to_str ops,
  run to_num num_to_str gen_flags w0 ops = ref_run to_num num_to_str [] ops.
Proof. intros. apply observations_are_conversions. exact this_tree_guard. Qed.
Lemma this_tree_extracted : forall ops, xo_run ops = xo_ref ops.
Proof. intros. apply this_tree_observations. Qed.
