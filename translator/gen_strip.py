"""C13 — facts of the whitespace-stripping mechanism consumed by coq/StripDefs.v (GenStrip.v).

 (1) constants / shapes of the decision: eMatchScore enum order, the score NodeTester::initialize
     gives to `*`, `prefix:*`, QName; the comparison of Stylesheet::addWhitespaceElement; where
     Stylesheet::addImport puts an import; how postConstruction appends the imports' testers; the shape
     of StylesheetRoot::shouldStripSourceNode / internalShouldStripSourceNode (whitespace flag, parent
     element, first match decides, default preserve, xml:space not consulted).
 (2) a census, regenerated on every run, of the places that have to consult the decision:
     (a) every XPath::NodeTester::test*(context, nodeType): does it accept text nodes, does it call
         shouldStripSourceNode;
     (b) the DOMServices::getNodeData overloads (strip-aware = take an ExecutionContext) and every call
         of DOMServices::getNodeData in src/xalanc/XPath and src/xalanc/XSLT with the family it uses;
     (c) the XSLTEngineImpl copy routines: which consult the decision, with which overrideStrip.
 Fail closed (AnchorError)."""
import os, re
import srcfacts
from srcfacts import AnchorError, need, read, strip_comments, function_body, HEADER


def _squeeze(s):
    s = re.sub(r"\s+", " ", s).strip()
    return re.sub(r"(?<![A-Za-z0-9_]) | (?![A-Za-z0-9_])", "", s)


def _norm(s):
    return _squeeze(strip_comments(s))


def lit(snippet):
    parts = re.split(r"(@ANY@|@ID@)", snippet)
    rx = ""
    for p in parts:
        if p == "@ANY@":
            rx += r".*?"
        elif p == "@ID@":
            rx += r" ?([A-Za-z_]\w*) ?"
        else:
            rx += re.escape(_squeeze(p)) if p.strip() else ""
    return rx


def _coq_str(s):
    return '"%s"' % s.replace('"', '""')


def _split_args(txt):
    """split a C++ argument list at top-level commas"""
    out, depth, cur = [], 0, ""
    for ch in txt:
        if ch in "([{":
            depth += 1
        elif ch in ")]}":
            depth -= 1
        if ch == "," and depth == 0:
            out.append(cur.strip())
            cur = ""
        else:
            cur += ch
    if cur.strip():
        out.append(cur.strip())
    return out


def _call_args(text, start):
    """text[start] is '(' : return (argument text, index after the closing parenthesis)"""
    depth = 0
    for j in range(start, len(text)):
        if text[j] == "(":
            depth += 1
        elif text[j] == ")":
            depth -= 1
            if depth == 0:
                return text[start + 1:j], j + 1
    raise AnchorError("unbalanced parentheses in a getNodeData call")


_KEYWORDS = ("if", "while", "for", "switch", "return", "assert", "sizeof", "catch", "do", "else")
_span_cache = {}


def _function_spans(text):
    """[(name, body start, body end)] of the function definitions of a comment-free C++ text"""
    key = id(text)
    if key in _span_cache and _span_cache[key][0] is text:
        return _span_cache[key][1]
    spans = []
    for m in re.finditer(r"((?:[A-Za-z_]\w*::)*~?[A-Za-z_]\w*)\s*\(", text):
        name = m.group(1)
        if name.split("::")[-1] in _KEYWORDS:
            continue
        try:
            _, after = _call_args(text, m.end() - 1)
        except AnchorError:
            continue
        mm = re.match(r"\s*(?:const\s*)?(?::[^{;]*)?\{", text[after:after + 400])
        if not mm:
            continue
        start = after + mm.end() - 1
        depth = 0
        for k in range(start, len(text)):
            if text[k] == "{":
                depth += 1
            elif text[k] == "}":
                depth -= 1
                if depth == 0:
                    spans.append((name, start, k))
                    break
    _span_cache[key] = (text, spans)
    return spans


def _enclosing_function(text, pos):
    """name of the innermost function definition whose body contains text[pos] (comment-free text)"""
    best = None
    for name, a, b in _function_spans(text):
        if a < pos < b and (best is None or a > best[1]):
            best = (name, a)
    return best[0] if best else "?"


def gen_strip():
    facts = {}
    xp_hpp = read("XPath/XPath.hpp")
    xp = read("XPath/XPath.cpp")
    st_hpp = read("XSLT/Stylesheet.hpp")
    st = read("XSLT/Stylesheet.cpp")
    sr_hpp = read("XSLT/StylesheetRoot.hpp")
    sr = read("XSLT/StylesheetRoot.cpp")
    sh = read("XSLT/StylesheetHandler.cpp")
    secd = read("XSLT/StylesheetExecutionContextDefault.cpp")
    eng = read("XSLT/XSLTEngineImpl.cpp")
    dsh = read("DOMSupport/DOMServices.hpp")
    dsc = read("DOMSupport/DOMServices.cpp")

    # --- (1) scores --------------------------------------------------------------------------------
    m = need(r"enum\s+eMatchScore\s*\{([^}]*)\}", strip_comments(xp_hpp), "enum eMatchScore")
    names = [x.strip().split("=")[0].strip() for x in m.group(1).split(",") if x.strip()]
    if any("=" in x for x in m.group(1).split(",")):
        raise AnchorError("eMatchScore has explicit values")
    enum = {n: i for i, n in enumerate(names)}
    body = _norm(function_body(xp, r"XPath::NodeTester::initialize\s*\(\s*const\s+XalanDOMString&\s*theNamespaceURI\s*,\s*const\s+XalanDOMString&\s*theLocalName\s*\)\s*\{",
                               "NodeTester::initialize(uri, local)"))
    m = need(lit("if(theNamespaceURI.empty()==false){ m_targetNamespace=&theNamespaceURI; if(theLocalName.empty()==true){ m_testFunction2=&NodeTester::testElementNamespaceOnly2; return @ID@; }"
                 " else { m_testFunction2=&NodeTester::testElementQName2; m_targetLocalName=&theLocalName; return @ID@; } }"
                 " else if(theLocalName.empty()==false){ m_testFunction2=&NodeTester::testElementNCName2; m_targetLocalName=&theLocalName; return @ID@; }"
                 " else { m_testFunction2=&NodeTester::testElementTotallyWild2; return @ID@; }"), body,
             "NodeTester::initialize(uri, local): the four branches and their scores")
    try:
        s_ns, s_q, s_nc, s_any = [enum[m.group(i)] for i in (1, 2, 3, 4)]
    except KeyError as e:
        raise AnchorError("unknown match score %s" % e)
    facts.update(score_any=s_any, score_nswild=s_ns, score_qname=s_q, score_ncname=s_nc, score_none=enum.get("eMatchScoreNone", -1))
    # the string form: "*" / NCName / prefix:* / prefix:NCName dispatch to the (uri, local) form
    b1 = _norm(function_body(xp, r"XPath::NodeTester::initialize\s*\(\s*XPathConstructionContext&[^)]*\)\s*\{", "NodeTester::initialize(name test string)"))
    need(lit("if(theLength==1&&theNameTest[0]==XPath::PSEUDONAME_ANY[0]){ return initialize(s_emptyString,s_emptyString); }"), b1, "initialize: '*'")
    need(lit("theResult=initialize(s_emptyString,theConstructionContext.getPooledString(theNameTest));"), b1, "initialize: NCName has no namespace (the default namespace is not used)")
    need(lit("else if(theIndex==theLength-2&&theNameTest[theIndex+1]==XPath::PSEUDONAME_ANY[0]){ theResult=initialize(theConstructionContext.getPooledString(*theNamespaceURI),s_emptyString); }"), b1, "initialize: prefix:*")
    need(lit("theResult=initialize(theConstructionContext.getPooledString(*theNamespaceURI),theConstructionContext.getPooledString(theScratchString));"), b1, "initialize: prefix:NCName")
    # the element tests used by the testers
    xpn = _norm(xp)
    need(lit("XPath::NodeTester::testElementNCName2(const XalanElement&context)const{ assert(@ANY@); if(matchLocalName(context)==false){ return eMatchScoreNone; }"), xpn, "testElementNCName2")
    need(lit("XPath::NodeTester::testElementQName2(const XalanElement&context)const{ assert(@ANY@); if(matchLocalNameAndNamespaceURI(context)==false){ return eMatchScoreNone; }"), xpn, "testElementQName2")
    need(lit("XPath::NodeTester::testElementNamespaceOnly2(const XalanElement&context)const{ assert(@ANY@); if(matchNamespaceURI(context)==false){ return eMatchScoreNone; }"), xpn, "testElementNamespaceOnly2")
    need(lit("XPath::NodeTester::matchLocalName(const XalanNode&context)const{ assert(@ANY@); return context.getNamespaceURI().empty()==true&&DOMServices::getLocalNameOfNode(context)==*m_targetLocalName; }"), xpn, "matchLocalName: no namespace and same local name")

    # --- addWhitespaceElement ----------------------------------------------------------------------
    b = _norm(function_body(st, r"Stylesheet::addWhitespaceElement\s*\([^)]*\)\s*\{", "Stylesheet::addWhitespaceElement"))
    head = lit("const XPath::eMatchScore theMatchScore=theTester.getMatchScore(); iterator i=m_whitespaceElements.begin();")
    tail = lit("m_whitespaceElements.insert(i,theTester); }") + "$"
    cmp_rx = r"(?:theMatchScore(>=|>|<=|<|==)\(\*i\)\.getMatchScore\(\)|!\(theMatchScore(<|<=)\(\*i\)\.getMatchScore\(\)\))"
    shapes = [  # the linear search written as while/if-break/else-advance, or as a for loop with a break
        head + lit("while(i!=m_whitespaceElements.end()){ if(") + cmp_rx + lit("){ break; } else { ++i; } }") + tail,
        head + lit("for(;i!=m_whitespaceElements.end();++i){ if(") + cmp_rx + lit("){ break; } }") + tail,
    ]
    m = None
    for rx in shapes:
        m = m or re.search(rx, b, re.S)
    if not m:
        raise AnchorError("anchor not found: addWhitespaceElement: linear search, break on a score comparison, insert before")
    facts["insert_cmp"] = m.group(1) or {"<": ">=", "<=": ">"}[m.group(2)]
    if facts["insert_cmp"] not in (">=", ">"):
        raise AnchorError("addWhitespaceElement: comparison %s not modelled" % facts["insert_cmp"])
    # processPreserveStripSpace: tokens in order, one tester each
    pb = _norm(function_body(sh, r"StylesheetHandler::processPreserveStripSpace\s*\([^)]*\)\s*\{", "processPreserveStripSpace"))
    need(lit("while(tokenizer.hasMoreTokens()){ tokenizer.nextToken(theNameTest); m_stylesheet.addWhitespaceElement( XalanSpaceNodeTester( isPreserveSpace==true? XalanSpaceNodeTester::ePreserve: XalanSpaceNodeTester::eStrip,"), pb,
         "processPreserveStripSpace: one addWhitespaceElement per token, in order")
    # addImport
    m = need(lit("addImport(Stylesheet*theStylesheet){ m_imports.insert(m_imports.") + r"(begin|end)" + lit("(),theStylesheet); }"), _norm(st_hpp), "Stylesheet::addImport")
    facts["import_at_front"] = m.group(1) == "begin"
    # postConstruction: the imports' testers are appended, in m_imports order, after the stylesheet's own
    pc = _norm(function_body(st, r"Stylesheet::postConstruction\s*\([^)]*\)\s*\{", "Stylesheet::postConstruction"))
    need(lit("const StylesheetVectorType::iterator theEnd=m_imports.end(); StylesheetVectorType::iterator i=m_imports.begin();") + ".*?" +
         lit("while(i!=theEnd){") + ".*?" +
         lit("m_whitespaceElements.insert( m_whitespaceElements.end(), (*i)->m_whitespaceElements.begin(), (*i)->m_whitespaceElements.end());") + ".*?" + lit("++i; }"), pc,
         "postConstruction: imports' testers appended at the end in m_imports order")
    if len(re.findall(r"m_whitespaceElements\.insert\(", pc)) != 1 or "addWhitespaceElement" in pc:
        raise AnchorError("postConstruction: the imports' testers are not merged by a single append")
    need(lit("StylesheetVectorType::reverse_iterator i=m_imports.rbegin(); while(i!=theEnd){ (*i)->postConstruction(constructionContext);"), pc,
         "postConstruction: imports post-constructed first")
    # StylesheetRoot
    srn = _norm(sr)
    need(lit("m_hasStripOrPreserveSpace=m_whitespaceElements.empty()==false;"), srn, "StylesheetRoot::postConstruction: m_hasStripOrPreserveSpace")
    need(lit("shouldStripSourceNode(const XalanText&theNode)const{ if(hasPreserveOrStripSpaceElements()==true&& theNode.isWhitespace()==true){ return internalShouldStripSourceNode(theNode); } return false; }"),
         _norm(sr_hpp), "StylesheetRoot::shouldStripSourceNode: declarations exist and the node is flagged whitespace")
    ib_raw = function_body(sr, r"StylesheetRoot::internalShouldStripSourceNode\s*\([^)]*\)\s*const\s*\{", "internalShouldStripSourceNode")
    ib = _norm(ib_raw)
    head_rx = lit("const XalanNode*const parent=textNode.getParentNode(); if(parent==0) return false; if(parent->getNodeType()==XalanNode::ELEMENT_NODE){"
                  " const XalanElement*const theElement= static_cast<const XalanElement*>(parent); typedef WhitespaceElementsVectorType::const_iterator const_iterator;"
                  " const_iterator i=m_whitespaceElements.begin(); do { const XalanSpaceNodeTester&theTester=*i; if(theTester(*theElement)!=XPath::eMatchScoreNone){")
    tail_rx = lit("} ++i; } while(i!=m_whitespaceElements.end()); } return false; }") + "$"
    plain = re.search(head_rx + lit("return theTester.getType()==XalanSpaceNodeTester::eStrip;") + tail_rx, ib)
    with_xs = re.search(head_rx + lit("return theTester.getType()==XalanSpaceNodeTester::eStrip&& isXMLSpacePreserved(theElement)==false;") + tail_rx, ib)
    if not plain and not with_xs:
        raise AnchorError("anchor not found: internalShouldStripSourceNode: parent element, first matching tester decides (optionally overridden by xml:space), default preserve")
    facts["consults_xml_space"] = bool(with_xs)
    if with_xs:
        xb = _norm(function_body(sr, r"isXMLSpacePreserved\s*\(\s*const\s+XalanNode\*\s*theElement\s*\)\s*\{", "isXMLSpacePreserved"))
        need(lit("while(theElement!=0&& theElement->getNodeType()==XalanNode::ELEMENT_NODE){ const XalanNamedNodeMap*const theAttributes= theElement->getAttributes();"
                 " const XalanNode*const theSpaceAttribute= theAttributes==0?0:theAttributes->getNamedItem(Constants::ATTRNAME_XMLSPACE);"
                 " if(theSpaceAttribute!=0){ const XalanDOMString&theValue=theSpaceAttribute->getNodeValue(); if(theValue==Constants::ATTRVAL_PRESERVE){ return true; }"
                 " else if(theValue==Constants::ATTRVAL_DEFAULT){ return false; } } theElement=theElement->getParentNode(); } return false; }") + "$", xb,
             "isXMLSpacePreserved: nearest xml:space on the ancestor elements, preserve / default decide, other values skipped, none: false")
        cst = _norm(read("XSLT/Constants.cpp"))
        for name, val in (("ATTRNAME_XMLSPACE", "xml:space"), ("ATTRVAL_PRESERVE", "preserve"), ("ATTRVAL_DEFAULT", "default")):
            if not re.search(r"::%s\.?=?[^;]*" % name, cst):
                raise AnchorError("Constants::%s not found" % name)
    elif re.search(r"xml:space|XMLSPACE|xmlspace|getAttribute", ib_raw, re.I):
        raise AnchorError("internalShouldStripSourceNode mentions xml:space / attributes in an unrecognised way")
    secn = _norm(secd)
    fwd = re.search(lit("StylesheetExecutionContextDefault::shouldStripSourceNode(const XalanText&node){ assert(@ANY@); return m_stylesheetRoot->shouldStripSourceNode(node); }"), secn)
    rtf = re.search(lit("StylesheetExecutionContextDefault::shouldStripSourceNode(const XalanText&node){ assert(@ANY@); if(m_stylesheetRoot->shouldStripSourceNode(node)==false){ return false; }"
                        " else { const XalanDocument*const theOwner=node.getOwnerDocument(); if(theOwner!=0&& (theOwner==m_sourceTreeResultTreeFactory.get()||"
                        " (m_usePerInstanceDocumentFactory==true&& m_documentAllocator.ownsObject( static_cast<const XalanSourceTreeDocument*>(theOwner))==true))){ return false; } return true; } }"), secn)
    if not fwd and not rtf:
        raise AnchorError("anchor not found: StylesheetExecutionContextDefault::shouldStripSourceNode forwards to the stylesheet root (optionally exempting result tree fragment documents)")
    facts["rtf_nodes_exempt"] = bool(rtf)

    # --- (2a) NodeTester::test* ---------------------------------------------------------------------
    xpc = strip_comments(xp)
    testers = []
    for m in re.finditer(r"XPath::NodeTester::(test\w+)\s*\(\s*const\s+XalanNode&[^)]*,\s*XalanNode::NodeType[^)]*\)\s*const\s*\{", xpc):
        name = m.group(1)
        fb = function_body(xpc[m.start():], r"XPath::NodeTester::" + name + r"\s*\([^)]*\)\s*const\s*\{", name)
        accepts_text = "TEXT_NODE" in fb
        # a test that never names a node type and does not return None unconditionally accepts everything
        if "nodeType" not in fb.replace("/* nodeType */", "") and "NodeType" not in fb and not re.fullmatch(r"\{\s*return\s+eMatchScoreNone\s*;\s*\}", fb.strip()):
            accepts_text = True
        consults = "shouldStripSourceNode(" in fb
        testers.append((name, accepts_text, consults))
    if len(testers) < 10:
        raise AnchorError("NodeTester::test* functions not found (%d)" % len(testers))
    need(lit("XPath::NodeTester::shouldStripSourceNode(const XalanText&context)const{ assert(@ANY@); return m_executionContext->shouldStripSourceNode(context); }"),
         xpn, "NodeTester::shouldStripSourceNode forwards to the execution context")
    facts["testers"] = testers
    tn = _norm(function_body(xpc, r"XPath::NodeTester::testNode\s*\([^)]*\)\s*const\s*\{", "NodeTester::testNode"))
    tn_plain = re.search(lit("if(nodeType!=XalanNode::TEXT_NODE|| shouldStripSourceNode(static_cast<const XalanText&>(context))==false)"), tn)
    tn_cdata = re.search(lit("if((nodeType!=XalanNode::TEXT_NODE&& nodeType!=XalanNode::CDATA_SECTION_NODE)|| shouldStripSourceNode(static_cast<const XalanText&>(context))==false)"), tn)
    if not tn_plain and not tn_cdata:
        raise AnchorError("anchor not found: NodeTester::testNode: text (and CDATA section) nodes ask shouldStripSourceNode")

    # --- (2b) getNodeData families --------------------------------------------------------------------
    dshn = _norm(dsh)
    for what in ("XalanNode", "XalanDocument", "XalanDocumentFragment", "XalanElement", "XalanText"):
        need(lit("getNodeData( const %s&@ID@, ExecutionContext&context, XalanDOMString&data){ if(!context.hasPreserveOrStripSpaceConditions()){ getNodeData(" % what), dshn,
             "DOMServices::getNodeData(%s, context, data) dispatch" % what)
        need(lit("getNodeData( const %s&@ID@, ExecutionContext&context, FormatterListener&formatterListener, MemberFunctionPtr function){ if(!context.hasPreserveOrStripSpaceConditions()){ getNodeData(" % what), dshn,
             "DOMServices::getNodeData(%s, context, listener, fn) dispatch" % what)
    if len(re.findall(lit("if(context.shouldStripSourceNode(text)==false){"), dshn)) != 2:
        raise AnchorError("DOMServices.hpp: the two doGetNodeData(XalanText, context, ...) do not both consult shouldStripSourceNode")
    dscn = _norm(dsc)
    # the aware recursion stays aware: getChildData(child, executionContext, ...) calls doGetNodeData only
    for sig in ("getChildData( const XalanNode*child, ExecutionContext&executionContext, XalanDOMString&data)",
                "getChildData( const XalanNode*child, ExecutionContext&executionContext, FormatterListener&formatterListener, DOMServices::MemberFunctionPtr function)"):
        mm = need(lit(sig) + r"\{", dscn, "DOMServices.cpp: " + sig[:40])
        cb = function_body(dscn[mm.start():], lit(sig) + r"\{", "getChildData body")
        calls = re.findall(r"DOMServices::(?:doGetNodeData|getNodeData)\(([^;]*)\);", cb)
        if len(calls) != 2 or not all("executionContext" in c for c in calls):
            raise AnchorError("DOMServices.cpp: the strip-aware getChildData does not pass the execution context on to both recursive calls")
    for what in ("XalanElement&element", "XalanDocument&document"):
        for tail in ("XalanDOMString&data", "FormatterListener&formatterListener, MemberFunctionPtr function"):
            mm = need(lit("DOMServices::doGetNodeData( const %s, ExecutionContext&executionContext, %s)" % (what, tail)) + r"\{", dscn, "doGetNodeData(%s)" % what)
            cb = function_body(dscn[mm.start():], r"\)\{", "doGetNodeData body")
            if not re.search(r"getChildrenData\([^;]*executionContext", cb):
                raise AnchorError("doGetNodeData(%s): children are not visited with the execution context" % what)
    sites = []
    for d in ("XPath", "XSLT"):
        full = os.path.join(srcfacts.SRC, d)
        try:
            files = sorted(f for f in os.listdir(full) if f.endswith((".cpp", ".hpp")))
        except OSError as e:
            raise AnchorError("cannot list %s: %s" % (d, e))
        for f in files:
            txt = strip_comments(read(d + "/" + f))
            per = {}
            for m in re.finditer(r"DOMServices::getNodeData\s*\(", txt):
                args, _ = _call_args(txt, m.end() - 1)
                a = _split_args(args)
                aware = any(re.search(r"[cC]ontext", x) for x in a[1:])
                if len(a) not in (2, 3, 4):
                    raise AnchorError("%s/%s: getNodeData call with %d arguments" % (d, f, len(a)))
                fn = _enclosing_function(txt, m.start())
                key = (d + "/" + f, fn, aware)
                per[key] = per.get(key, 0) + 1
            for (ff, fn, aware), n in sorted(per.items()):
                sites.append((ff, fn, aware, n))
    if len(sites) < 15:
        raise AnchorError("getNodeData call sites not found")
    facts["getnodedata_sites"] = sites

    # --- (2c) copy routines --------------------------------------------------------------------------
    engc = strip_comments(eng)
    engn = _norm(eng)
    need(lit("XSLTEngineImpl::cloneToResultTree( const XalanText&node, bool overrideStrip){ assert(@ANY@); assert(@ANY@); if(overrideStrip==true|| m_executionContext->shouldStripSourceNode(node)==false){"
             " const XalanDOMString&data=node.getData(); characters(data.c_str(),0,data.length()); } }"), engn,
         "cloneToResultTree(XalanText, overrideStrip): copies unless stripped")
    cd_plain = re.search(lit("case XalanNode::CDATA_SECTION_NODE: { const XalanDOMString&data=node.getNodeValue(); cdata(data.c_str(),0,data.length()); } break;"), engn)
    cd_asks = re.search(lit("case XalanNode::CDATA_SECTION_NODE: if(overrideStrip==true|| m_executionContext->shouldStripSourceNode( static_cast<const XalanText&>(node))==false){"
                            " const XalanDOMString&data=node.getNodeValue(); cdata(data.c_str(),0,data.length()); } break;"), engn)
    if not cd_plain and not cd_asks:
        raise AnchorError("anchor not found: cloneToResultTree: case CDATA_SECTION_NODE")
    if bool(tn_cdata) != bool(cd_asks):
        raise AnchorError("CDATA sections are treated as text for stripping by only one of NodeTester::testNode / cloneToResultTree")
    facts["cdata_is_text_for_strip"] = bool(tn_cdata)
    copies = []
    # every call of the six-argument cloneToResultTree inside XSLTEngineImpl.cpp with its overrideStrip argument
    for m in re.finditer(r"(?<![:\w])cloneToResultTree\s*\(", engc):
        args, _ = _call_args(engc, m.end() - 1)
        a = _split_args(args)
        if len(a) == 6 and not a[0].startswith("const"):
            copies.append((_enclosing_function(engc, m.start()), "six", re.sub(r"\s+", "", a[2])))
        elif len(a) == 2 and not a[0].startswith("const"):
            copies.append((_enclosing_function(engc, m.start()), "text", re.sub(r"\s+", "", a[1])))
    if len(copies) < 4:
        raise AnchorError("cloneToResultTree call sites not found")
    facts["copy_sites"] = copies
    # the only other users of the text clone: the built-in text rule (ElemTemplateElement) passes overrideStrip = true
    ete = strip_comments(read("XSLT/ElemTemplateElement.cpp"))
    builtin = []
    for m in re.finditer(r"executionContext\.cloneToResultTree\s*\(", ete):
        args, _ = _call_args(ete, m.end() - 1)
        a = _split_args(args)
        builtin.append((len(a), re.sub(r"\s+", "", a[2]) if len(a) >= 5 else "-"))
    facts["builtin_text_rule"] = builtin

    # --- xsl:number level="any": where the backwards walk tests the from pattern -------------------------
    en = read("XSLT/ElemNumber.cpp")
    gp = _norm(function_body(en, r"ElemNumber::getPreviousNode\s*\([^)]*\)\s*const\s*\{", "ElemNumber::getPreviousNode"))
    need(lit("XalanNode*next=pos->getPreviousSibling(); if(0==next){ next=pos->getParentNode();"), gp, "getPreviousNode: previous sibling, else parent")
    need(lit("XalanNode*child=next; while(0!=child){ child=next->getLastChild(); if(0!=child) next=child; }"), gp, "getPreviousNode: dive to the last descendant of the previous sibling")
    every = re.search(lit("pos=next; if(0!=pos&& 0!=fromMatchPattern&& fromMatchPattern->getMatchScore( pos, *this, executionContext)!=XPath::eMatchScoreNone){ pos=0; break; } if(0!=pos&& (0==countMatchPattern|| countMatchPattern->getMatchScore( pos,"), gp) is not None
    parent_only = re.search(lit("next=pos->getParentNode(); if(0!=next&& (next->getNodeType()==XalanNode::DOCUMENT_NODE|| (0!=fromMatchPattern&& fromMatchPattern->getMatchScore( next, *this, executionContext)!=XPath::eMatchScoreNone))){ pos=0; break; }"), gp) is not None
    if every == parent_only:
        raise AnchorError("getPreviousNode (level any): where the from pattern is tested is not recognised (every node: %s, parents only: %s)" % (every, parent_only))
    if len(re.findall(r"fromMatchPattern->getMatchScore\(", gp)) != 1:
        raise AnchorError("getPreviousNode: the from pattern is tested in more than one place")
    facts["number_from_on_every_node"] = every
    fp = _norm(function_body(en, r"ElemNumber::findPrecedingOrAncestorOrSelf\s*\([^)]*\)\s*const\s*\{", "ElemNumber::findPrecedingOrAncestorOrSelf"))
    if re.search(lit("if(0!=fromMatchPattern&&thePos!=context){ if(fromMatchPattern->getMatchScore( thePos,"), fp):
        on_self = False
    elif re.search(lit("if(0!=fromMatchPattern){ if(fromMatchPattern->getMatchScore( thePos,"), fp):
        on_self = True
    else:
        raise AnchorError("findPrecedingOrAncestorOrSelf: the from test is not recognised")
    need(lit("if(0!=countMatchPattern){ if(countMatchPattern->getMatchScore( thePos, *this, executionContext)!=XPath::eMatchScoreNone){ break; } }"), fp, "findPrecedingOrAncestorOrSelf: count test")
    facts["number_from_on_self"] = on_self

    # --- output ----------------------------------------------------------------------------------------
    out = HEADER
    out += "From Coq Require Import NArith List String Bool.\nImport ListNotations.\nOpen Scope string_scope.\n\n"
    out += "(* XPath.hpp enum eMatchScore (position in the enum) as returned by NodeTester::initialize(uri, local) *)\n"
    out += "Definition score_any : N := %d%%N.      (* '*'        *)\n" % s_any
    out += "Definition score_nswild : N := %d%%N.   (* 'prefix:*' *)\n" % s_ns
    out += "Definition score_qname : N := %d%%N.    (* 'prefix:local' *)\n" % s_q
    out += "Definition score_ncname : N := %d%%N.   (* 'local' (no namespace) *)\n\n" % s_nc
    out += "(* Stylesheet::addWhitespaceElement: the new tester goes before the first existing one whose score it\n   reaches (>=: true) or exceeds (>: false) *)\n"
    out += "Definition insert_before_equal : bool := %s.\n" % ("true" if m_is(facts["insert_cmp"], ">=") else "false")
    out += "(* Stylesheet::addImport inserts at m_imports.begin() *)\n"
    out += "Definition import_at_front : bool := %s.\n" % ("true" if facts["import_at_front"] else "false")
    out += "(* internalShouldStripSourceNode overrides a strip decision when isXMLSpacePreserved(parent) (nearest xml:space on the ancestors) *)\n"
    out += "Definition consults_xml_space : bool := %s.\n\n" % ("true" if facts["consults_xml_space"] else "false")
    out += "(* StylesheetExecutionContextDefault::shouldStripSourceNode answers false for the nodes of result tree fragments *)\n"
    out += "Definition rtf_nodes_exempt : bool := %s.\n" % ("true" if facts["rtf_nodes_exempt"] else "false")
    out += "(* NodeTester::testNode and the CDATA case of cloneToResultTree ask shouldStripSourceNode for CDATA section nodes *)\n"
    out += "Definition cdata_is_text_for_strip : bool := %s.\n\n" % ("true" if facts["cdata_is_text_for_strip"] else "false")
    out += "(* ElemNumber::getPreviousNode, level any: the from pattern is tested on every node of the backwards walk (true)\n   or only when the walk moves to a parent (false) *)\n"
    out += "Definition number_from_on_every_node : bool := %s.\n" % ("true" if facts["number_from_on_every_node"] else "false")
    out += "(* ElemNumber::findPrecedingOrAncestorOrSelf tests from on the context node itself *)\n"
    out += "Definition number_from_on_self : bool := %s.\n\n" % ("true" if facts["number_from_on_self"] else "false")
    out += "(* (a) XPath::NodeTester::test*(context, nodeType): (name, can match a text node, calls shouldStripSourceNode) *)\n"
    out += "Definition census_testers : list (string * bool * bool) :=\n  [ " + ";\n    ".join(
        "(%s, %s, %s)" % (_coq_str(n), "true" if a else "false", "true" if c else "false") for n, a, c in testers) + " ].\n\n"
    out += "(* (b) calls of DOMServices::getNodeData in src/xalanc/XPath and src/xalanc/XSLT:\n   (file, enclosing function, passes an execution context (strip-aware family), number of such calls) *)\n"
    out += "Definition census_getnodedata : list (string * string * bool * N) :=\n  [ " + ";\n    ".join(
        "(%s, %s, %s, %d%%N)" % (_coq_str(f), _coq_str(fn), "true" if a else "false", n) for f, fn, a, n in sites) + " ].\n\n"
    out += "(* (c) XSLTEngineImpl.cpp: calls of the node-cloning routines (enclosing function, form, overrideStrip argument) *)\n"
    out += "Definition census_copy : list (string * string * string) :=\n  [ " + ";\n    ".join(
        "(%s, %s, %s)" % (_coq_str(f), _coq_str(k), _coq_str(o)) for f, k, o in copies) + " ].\n"
    out += "(* ElemTemplateElement.cpp: executionContext.cloneToResultTree calls (number of arguments, overrideStrip) *)\n"
    out += "Definition census_builtin_rule : list (N * string) :=\n  [ " + ";\n    ".join("(%d%%N, %s)" % (n, _coq_str(o)) for n, o in builtin) + " ].\n"
    return out, facts


def m_is(a, b):
    return a == b


GENERATORS = {"GenStrip": gen_strip}
