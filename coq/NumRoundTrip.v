(* NumRoundTrip.v — number(string(x)) = x for every finite double, and the form of string(x):
   list/Z reasoning about the model of NumDefs.v on top of the rounding facts of NumFlocq.v. *)
From Coq Require Import ZArith NArith List Bool Lia SpecFloat.
Require Import XV.GenNum XV.NumDefs XV.NumModel XV.NumFlocq.
Import ListNotations.
Local Open Scope Z_scope.

Definition all_digits (l : str) : Prop := Forall (fun c => is_digit c = true) l.
Definition sgn (neg : bool) : str := if neg then [c_minus] else [].
(* the fraction of a numeral: nothing, or a point and digits *)
Definition frac (fp : str) : str := match fp with [] => [] | _ => c_dot :: fp end.

(** * Decimal digits *)

Lemma dchar_digit d : 0 <= d < 10 -> is_digit (Z.to_N d + 48) = true /\ Z.of_N (Z.to_N d + 48) - 48 = d.
Proof.
  intros H. unfold is_digit. split.
  - apply andb_true_iff. rewrite !N.leb_le. lia.
  - lia.
Qed.

Lemma value_of_digits_app : forall l1 l2 a,
  value_of_digits a (l1 ++ l2) = value_of_digits (value_of_digits a l1) l2.
Proof. induction l1 as [|c r IH]; intros; cbn [app value_of_digits]; auto. Qed.

Lemma value_of_digits_nonneg : forall l a, all_digits l -> 0 <= a -> 0 <= value_of_digits a l.
Proof.
  induction l as [|c r IH]; intros a Hd Ha; cbn [value_of_digits]; auto.
  inversion Hd as [|? ? Hc Hr]; subst. apply IH; auto.
  unfold is_digit in Hc. apply andb_true_iff in Hc. rewrite !N.leb_le in Hc. lia.
Qed.

Lemma value_zeros : forall k a, value_of_digits a (zeros k) = a * 10 ^ Z.of_nat k.
Proof.
  induction k as [|k IH]; intros a; cbn [zeros value_of_digits].
  - cbn. lia.
  - rewrite IH. change (Z.of_N c_0 - 48) with 0.
    rewrite Nat2Z.inj_succ, Z.pow_succ_r by lia. ring.
Qed.

Lemma zeros_digits k : all_digits (zeros k).
Proof. induction k; cbn [zeros]; constructor; auto. Qed.

Lemma digits_fuel_spec : forall f n acc,
  0 <= n < 2 ^ Z.of_nat (S f) ->
  exists ds, digits_fuel (S f) n acc = ds ++ acc /\ ds <> [] /\ all_digits ds /\
    (forall a, value_of_digits a ds = a * 10 ^ Z.of_nat (length ds) + n) /\
    (0 < n -> hd 0%N ds <> c_0).
Proof.
  induction f as [|f IH]; intros n acc Hn; cbn [digits_fuel].
  all: assert (Hm : 0 <= n mod 10 < 10) by (apply Z.mod_pos_bound; lia).
  all: destruct (dchar_digit _ Hm) as [Hdig Hval].
  all: destruct (n / 10 =? 0) eqn:E.
  1, 3: apply Z.eqb_eq in E;
      assert (Hn10 : n mod 10 = n) by (pose proof (Z.div_mod n 10 ltac:(lia)); lia);
      exists [(Z.to_N (n mod 10) + 48)%N]; repeat split;
      [ discriminate
      | constructor; [exact Hdig|constructor]
      | intros a; cbn [value_of_digits length]; rewrite Hval; change (Z.of_nat 1) with 1; lia
      | intros Hpos; cbn [hd]; unfold c_0; lia ].
  - exfalso. apply Z.eqb_neq in E. apply E. apply Z.div_small. change (2 ^ Z.of_nat 1) with 2 in Hn. lia.
  - apply Z.eqb_neq in E.
    assert (Hq : 0 <= n / 10 < 2 ^ Z.of_nat (S f)).
    { split; [apply Z.div_pos; lia|]. apply Z.div_lt_upper_bound; [lia|].
      rewrite (Nat2Z.inj_succ (S f)), Z.pow_succ_r in Hn by lia. lia. }
    destruct (IH (n / 10) ((Z.to_N (n mod 10) + 48)%N :: acc) Hq) as (ds & E1 & Hne & Hd & Hv & Hh).
    cbn [digits_fuel] in E1.
    exists (ds ++ [(Z.to_N (n mod 10) + 48)%N]). repeat split.
    + rewrite E1, <- app_assoc. reflexivity.
    + destruct ds; discriminate.
    + apply Forall_app. split; [exact Hd|constructor; [exact Hdig|constructor]].
    + intros a. rewrite value_of_digits_app, Hv. cbn [value_of_digits]. rewrite Hval.
      rewrite app_length. cbn [length]. rewrite Nat2Z.inj_add. change (Z.of_nat 1) with 1.
      rewrite Z.pow_add_r by lia. pose proof (Z.div_mod n 10 ltac:(lia)). lia.
    + intros Hpos. destruct ds as [|c r]; [congruence|]. cbn [app hd]. cbn [hd] in Hh. apply Hh.
      pose proof (Z.div_pos n 10 ltac:(lia) ltac:(lia)). lia.
Qed.

Lemma digits_of_spec n : 0 <= n ->
  digits_of n <> [] /\ all_digits (digits_of n) /\
  (forall a, value_of_digits a (digits_of n) = a * 10 ^ Z.of_nat (length (digits_of n)) + n) /\
  (0 < n -> hd 0%N (digits_of n) <> c_0).
Proof.
  intros Hn. unfold digits_of.
  assert (Hb : 0 <= n < 2 ^ Z.of_nat (S (Z.to_nat (Z.log2 n)))).
  { split; [exact Hn|]. rewrite Nat2Z.inj_succ, Z2Nat.id by apply Z.log2_nonneg.
    destruct (Z.eq_dec n 0) as [->|Hnz]; [cbn; lia|]. apply Z.log2_spec. lia. }
  destruct (digits_fuel_spec _ n [] Hb) as (ds & E & H1 & H2 & H3 & H4).
  rewrite app_nil_r in E. rewrite E. auto.
Qed.

(** * The shape of sprintf("%.pf") output *)

Lemma firstn_all_digits k l : all_digits l -> all_digits (firstn k l).
Proof. revert l. induction k as [|k IH]; intros l H; cbn [firstn]; [constructor|]. destruct H; constructor; auto. apply IH; auto. Qed.
Lemma skipn_all_digits k l : all_digits l -> all_digits (skipn k l).
Proof. revert l. induction k as [|k IH]; intros l H; cbn [skipn]; [exact H|]. destruct H; [constructor|]. apply IH; auto. Qed.

(* canonical integer part: "0", or no leading zero *)
Definition int_part_ok (ip : str) : Prop := ip = [c_0] \/ (ip <> [] /\ hd 0%N ip <> c_0).

Lemma fixed_point_shape neg p n : 0 <= n ->
  exists ip fp, fixed_point neg p n = sgn neg ++ ip ++ c_dot :: fp /\
    ip <> [] /\ all_digits ip /\ all_digits fp /\ length fp = p /\
    value_of_digits 0 (ip ++ fp) = n /\ int_part_ok ip.
Proof.
  intros Hn. destruct (digits_of_spec n Hn) as (Hne & Hd & Hv & Hh).
  unfold fixed_point. set (dn := digits_of n) in *.
  set (ds := zeros (S p - length dn) ++ dn).
  assert (Hl : length ds = Nat.max (length dn) (S p)).
  { unfold ds. rewrite app_length, zeros_length. lia. }
  set (k := (length ds - p)%nat).
  assert (Hk : (1 <= k <= length ds)%nat) by (unfold k; lia).
  exists (firstn k ds), (skipn k ds).
  assert (Hds : all_digits ds) by (apply Forall_app; split; [apply zeros_digits|exact Hd]).
  repeat split.
  - intros E. apply (f_equal (@length _)) in E. rewrite firstn_length in E. cbn [length] in E. lia.
  - apply firstn_all_digits; exact Hds.
  - apply skipn_all_digits; exact Hds.
  - rewrite skipn_length. unfold k. lia.
  - rewrite firstn_skipn. unfold ds. rewrite value_of_digits_app, value_zeros, Hv. lia.
  - unfold int_part_ok. destruct (Nat.leb (S p) (length dn)) eqn:El.
    + apply Nat.leb_le in El. replace (S p - length dn)%nat with 0%nat in * by lia.
      cbn [zeros app] in ds. destruct (Z.eq_dec n 0) as [Hz|Hnz].
      * left. subst n. assert (Hdn : length dn = 1%nat) by reflexivity.
        assert (p = 0%nat) by lia. subst p. reflexivity.
      * right. assert (Hz0 : (S p - length dn = 0)%nat) by lia.
        assert (Hds2 : ds = dn) by (unfold ds; rewrite Hz0; reflexivity).
        rewrite Hds2 in *. split.
        { intros E. apply (f_equal (@length _)) in E. rewrite firstn_length in E. cbn [length] in E. lia. }
        { destruct dn as [|c r]; [congruence|]. destruct k; [lia|]. cbn [firstn hd].
          cbn [hd] in Hh. apply Hh. lia. }
    + apply Nat.leb_gt in El. left.
      assert (k = 1%nat) by lia. rewrite H.
      destruct (S p - length dn)%nat as [|j] eqn:Ej; [lia|]. subst ds. reflexivity.
Qed.

Lemma scaled_nonneg p m e : 0 <= p -> 0 <= scaled p m e.
Proof.
  intros Hp. unfold scaled. destruct (0 <=? e) eqn:E.
  - apply Z.leb_le in E. assert (0 < 2 ^ e) by (apply Z.pow_pos_nonneg; lia).
    assert (0 < 10 ^ p) by (apply Z.pow_pos_nonneg; lia). nia.
  - apply Z.leb_gt in E.
    assert (0 < 10 ^ p) by (apply Z.pow_pos_nonneg; lia).
    apply round_half_even_div_le; [nia|apply Z.pow_pos_nonneg; lia].
Qed.

(** * atof on a numeral *)

Lemma skip_ws_id c r : is_ws c = false -> skip_ws (c :: r) = c :: r.
Proof. intros H. cbn [skip_ws]. rewrite H. reflexivity. Qed.

Lemma take_digits_app : forall ds t, all_digits ds ->
  match t with [] => True | c :: _ => is_digit c = false end ->
  take_digits (ds ++ t) = (ds, t).
Proof.
  induction ds as [|c r IH]; intros t Hd Ht; cbn [app].
  - destruct t as [|c r]; [reflexivity|]. cbn [take_digits]. rewrite Ht. reflexivity.
  - inversion Hd; subst. cbn [take_digits]. rewrite H1, IH by assumption. reflexivity.
Qed.

Lemma dot_is_not_digit : is_digit c_dot = false. Proof. reflexivity. Qed.

(* what atof / wide_to_long / ref_validate see of  ['-'] ip rest : sign, then the digits *)
Definition strip_sign (s : str) : bool * str :=
  match s with c :: r => if N.eqb c c_minus then (true, r) else (false, s) | [] => (false, s) end.

Definition atof_body (neg : bool) (s : str) : dbl :=
  let '(ip, s) := take_digits s in
  let fp := match s with c :: r => if N.eqb c c_dot then fst (take_digits r) else [] | [] => [] end in
  match ip, fp with
  | [], [] => S754_zero false
  | _, _ => nearest_double neg (value_of_digits 0 (ip ++ fp)) (10 ^ Z.of_nat (length fp))
  end.

Lemma atof_eq s : atof s = let '(neg, s') := strip_sign (skip_ws s) in atof_body neg s'.
Proof. reflexivity. Qed.

Lemma sign_split neg ip t : all_digits ip -> ip <> [] ->
  skip_ws (sgn neg ++ ip ++ t) = sgn neg ++ ip ++ t /\
  strip_sign (sgn neg ++ ip ++ t) = (neg, ip ++ t).
Proof.
  intros Hd Hne. destruct ip as [|c r]; [congruence|]. inversion Hd; subst.
  destruct neg; cbn [sgn app strip_sign].
  - split; [apply skip_ws_id; reflexivity|reflexivity].
  - split; [apply skip_ws_id; apply digit_not_ws; assumption|].
    rewrite (digit_not_minus _ H1). reflexivity.
Qed.

Lemma atof_numeral neg ip fp : all_digits ip -> all_digits fp -> ip <> [] ->
  atof (sgn neg ++ ip ++ c_dot :: fp) =
  nearest_double neg (value_of_digits 0 (ip ++ fp)) (10 ^ Z.of_nat (length fp)).
Proof.
  intros Hi Hf Hne. rewrite atof_eq.
  destruct (sign_split neg ip (c_dot :: fp) Hi Hne) as [E1 E2]. rewrite E1, E2.
  unfold atof_body.
  rewrite (take_digits_app ip (c_dot :: fp) Hi dot_is_not_digit).
  change (N.eqb c_dot c_dot) with true. cbv iota.
  replace (take_digits fp) with (take_digits (fp ++ [])) by (rewrite app_nil_r; reflexivity).
  rewrite (take_digits_app fp [] Hf I). cbn [fst].
  destruct ip as [|c r]; [congruence|]. reflexivity.
Qed.

Lemma atof_integer neg ip : all_digits ip -> ip <> [] ->
  atof (sgn neg ++ ip) = nearest_double neg (value_of_digits 0 ip) 1.
Proof.
  intros Hi Hne. rewrite atof_eq.
  destruct (sign_split neg ip [] Hi Hne) as [E1 E2]. rewrite app_nil_r in E1, E2. rewrite E1, E2.
  unfold atof_body.
  replace (take_digits ip) with (take_digits (ip ++ [])) by (rewrite app_nil_r; reflexivity).
  rewrite (take_digits_app ip [] Hi I).
  destruct ip as [|c r]; [congruence|]. rewrite app_nil_r. reflexivity.
Qed.

(** * DoubleSupport::toDouble on a numeral  ['-'] digits ['.' digits]  *)

Lemma c_str_digits_app : forall l t, all_digits l -> c_str (l ++ t) = l ++ c_str t.
Proof.
  induction l as [|c r IH]; intros t Hd; cbn [app]; [reflexivity|].
  inversion Hd; subst. cbn [c_str].
  assert (N.eqb c 0 = false).
  { unfold is_digit in H1. apply andb_true_iff in H1. rewrite !N.leb_le in H1. apply N.eqb_neq. lia. }
  rewrite H, IH by assumption. reflexivity.
Qed.

Lemma c_str_cons c t : N.eqb c 0 = false -> c_str (c :: t) = c :: c_str t.
Proof. intros H. cbn [c_str]. rewrite H. reflexivity. Qed.

Lemma c_str_numeral neg ip fp : all_digits ip -> all_digits fp ->
  c_str (sgn neg ++ ip ++ frac fp) = sgn neg ++ ip ++ frac fp.
Proof.
  intros Hi Hf.
  assert (E : c_str (ip ++ frac fp) = ip ++ frac fp).
  { rewrite c_str_digits_app by assumption. f_equal.
    destruct fp as [|d fr]; [reflexivity|]. unfold frac. rewrite c_str_cons by reflexivity.
    f_equal. rewrite <- (app_nil_r (d :: fr)). rewrite c_str_digits_app by assumption. reflexivity. }
  destruct neg; cbn [sgn app]; [|exact E].
  rewrite c_str_cons by reflexivity. rewrite E. reflexivity.
Qed.

Definition rv_strip (s : str) : str :=
  match s with c :: r => if N.eqb c c_minus then r else s | [] => s end.
Definition ref_body (s : str) : bool * bool :=
  let '(ip, s) := take_digits s in
  match s with
  | c :: r =>
      if N.eqb c c_dot then
        let '(fp, t) := take_digits r in
        (forallb is_ws t && (nonempty ip || nonempty fp), true)
      else (forallb is_ws s && nonempty ip, false)
  | [] => (nonempty ip, false)
  end.
Lemma ref_validate_eq s : ref_validate s = ref_body (rv_strip (skip_ws s)).
Proof. reflexivity. Qed.

Lemma rv_strip_numeral neg ip t : all_digits ip -> ip <> [] -> rv_strip (sgn neg ++ ip ++ t) = ip ++ t.
Proof.
  intros Hd Hne. destruct ip as [|c r]; [congruence|]. inversion Hd; subst.
  destruct neg; cbn [sgn app rv_strip]; [reflexivity|].
  rewrite (digit_not_minus _ H1). reflexivity.
Qed.

Lemma ref_validate_numeral neg ip fp : all_digits ip -> all_digits fp -> ip <> [] ->
  ref_validate (sgn neg ++ ip ++ frac fp) = (true, nonempty fp).
Proof.
  intros Hi Hf Hne. rewrite ref_validate_eq.
  destruct (sign_split neg ip (frac fp) Hi Hne) as [E1 _]. rewrite E1.
  rewrite rv_strip_numeral by assumption. unfold ref_body.
  destruct fp as [|d fr].
  - cbn [frac]. rewrite (take_digits_app ip [] Hi I).
    destruct ip; [congruence|reflexivity].
  - unfold frac. rewrite (take_digits_app ip (c_dot :: d :: fr) Hi dot_is_not_digit).
    change (N.eqb c_dot c_dot) with true. cbv iota.
    replace (take_digits (d :: fr)) with (take_digits ((d :: fr) ++ [])) by (rewrite app_nil_r; reflexivity).
    rewrite (take_digits_app (d :: fr) [] Hf I).
    destruct ip; [congruence|reflexivity].
Qed.

Lemma do_validate_numeral neg ip fp : all_digits ip -> all_digits fp -> ip <> [] ->
  do_validate (sgn neg ++ ip ++ frac fp) = (true, nonempty fp).
Proof.
  intros Hi Hf Hne.
  destruct (do_validate_eq_ref (sgn neg ++ ip ++ frac fp)) as [H1 H2].
  rewrite (ref_validate_numeral neg ip fp Hi Hf Hne) in H1, H2. cbn [fst snd] in H1, H2.
  destruct (do_validate (sgn neg ++ ip ++ frac fp)) as [ok dot]. cbn [fst snd] in H1, H2.
  subst ok. rewrite (H2 eq_refl). reflexivity.
Qed.

Definition s2n_body (s : str) (okdot : bool * bool) : dbl :=
  let '(ok, dot) := okdot in
  if negb ok then S754_nan
  else if negb dot && (Nat.ltb (length s) long_hack_threshold)
  then let v := wide_to_long s in
       if Z.eqb v 0 && starts_with_minus s then S754_zero true else long_to_double v
  else atof s.
Lemma s2n_eq s0 : string_to_number s0 =
  match c_str s0 with [] => S754_nan | _ => s2n_body (c_str s0) (do_validate (c_str s0)) end.
Proof. reflexivity. Qed.

Lemma wide_to_long_eq s : wide_to_long s =
  let '(neg, s') := strip_sign (skip_ws s) in
  let v := value_of_digits 0 (fst (take_digits s')) in if neg then - v else v.
Proof. reflexivity. Qed.

Lemma starts_with_minus_numeral neg ip t : all_digits ip -> ip <> [] ->
  starts_with_minus (sgn neg ++ ip ++ t) = neg.
Proof.
  intros Hd Hne. unfold starts_with_minus.
  destruct (sign_split neg ip t Hd Hne) as [E1 _]. rewrite E1.
  destruct ip as [|c r]; [congruence|]. inversion Hd; subst.
  destruct neg; cbn [sgn app]; [reflexivity|apply digit_not_minus; assumption].
Qed.

Lemma nearest_double_zero neg den : nearest_double neg 0 den = S754_zero neg.
Proof. reflexivity. Qed.

(* number(s) is the double nearest to the numeral s (for numerals without white space) *)
Theorem s2n_numeral neg ip fp : all_digits ip -> all_digits fp -> ip <> [] ->
  string_to_number (sgn neg ++ ip ++ frac fp) =
  nearest_double neg (value_of_digits 0 (ip ++ fp)) (10 ^ Z.of_nat (length fp)).
Proof.
  intros Hi Hf Hne. rewrite s2n_eq, c_str_numeral by assumption.
  rewrite do_validate_numeral by assumption.
  destruct (sgn neg ++ ip ++ frac fp) as [|c0 t0] eqn:Et.
  { exfalso. destruct ip; [congruence|]. destruct neg; discriminate Et. }
  rewrite <- Et. clear Et c0 t0. unfold s2n_body. cbn [negb].
  destruct fp as [|d fr].
  - cbn [frac nonempty negb andb length]. rewrite !app_nil_r. change (10 ^ Z.of_nat 0) with 1.
    destruct (Nat.ltb (length (sgn neg ++ ip)) long_hack_threshold).
    + assert (Ev : wide_to_long (sgn neg ++ ip) = if neg then - value_of_digits 0 ip else value_of_digits 0 ip).
      { rewrite wide_to_long_eq. destruct (sign_split neg ip [] Hi Hne) as [E1 E2].
        rewrite app_nil_r in E1, E2. rewrite E1, E2.
        replace (take_digits ip) with (take_digits (ip ++ [])) by (rewrite app_nil_r; reflexivity).
        rewrite (take_digits_app ip [] Hi I). reflexivity. }
      pose proof (starts_with_minus_numeral neg ip [] Hi Hne) as Em. rewrite app_nil_r in Em.
      cbv zeta. rewrite Ev, Em.
      pose proof (value_of_digits_nonneg ip 0 Hi ltac:(lia)) as Hv.
      destruct (value_of_digits 0 ip) as [|v|v] eqn:Ev0; [| |lia].
      * destruct neg; reflexivity.
      * destruct neg; cbn [Z.opp Z.eqb andb long_to_double]; apply long_to_double_nearest.
    + apply atof_integer; assumption.
  - cbn [nonempty negb andb]. unfold frac. apply atof_numeral; assumption.
Qed.

(** * Trimming the trailing zeros *)

Lemma strip_zeros_spec : forall l, exists k l',
  l = zeros k ++ l' /\ strip_trailing_zeros_rev l = l' /\
  match l' with [] => True | c :: _ => N.eqb c c_0 = false end.
Proof.
  induction l as [|c r IH].
  - exists 0%nat, []. repeat split.
  - cbn [strip_trailing_zeros_rev]. destruct (N.eqb c c_0) eqn:E.
    + apply N.eqb_eq in E. subst c. destruct IH as (k & l' & E1 & E2 & E3).
      exists (S k), l'. cbn [zeros app]. rewrite <- E1. auto.
    + exists 0%nat, (c :: r). cbn [zeros app]. auto.
Qed.

Lemma strip_zeros_app k l : strip_trailing_zeros_rev (zeros k ++ l) = strip_trailing_zeros_rev l.
Proof. induction k as [|k IH]; cbn [zeros app strip_trailing_zeros_rev]; [reflexivity|]. change (N.eqb c_0 c_0) with true. exact IH. Qed.

Lemma rev_zeros k : rev (zeros k) = zeros k.
Proof.
  induction k as [|k IH]; [reflexivity|]. cbn [zeros rev]. rewrite IH.
  clear IH. induction k as [|k IH]; [reflexivity|]. cbn [zeros app]. rewrite IH. reflexivity.
Qed.

(* the fraction without its trailing zeros does not end in '0' *)
Definition frac_ok (fp : str) : Prop := match rev fp with [] => True | c :: _ => N.eqb c c_0 = false end.

Lemma trim_numeral neg ip fp : all_digits ip -> all_digits fp -> ip <> [] ->
  exists fp' k, fp = fp' ++ zeros k /\ frac_ok fp' /\
    trim_number (sgn neg ++ ip ++ c_dot :: fp) = sgn neg ++ ip ++ frac fp'.
Proof.
  intros Hi Hf Hne.
  destruct (strip_zeros_spec (rev fp)) as (k & l' & E1 & E2 & E3).
  exists (rev l'), k.
  assert (Efp : fp = rev l' ++ zeros k).
  { rewrite <- (rev_involutive fp), E1, rev_app_distr, rev_zeros. reflexivity. }
  split; [exact Efp|]. split; [unfold frac_ok; rewrite rev_involutive; exact E3|].
  unfold trim_number.
  assert (Er : rev (sgn neg ++ ip ++ c_dot :: fp) = zeros k ++ l' ++ c_dot :: rev (sgn neg ++ ip)).
  { rewrite app_assoc, rev_app_distr. cbn [rev]. rewrite E1, <- !app_assoc. reflexivity. }
  rewrite Er, strip_zeros_app.
  destruct l' as [|c r].
  - cbn [app strip_trailing_zeros_rev]. change (N.eqb c_dot c_0) with false. cbv iota.
    change (is_digit c_dot) with false. cbv iota. rewrite rev_involutive, app_assoc. cbn [rev frac].
    rewrite app_nil_r. reflexivity.
  - cbn [app strip_trailing_zeros_rev]. rewrite E3.
    assert (Hc : is_digit c = true).
    { assert (Hr : all_digits (rev fp)) by (apply Forall_rev; exact Hf).
      rewrite E1 in Hr. apply Forall_app in Hr. destruct Hr as [_ Hr]. inversion Hr; assumption. }
    rewrite Hc.
    change (c :: r ++ c_dot :: rev (sgn neg ++ ip)) with ((c :: r) ++ c_dot :: rev (sgn neg ++ ip)).
    rewrite rev_app_distr. cbn [rev]. rewrite rev_involutive, <- !app_assoc. cbn [app].
    unfold frac. destruct (rev r ++ [c]) eqn:Ec; [destruct (rev r); discriminate|]. reflexivity.
Qed.

(** * toDouble of the trimmed text is atof of the untrimmed buffer *)

Lemma s2n_trim_printf s m e p :
  string_to_number (trim_number (printf_f p (S754_finite s m e))) = atof (printf_f p (S754_finite s m e)).
Proof.
  cbn [printf_f].
  pose proof (scaled_nonneg (Z.of_nat p) m e ltac:(lia)) as Hn.
  destruct (fixed_point_shape s p _ Hn) as (ip & fp & E & Hne & Hi & Hf & Hl & Hv & _).
  rewrite E.
  destruct (trim_numeral s ip fp Hi Hf Hne) as (fp' & k & Efp & _ & Et). rewrite Et.
  assert (Hf' : all_digits fp') by (rewrite Efp in Hf; apply Forall_app in Hf; tauto).
  rewrite s2n_numeral, atof_numeral by assumption.
  assert (Ev : value_of_digits 0 (ip ++ fp) = value_of_digits 0 (ip ++ fp') * 10 ^ Z.of_nat k)
    by (rewrite Efp, app_assoc, value_of_digits_app, value_zeros; reflexivity).
  assert (El : Z.of_nat (length fp) = Z.of_nat (length fp') + Z.of_nat k)
    by (rewrite Efp, app_length, zeros_length; lia).
  rewrite Ev, El, Z.pow_add_r by lia.
  assert (0 <= value_of_digits 0 (ip ++ fp')).
  { apply value_of_digits_nonneg; [apply Forall_app; split; assumption|lia]. }
  assert (0 < 10 ^ Z.of_nat (length fp')) by (apply Z.pow_pos_nonneg; lia).
  assert (0 < 10 ^ Z.of_nat k) by (apply Z.pow_pos_nonneg; lia).
  apply nearest_double_ext; nia.
Qed.

Lemma atof_printf s m e p :
  atof (printf_f p (S754_finite s m e)) = nearest_double s (scaled (Z.of_nat p) m e) (10 ^ Z.of_nat p).
Proof.
  cbn [printf_f].
  pose proof (scaled_nonneg (Z.of_nat p) m e ltac:(lia)) as Hn.
  destruct (fixed_point_shape s p _ Hn) as (ip & fp & E & Hne & Hi & Hf & Hl & Hv & _).
  rewrite E, atof_numeral, Hv, Hl by assumption. reflexivity.
Qed.

(** * With at least -e fractional digits the expansion is exact and reads back as the value *)

Lemma round_half_even_div_exact num den c : 0 < den -> num = c * den -> round_half_even_div num den = c.
Proof.
  intros Hd ->. unfold round_half_even_div. rewrite Z.div_mul, Z.mod_mul by lia.
  change (2 * 0) with 0. destruct (Z.compare_spec 0 den); lia.
Qed.

Lemma valid_exponent_ge s m e : valid_binary prec emax (S754_finite s m e) = true -> -1074 <= e.
Proof.
  cbn [valid_binary]. unfold bounded, canonical_mantissa, fexp, emin, prec, emax.
  rewrite andb_true_iff. intros [Hc _]. apply Zeq_bool_eq in Hc. lia.
Qed.

Lemma atof_printf_exact s m e p : valid_binary prec emax (S754_finite s m e) = true ->
  - e <= Z.of_nat p -> atof (printf_f p (S754_finite s m e)) = S754_finite s m e.
Proof.
  intros Hv Hp. rewrite atof_printf.
  assert (H10 : 0 < 10 ^ Z.of_nat p) by (apply Z.pow_pos_nonneg; lia).
  apply nearest_double_exact; [exact Hv|exact H10|].
  unfold scaled. destruct (0 <=? e) eqn:E; [reflexivity|].
  apply Z.leb_gt in E.
  assert (H2 : 0 < 2 ^ (- e)) by (apply Z.pow_pos_nonneg; lia).
  assert (Hsplit : 10 ^ Z.of_nat p = (5 ^ (- e) * 10 ^ (Z.of_nat p + e)) * 2 ^ (- e)).
  { replace (Z.of_nat p) with ((- e) + (Z.of_nat p + e)) at 1 by lia.
    rewrite Z.pow_add_r by lia. change 10 with (2 * 5) at 1. rewrite Z.pow_mul_l. ring. }
  rewrite (round_half_even_div_exact _ _ (Zpos m * (5 ^ (- e) * 10 ^ (Z.of_nat p + e))) H2).
  - rewrite Hsplit. ring.
  - rewrite Hsplit. ring.
Qed.

(** * The loops of DoubleToCharacters end with a buffer that reads back as the value *)

Lemma d_eqb_finite_eq a s m e : d_eqb a (S754_finite s m e) = true -> a = S754_finite s m e.
Proof.
  unfold d_eqb, SFeqb, SFcompare.
  destruct a as [sa|sa| |sa ma ea]; try (destruct sa; discriminate); try (destruct s; discriminate); try discriminate.
  destruct sa, s; try discriminate.
  - destruct (Z.compare_spec ea e); try discriminate. subst.
    intros H. destruct (Pos.compare_cont Eq ma m) eqn:Ec; try discriminate.
    apply Pos.compare_eq in Ec. subst. reflexivity.
  - destruct (Z.compare_spec ea e); try discriminate. subst.
    intros H. destruct (Pos.compare_cont Eq ma m) eqn:Ec; try discriminate.
    apply Pos.compare_eq in Ec. subst. reflexivity.
Qed.

Lemma try_table_some x ps b : try_table x ps = Some b ->
  exists p, In p ps /\ b = printf_f p x /\ d_eqb (atof b) x = true.
Proof.
  induction ps as [|p r IH]; cbn [try_table]; [discriminate|].
  destruct (d_eqb (atof (printf_f p x)) x) eqn:E.
  - intros H. injection H as <-. exists p. cbn [In]. auto.
  - intros H. destruct (IH H) as (q & Hin & Hq). exists q. cbn [In]. tauto.
Qed.

Lemma try_precisions_end x : forall l q last,
  let b := try_precisions x (l ++ [q]) last in
  (exists p, In p (l ++ [q]) /\ b = printf_f p x /\ d_eqb (atof b) x = true) \/ b = printf_f q x.
Proof.
  induction l as [|p r IH]; intros q last; cbn [app try_precisions].
  - destruct (d_eqb (atof (printf_f q x)) x); right; reflexivity.
  - destruct (d_eqb (atof (printf_f p x)) x) eqn:E.
    + left. exists p. cbn [In]. auto.
    + destruct (IH q (printf_f p x)) as [(p' & Hin & Hp')|Hq]; [left|right; exact Hq].
      exists p'. cbn [In]. tauto.
Qed.

Lemma ext_precisions_end x : exists l q, ext_precisions x = l ++ [q] /\ (printf_max_precision <= q)%nat.
Proof.
  unfold ext_precisions. set (p0 := ext_start x).
  destruct (printf_max_precision - p0)%nat as [|j] eqn:Ej.
  - exists (@nil nat), p0. split; [reflexivity|lia].
  - exists (p0 :: seq (S p0) j), (S p0 + j)%nat. split; [|lia].
    rewrite seq_S. reflexivity.
Qed.

(* whatever branch returns it, the buffer is some printf_f p x that atof reads back as x *)
Theorem double_to_characters_reads_back s m e :
  valid_binary prec emax (S754_finite s m e) = true ->
  exists p, double_to_characters (S754_finite s m e) = printf_f p (S754_finite s m e) /\
            atof (printf_f p (S754_finite s m e)) = S754_finite s m e.
Proof.
  intros Hv. unfold double_to_characters. set (x := S754_finite s m e) in *.
  destruct (try_table x printf_precisions) as [b|] eqn:Et.
  - destruct (try_table_some _ _ _ Et) as (p & _ & Hb & Heq). exists p. subst b.
    split; [reflexivity|]. apply d_eqb_finite_eq. exact Heq.
  - destruct (ext_precisions_end x) as (l & q & El & Hq). rewrite El.
    destruct (try_precisions_end x l q []) as [(p & _ & Hb & Heq)|Hb].
    + exists p. rewrite Hb in Heq. split; [exact Hb|]. apply d_eqb_finite_eq. exact Heq.
    + exists q. split; [exact Hb|]. apply atof_printf_exact; [exact Hv|].
      pose proof (valid_exponent_ge s m e Hv). unfold printf_max_precision in Hq. lia.
Qed.

(** * number(string(x)) = x *)

Lemma as_int64_some s m e v : as_int64 (S754_finite s m e) = Some v ->
  exists a, 0 < a /\ v = (if s then - a else a) /\
    (if 0 <=? e then a = Zpos m * 2 ^ e * 1 else a * 2 ^ (- e) = Zpos m * 1).
Proof.
  unfold as_int64. destruct (0 <=? e) eqn:E.
  - apply Z.leb_le in E. destruct (_ && _); [|discriminate]. intros H. injection H as <-.
    exists (Zpos m * 2 ^ e). assert (0 < 2 ^ e) by (apply Z.pow_pos_nonneg; lia).
    split; [nia|]. split; [reflexivity|ring].
  - apply Z.leb_gt in E. destruct (Zpos m mod 2 ^ (- e) =? 0) eqn:Em; [|discriminate].
    apply Z.eqb_eq in Em. intros H. injection H as <-.
    assert (H2 : 0 < 2 ^ (- e)) by (apply Z.pow_pos_nonneg; lia).
    pose proof (Z.div_mod (Zpos m) (2 ^ (- e)) ltac:(lia)) as Hdm. rewrite Em in Hdm.
    exists (Zpos m / 2 ^ (- e)). split; [nia|]. split; [reflexivity|lia].
Qed.

Lemma int_to_string_shape (s : bool) (a : Z) : 0 < a ->
  int_to_string (if s then - a else a) = sgn s ++ digits_of a ++ frac [].
Proof.
  intros Ha. unfold int_to_string, frac. rewrite app_nil_r.
  destruct s.
  - destruct (- a <? 0) eqn:E; [|apply Z.ltb_ge in E; lia]. rewrite Z.opp_involutive. reflexivity.
  - destruct (a <? 0) eqn:E; [apply Z.ltb_lt in E; lia|]. reflexivity.
Qed.

Theorem roundtrip_finite s m e : valid_binary prec emax (S754_finite s m e) = true ->
  string_to_number (number_to_string (S754_finite s m e)) = S754_finite s m e.
Proof.
  intros Hv. unfold number_to_string.
  destruct (as_int64 (S754_finite s m e)) as [v|] eqn:Ei.
  - destruct (as_int64_some _ _ _ _ Ei) as (a & Ha & -> & Hrel).
    rewrite int_to_string_shape by exact Ha.
    destruct (digits_of_spec a ltac:(lia)) as (Hne & Hd & Hval & _).
    rewrite s2n_numeral; [|exact Hd|constructor|exact Hne].
    rewrite app_nil_r, Hval. cbn [length]. change (10 ^ Z.of_nat 0) with 1.
    apply nearest_double_exact; [exact Hv|lia|].
    replace (0 * 10 ^ Z.of_nat (length (digits_of a)) + a) with a by lia. exact Hrel.
  - destruct (double_to_characters_reads_back s m e Hv) as (p & Eb & Ea).
    rewrite Eb, s2n_trim_printf. exact Ea.
Qed.

(** * The form of string(x) *)

Theorem number_to_string_shape s m e : valid_binary prec emax (S754_finite s m e) = true ->
  exists ip fp, number_to_string (S754_finite s m e) = sgn s ++ ip ++ frac fp /\
    all_digits ip /\ all_digits fp /\ int_part_ok ip /\ frac_ok fp.
Proof.
  intros Hv. unfold number_to_string.
  destruct (as_int64 (S754_finite s m e)) as [v|] eqn:Ei.
  - destruct (as_int64_some _ _ _ _ Ei) as (a & Ha & -> & _).
    destruct (digits_of_spec a ltac:(lia)) as (Hne & Hd & _ & Hh).
    exists (digits_of a), []. rewrite int_to_string_shape by exact Ha.
    split; [reflexivity|]. split; [exact Hd|]. split; [constructor|].
    split; [right; split; [exact Hne|apply Hh; exact Ha]|exact I].
  - destruct (double_to_characters_reads_back s m e Hv) as (p & Eb & _). rewrite Eb.
    cbn [printf_f].
    pose proof (scaled_nonneg (Z.of_nat p) m e ltac:(lia)) as Hn.
    destruct (fixed_point_shape s p _ Hn) as (ip & fp & E & Hne & Hi & Hf & _ & _ & Hok).
    rewrite E. destruct (trim_numeral s ip fp Hi Hf Hne) as (fp' & k & Efp & Hfok & Et).
    exists ip, fp'. rewrite Et. split; [reflexivity|]. split; [exact Hi|].
    split; [rewrite Efp in Hf; apply Forall_app in Hf; tauto|]. split; assumption.
Qed.

(** * Statements over all doubles *)

Theorem roundtrip_all x : valid_binary prec emax x = true ->
  string_to_number (number_to_string x) =
  match x with
  | S754_finite _ _ _ => x
  | S754_zero _ => S754_zero false
  | S754_nan => S754_nan
  | S754_infinity _ => S754_nan
  end.
Proof.
  intros Hv. destruct x as [s|s| |s m e].
  - reflexivity.
  - destruct s; vm_compute; reflexivity.
  - vm_compute; reflexivity.
  - apply roundtrip_finite; exact Hv.
Qed.

Lemma d_eqb_refl_finite s m e : d_eqb (S754_finite s m e) (S754_finite s m e) = true.
Proof.
  unfold d_eqb, SFeqb, SFcompare. destruct s; rewrite Z.compare_refl, Pos.compare_cont_refl; reflexivity.
Qed.

(* IEEE equality (== : +0 and -0 are equal) holds for every bit pattern of a finite double *)
Theorem roundtrip_patterns b :
  match of_bits b with
  | S754_nan | S754_infinity _ => True
  | x => d_eqb (string_to_number (number_to_string x)) x = true
  end.
Proof.
  pose proof (of_bits_valid b) as Hv. destruct (of_bits b) as [s|s| |s m e] eqn:E.
  - destruct s; reflexivity.
  - exact I.
  - exact I.
  - cbv zeta. rewrite roundtrip_finite by exact Hv. apply d_eqb_refl_finite.
Qed.

(* string(x) of a finite non-zero x is an XPath Number with the sign of x *)
Theorem number_to_string_is_number s m e : valid_binary prec emax (S754_finite s m e) = true ->
  ref_validate (number_to_string (S754_finite s m e)) = (true, snd (ref_validate (number_to_string (S754_finite s m e)))) /\
  starts_with_minus (number_to_string (S754_finite s m e)) = s.
Proof.
  intros Hv. destruct (number_to_string_shape s m e Hv) as (ip & fp & E & Hi & Hf & Hok & _).
  assert (Hne : ip <> []) by (destruct Hok as [->|[H _]]; [discriminate|exact H]).
  rewrite E. split.
  - rewrite ref_validate_numeral by assumption. reflexivity.
  - apply starts_with_minus_numeral; assumption.
Qed.

(** * The start precision of the "%.*f" loop skips only precisions that print nothing but zeros:
      the result is that of the plain search  last table precision + 1, + 2, ... *)

Lemma pow10_le_pow2 p k : 0 <= p -> 0 <= k -> 10 * p <= 3 * k -> 10 ^ p <= 2 ^ k.
Proof.
  intros Hp Hk H.
  assert (H1 : (10 ^ p) ^ 10 <= (2 ^ k) ^ 10).
  { rewrite <- !Z.pow_mul_r by lia.
    apply Z.le_trans with (10 ^ (3 * k)); [apply Z.pow_le_mono_r; lia|].
    rewrite (Z.mul_comm k 10), !Z.pow_mul_r by lia.
    change (10 ^ 3) with 1000. change (2 ^ 10) with 1024. apply Z.pow_le_mono_l. lia. }
  destruct (Z.le_gt_cases (10 ^ p) (2 ^ k)) as [Hle|Hgt]; [exact Hle|exfalso].
  assert (0 <= 2 ^ k) by (apply Z.pow_nonneg; lia).
  assert ((2 ^ k) ^ 10 < (10 ^ p) ^ 10) by (apply Z.pow_lt_mono_l; lia).
  lia.
Qed.

Lemma scaled_zero p m e :
  0 <= p -> 0 <= - (Zpos (digits2_pos m) + e) - 1 -> 10 * p <= 3 * (- (Zpos (digits2_pos m) + e) - 1) ->
  scaled p m e = 0.
Proof.
  intros Hp Hk H. set (d := Zpos (digits2_pos m)) in *. set (k := - (d + e) - 1) in *.
  assert (Hd : 0 < d) by (unfold d; lia).
  pose proof (digits2_pos_bounds m) as [_ Hm]. fold d in Hm.
  pose proof (pow10_le_pow2 p k Hp Hk H) as H10.
  assert (He : e < 0) by lia.
  unfold scaled. destruct (0 <=? e) eqn:E; [apply Z.leb_le in E; lia|].
  assert (H2 : 2 ^ (- e) = 2 * (2 ^ d * 2 ^ k)).
  { rewrite <- Z.pow_add_r, <- Z.pow_succ_r by lia. f_equal. lia. }
  assert (0 < 10 ^ p) by (apply Z.pow_pos_nonneg; lia).
  assert (0 < 2 ^ k) by (apply Z.pow_pos_nonneg; lia).
  assert (0 < 2 ^ d) by (apply Z.pow_pos_nonneg; lia).
  assert (Hlt : 2 * (Zpos m * 10 ^ p) < 2 ^ (- e)) by (rewrite H2; nia).
  unfold round_half_even_div.
  rewrite Z.div_small, Z.mod_small by nia.
  destruct (Z.compare_spec (2 * (Zpos m * 10 ^ p)) (2 ^ (- e))); lia.
Qed.

Lemma printf_fails_below_start s m e p :
  (printf_last_table_precision < p < ext_start (S754_finite s m e))%nat ->
  d_eqb (atof (printf_f p (S754_finite s m e))) (S754_finite s m e) = false.
Proof.
  intros Hp. rewrite atof_printf.
  unfold ext_start, frexp_exponent, printf_last_table_precision, printf_start_num, printf_start_den in Hp.
  set (k := - (Zpos (digits2_pos m) + e) - 1) in *.
  assert (Hk : 0 <= k).
  { destruct (Z.le_gt_cases 0 k) as [H|H]; [exact H|exfalso].
    assert (Z.quot (k * 3) 10 <= 0) by (apply Z.quot_le_upper_bound; lia). lia. }
  rewrite Z.quot_div_nonneg in Hp by lia.
  pose proof (Z.mul_div_le (k * 3) 10 ltac:(lia)).
  rewrite scaled_zero; [destruct s; reflexivity|lia|exact Hk|fold k; lia].
Qed.

Lemma try_precisions_skip x : forall l1 l2 last last',
  (forall p, In p l1 -> d_eqb (atof (printf_f p x)) x = false) -> l2 <> [] ->
  try_precisions x (l1 ++ l2) last = try_precisions x l2 last'.
Proof.
  induction l1 as [|p r IH]; intros l2 last last' Hf Hne; cbn [app].
  - destruct l2; [congruence|reflexivity].
  - cbn [try_precisions]. rewrite (Hf p (or_introl eq_refl)). apply IH; [|exact Hne].
    intros q Hq. apply Hf. right. exact Hq.
Qed.

Theorem ext_start_skips_nothing s m e : valid_binary prec emax (S754_finite s m e) = true ->
  try_precisions (S754_finite s m e) (ext_precisions (S754_finite s m e)) [] =
  try_precisions (S754_finite s m e)
    (seq (S printf_last_table_precision) (printf_max_precision - printf_last_table_precision)) [].
Proof.
  intros Hv. set (x := S754_finite s m e). pose proof (ext_start_bounds x Hv) as Hb.
  unfold ext_precisions. set (p0 := ext_start x) in *.
  replace (printf_max_precision - printf_last_table_precision)%nat
    with ((p0 - S printf_last_table_precision) + S (printf_max_precision - p0))%nat by lia.
  rewrite seq_app. replace (S printf_last_table_precision + (p0 - S printf_last_table_precision))%nat with p0 by lia.
  cbn [seq]. symmetry. apply try_precisions_skip; [|discriminate].
  intros p Hin. apply in_seq in Hin. apply printf_fails_below_start. fold x p0. lia.
Qed.

(** * Bit patterns *)

Lemma to_bits_of_bits_finite b : 0 <= b < 2 ^ 64 ->
  match of_bits b with S754_finite _ _ _ => to_bits (of_bits b) = b | _ => True end.
Proof.
  intros Hb. unfold of_bits.
  assert (Hm : 0 <= b mod 2 ^ 52 < 2 ^ 52) by (apply Z.mod_pos_bound; reflexivity).
  assert (He : 0 <= (b / 2 ^ 52) mod 2048 < 2048) by (apply Z.mod_pos_bound; reflexivity).
  pose proof (Z.div_mod b (2 ^ 52) ltac:(lia)) as D1.
  pose proof (Z.div_mod (b / 2 ^ 52) 2048 ltac:(lia)) as D2.
  assert (Hq : b / 2 ^ 52 / 2048 = b / 2 ^ 63).
  { rewrite Z.div_div by lia. reflexivity. }
  assert (Hs : 0 <= b / 2 ^ 63 < 2).
  { split; [apply Z.div_pos; lia|apply Z.div_lt_upper_bound; lia]. }
  assert (Hsign : sign_bit (Z.testbit b 63) = 2 ^ 63 * (b / 2 ^ 63)).
  { rewrite Z.testbit_odd, Z.shiftr_div_pow2 by lia. unfold sign_bit.
    assert (b / 2 ^ 63 = 0 \/ b / 2 ^ 63 = 1) as [->| ->] by lia; reflexivity. }
  set (mant := b mod 2 ^ 52) in *. set (ex := (b / 2 ^ 52) mod 2048) in *.
  destruct (ex =? 2047) eqn:E1; [destruct (mant =? 0); exact I|].
  destruct (ex =? 0) eqn:E0.
  - apply Z.eqb_eq in E0. destruct mant as [|p|p] eqn:Em; try exact I.
    unfold to_bits. destruct (Z.pos p <? 2 ^ 52) eqn:Ep; [|apply Z.ltb_ge in Ep; lia].
    rewrite Hsign. lia.
  - apply Z.eqb_neq in E0. apply Z.eqb_neq in E1.
    destruct (mant + 2 ^ 52) as [|p|p] eqn:Em; try exact I.
    unfold to_bits. destruct (Z.pos p <? 2 ^ 52) eqn:Ep; [apply Z.ltb_lt in Ep; lia|].
    rewrite Hsign. lia.
Qed.

(* number(string(x)) has the bit pattern of x, for every 64-bit pattern of a finite non-zero double *)
Theorem roundtrip_bits b : 0 <= b < 2 ^ 64 ->
  match of_bits b with
  | S754_finite _ _ _ => to_bits (string_to_number (number_to_string (of_bits b))) = b
  | _ => True
  end.
Proof.
  intros Hb. pose proof (to_bits_of_bits_finite b Hb) as Hbits. pose proof (of_bits_valid b) as Hv.
  destruct (of_bits b) as [s|s| |s m e]; try exact I.
  rewrite roundtrip_finite by exact Hv. exact Hbits.
Qed.
