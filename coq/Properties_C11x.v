(* Properties_C11x.v -- C11, part "cache": an expression has one value whichever way the caller asks,
   WHATEVER WAS EVALUATED BEFORE.  The objects XObjectFactoryDefault recycles (XNodeSet, XString, XNumber) and the result
   tree fragments of StylesheetExecutionContextDefault (XResultTreeFrag: never reused, a constructor call each) cache
   conversions of their value; the machine of XoCacheDefs.v is those caches, their sentinels, release()/set()
   and the factory's three stacks as they are in /repo (shape of clearCachedValues(), sentinel, call structure
   and bounds regenerated into GenXoCache.v).  `run` is that machine, `ref_run` the specification without any
   cache or factory: every answer is the XPath conversion (conv) of the payload the object holds at that moment.
   to_num / num_to_str (DoubleSupport::toDouble, NumberToDOMString) are universally quantified.
   Statements only; proofs in XoCacheModel.v. *)
From Coq Require Import ZArith NArith List Bool SpecFloat.
Require Import XV.NumDefs XV.XoCacheAst XV.GenXoCache XV.XoCacheDefs XV.XoCacheModel.
Import ListNotations.

(** * all histories *)
Theorem observations_are_conversions_of_current_payload : forall to_num num_to_str fl,
  flags_ok fl = true ->
  forall ops, run to_num num_to_str fl w0 ops = ref_run to_num num_to_str [] ops.
Proof. exact observations_are_conversions. Qed.
Print Assumptions observations_are_conversions_of_current_payload.

(* one question to one object satisfying the invariant: the answer is the conversion, the invariant and the
   payload are kept (no hypothesis on the flags: asking never needs clearCachedValues) *)
Theorem one_question_answers_the_conversion : forall to_num num_to_str fl q o,
  ok_obj to_num num_to_str fl o ->
  ok_obj to_num num_to_str fl (fst (ask to_num num_to_str fl q o))
  /\ pl (fst (ask to_num num_to_str fl q o)) = pl o
  /\ snd (ask to_num num_to_str fl q o) = conv to_num num_to_str (pl o) q.
Proof. exact ask_ok. Qed.
Print Assumptions one_question_answers_the_conversion.

(* the invariant: in every reachable world a cached value, when present, is the conversion of the payload the
   object holds NOW (never of what the recycled object held before) *)
Theorem cached_value_when_present_is_conversion_of_current_payload : forall to_num num_to_str fl,
  flags_ok fl = true ->
  forall ops o, In o (live (world_after to_num num_to_str fl w0 ops)) -> ok_obj to_num num_to_str fl o.
Proof. exact cached_values_are_current. Qed.
Print Assumptions cached_value_when_present_is_conversion_of_current_payload.

(* whatever statements clearCachedValues() is made of: if the abstract run over (string empty?, number is the
   sentinel?) ends in (true, true) from both starting points, the concrete run leaves nothing cached *)
Theorem clear_cached_values_resets_both : forall fl,
  clear_resets_both fl = true ->
  forall o, clean fl (clear_cached fl o) /\ pl (clear_cached fl o) = pl o.
Proof. exact clear_resets. Qed.
Print Assumptions clear_cached_values_resets_both.

(** * what the sentinels do *)
Theorem num_fills_string_and_number : forall to_num num_to_str fl o vals,
  pl o = PNodes vals -> cstr o = [] -> is_bogus fl (cnum o) = true ->
  cstr (fst (ask to_num num_to_str fl QNum o)) = first_data vals
  /\ cnum (fst (ask to_num num_to_str fl QNum o)) = to_num (first_data vals).
Proof. exact num_fills_both_members. Qed.
Print Assumptions num_fills_string_and_number.

Theorem number_equal_to_sentinel_is_recomputed : forall to_num num_to_str fl o vals,
  pl o = PNodes vals -> cstr o = [] -> is_bogus fl (cnum o) = true ->
  is_bogus fl (cnum (fst (ask to_num num_to_str fl QNum o))) = is_bogus fl (to_num (first_data vals)).
Proof. exact number_is_kept_unless_it_is_the_sentinel. Qed.
Print Assumptions number_equal_to_sentinel_is_recomputed.

Theorem empty_string_value_is_recomputed : forall to_num num_to_str fl o vals,
  pl o = PNodes vals -> cstr o = [] -> first_data vals = [] ->
  fst (ask to_num num_to_str fl QStrRef o) = o.
Proof. exact empty_string_value_is_not_kept. Qed.
Print Assumptions empty_string_value_is_recomputed.

(** * result tree fragments: the single-text-child shortcut *)
(* whenever getSingleTextChildValue delivers a value (first child is a text node without a sibling), that value is the
   string-value of the whole fragment *)
Theorem rtf_single_text_child_shortcut_agrees : forall fl, flags_ok fl = true ->
  forall cs v, single_text_child fl cs = Some v -> v = frag_string cs.
Proof. exact single_text_child_is_the_string. Qed.
Print Assumptions rtf_single_text_child_shortcut_agrees.

(* ... and for such a fragment the shortcut is what answers: m_cachedStringValue is never filled *)
Theorem rtf_shortcut_is_taken_for_a_single_text_child : forall to_num num_to_str fl, flags_ok fl = true ->
  forall v q, csing (fresh fl (PFrag [FText v])) = Some v
              /\ cstr (fst (ask to_num num_to_str fl q (fresh fl (PFrag [FText v])))) = [].
Proof. exact shortcut_is_taken. Qed.
Print Assumptions rtf_shortcut_is_taken_for_a_single_text_child.

(* a plausible broken shape: getSingleTextChildValue without `getNextSibling() == 0`.  <v>2<e>0</e></v> is then "2" *)
Theorem rtf_missing_sibling_test_is_rejected_by_the_guard : flags_ok no_sibling_test_flags = false.
Proof. exact no_sibling_test_guard_rejects. Qed.
Print Assumptions rtf_missing_sibling_test_is_rejected_by_the_guard.

Theorem rtf_missing_sibling_test_refuted :
  run string_to_number number_to_string no_sibling_test_flags w0 rtf_history = [OStr s_2; ONum (string_to_number s_2)]
  /\ ref_run string_to_number number_to_string [] rtf_history = [OStr s_20; ONum (string_to_number s_20)]
  /\ string_to_number s_2 <> string_to_number s_20.
Proof. exact no_sibling_test_refuted. Qed.
Print Assumptions rtf_missing_sibling_test_refuted.

(** * the seeded shape: reset only when the cached string is non-empty (seeded/C11_f) *)
Theorem guarded_clear_is_rejected_by_the_guard : flags_ok seeded_flags = false.
Proof. exact seeded_guard_rejects. Qed.
Print Assumptions guarded_clear_is_rejected_by_the_guard.

(* an empty node-set asked for its number, given back, the recycled object handed out for a node-set whose
   first node is "20", asked for its number: NaN *)
Theorem guarded_clear_refuted :
  run string_to_number number_to_string seeded_flags w0 c11f_history = [ONum S754_nan; ONum S754_nan]
  /\ ref_run string_to_number number_to_string [] c11f_history = [ONum S754_nan; ONum (string_to_number s_20)]
  /\ string_to_number s_20 <> S754_nan.
Proof. exact seeded_refuted. Qed.
Print Assumptions guarded_clear_refuted.

(** * this tree (GenXoCache.v) *)
Theorem flags_ok_this_tree : flags_ok gen_flags = true.
Proof. exact this_tree_guard. Qed.
Print Assumptions flags_ok_this_tree.

Theorem observations_are_conversions_this_tree : forall to_num num_to_str ops,
  run to_num num_to_str gen_flags w0 ops = ref_run to_num num_to_str [] ops.
Proof. exact this_tree_observations. Qed.
Print Assumptions observations_are_conversions_this_tree.

Theorem extracted_model_is_the_specification_this_tree : forall ops, xo_run ops = xo_ref ops.
Proof. exact this_tree_extracted. Qed.
Print Assumptions extracted_model_is_the_specification_this_tree.

(** * the hypotheses are satisfiable, the statements not vacuous *)
Definition s_sentinel : str := [49; 50; 51; 52; 53; 54; 55; 56; 57]%N.      (* "123456789" *)
Definition h_mixed : list op :=
  [Create (PNodes [s_sentinel; s_20]); Ask 0 QNum; Ask 0 QStrRef; Create (PNum (string_to_number s_20));
   Ask 1 QStrRef; Ask 1 QLen; Return 0; Create (PStr s_20); Ask 1 QNum; Return 0; Create (PNodes []);
   Ask 1 QNum; Ask 1 QBool; Ask 1 QStrBuf; Create (PNum S754_nan); Ask 2 QStrEvents; Ask 2 QBool;
   Return 0; Create (PStr s_sentinel); Ask 2 QNum;
   Create (PFrag [FText s_20]); Ask 3 QNum; Ask 3 QLen; Return 3;
   Create (PFrag [FElem s_20; FComment s_20; FText s_sentinel]); Ask 3 QStrRef; Ask 3 QNum; Ask 3 QBool; Ask 3 QStrBuf;
   Create (PFrag []); Ask 4 QNum; Ask 4 QBool].
(* a history with answers of all four kinds, through recycled objects of the three factory kinds and three
   fragments (single text child, mixed content, empty) *)
Example mixed_history_observes_something :
  length (xo_run h_mixed) = 19 /\ xo_run h_mixed = xo_ref h_mixed.
Proof. vm_compute. split; reflexivity. Qed.
(* the as-found tree answers the C11_f history correctly *)
Example c11f_history_this_tree :
  xo_run c11f_history = [ONum S754_nan; ONum (string_to_number s_20)].
Proof. vm_compute. reflexivity. Qed.
(* a node whose string-value converts to theBogusNumberValue: the number is right and is never found cached *)
Example sentinel_valued_node_is_recomputed :
  is_bogus gen_flags (string_to_number s_sentinel) = true
  /\ xo_run [Create (PNodes [s_sentinel]); Ask 0 QNum; Ask 0 QNum]
     = [ONum (string_to_number s_sentinel); ONum (string_to_number s_sentinel)].
Proof. vm_compute. split; reflexivity. Qed.
(* NaN is not the sentinel: the number of an empty node-set IS kept -- what the seeded shape then fails to drop *)
Example nan_is_kept : is_bogus gen_flags S754_nan = false.
Proof. vm_compute. reflexivity. Qed.
(* the invariant is satisfiable by an object with both members filled *)
Example invariant_satisfiable :
  ok_obj string_to_number number_to_string gen_flags (mk_obj (PNodes [s_20]) s_20 (string_to_number s_20) None).
Proof. unfold ok_obj. simpl. split; right; reflexivity. Qed.
