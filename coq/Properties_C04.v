(* Properties_C04.v — property theorems for C04 (XML output parses back to the result tree).
   Nothing but statements closed by [exact] and their assumptions.  The model is
   SerUtfDefs (buffered writers) / SerEscDefs (escaping, element stack) / XmlParseDefs (model
   reader); every table, buffer size and `m_bufferRemaining < k` guard comes from GenSer.v, which
   translator/gen_ser.py regenerates from /repo on every run. *)
From Coq Require Import NArith List Bool.
Require Import XV.SerDefs XV.XmlParseDefs XV.SerUtfModel XV.SerUtfModel2 XV.SerEscModel.
Import ListNotations.
Local Open Scope N_scope.

(* ---- the staging buffers ----------------------------------------------------------------------- *)

(* writer_inv + writer_transparent: for ANY sequence of buffer operations whose guards protect
   their stores, started at ANY buffer offset satisfying the invariant
   (position + remaining = kBufferSize): no store falls outside m_buffer, the invariant is kept,
   and what reaches the Writer is exactly the concatenation of the operations' data — a multi-unit
   character can never be torn or lost at a flush. *)
Theorem writer_transparent : forall kb its w, kb < 2 ^ 64 -> wr_inv kb w ->
  forallb (item_sound kb) its = true ->
  match payload its with
  | Ok bs => exists w', run kb its w = Ok w' /\ wr_inv kb w' /\ all_units w' = all_units w ++ bs
  | Thrown c => run kb its w = Thrown c
  | Oob => False
  end.
Proof. exact run_transparent. Qed.
Print Assumptions writer_transparent.

Theorem writer_inv_initially : forall kb, wr_inv kb (wr_init kb).
Proof. exact wr_init_inv. Qed.
Print Assumptions writer_inv_initially.

(* every operation the three writers offer has a guard that protects its stores, for the buffer
   sizes and the guards found in the source (this is the statement that a change of
   `m_bufferRemaining < 3` into `< 2` breaks) *)
Theorem writer_operations_guarded :
  fam_sound fam_utf8 /\ fam_sound fam_utf16 /\ forall rep, fam_sound (fam_other rep).
Proof. exact (conj fam_utf8_sound (conj fam_utf16_sound fam_other_sound)). Qed.
Print Assumptions writer_operations_guarded.

(* hence for every event script, version, and writer family the serializer's output is the plain
   concatenation of what the escaping layer emits: the buffers are invisible and never overrun *)
Theorem serialize_transparent : forall k v11 ver enc es,
  serialize k v11 ver enc es = payload (document_items (fam_of k) v11 ver enc es).
Proof. exact SerUtfModel.serialize_transparent. Qed.
Print Assumptions serialize_transparent.

Theorem serialize_never_out_of_bounds : forall k v11 ver enc es, serialize k v11 ver enc es <> Oob.
Proof. exact serialize_never_oob. Qed.
Print Assumptions serialize_never_out_of_bounds.

(* the function that is extracted and run against the library is this one *)
Theorem extracted_function_is_serialize : forall k v11 ver enc es,
  serialize_fast k v11 ver enc es = serialize k v11 ver enc es.
Proof. exact serialize_fast_eq. Qed.
Print Assumptions extracted_function_is_serialize.

Example writer_transparent_hypotheses_satisfiable :
  forallb (item_sound kbuf_utf8) (u8_str [97; 233; 8364; 55357; 56832]) = true /\
  payload (u8_str [97; 233; 8364; 55357; 56832]) = Ok [97; 195; 169; 226; 130; 172; 240; 159; 152; 128].
Proof. split; vm_compute; reflexivity. Qed.
Print Assumptions writer_transparent_hypotheses_satisfiable.

(* ---- UTF-8 ---------------------------------------------------------------------------------------- *)

(* the byte formulas of XalanUTF8Writer::write(XalanUnicodeChar) (leaf helpers regenerated from the
   source) are RFC 3629 *)
Theorem utf8_encoder_is_rfc3629 : forall cp, cp <= 1114111 -> payload (u8_code cp) = Ok (utf8_spec cp).
Proof. exact u8_code_spec. Qed.
Print Assumptions utf8_encoder_is_rfc3629.

Theorem utf8_above_unicode_throws : forall cp, 1114111 < cp -> payload (u8_code cp) = Thrown err_scalar.
Proof. exact u8_code_too_big. Qed.
Print Assumptions utf8_above_unicode_throws.

(* utf8_roundtrip: a strict decoder (shortest form, no surrogates) reads back exactly the code
   points of every UTF-16 string whose surrogates are paired *)
Theorem utf8_roundtrip : forall s cps, forallb (fun c => c <? 65536) s = true ->
  code_points s = Some cps ->
  exists bs, payload (u8_str s) = Ok bs /\ utf8_decode (S (length bs)) bs = Some cps.
Proof. exact utf8_roundtrip16. Qed.
Print Assumptions utf8_roundtrip.

Example utf8_roundtrip_instance :
  code_points [97; 55357; 56832; 8364] = Some [97; 128512; 8364] /\
  forallb (fun c => c <? 65536) [97; 55357; 56832; 8364] = true.
Proof. split; vm_compute; reflexivity. Qed.
Print Assumptions utf8_roundtrip_instance.

(* FULL statement without the pairing hypothesis is false of the model and of the library (known
   finding K7): a lone low surrogate is written as a 3-byte sequence that no UTF-8 decoder accepts *)
Theorem utf8_roundtrip_lone_low_refuted :
  payload (u8_str [56832]) = Ok [237; 184; 128] /\ utf8_decode 4 [237; 184; 128] = None /\
  code_points [56832] = None.
Proof. exact utf8_lone_low_refuted. Qed.
Print Assumptions utf8_roundtrip_lone_low_refuted.

Theorem utf8_lone_high_is_an_error : forall c, is_high c = true -> payload (u8_str [c]) = Thrown err_surrogate.
Proof. exact utf8_lone_high_throws. Qed.
Print Assumptions utf8_lone_high_is_an_error.

(* ---- escaping: what a conforming parser reads back ------------------------------------------------- *)
(* wf_text v11 s: s is a sequence of Chars of that XML version with paired surrogates.  The reader
   (XmlParseDefs.v) is written from the XML recommendations: end-of-line normalisation,
   references, CDATA sections, attribute-value normalisation, legality of literal characters.
   The special-character tables of both versions enter through exhaustive sweeps over GenSer.v. *)

(* content_roundtrip: text nodes, XML 1.0 and 1.1 tables, UTF-16 writer (nothing unrepresentable) *)
Theorem content_roundtrip : forall v11 s, wf_text v11 s = true ->
  exists bs, payload (write_content fam_utf16 v11 s) = Ok bs /\ parse_content v11 bs = Some s.
Proof. exact SerEscModel.content_roundtrip. Qed.
Print Assumptions content_roundtrip.

(* attr_roundtrip: TAB, LF, CR are written as references and so survive normalisation *)
Theorem attr_roundtrip : forall v11 s, wf_text v11 s = true ->
  exists bs, payload (write_attr_string fam_utf16 v11 s) = Ok bs /\ parse_attr v11 bs = Some s.
Proof. exact SerEscModel.attr_roundtrip. Qed.
Print Assumptions attr_roundtrip.

(* the same through the other-encoding writer, for EVERY representability predicate that accepts
   ASCII: unrepresentable characters become decimal character references *)
Theorem content_roundtrip_any_encoding : forall rep, (forall c, c < 128 -> rep c = true) ->
  forall v11 s, wf_text v11 s = true -> small s = true ->
  exists bs, payload (write_content (fam_other rep) v11 s) = Ok bs /\ parse_content v11 bs = Some s.
Proof. exact content_roundtrip_other. Qed.
Print Assumptions content_roundtrip_any_encoding.

Theorem attr_roundtrip_any_encoding : forall rep, (forall c, c < 128 -> rep c = true) ->
  forall v11 s, wf_text v11 s = true -> small s = true ->
  exists bs, payload (write_attr_string (fam_other rep) v11 s) = Ok bs /\ parse_attr v11 bs = Some s.
Proof. exact attr_roundtrip_other. Qed.
Print Assumptions attr_roundtrip_any_encoding.

Example roundtrip_hypotheses_satisfiable :
  wf_text false [60; 38; 62; 34; 9; 10; 13; 233; 8364; 55357; 56832; 93; 93; 62; 133; 8232] = true /\
  wf_text true [1; 60; 133; 8232; 159; 55357; 56832] = true /\
  small [60; 8364; 55357; 56832] = true /\ (forall c, c < 128 -> rep_latin1 c = true).
Proof. repeat split; try (vm_compute; reflexivity). exact rep_latin1_low. Qed.
Print Assumptions roundtrip_hypotheses_satisfiable.

(* forbidden_char_fails / its converse at table level: under XML 1.0 the characters that raise the
   error are exactly the non-Chars below 0x80; the 1.1 table forbids nothing (controls are written as
   references) *)
Theorem forbidden_char_fails : forall v11 s, (exists c, In c s /\ p_forbidden v11 c = true) ->
  payload (write_content fam_utf16 v11 s) = Thrown err_forbidden.
Proof. exact SerEscModel.forbidden_char_fails. Qed.
Print Assumptions forbidden_char_fails.

Theorem forbidden_iff_not_char_1_0 : forall c, c < 128 -> p_forbidden false c = negb (xml_char false c).
Proof. exact forbidden_iff_not_char_1_0'. Qed.
Print Assumptions forbidden_iff_not_char_1_0.

Theorem no_forbidden_1_1 : forall c, p_forbidden true c = false.
Proof. exact SerEscModel.no_forbidden_1_1. Qed.
Print Assumptions no_forbidden_1_1.

(* cdata_roundtrip.  FULL statement (kept visible):
     forall v11 s, wf_text v11 s = true -> s <> [] ->
       exists bs, payload (write_cdata fam_utf16 v11 s) = Ok bs /\ parse_content v11 bs = Some s
   is FALSE of the model and of the library (finding K-new-1): a CR is written literally inside the
   CDATA section and read back as LF; under 1.1 also U+0085 and U+2028, and a 1.1 control character
   raises an exception (K-new-2). *)
Theorem cdata_roundtrip_refuted :
  ~ (forall v11 s, wf_text v11 s = true -> s <> [] ->
       exists bs, payload (write_cdata fam_utf16 v11 s) = Ok bs /\ parse_content v11 bs = Some s).
Proof. exact cdata_roundtrip_false. Qed.
Print Assumptions cdata_roundtrip_refuted.

Theorem cdata_roundtrip_cr_witness : forall v11,
  wf_text v11 [13] = true /\
  payload (write_cdata fam_utf16 v11 [13]) = Ok (s_cdata_open ++ [13] ++ s_cdata_close) /\
  parse_content v11 (s_cdata_open ++ [13] ++ s_cdata_close) = Some [10].
Proof. exact SerEscModel.cdata_roundtrip_refuted. Qed.
Print Assumptions cdata_roundtrip_cr_witness.

(* with the exact guard (no CR; 1.1: no NEL, LSEP, control characters) every string round-trips,
   including every placement of "]]>" (split by the look-ahead taken from the source) *)
Theorem cdata_roundtrip_partial : forall v11 s, wf_text v11 s = true ->
  ~ In 13 s ->
  (v11 = true -> ~ In 133 s /\ ~ In 8232 s /\ forall c, In c s -> p_crforbidden true c = false) ->
  exists bs, payload (write_cdata fam_utf16 v11 s) = Ok bs /\ parse_content v11 bs = Some s.
Proof. exact SerEscModel.cdata_roundtrip_partial. Qed.
Print Assumptions cdata_roundtrip_partial.

Example cdata_roundtrip_instance :
  payload (write_cdata fam_utf16 false [93; 93; 62; 93; 93; 93; 62])
  = Ok (s_cdata_open ++ [93; 93] ++ s_cdata_close ++ s_cdata_open ++ [62; 93] ++ [93; 93] ++ s_cdata_close
        ++ s_cdata_open ++ [62] ++ s_cdata_close).
Proof. vm_compute. reflexivity. Qed.
Print Assumptions cdata_roundtrip_instance.

(* comment_roundtrip is FALSE for encodings with unrepresentable characters (known finding K4):
   the reference is literal text inside a comment *)
Theorem comment_roundtrip_refuted :
  payload (write_comment (fam_other rep_ascii) false [8364]) =
  Ok ([60; 33; 45; 45] ++ [38; 35; 56; 51; 54; 52; 59] ++ [45; 45; 62]).
Proof. exact comment_charref_refuted. Qed.
Print Assumptions comment_roundtrip_refuted.
