(* C08 part "html": attr_escaping_roundtrip - what writeAttrString writes between the quote marks is read back, in the
   attribute-value state of the reader, as exactly the units of the value ('<' and '>' and "&{" written as they are). *)
From Coq Require Import NArith List Bool Lia ZifyBool ZifyNat ZifyN.
Require Import XV.GenOutopt XV.GenHtml XV.HtmlEnt4Defs XV.HtmlDefs XV.HtmlTableModel XV.HtmlRefModel XV.HtmlTextModel.
Import ListNotations.
Open Scope N_scope.

Section A.
Variables (nm : str) (ats : list (str * str)) (an : str) (toks : list tok).
Notation AV v := (AttrVal nm ats an v, toks).

Lemma attr_S_markup : forall ch, attr_S ch = false -> ch < 256 -> ch <> 34 /\ ch <> 38.
Proof.
  intros ch H Hlt. split; intros ->; vm_compute in H; discriminate.
Qed.

Lemma run_av_plain : forall ch v, ch <> 34 -> ch <> 38 -> run (AV v) [ch] = AV (ch :: v).
Proof.
  intros ch v H1 H2. cbn [run fold_left step]. unfold step_attrval.
  destruct (ch =? 34) eqn:E1; [lia|]. destruct (ch =? 38) eqn:E2; [lia|]. reflexivity.
Qed.

Lemma charref_collect_a : forall n buf v, forallb is_alnum n = true ->
  run (CharRefA nm ats an v buf, toks) n = (CharRefA nm ats an v (rev n ++ buf), toks).
Proof.
  induction n as [|x n IH]; intros buf v H; [reflexivity|].
  cbn [forallb] in H. apply andb_true_iff in H. destruct H as [H1 H2].
  rewrite run_cons. cbn [step].
  assert (x <> 59) by (unfold is_alnum, is_letter, is_digit in H1; lia).
  destruct (x =? 59) eqn:E; [lia|]. rewrite H1. cbn [orb]. rewrite IH by exact H2.
  cbn [rev]. rewrite <- app_assoc. reflexivity.
Qed.

Lemma run_av_named_ref : forall n us v, forallb is_alnum n = true -> resolve_ref n = Some us ->
  run (AV v) (38 :: n ++ [59]) = AV (rev us ++ v).
Proof.
  intros n us v Ha Hr. rewrite run_cons. cbn [step]. unfold step_attrval. cbn [N.eqb Pos.eqb].
  rewrite run_app, charref_collect_a by exact Ha.
  rewrite app_nil_r. cbn [run fold_left step N.eqb Pos.eqb]. rewrite rev_involutive, Hr. reflexivity.
Qed.

Lemma run_av_numref : forall n v, n < 10 ^ 20 ->
  run (AV v) (numref n) = AV (rev (units_of_cp (fix_cp n)) ++ v).
Proof.
  intros n v Hn. destruct (decimal_spec n Hn) as (H1 & H2 & H3). unfold numref.
  change ([38; 35] ++ decimal n ++ [59]) with (38 :: 35 :: decimal n ++ [59]).
  rewrite run_cons. cbn [step]. unfold step_attrval. cbn [N.eqb Pos.eqb].
  rewrite run_cons. cbn [step N.eqb Pos.eqb is_alnum is_letter is_digit N.leb N.compare Pos.compare Pos.compare_cont andb orb].
  rewrite run_app, charref_collect_a by (apply digits_alnum; exact H1).
  cbn [run fold_left step N.eqb Pos.eqb]. rewrite rev_app_distr, rev_involutive. cbn [rev app].
  unfold resolve_ref. cbn [N.eqb Pos.eqb]. unfold resolve_num.
  destruct (decimal n) as [|x ds] eqn:E; [congruence|].
  assert (Hx : is_digit x = true) by (cbn [forallb] in H1; apply andb_true_iff in H1; tauto).
  assert ((x =? 120) || (x =? 88) = false) as -> by (unfold is_digit in Hx; lia).
  rewrite H1, H3. reflexivity.
Qed.

Lemma attr_roundtrip_n : attr_pair_is_one_reference = true -> forall n s, (length s <= n)%nat -> chars_ok s = true ->
  exists o, write_attr s = Some o /\ forall v, run (AV v) o = AV (rev s ++ v).
Proof.
  intros PAIR. induction n as [|n IH]; intros s Hn Hok.
  - destruct s; [|cbn in Hn; lia]. exists []. split; reflexivity.
  - destruct s as [|ch r]; [exists []; split; reflexivity|].
    unfold chars_ok in Hok. apply andb_true_iff in Hok. destruct Hok as [Hwf Hall].
    cbn [forallb] in Hall. apply andb_true_iff in Hall. destruct Hall as [Hch Hall].
    cbn [length] in Hn.
    assert (STEP : forall piece, (forall v, run (AV v) piece = AV (ch :: v)) -> wf16 r = true ->
              exists o, opt_app piece (write_attr r) = Some o /\ forall v, run (AV v) o = AV (rev (ch :: r) ++ v)).
    { intros piece Hp Hwr. destruct (IH r ltac:(lia)) as (o & Ho & Hrun).
      { unfold chars_ok. rewrite Hwr, Hall. reflexivity. }
      exists (piece ++ o). split; [apply opt_app_some; exact Ho|].
      intros v. rewrite run_app, Hp, Hrun. cbn [rev]. rewrite <- app_assoc. reflexivity. }
    cbn [write_attr].
    destruct ((ch <? specials_size) && negb (attr_S ch)) eqn:Eplain.
    + apply andb_true_iff in Eplain. destruct Eplain as [ELT ES]. apply negb_true_iff in ES. unfold specials_size in ELT.
      destruct (attr_S_markup _ ES ltac:(lia)) as (A & B).
      cbn [wf16] in Hwf. destruct (is_high ch) eqn:Eh; [unfold is_high in Eh; lia|].
      apply andb_true_iff in Hwf. destruct Hwf as [_ Hwr]. apply STEP; [|exact Hwr]. intros v. apply run_av_plain; assumption.
    + destruct ((ch =? 38) && match r with 123 :: _ => true | _ => false end) eqn:Eamp.
      * (* "&{" stays as it is: the reader sees an ampersand that starts no reference *)
        apply andb_true_iff in Eamp. destruct Eamp as [E38 Er]. apply N.eqb_eq in E38. subst ch.
        destruct r as [|x r']; [discriminate|]. assert (x = 123) by (destruct x as [|p]; [discriminate|]; do 7 (destruct p; try discriminate); reflexivity). subst x.
        cbn [wf16 is_high is_lowsur N.leb N.ltb N.compare Pos.compare Pos.compare_cont andb negb] in Hwf.
        cbn [forallb] in Hall. apply andb_true_iff in Hall. destruct Hall as [_ Hall'].
        destruct (IH r' ltac:(cbn [length] in Hn; lia)) as (o & Ho & Hrun).
        { unfold chars_ok. rewrite Hwf, Hall'. reflexivity. }
        exists ([38] ++ [123] ++ o). split.
        { apply opt_app_some. change (write_attr (123 :: r')) with (opt_app [123] (write_attr r')). apply opt_app_some. exact Ho. }
        intros v. change ([38] ++ [123] ++ o) with (38 :: 123 :: o). rewrite run_cons. cbn [step]. unfold step_attrval at 1. cbn [N.eqb Pos.eqb].
        rewrite run_cons. cbn [step N.eqb Pos.eqb is_alnum is_letter is_digit N.leb N.compare Pos.compare Pos.compare_cont andb orb app].
        unfold step_attrval. cbn [N.eqb Pos.eqb]. rewrite Hrun. cbn [rev]. rewrite <- !app_assoc. reflexivity.
      * destruct (default_entity ch) as [e|] eqn:Ee.
        -- assert (N39 : ch <> 39) by (intros ->; vm_compute in Eplain; discriminate).
           destruct (default_entity_resolves _ _ N39 Ee) as (n1 & -> & Hres & Hal & _).
           assert (Hnh : is_high ch = false /\ is_lowsur ch = false).
           { unfold default_entity in Ee. 
             assert (In (ch, n1) (xml_entities_html ++ html_entities)).
             { destruct (assoc ch xml_entities) as [n2|] eqn:E1.
               - injection Ee as Ee. apply app_inv_tail in Ee. subst n2. apply in_or_app. left. unfold xml_entities_html. apply filter_In.
                 split; [apply assoc_in; exact E1|]. cbn. destruct (ch =? 39) eqn:E; [lia | reflexivity].
               - destruct (assoc ch html_entities) as [n2|] eqn:E2; [|discriminate]. injection Ee as Ee. apply app_inv_tail in Ee. subst n2.
                 apply in_or_app. right. apply assoc_in. exact E2. }
             assert (SUR : forallb (fun e => negb ((55296 <=? fst e) && (fst e <? 57344))) (xml_entities_html ++ html_entities) = true) by (vm_compute; reflexivity).
             rewrite forallb_forall in SUR. specialize (SUR _ H). cbn [fst] in SUR. unfold is_high, is_lowsur. lia. }
           destruct Hnh as [Hnh Hnl]. cbn [wf16] in Hwf. rewrite Hnh, Hnl in Hwf. cbn [negb andb] in Hwf.
           apply STEP; [|exact Hwf]. intros v. rewrite (run_av_named_ref _ _ _ Hal Hres). reflexivity.
        -- destruct (is_high ch) eqn:Eh.
           ++ cbn [wf16] in Hwf. rewrite Eh in Hwf. destruct r as [|lo r']; [discriminate|].
              apply andb_true_iff in Hwf. destruct Hwf as [Hlo Hwr]. rewrite Hlo, PAIR.
              cbn [forallb] in Hall. apply andb_true_iff in Hall. destruct Hall as [_ Hall'].
              destruct (IH r' ltac:(cbn [length] in Hn; lia)) as (o & Ho & Hrun).
              { unfold chars_ok. rewrite Hwr, Hall'. reflexivity. }
              destruct (fix_cp_pair _ _ Eh Hlo) as (F1 & F2 & F3).
              exists (numref (pair_cp ch lo) ++ o). split; [apply opt_app_some; exact Ho|].
              intros v. rewrite run_app, run_av_numref by exact F3. rewrite F1, F2, Hrun.
              cbn [rev app]. rewrite <- !app_assoc. reflexivity.
           ++ cbn [wf16] in Hwf. rewrite Eh in Hwf. apply andb_true_iff in Hwf. destruct Hwf as [Hnl Hwr]. apply negb_true_iff in Hnl.
              destruct (fix_cp_char _ Hch Eh Hnl) as (F1 & F2).
              apply STEP; [|exact Hwr]. intros v. rewrite run_av_numref.
              ** rewrite F1, F2. reflexivity.
              ** unfold html_char, mem in Hch. cbn [existsb] in Hch. change (10 ^ 20) with 100000000000000000000. lia.
Qed.

Lemma attr_roundtrip : attr_pair_is_one_reference = true -> forall s, chars_ok s = true ->
  exists o, write_attr s = Some o /\ forall v, run (AV v) o = AV (rev s ++ v).
Proof. intros P s Hs. apply (attr_roundtrip_n P (length s) s (le_n _) Hs). Qed.

End A.
