(* C12 - the producers that set the order flag do so honestly (eight axes). *)
From Coq Require Import List Arith Bool Lia ZifyBool ZifyNat.
Import ListNotations.
Require Import XV.NodeListDefs XV.DocOrderModel XV.NodeListModel.

Lemma ss_filter : forall (g : rnode -> nat) (f : rnode -> bool) l,
  strictly_sorted (map g l) = true -> strictly_sorted (map g (filter f l)) = true.
Proof.
  intros g f. induction l as [|a r IH]; intro H; [reflexivity|].
  simpl map in H. apply strictly_sorted_cons in H. destruct H as [Hf Hs]. simpl.
  destruct (f a); [|auto]. simpl map. apply strictly_sorted_cons. split; [|auto].
  apply Forall_forall. intros x Hx. apply in_map_iff in Hx. destruct Hx as (y & <- & Hy).
  apply filter_In in Hy. destruct Hy as [Hy _]. rewrite Forall_forall in Hf. apply Hf. apply in_map. exact Hy.
Qed.

Lemma ss_snoc : forall l a, strictly_sorted l = true -> (forall b, In b l -> b < a) -> strictly_sorted (l ++ [a]) = true.
Proof.
  induction l as [|c r IH]; intros a Hs Hb; [reflexivity|].
  apply strictly_sorted_cons in Hs. destruct Hs as [Hf Hs]. simpl app. apply strictly_sorted_cons. split.
  - apply Forall_app. split; [exact Hf|]. constructor; [apply Hb; left; reflexivity | constructor].
  - apply IH; [exact Hs | intros; apply Hb; right; assumption].
Qed.

Lemma ss_seq_map : forall (h : nat -> nat) n s, (forall i j, s <= i -> i < j -> j < s + n -> h i < h j) ->
  strictly_sorted (map h (seq s n)) = true.
Proof.
  intros h. induction n as [|n IH]; intros s H; [reflexivity|]. simpl. apply strictly_sorted_cons. split.
  - apply Forall_forall. intros x Hx. apply in_map_iff in Hx. destruct Hx as (k & <- & Hk).
    apply in_seq in Hk. apply H; lia.
  - apply IH. intros i j Hi Hij Hj. apply H; lia.
Qed.

Lemma filter_rev_comm : forall A (f : A -> bool) l, filter f (rev l) = rev (filter f l).
Proof.
  intros A f. induction l as [|a r IH]; [reflexivity|]. simpl. rewrite filter_app, IH. simpl.
  destruct (f a); simpl; [reflexivity | apply app_nil_r].
Qed.

(* ---- validity of children / attributes ---- *)

Lemma fvalid_snoc_kid : forall a t na ks k, fvalid t a = true -> fsub t a = Some (Node na ks) -> k < length ks ->
  fvalid t (a ++ [SC k]) = true.
Proof.
  induction a as [|x a IH]; intros [tna tks] na ks k Hv Hs Hk; simpl in *.
  - inversion Hs; subst. destruct (nth_error ks k) eqn:E; [reflexivity|]. apply nth_error_None in E. lia.
  - destruct x as [i|i]; [discriminate|]. destruct (nth_error tks i) as [c|]; [|discriminate]. eapply IH; eassumption.
Qed.

Lemma fvalid_snoc_attr : forall a t na ks k, fvalid t a = true -> fsub t a = Some (Node na ks) -> k < na ->
  fvalid t (a ++ [SA k]) = true.
Proof.
  induction a as [|x a IH]; intros [tna tks] na ks k Hv Hs Hk; simpl in *.
  - inversion Hs; subst. apply Nat.ltb_lt. exact Hk.
  - destruct x as [i|i]; [discriminate|]. destruct (nth_error tks i) as [c|]; [|discriminate].
    destruct a; simpl; eapply IH; eassumption.
Qed.

Lemma valid_kid : forall t p k, valid t p = true -> k < nkids t p -> valid t (SC k :: p) = true.
Proof.
  intros t p k Hp Hk. unfold valid, nkids in *. simpl. destruct (fsub t (rev p)) as [[na ks]|] eqn:E; [|lia].
  eapply fvalid_snoc_kid; eassumption.
Qed.

Lemma valid_attr : forall t p k, valid t p = true -> k < nattrs t p -> valid t (SA k :: p) = true.
Proof.
  intros t p k Hp Hk. unfold valid, nattrs in *. simpl. destruct (fsub t (rev p)) as [[na ks]|] eqn:E; [|lia].
  eapply fvalid_snoc_attr; eassumption.
Qed.

Lemma index_kids_mono : forall t p i j, valid t (SC i :: p) = true -> valid t (SC j :: p) = true -> i < j ->
  index t (SC i :: p) < index t (SC j :: p).
Proof.
  intros t p i j Hi Hj L. unfold valid, index in *. simpl rev in *. apply Nat.ltb_lt.
  rewrite <- (flex_findex _ _ t Hi Hj), flex_app_same. simpl.
  replace (i =? j) with false by (symmetry; apply Nat.eqb_neq; lia). apply Nat.ltb_lt. exact L.
Qed.

Lemma index_attrs_mono : forall t p i j, valid t (SA i :: p) = true -> valid t (SA j :: p) = true -> i < j ->
  index t (SA i :: p) < index t (SA j :: p).
Proof.
  intros t p i j Hi Hj L. unfold valid, index in *. simpl rev in *. apply Nat.ltb_lt.
  rewrite <- (flex_findex _ _ t Hi Hj), flex_app_same. simpl.
  replace (i =? j) with false by (symmetry; apply Nat.eqb_neq; lia). apply Nat.ltb_lt. exact L.
Qed.

Lemma index_parent_lt : forall t x p, valid t (x :: p) = true -> index t p < index t (x :: p).
Proof.
  intros t x p H. pose proof (valid_parent t x p H) as Hp. unfold valid, index in *. simpl rev in *.
  apply Nat.ltb_lt. rewrite <- (flex_findex _ _ t Hp H). apply flex_prefix_l.
Qed.

(* ---- sibling ranges ---- *)

Lemma kids_range_sorted : forall t p s n, valid t p = true -> s + n <= nkids t p ->
  strictly_sorted (map (index t) (map (fun k => SC k :: p) (seq s n))) = true /\
  forallb (valid t) (map (fun k => SC k :: p) (seq s n)) = true.
Proof.
  intros t p s n Hp Hb. split.
  - rewrite map_map. apply ss_seq_map. intros i j Hi Hij Hj.
    apply index_kids_mono; try (apply valid_kid; [assumption|lia]). exact Hij.
  - apply forallb_forall. intros x Hx. apply in_map_iff in Hx. destruct Hx as (k & <- & Hk).
    apply in_seq in Hk. apply valid_kid; [assumption|lia].
Qed.

Lemma forallb_filter : forall (f g : rnode -> bool) l, forallb g l = true -> forallb g (filter f l) = true.
Proof.
  intros f g l H. apply forallb_forall. intros x Hx. apply filter_In in Hx. destruct Hx as [Hx _].
  rewrite forallb_forall in H. auto.
Qed.

(* ---- ancestors ---- *)

Lemma chain_up_props : forall t n, valid t n = true ->
  strictly_sorted (map (index t) (rev (chain_up n))) = true /\ forallb (valid t) (chain_up n) = true /\
  (forall a, In a (chain_up n) -> index t a < index t n).
Proof.
  intros t. induction n as [|x r IH]; intro H; [repeat split; intros; contradiction|].
  pose proof (valid_parent t x r H) as Hr. destruct (IH Hr) as (S1 & V1 & B1).
  pose proof (index_parent_lt t x r H) as Lt. simpl chain_up. split; [|split].
  - simpl rev. rewrite map_app. simpl map. apply ss_snoc; [exact S1|].
    intros b Hb. apply in_map_iff in Hb. destruct Hb as (a & <- & Ha). apply in_rev in Ha. auto.
  - simpl. rewrite Hr, V1. reflexivity.
  - intros a [<-|Ha]; [exact Lt | specialize (B1 a Ha); lia].
Qed.

(* ---- the producers ---- *)

Definition producers : list (tree -> (rnode -> bool) -> rnode -> produced) :=
  [findChildren; findAttributes; findParent; findSelf; findAncestors; findAncestorsOrSelf;
   findFollowingSiblings; findPreceedingSiblings].

Theorem producers_honest : forall t test ctx, valid t ctx = true ->
  forall P, In P producers -> honest_produced t (P t test ctx) = true.
Proof.
  intros t test ctx Hc P HP. unfold producers in HP. simpl in HP.
  destruct HP as [<-|[<-|[<-|[<-|[<-|[<-|[<-|[<-|[]]]]]]]]]; unfold honest_produced; cbn [fst snd].
  - (* children *) unfold findChildren, kid_items. cbn [fst snd].
    destruct (kids_range_sorted t ctx 0 (nkids t ctx) Hc ltac:(lia)) as [S V].
    rewrite forallb_filter by exact V. simpl. apply ss_filter. exact S.
  - (* attributes *) unfold findAttributes, attr_items. cbn [fst snd].
    assert (V : forallb (valid t) (map (fun i => SA i :: ctx) (seq 0 (nattrs t ctx))) = true).
    { apply forallb_forall. intros x Hx. apply in_map_iff in Hx. destruct Hx as (k & <- & Hk).
      apply in_seq in Hk. apply valid_attr; [assumption|lia]. }
    rewrite forallb_filter by exact V. simpl. apply ss_filter. rewrite map_map. apply ss_seq_map.
    intros i j Hi Hij Hj. apply index_attrs_mono; try (apply valid_attr; [assumption|lia]). exact Hij.
  - (* parent *) unfold findParent. cbn [fst snd]. destruct ctx as [|x p]; simpl; [reflexivity|].
    destruct (test p); simpl; [|reflexivity]. rewrite (valid_parent t x p Hc). reflexivity.
  - (* self *) unfold findSelf. cbn [fst snd]. simpl. destruct (test ctx); simpl; [|reflexivity]. rewrite Hc. reflexivity.
  - (* ancestors *) unfold findAncestors. cbn [fst snd]. destruct (chain_up_props t ctx Hc) as (S & V & _).
    rewrite forallb_filter by exact V. simpl. rewrite <- filter_rev_comm. apply ss_filter. exact S.
  - (* ancestors-or-self *) unfold findAncestorsOrSelf. cbn [fst snd]. destruct (chain_up_props t ctx Hc) as (S & V & B).
    rewrite forallb_filter by (simpl; rewrite Hc, V; reflexivity). rewrite andb_true_l.
    rewrite <- filter_rev_comm. apply ss_filter. simpl rev. rewrite map_app. simpl map. apply ss_snoc; [exact S|].
    intros b Hb. apply in_map_iff in Hb. destruct Hb as (a & <- & Ha). apply in_rev in Ha. auto.
  - (* following siblings *) unfold findFollowingSiblings. cbn [fst snd]. destruct ctx as [|[i|i] p]; try reflexivity.
    pose proof (valid_parent t _ p Hc) as Hp.
    destruct (Nat.le_gt_cases (S i) (nkids t p)) as [L|L].
    + destruct (kids_range_sorted t p (S i) (nkids t p - S i) Hp ltac:(lia)) as [S V].
      rewrite forallb_filter by exact V. simpl. apply ss_filter. exact S.
    + replace (nkids t p - S i) with 0 by lia. reflexivity.
  - (* preceding siblings *) unfold findPreceedingSiblings. cbn [fst snd]. destruct ctx as [|[i|i] p]; try reflexivity.
    pose proof (valid_parent t _ p Hc) as Hp.
    assert (Hi : i < nkids t p).
    { unfold valid in Hc. simpl in Hc. destruct (fvalid_snoc _ _ _ Hc) as (na & ks & Hs & Hb).
      unfold nkids. rewrite Hs. exact Hb. }
    destruct (kids_range_sorted t p 0 i Hp ltac:(lia)) as [S V].
    assert (V' : forallb (valid t) (map (fun k => SC k :: p) (rev (seq 0 i))) = true).
    { apply forallb_forall. intros x Hx. rewrite map_rev in Hx. apply in_rev in Hx.
      rewrite forallb_forall in V. auto. }
    rewrite forallb_filter by exact V'. simpl. rewrite <- filter_rev_comm. apply ss_filter.
    rewrite (map_rev (fun k => SC k :: p)), rev_involutive. exact S.
Qed.

(* the last step of a location path hands out a list in document order *)
Theorem step_finish_doc_order : forall t r, honest_produced t r = true -> snd r <> Unknown ->
  snd (step_finish r) = DocOrder /\ honest_produced t (step_finish r) = true.
Proof.
  intros t [l o] H Ho. unfold step_finish, honest_produced in *. simpl in *. destruct o; try congruence; simpl.
  - split; [reflexivity | exact H].
  - split; [reflexivity|]. apply andb_true_iff in H. destruct H as [V S]. rewrite S, andb_true_r.
    apply forallb_forall. intros x Hx. apply in_rev in Hx. rewrite forallb_forall in V. auto.
Qed.
