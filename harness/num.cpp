// Correspondence driver for C18: number <-> string conversions, round/floor/ceiling of the real library.
// Input: one case per line  "<id> n2s <hex64>" | "<id> s2n u:<hex,...>" | "<id> round|floor|ceil <hex64>"
// Output: "<id> <result>" ; for n2s two results: NumberToDOMString and NumberToCharacters (must agree).
#include "common.hpp"
#include <xalanc/PlatformSupport/DOMStringHelper.hpp>
#include <xalanc/PlatformSupport/DoubleSupport.hpp>
#include <xalanc/PlatformSupport/FormatterListener.hpp>

using namespace xalanc;
using namespace verif;

class Collect : public FormatterListener
{
public:
    Collect() : FormatterListener(OUTPUT_METHOD_NONE) {}
    XalanDOMString m_text;
    virtual void charactersRaw(const XMLCh* const, const size_type) {}
    virtual void comment(const XMLCh* const) {}
    virtual void cdata(const XMLCh* const, const size_type) {}
    virtual void entityReference(const XMLCh* const) {}
    virtual void characters(const XMLCh* const chars, const size_type length) { m_text.append(chars, length); }
    virtual void endDocument() {}
    virtual void endElement(const XMLCh* const) {}
    virtual void ignorableWhitespace(const XMLCh* const, const size_type) {}
    virtual void processingInstruction(const XMLCh* const, const XMLCh* const) {}
    virtual void resetDocument() {}
    virtual void setDocumentLocator(const Locator* const) {}
    virtual void startDocument() {}
    virtual void startElement(const XMLCh* const, AttributeList&) {}
};

int main(int argc, char** argv)
{
    Init init;
    std::istream* in = &std::cin;
    std::ifstream f;
    if (argc > 1) { f.open(argv[1]); in = &f; }
    std::string line;
    MemoryManager& mm = XalanMemMgrs::getDefaultXercesMemMgr();
    while (std::getline(*in, line)) {
        std::vector<std::string> t = split(line);
        if (t.size() < 3) continue;
        const std::string& id = t[0];
        const std::string& op = t[1];
        if (op == "n2s") {
            double d = dbl_of_bits(hex64(t[2]));
            XalanDOMString r(mm);
            NumberToDOMString(d, r);
            Collect c;
            DOMStringHelper::NumberToCharacters(d, c, &FormatterListener::characters);
            std::cout << id << ' ' << token_of_u16(r) << ' ' << token_of_u16(c.m_text) << '\n';
        } else if (op == "s2n") {
            XalanDOMString s = u16_of_token(t[2]);
            double d = DoubleSupport::toDouble(s, mm);
            std::cout << id << ' ' << show_dbl(d) << '\n';
        } else if (op == "round" || op == "floor" || op == "ceil") {
            double d = dbl_of_bits(hex64(t[2]));
            double r = op == "round" ? DoubleSupport::round(d) : op == "floor" ? DoubleSupport::floor(d) : DoubleSupport::ceiling(d);
            std::cout << id << ' ' << show_dbl(r) << '\n';
        }
    }
    return 0;
}
