(* NumDefs.v — executable model of Xalan-C's number <-> string conversions and
   round/floor/ceiling (DOMStringHelper.cpp, DoubleSupport.cpp), as coded.
   Definitions only; proofs live in NumModel.v, property theorems in Properties_C18.v. *)
From Coq Require Import ZArith NArith List Bool SpecFloat.
Require Import XV.GenNum.
Import ListNotations.
Local Open Scope Z_scope.

(** * Strings: lists of UTF-16 code units *)
Definition str := list N.

Definition c_0 : N := 48.   Definition c_9 : N := 57.
Definition c_dot : N := 46. Definition c_minus : N := 45.
Definition c_sp : N := 32.  Definition c_tab : N := 9.
Definition c_lf : N := 10.  Definition c_cr : N := 13.

Definition is_digit (c : N) : bool := (N.leb 48 c) && (N.leb c 57).
Definition is_ws (c : N) : bool :=
  N.eqb c 32 || N.eqb c 9 || N.eqb c 10 || N.eqb c 13.

Definition s_NaN : str := [78; 97; 78]%N.
Definition s_Infinity : str := [73; 110; 102; 105; 110; 105; 116; 121]%N.
Definition s_NegInfinity : str := c_minus :: s_Infinity.
Definition s_zero : str := [c_0].

(* a C string ends at the first NUL *)
Fixpoint c_str (s : str) : str :=
  match s with
  | [] => []
  | c :: r => if N.eqb c 0 then [] else c :: c_str r
  end.

(** * Doubles: [spec_float] with prec = 53, emax = 1024, and the 64-bit interchange format *)
Definition prec := 53.
Definition emax := 1024.
Definition dbl := spec_float.

Definition of_bits (b : Z) : dbl :=
  let s := Z.testbit b 63 in
  let ex := (b / 2^52) mod 2048 in
  let mant := b mod 2^52 in
  if ex =? 2047 then (if mant =? 0 then S754_infinity s else S754_nan)
  else if ex =? 0 then
    match mant with Zpos p => S754_finite s p (-1074) | _ => S754_zero s end
  else
    match mant + 2^52 with Zpos p => S754_finite s p (ex - 1075) | _ => S754_nan end.

Definition sign_bit (s : bool) : Z := if s then 2^63 else 0.

Definition to_bits (x : dbl) : Z :=
  match x with
  | S754_nan => 2047 * 2^52 + 2^51
  | S754_infinity s => sign_bit s + 2047 * 2^52
  | S754_zero s => sign_bit s
  | S754_finite s m e =>
      if Zpos m <? 2^52 then sign_bit s + Zpos m
      else sign_bit s + (e + 1075) * 2^52 + (Zpos m - 2^52)
  end.

Definition d_is_nan (x : dbl) := match x with S754_nan => true | _ => false end.
Definition d_eqb (x y : dbl) : bool := SFeqb x y.   (* IEEE ==: NaN <> NaN, +0 == -0 *)

(** * Decimal digits *)
Fixpoint digits_fuel (fuel : nat) (n : Z) (acc : str) : str :=
  match fuel with
  | O => acc
  | S f =>
      let acc' := (Z.to_N (n mod 10) + 48)%N :: acc in
      if n / 10 =? 0 then acc' else digits_fuel f (n / 10) acc'
  end.

(* decimal digits of a non-negative integer, most significant first; "0" for 0 *)
Definition digits_of (n : Z) : str :=
  digits_fuel (S (Z.to_nat (Z.log2 n))) n [].

Fixpoint value_of_digits (acc : Z) (s : str) : Z :=
  match s with
  | [] => acc
  | c :: r => value_of_digits (acc * 10 + (Z.of_N c - 48)) r
  end.

Fixpoint zeros (n : nat) : str :=
  match n with O => [] | S k => c_0 :: zeros k end.

(** * glibc sprintf("%.pf"): exact decimal expansion, rounded half-even to p digits *)
Definition round_half_even_div (num den : Z) : Z :=
  let q := num / den in
  let r := num mod den in
  match Z.compare (2 * r) den with
  | Lt => q
  | Gt => q + 1
  | Eq => if Z.even q then q else q + 1
  end.

(* |x| * 10^p rounded to an integer *)
Definition scaled (p : Z) (m : positive) (e : Z) : Z :=
  if 0 <=? e then Zpos m * 2^e * 10^p
  else round_half_even_div (Zpos m * 10^p) (2^(- e)).

Definition fixed_point (neg : bool) (p : nat) (n : Z) : str :=
  let ds := digits_of n in
  let ds := zeros (S p - length ds) ++ ds in   (* at least one integer digit *)
  let k := (length ds - p)%nat in
  (if neg then [c_minus] else []) ++ firstn k ds ++ [c_dot] ++ skipn k ds.

Definition printf_f (p : nat) (x : dbl) : str :=
  match x with
  | S754_finite s m e => fixed_point s p (scaled (Z.of_nat p) m e)
  | S754_zero s => fixed_point s p 0
  | _ => []      (* never called on NaN / infinities *)
  end.

(** * glibc atof / strtod on the strings that reach it: correctly rounded *)
Definition nearest_double (neg : bool) (num den : Z) : dbl :=
  if num =? 0 then S754_zero neg
  else
    let '(q, e, l) := SFdiv_core_binary prec emax num 0 den 0 in
    binary_round_aux prec emax neg q e l.

Fixpoint skip_ws (s : str) : str :=
  match s with
  | c :: r => if is_ws c then skip_ws r else s
  | [] => []
  end.

Fixpoint take_digits (s : str) : str * str :=
  match s with
  | c :: r => if is_digit c then let '(d, t) := take_digits r in (c :: d, t) else ([], s)
  | [] => ([], [])
  end.

(* atof: optional white space, optional '-', digits, optional '.', digits; the rest is ignored.
   (No exponent / hex / inf / nan forms can reach it: doValidate admits only [0-9.-] and white space,
   and sprintf("%f") of a finite value prints only those.) *)
Definition atof (s : str) : dbl :=
  let s := skip_ws s in
  let '(neg, s) := match s with c :: r => if N.eqb c c_minus then (true, r) else (false, s) | [] => (false, s) end in
  let '(ip, s) := take_digits s in
  let fp := match s with c :: r => if N.eqb c c_dot then fst (take_digits r) else [] | [] => [] end in
  match ip, fp with
  | [], [] => S754_zero false       (* no conversion: 0.0 *)
  | _, _ => nearest_double neg (value_of_digits 0 (ip ++ fp)) (10 ^ Z.of_nat (length fp))
  end.

(** * NumberToDOMString(double) / NumberToCharacters(double): the shared DoubleToCharacters *)

(* the loop over thePrintfStrings: the first precision of the table whose output reads back equal *)
Fixpoint try_table (x : dbl) (ps : list nat) : option str :=
  match ps with
  | [] => None
  | p :: r =>
      let b := printf_f p x in
      if d_eqb (atof b) x then Some b else try_table x r
  end.

(* first precision whose output reads back equal; the last one tried if none does *)
Fixpoint try_precisions (x : dbl) (ps : list nat) (last : str) : str :=
  match ps with
  | [] => last
  | p :: r =>
      let b := printf_f p x in
      if d_eqb (atof b) x then b else try_precisions x r b
  end.

(* frexp(x, &e): |x| = f * 2^e with 1/2 <= f < 1 *)
Definition frexp_exponent (x : dbl) : Z :=
  match x with
  | S754_finite _ m e => Zpos (digits2_pos m) + e
  | _ => 0
  end.

(* "thePrecision = (-theExponent - 1) * 3 / 10 + 1", raised to the precision after the table's last;
   C's integer division truncates *)
Definition ext_start (x : dbl) : nat :=
  Z.to_nat (Z.max (Z.of_nat printf_last_table_precision + 1)
                  (Z.quot ((- frexp_exponent x - 1) * printf_start_num) printf_start_den + 1)).

(* the "%.*f" loop: thePrecision, thePrecision + 1, ... ; it stops after the first precision
   >= MAX_FRACTION_DIGITS *)
Definition ext_precisions (x : dbl) : list nat :=
  let p0 := ext_start x in p0 :: seq (S p0) (printf_max_precision - p0).

Definition double_to_characters (x : dbl) : str :=
  match try_table x printf_precisions with
  | Some b => b
  | None => try_precisions x (ext_precisions x) []
  end.

Fixpoint strip_trailing_zeros_rev (r : str) : str :=
  match r with
  | c :: t => if N.eqb c c_0 then strip_trailing_zeros_rev t else r
  | [] => []
  end.

(* "move back while there are zeros"; drop the character that stopped the scan unless it is a digit *)
Definition trim_number (b : str) : str :=
  let r := strip_trailing_zeros_rev (rev b) in
  match r with
  | c :: t => if is_digit c then rev r else rev t
  | [] => []
  end.

(* the value as a 64-bit integer when static_cast<XMLInt64>(x) == x *)
Definition as_int64 (x : dbl) : option Z :=
  match x with
  | S754_finite s m e =>
      if 0 <=? e then
        let v := Zpos m * 2^e in
        let v := if s then - v else v in
        if (- 2^63 <=? v) && (v <? 2^63) then Some v else None
      else if (Zpos m) mod 2^(- e) =? 0 then
        let v := Zpos m / 2^(- e) in Some (if s then - v else v)
      else None
  | _ => None
  end.

Definition int_to_string (v : Z) : str :=
  if v <? 0 then c_minus :: digits_of (- v) else digits_of v.

Definition number_to_string (x : dbl) : str :=
  match x with
  | S754_nan => s_NaN
  | S754_infinity false => s_Infinity
  | S754_infinity true => s_NegInfinity
  | S754_zero _ => s_zero
  | S754_finite _ _ _ =>
      match as_int64 x with
      | Some v => int_to_string v
      | None => trim_number (double_to_characters x)
      end
  end.

(* bytes sprintf writes (including the terminating NUL) *)
Definition printf_bytes (p : nat) (x : dbl) : nat := S (length (printf_f p x)).

(** * DoubleSupport::toDouble *)

Record vstate := { v_err : bool; v_dot : bool; v_digit : bool; v_minus : bool; v_ws : bool }.

(* one character of doValidate's loop; runs of digits / white space are consumed by the same
   transition, which is what consumeNumbers / consumeWhitespace amount to *)
Definition vstep (st : vstate) (prev_ws : bool) (c : N) : vstate :=
  if v_err st then st else
  if N.eqb c c_dot then
    if v_dot st || v_ws st then {| v_err := true; v_dot := v_dot st; v_digit := v_digit st; v_minus := v_minus st; v_ws := v_ws st |}
    else {| v_err := false; v_dot := true; v_digit := v_digit st; v_minus := v_minus st; v_ws := v_ws st |}
  else if N.eqb c c_minus then
    if v_dot st || v_minus st || v_digit st || v_ws st
    then {| v_err := true; v_dot := v_dot st; v_digit := v_digit st; v_minus := v_minus st; v_ws := v_ws st |}
    else {| v_err := false; v_dot := v_dot st; v_digit := v_digit st; v_minus := true; v_ws := v_ws st |}
  else if is_digit c then
    if v_ws st then {| v_err := true; v_dot := v_dot st; v_digit := v_digit st; v_minus := v_minus st; v_ws := v_ws st |}
    else {| v_err := false; v_dot := v_dot st; v_digit := true; v_minus := v_minus st; v_ws := v_ws st |}
  else if is_ws c then
    if v_ws st && negb prev_ws
    then {| v_err := true; v_dot := v_dot st; v_digit := v_digit st; v_minus := v_minus st; v_ws := v_ws st |}
    else {| v_err := false; v_dot := v_dot st; v_digit := v_digit st; v_minus := v_minus st; v_ws := true |}
  else {| v_err := true; v_dot := v_dot st; v_digit := v_digit st; v_minus := v_minus st; v_ws := v_ws st |}.

Fixpoint vrun (st : vstate) (prev_ws : bool) (s : str) : vstate :=
  match s with
  | [] => st
  | c :: r => vrun (vstep st prev_ws c) (is_ws c) r
  end.

Definition v_init := {| v_err := false; v_dot := false; v_digit := false; v_minus := false; v_ws := false |}.

(* (valid?, saw a decimal point?) *)
Definition do_validate (s : str) : bool * bool :=
  let st := vrun v_init false (skip_ws s) in
  (negb (v_err st) && v_digit st, v_dot st).

(* WideStringToLong on a validated string without '.' and shorter than the long-hack threshold *)
Definition wide_to_long (s : str) : Z :=
  let s := skip_ws s in
  let '(neg, s) := match s with c :: r => if N.eqb c c_minus then (true, r) else (false, s) | [] => (false, s) end in
  let v := value_of_digits 0 (fst (take_digits s)) in
  if neg then - v else v.

Definition starts_with_minus (s : str) : bool :=
  match skip_ws s with c :: _ => N.eqb c c_minus | [] => false end.

Definition long_to_double (v : Z) : dbl :=
  match v with
  | Z0 => S754_zero false
  | Zpos p => binary_round prec emax false p 0
  | Zneg p => binary_round prec emax true p 0
  end.

Definition string_to_number (s0 : str) : dbl :=
  let s := c_str s0 in
  match s with
  | [] => S754_nan
  | _ =>
      let '(ok, dot) := do_validate s in
      if negb ok then S754_nan
      else if negb dot && (Nat.ltb (length s) long_hack_threshold)
      then let v := wide_to_long s in
           (* a long has no negative zero: "-0" is answered as -0.0 *)
           if Z.eqb v 0 && starts_with_minus s then S754_zero true else long_to_double v
      else atof s
  end.

(** * floor / ceiling / round (std::floor, std::ceil, DoubleSupport::round) *)

Definition of_Z (neg_zero : bool) (v : Z) : dbl :=
  match v with
  | Z0 => S754_zero neg_zero
  | Zpos p => binary_round prec emax false p 0
  | Zneg p => binary_round prec emax true p 0
  end.

(* floor of m * 2^e as an integer, for e < 0 *)
Definition floor_Z (s : bool) (m : positive) (e : Z) : Z :=
  if s then - ((Zpos m + 2^(- e) - 1) / 2^(- e)) else Zpos m / 2^(- e).
Definition ceil_Z (s : bool) (m : positive) (e : Z) : Z :=
  if s then - (Zpos m / 2^(- e)) else (Zpos m + 2^(- e) - 1) / 2^(- e).

Definition d_floor (x : dbl) : dbl :=
  match x with
  | S754_finite s m e => if 0 <=? e then x else of_Z s (floor_Z s m e)
  | _ => x
  end.

Definition d_ceiling (x : dbl) : dbl :=
  match x with
  | S754_finite s m e => if 0 <=? e then x else of_Z s (ceil_Z s m e)
  | _ => x
  end.

(* DoubleSupport::round as coded after the repair: floor, compare the fractional part with 0.5,
   negative zero for results in [-0.5, 0).  The comparison is modelled exactly (2 * frac >= 1 on
   integers); that rounding of the double subtraction cannot move it across 0.5 is argued in the
   source comment and exercised by the correspondence's boundary stream. *)
Definition d_round (x : dbl) : dbl :=
  match x with
  | S754_finite s m e =>
      if 0 <=? e then x
      else
        let d := 2^(- e) in
        let f := floor_Z s m e in
        (* frac = x - f = (sm - f*d) / d *)
        let sm := if s then - Zpos m else Zpos m in
        let r := if d <=? 2 * (sm - f * d) then f + 1 else f in
        of_Z s r
  | _ => x
  end.
