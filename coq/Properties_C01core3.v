(* Properties_C01core3.v - C01, the whole-interpreter piece, part 3: TOP-LEVEL xsl:variable / xsl:param (select or empty;
   external params), evaluated lazily at their first reference through VariablesStack::findXObject with the guard stack.
   (1) the lazy evaluation (XsltCore3Defs.force, over the VariablesStack model of XsltVarsDefs.v) against the reference
   semantics gval (XSLT 1.0 11.4: the value of the expression in the context of the root, the bindings it mentions
   evaluated the same way; least fixpoint): equal wherever either is defined, from every consistent state and under
   every stack of local frames, the stacks restored; a circular definition has no value on either side; any topological
   order gives the same values.  (2) the composition with the interpreter of XsltCore2Defs.v: a program with top-level
   bindings, every expression closed over the reference values of the bindings it mentions, is refined by the machine.
   Not modelled: top-level bindings whose value is a result tree fragment; the interleaving of forcing steps with the
   machine's transitions (they happen inside the abstract XPath evaluation: what is proved is that they are invisible to
   it: lazy_references_give_the_constants).  Nothing here but statements closed by [exact] and their assumptions. *)
From Coq Require Import List NArith Bool Arith.
Require Import XV.XsltEventsDefs XV.XsltVarsDefs XV.XsltVarsModel XV.XsltCoreDefs XV.XsltCoreModel XV.XsltCoreSim.
Require Import XV.XsltCore2Defs XV.XsltCore2Pkg XV.XsltCore3Defs XV.XsltCore3Model XV.XsltCore3Pkg XV.XsltCore3Examples.
Require Import XV.GenXsltCore3.
Import ListNotations.

(* ---- (1) lazy evaluation = reference semantics ---- *)

(* wherever the reference semantics defines the value of the binding the name n resolves to (at top level: highest import
   precedence), a reference - at a place with ANY local frames F that do not bind n, with ANY consistent contents of the
   global entries, an empty guard stack, fuel >= the depth of the definition - returns that value, leaves the
   VariablesStack and the guard stack as they were, and only fills entries *)
Theorem lazy_evaluation_returns_the_reference_value : forall ev root gdefs ext f n k v s F R fuel,
  Good (genv gdefs) F R -> l_vs s = st (F ++ ECtx :: R) (gl gdefs) -> loc n F = None -> lookup n (genv gdefs) = Some k ->
  gval ev root gdefs ext f k = Some v -> l_guard s = [] -> Cons ev root gdefs ext (l_slots s) -> f <= fuel ->
  exists sl', force ev root gdefs fuel n s = FOk (v, mkL (l_vs s) sl' []) /\ Cons ev root gdefs ext sl' /\ Ext [] (l_slots s) sl'.
Proof. exact force_complete. Qed.
Print Assumptions lazy_evaluation_returns_the_reference_value.

(* conversely, whatever a reference returns is the reference value, and the stacks are restored *)
Theorem lazy_evaluation_is_sound : forall ev root gdefs ext fuel n s F R v s',
  Good (genv gdefs) F R -> l_vs s = st (F ++ ECtx :: R) (gl gdefs) -> loc n F = None -> Cons ev root gdefs ext (l_slots s) ->
  force ev root gdefs fuel n s = FOk (v, s') ->
  exists k f, lookup n (genv gdefs) = Some k /\ gval ev root gdefs ext f k = Some v /\ l_vs s' = l_vs s /\ l_guard s' = l_guard s
              /\ Cons ev root gdefs ext (l_slots s').
Proof. exact force_sound. Qed.
Print Assumptions lazy_evaluation_is_sound.

(* evaluated once, the same everywhere: the value does not depend on when, where (under which local frames) or after which
   other references the binding is forced *)
Theorem lazy_value_independent_of_place_and_order : forall ev root gdefs ext f1 f2 n s1 s2 F1 R1 F2 R2 v1 v2 s1' s2',
  Good (genv gdefs) F1 R1 -> l_vs s1 = st (F1 ++ ECtx :: R1) (gl gdefs) -> loc n F1 = None -> Cons ev root gdefs ext (l_slots s1) ->
  Good (genv gdefs) F2 R2 -> l_vs s2 = st (F2 ++ ECtx :: R2) (gl gdefs) -> loc n F2 = None -> Cons ev root gdefs ext (l_slots s2) ->
  force ev root gdefs f1 n s1 = FOk (v1, s1') -> force ev root gdefs f2 n s2 = FOk (v2, s2') -> v1 = v2.
Proof. exact force_state_independent. Qed.
Print Assumptions lazy_value_independent_of_place_and_order.

(* a circular definition - no value at any fuel - never yields a value lazily either *)
Theorem circular_definition_is_an_error_on_both_sides : forall ev root gdefs ext n k s F R,
  lookup n (genv gdefs) = Some k -> (forall f, gval ev root gdefs ext f k = None) ->
  Good (genv gdefs) F R -> l_vs s = st (F ++ ECtx :: R) (gl gdefs) -> loc n F = None -> Cons ev root gdefs ext (l_slots s) ->
  forall fuel v s', force ev root gdefs fuel n s <> FOk (v, s').
Proof. exact cycle_is_error_on_both_sides. Qed.
Print Assumptions circular_definition_is_an_error_on_both_sides.

(* the dependency order is irrelevant: evaluation in any order in which it succeeds gives the reference values, hence any
   two such orders agree *)
Theorem any_topological_order_gives_the_reference_values : forall ev root gdefs ext order env,
  topo_eval ev root gdefs ext order [] = Some env ->
  forall k v, lookup_v k env = Some v -> exists f, gval ev root gdefs ext f k = Some v.
Proof. exact topo_eval_gives_reference_values. Qed.
Print Assumptions any_topological_order_gives_the_reference_values.

Theorem dependency_order_irrelevant : forall ev root gdefs ext o1 o2 e1 e2 k v1 v2,
  topo_eval ev root gdefs ext o1 [] = Some e1 -> topo_eval ev root gdefs ext o2 [] = Some e2 ->
  lookup_v k e1 = Some v1 -> lookup_v k e2 = Some v2 -> v1 = v2.
Proof. exact topo_order_irrelevant. Qed.
Print Assumptions dependency_order_irrelevant.

(* more fuel never changes a defined reference value *)
Theorem gval_fuel_monotone : forall ev root gdefs ext f f' k v, f <= f' -> gval ev root gdefs ext f k = Some v -> gval ev root gdefs ext f' k = Some v.
Proof. exact gval_le. Qed.
Print Assumptions gval_fuel_monotone.

(* ---- (2) composed with the interpreter ---- *)
Theorem machine3_refines_sem3 : forall fxc m, mech2_ok (m3_base m) -> forall f items,
  SemMain3 m f = Some items ->
  exists k s, (forall j, MachineMain3 true fxc m (k + j) = Done2 s) /\ result_tree2 s = Some (result_of items).
Proof. exact machine3_refines_sem3_pkg. Qed.
Print Assumptions machine3_refines_sem3.

Theorem lazy_references_give_the_constants : forall m id F R sl,
  (forall n, In n (m3_gmention m id) -> loc n F = None /\ exists k v, lookup n (genv (m3_gdefs m)) = Some k /\ GValue m k = Some v) ->
  Good (genv (m3_gdefs m)) F R ->
  Cons (m2c_value (m3_base m)) (m3_root m) (m3_gdefs m) (m3_ext m) sl ->
  exists sl', force_all (m2c_value (m3_base m)) (m3_root m) (m3_gdefs m) (gfuel (m3_gdefs m)) (m3_gmention m id)
                        (mkL (st (F ++ ECtx :: R) (gl (m3_gdefs m))) sl [])
              = FOk (gvals m id, mkL (st (F ++ ECtx :: R) (gl (m3_gdefs m))) sl' [])
              /\ Cons (m2c_value (m3_base m)) (m3_root m) (m3_gdefs m) (m3_ext m) sl'.
Proof. exact lazy_references_give_the_constants_pkg. Qed.
Print Assumptions lazy_references_give_the_constants.

(* ---- tie: the shapes force mirrors are the ones the source has (GenXsltCore3.v, translator/gen_xsltcore3.py) ---- *)
Theorem core3_lazy_evaluation_shapes_as_in_source :
  src3_value_present_returned_without_evaluation = true /\
  src3_guard_searched_before_push = true /\
  src3_guard_whole_stack_searched = true /\
  src3_guard_push_marker_eval_marker_pop_store = true /\
  src3_context_node_list_is_root_only = true /\
  src3_text_only_mode_off_during_evaluation = true /\
  src3_getvalue_select_at_source_node = true /\
  src3_getvalue_empty_is_empty_string = true /\
  src3_external_param_pushed_with_value = true /\
  src3_toplevel_imports_first_then_document_order = true /\
  src3_global_search_after_local_frame = true.
Proof. exact (conj eq_refl (conj eq_refl (conj eq_refl (conj eq_refl (conj eq_refl (conj eq_refl (conj eq_refl (conj eq_refl
        (conj eq_refl (conj eq_refl eq_refl)))))))))). Qed.
Print Assumptions core3_lazy_evaluation_shapes_as_in_source.

(* ---- non-vacuity ---- *)
Example hypotheses_satisfiable3 : mech2_ok (m3_base ex3_mech).
Proof. exact ex3_base_ok. Qed.

(* $a mentions $b declared after it; $a is first referenced inside a for-each (context node 1, a local $p in scope) and is
   nevertheless evaluated at the root; $p comes from outside; both sides compute the same tree *)
Example both_sides_compute_the_expected_tree3 :
  option_map result_of (SemMain3 ex3_mech 8) = Some [RText [54; 56; 49; 49; 50; 48; 48; 49]%N; RText [54; 56; 50; 49; 50; 48; 48; 50]%N; RText [53; 69; 49; 50; 48; 48; 48]%N] /\
  (match MachineMain3 true true ex3_mech 200 with Done2 s => result_tree2 s | _ => None end) = option_map result_of (SemMain3 ex3_mech 8).
Proof. exact ex3_both_sides. Qed.

Example lazy_orders_agree :
  vals_of (ex3_force [na; np] (l_init ex3_gdefs ex3_ext)) = Some [VAtom [49; 50; 48; 48]%N [49; 50; 48; 48]%N; VAtom [69%N] [69%N]] /\
  vals_of (ex3_force [np; nb; na] (l_init ex3_gdefs ex3_ext)) =
    Some [VAtom [69%N] [69%N]; VAtom [50; 48]%N [50; 48]%N; VAtom [49; 50; 48; 48]%N [49; 50; 48; 48]%N] /\
  (match ex3_force [na] (l_init ex3_gdefs ex3_ext) with
   | FOk (_, s1) => vals_of (ex3_force [nb; na] s1) = Some [VAtom [50; 48]%N [50; 48]%N; VAtom [49; 50; 48; 48]%N [49; 50; 48; 48]%N]
                    /\ l_vs s1 = l_vs (l_init ex3_gdefs ex3_ext) /\ l_guard s1 = []
   | _ => False
   end) /\
  gvalue e3_value 0%N ex3_gdefs ex3_ext 0%N = Some (VAtom [49; 50; 48; 48]%N [49; 50; 48; 48]%N).
Proof. exact ex3_lazy_orders. Qed.

Example circular_pair :
  gval e3_value 0%N cy_gdefs [] 20 0%N = None /\ SemMain3 cy_mech 8 = None /\
  force e3_value 0%N cy_gdefs 10 nc (l_init cy_gdefs []) = FCirc 0%N.
Proof. exact cy_witness. Qed.
