// Shared driver: run whole transformations through XalanTransformer (families that observe the
// library at stylesheet level: templates, keys, sort, number, strip-space, namespaces, output).
//
// One case per line, fields separated by '|':
//   <id>|S:<hex utf-8 bytes of the stylesheet>|D:<hex utf-8 bytes of the source>[|P:name=<hex expr>;...][|F:<name>=<hex bytes>;...][|O:<opts>]
// F: extra in-memory files; the stylesheet has system id file:///vmem/main.xsl, the source
//    file:///vmem/main.xml, so href="imp.xsl" / document('d2.xml') resolve to file:///vmem/<name>
//    and are served from the F: table (an unknown /vmem/ name is reported as missing).
// O: comma separated: xercesdom (parse the source into a Xerces DOM and wrap it), reuse (do not
//    create a new transformer for this case; params are cleared)
// Output: <id>|ok|<hex bytes of the output>     or    <id>|err|<status>|<hex of the message>
#include "common.hpp"
#include <map>
#include <xercesc/framework/MemBufInputSource.hpp>
#include <xercesc/sax/EntityResolver.hpp>
#include <xercesc/sax/InputSource.hpp>
#include <xalanc/XSLT/XSLTInputSource.hpp>
#include <xalanc/XSLT/XSLTResultTarget.hpp>

using namespace xalanc;
using namespace verif;

static std::string unhex(const std::string& h)
{
    std::string r;
    for (size_t i = 0; i + 1 < h.size(); i += 2) r += (char) std::strtoul(h.substr(i, 2).c_str(), 0, 16);
    return r;
}

static std::string hex(const std::string& s)
{
    static const char* d = "0123456789abcdef";
    std::string r;
    for (size_t i = 0; i < s.size(); ++i) { r += d[(unsigned char) s[i] >> 4]; r += d[(unsigned char) s[i] & 15]; }
    return r;
}

static std::string narrowX(const XMLCh* s)
{
    std::string r;
    if (s) for (; *s; ++s) r += (char) *s;
    return r;
}

class MemResolver : public xercesc::EntityResolver
{
public:
    std::map<std::string, std::string> m_files;
    virtual xercesc::InputSource* resolveEntity(const XMLCh* const, const XMLCh* const systemId)
    {
        std::string id = narrowX(systemId); if (getenv("XSLT_DEBUG")) std::cerr << "resolve " << id << "\n";
        const std::string pfx = "file:///vmem/";
        std::string::size_type p = id.find("/vmem/");
        // document() first asks with the unresolved relative reference
        std::string name = p == std::string::npos ? id : id.substr(p + 6);
        if (p == std::string::npos && id.find(':') != std::string::npos) return 0;
        std::map<std::string, std::string>::const_iterator i = m_files.find(name);
        if (i == m_files.end()) return 0;
        xercesc::MemBufInputSource* s = new xercesc::MemBufInputSource(
            (const XMLByte*) i->second.data(), i->second.size(), systemId, false);
        return s;
    }
};

int main(int argc, char** argv)
{
    Init init;
    std::istream* in = &std::cin;
    std::ifstream f;
    if (argc > 1) { f.open(argv[1]); in = &f; }
    std::string line;
    XalanTransformer* shared = new XalanTransformer;
    while (std::getline(*in, line)) {
        if (line.empty() || line[0] == '#') continue;
        std::vector<std::string> fs;
        { size_t i = 0; while (true) { size_t j = line.find('|', i); fs.push_back(line.substr(i, j == std::string::npos ? j : j - i)); if (j == std::string::npos) break; i = j + 1; } }
        std::string id = fs[0], sheet, src, opts;
        std::vector<std::pair<std::string, std::string> > params;
        MemResolver res;
        for (size_t k = 1; k < fs.size(); ++k) {
            const std::string& x = fs[k];
            if (x.compare(0, 2, "S:") == 0) sheet = unhex(x.substr(2));
            else if (x.compare(0, 2, "D:") == 0) src = unhex(x.substr(2));
            else if (x.compare(0, 2, "O:") == 0) opts = x.substr(2);
            else if (x.compare(0, 2, "P:") == 0 || x.compare(0, 2, "F:") == 0) {
                std::string body = x.substr(2); size_t i = 0;
                while (i < body.size()) {
                    size_t j = body.find(';', i); if (j == std::string::npos) j = body.size();
                    std::string kv = body.substr(i, j - i); size_t e = kv.find('=');
                    if (e != std::string::npos) {
                        if (x[0] == 'P') params.push_back(std::make_pair(kv.substr(0, e), unhex(kv.substr(e + 1))));
                        else res.m_files[kv.substr(0, e)] = unhex(kv.substr(e + 1));
                    }
                    i = j + 1;
                }
            }
        }
        bool reuse = opts.find("reuse") != std::string::npos;
        bool xdom = opts.find("xercesdom") != std::string::npos;
        XalanTransformer* t = reuse ? shared : new XalanTransformer;
        t->setEntityResolver(&res);
        if (!getenv("XSLT_WARNINGS")) t->setWarningStream(0);
        t->clearStylesheetParams();
        for (size_t k = 0; k < params.size(); ++k)
            t->setStylesheetParam(XalanDOMString(params[k].first.c_str()), XalanDOMString(params[k].second.c_str()));
        std::istringstream ss(sheet), ds(src);
        XSLTInputSource sin(&ss), din(&ds);
        sin.setSystemId(XalanDOMString("file:///vmem/main.xsl").c_str());
        din.setSystemId(XalanDOMString("file:///vmem/main.xml").c_str());
        std::ostringstream os;
        int rc = -99; std::string msg;
        try {
            if (xdom) {
                const XalanParsedSource* ps = 0;
                rc = t->parseSource(din, ps, true);
                if (rc == 0) { XSLTResultTarget out(os); rc = t->transform(*ps, sin, out); }
            } else {
                XSLTResultTarget out(os);
                rc = t->transform(din, sin, out);
            }
            if (rc != 0) msg = t->getLastError();
        } catch (const std::exception& e) { rc = -98; msg = std::string("std::exception: ") + e.what(); }
        catch (...) { rc = -97; msg = "unknown exception"; }
        if (rc == 0) std::cout << id << "|ok|" << hex(os.str()) << "\n";
        else std::cout << id << "|err|" << rc << "|" << hex(msg) << "\n";
        std::cout.flush();
        t->setEntityResolver(0);
        if (!reuse) delete t;
    }
    delete shared;
    return 0;
}
