(* C11 part "cache": the value caches of the XObjects that XObjectFactoryDefault recycles, as an executable
   state machine -- the code AS IT IS in /repo (src/xalanc/XPath):

     XNodeSetBase   m_cachedStringValue (empty = "not cached"), m_cachedNumberValue (theBogusNumberValue =
                    "not cached"); num(), the str() overloads, stringLength(), boolean(), clearCachedValues()
     XNodeSet       release() = m_value.release(); clearCachedValues();   set(v) = release(); m_value = v;
     XStringBase    m_cachedNumberValue (0.0 = "not cached"); XString::set(s) = m_value = s; clearCachedValues();
     XNumber        m_cachedStringValue (empty = "not cached"); set(v) = m_value = v; m_cachedStringValue.clear();
     XResultTreeFrag (XSLT/) m_singleTextChildValue (pointer to the value of the only child when that is a text node, 0
                    otherwise), m_cachedStringValue, m_cachedNumberValue (a theBogusNumberValue of its own, compared with ==).
                    StylesheetExecutionContextDefault NEVER reuses such an object: every fragment gets a constructor call
                    (m_xresultTreeFragAllocator.create) and returnXResultTreeFrag is release() + destroy; set() has no caller.
     XObjectFactoryDefault   three bounded stacks of recycled objects (m_xnodesetCache / m_xstringCache /
                    m_xnumberCache): doReturnObject pushes (XNodeSet: after release()), create* pops and calls set().

   The other XObject kinds with a cache (XNodeSetNodeProxy, XStringCached / Reference / Adapter, XToken adapters)
   are destroyed when they are returned, never recycled, so they start from their constructor every time.

   The two conversions the caches hold results of are parameters of the machine (Section variables):
   to_num = DoubleSupport::toDouble, num_to_str = NumberToDOMString (property C18's subject).  They are
   instantiated with NumDefs.string_to_number / number_to_string for the extracted model.
   Definitions only.  The shape of clearCachedValues(), the sentinel, who calls what and the stack bounds come
   from GenXoCache.v (translator/gen_xocache.py). *)
From Coq Require Import ZArith NArith List Bool SpecFloat.
Require Import XV.NumDefs XV.XoCacheAst XV.GenXoCache.
Import ListNotations.

Record xo_flags : Type := mk_flags {
  f_clear : list xo_stmt;          (* body of XNodeSetBase::clearCachedValues() *)
  f_bogus : dbl;                   (* theBogusNumberValue *)
  f_release_clears : bool;         (* XNodeSet::release() calls clearCachedValues() *)
  f_set_releases : bool;           (* XNodeSet::set() calls release() first *)
  f_return_releases : bool;        (* doReturnObject, eTypeNodeSet: release() before push_back *)
  f_xs_set_clears : bool;          (* XString::set() calls XStringBase::clearCachedValues() (number := 0.0) *)
  f_xn_set_clears : bool;          (* XNumber::set() clears m_cachedStringValue *)
  f_max_ns : nat; f_max_s : nat; f_max_n : nat;  (* eXNodeSetCacheMax / eXStringCacheMax / eXNumberCacheMax *)
  f_rtf_bogus : dbl;               (* theBogusNumberValue of XSLT/XResultTreeFrag.cpp *)
  f_rtf_text_test : bool;          (* getSingleTextChildValue tests getNodeType() == XalanNode::TEXT_NODE *)
  f_rtf_sibling_test : bool        (* getSingleTextChildValue tests getNextSibling() == 0 *)
}.

Definition dzero : dbl := S754_zero false.

(* what an XObject is a value of: the string-values of the nodes of a node-set in list order (item(0) first),
   a string, a number *)
(* a child of a result tree fragment: a text node, an element (with its string-value), a comment (with its data) *)
Inductive fnode : Type := FText (v : str) | FElem (sv : str) | FComment (d : str).
Inductive payload : Type := PNodes (vals : list str) | PStr (s : str) | PNum (v : dbl) | PFrag (cs : list fnode).

(* one recyclable XObject.  An XString has no cached string and an XNumber no cached number: the unused field
   is never read for that kind. *)
Record xobj : Type := mk_obj { pl : payload; cstr : str; cnum : dbl;
                              csing : option str (* XResultTreeFrag::m_singleTextChildValue; None = 0 *) }.

Definition set_pl (p : payload) (o : xobj) := mk_obj p (cstr o) (cnum o) (csing o).
Definition set_cstr (s : str) (o : xobj) := mk_obj (pl o) s (cnum o) (csing o).
Definition set_cnum (x : dbl) (o : xobj) := mk_obj (pl o) (cstr o) x (csing o).

(* DOMServices::getNodeData of a document fragment: the text of its descendants in document order *)
Definition fnode_string (c : fnode) : str := match c with FText v => v | FElem sv => sv | FComment _ => [] end.
Definition frag_string (cs : list fnode) : str := concat (map fnode_string cs).
(* XalanNode::getNodeValue() *)
Definition fnode_value (c : fnode) : str := match c with FText v => v | FElem _ => [] | FComment d => d end.
Definition is_text (c : fnode) : bool := match c with FText _ => true | _ => false end.

Definition str_empty (s : str) : bool := match s with [] => true | _ => false end.
Definition has_nodes (vals : list str) : bool := match vals with [] => false | _ => true end.
(* DOMServices::getNodeData on item(0) delivers the string-value of the first node *)
Definition first_data (vals : list str) : str := hd [] vals.

Inductive query : Type :=
| QNum          (* num(executionContext) *)
| QStrRef       (* str(executionContext) / str(): returns a reference to the object's own string *)
| QStrBuf       (* str(executionContext, theBuffer) / str(theBuffer): appends to the caller's buffer *)
| QStrEvents    (* str(executionContext, formatterListener, function) / without context *)
| QLen          (* stringLength(executionContext) *)
| QBool.        (* boolean(executionContext) *)

Inductive obs : Type := ONum (x : dbl) | OStr (s : str) | OLen (n : N) | OBool (b : bool).

Inductive op : Type :=
| Create (p : payload)      (* createNodeSet(BorrowReturnMutableNodeRefList&) / createString(const XalanDOMString&) / createNumber(double)
                               / [end]createXResultTreeFrag *)
| Ask (i : nat) (q : query) (* a member function of the i-th object the caller holds *)
| Return (i : nat).         (* the last XObjectPtr to it goes away: XObjectFactory::returnObject *)

Fixpoint upd {A} (l : list A) (i : nat) (x : A) : list A :=
  match l, i with
  | [], _ => []
  | _ :: t, O => x :: t
  | h :: t, S j => h :: upd t j x
  end.
Fixpoint del {A} (l : list A) (i : nat) : list A :=
  match l, i with
  | [], _ => []
  | _ :: t, O => t
  | h :: t, S j => h :: del t j
  end.

Section Machine.
Variable to_num : str -> dbl.        (* DoubleSupport::toDouble(const XalanDOMString&, MemoryManager&) *)
Variable num_to_str : dbl -> str.    (* NumberToDOMString(double, XalanDOMString&) on an empty string *)
Variable fl : xo_flags.

(* DoubleSupport::equal(m_cachedNumberValue, theBogusNumberValue): IEEE == with NaN unequal to everything *)
Definition is_bogus (x : dbl) : bool := d_eqb x (f_bogus fl).
(* m_cachedNumberValue == 0.0 *)
Definition is_zero (x : dbl) : bool := d_eqb x dzero.

(* ---- XNodeSetBase::clearCachedValues(), statement by statement ---- *)
Definition run_simple (o : xobj) (s : xo_simple) : xobj :=
  match s with
  | XoResetNum => set_cnum (f_bogus fl) o
  | XoClearStr => set_cstr [] o
  end.
Definition run_stmt (o : xobj) (st : xo_stmt) : xobj :=
  match st with
  | XoDo s => run_simple o s
  | XoIfStrNonEmpty body => if str_empty (cstr o) then o else fold_left run_simple body o
  end.
Definition clear_cached (o : xobj) : xobj := fold_left run_stmt (f_clear fl) o.

(* ---- XNodeSetBase, on an object holding the node list vals ---- *)
(* str(executionContext) / str(): fills the cache when it is empty and there is a node *)
Definition ns_str_ref (o : xobj) (vals : list str) : xobj * str :=
  if str_empty (cstr o) && has_nodes vals
  then let o' := set_cstr (cstr o ++ first_data vals) o in (o', cstr o')
  else (o, cstr o).
(* num(executionContext) *)
Definition ns_num (o : xobj) (vals : list str) : xobj * dbl :=
  if is_bogus (cnum o)
  then let (o1, s) := ns_str_ref o vals in
       let n := to_num s in (set_cnum n o1, n)
  else (o, cnum o).
(* str(..., theBuffer), str(..., formatterListener, function): read the cache, never fill it *)
Definition ns_str_buf (o : xobj) (vals : list str) : str :=
  if negb (str_empty (cstr o)) then cstr o
  else if has_nodes vals then first_data vals else [].
(* stringLength(executionContext) *)
Definition ns_len (o : xobj) (vals : list str) : N :=
  if negb (str_empty (cstr o)) then N.of_nat (length (cstr o))
  else if negb (has_nodes vals) then 0%N
  else N.of_nat (length (first_data vals)).

(* ---- XStringBase / XString ---- *)
Definition xs_num (o : xobj) (s : str) : xobj * dbl :=
  if is_zero (cnum o) then let n := to_num s in (set_cnum n o, n) else (o, cnum o).

(* ---- XNumber ---- *)
Definition xn_str_ref (o : xobj) (v : dbl) : xobj * str :=
  if str_empty (cstr o) then let o' := set_cstr (cstr o ++ num_to_str v) o in (o', cstr o') else (o, cstr o).
Definition xn_str_buf (o : xobj) (v : dbl) : str :=
  if negb (str_empty (cstr o)) then cstr o else num_to_str v.
(* ---- XResultTreeFrag ---- *)
(* getSingleTextChildValue(theRTreeFrag) *)
Definition single_text_child (cs : list fnode) : option str :=
  match cs with
  | c :: rest =>
      if (negb (f_rtf_text_test fl) || is_text c)
         && (negb (f_rtf_sibling_test fl) || match rest with [] => true | _ => false end)
      then Some (fnode_value c) else None
  | [] => None
  end.
(* m_cachedNumberValue == theBogusNumberValue *)
Definition is_rtf_bogus (x : dbl) : bool := d_eqb x (f_rtf_bogus fl).
(* str(executionContext) / str() *)
Definition rtf_str_ref (o : xobj) (cs : list fnode) : xobj * str :=
  match csing o with
  | Some v => (o, v)
  | None => if str_empty (cstr o)
            then let o' := set_cstr (cstr o ++ frag_string cs) o in (o', cstr o')
            else (o, cstr o)
  end.
(* num(executionContext) / num() *)
Definition rtf_num (o : xobj) (cs : list fnode) : xobj * dbl :=
  if is_rtf_bogus (cnum o)
  then let (o1, s) := rtf_str_ref o cs in
       let n := to_num s in (set_cnum n o1, n)
  else (o, cnum o).
(* str(..., theBuffer), str(..., formatterListener, function) *)
Definition rtf_str_buf (o : xobj) (cs : list fnode) : str :=
  match csing o with
  | Some v => v
  | None => if negb (str_empty (cstr o)) then cstr o else frag_string cs
  end.
(* stringLength(executionContext) *)
Definition rtf_len (o : xobj) (cs : list fnode) : N :=
  match csing o with
  | Some v => N.of_nat (length v)
  | None => if negb (str_empty (cstr o)) then N.of_nat (length (cstr o)) else N.of_nat (length (frag_string cs))
  end.

(* XObject::boolean(double) *)
Definition num_bool (v : dbl) : bool := negb (d_is_nan v) && negb (d_eqb v dzero).

Definition ask (q : query) (o : xobj) : xobj * obs :=
  match pl o with
  | PNodes vals =>
      match q with
      | QNum => let (o', n) := ns_num o vals in (o', ONum n)
      | QStrRef => let (o', s) := ns_str_ref o vals in (o', OStr s)
      | QStrBuf | QStrEvents => (o, OStr (ns_str_buf o vals))
      | QLen => (o, OLen (ns_len o vals))
      | QBool => (o, OBool (has_nodes vals))
      end
  | PStr s =>
      match q with
      | QNum => let (o', n) := xs_num o s in (o', ONum n)
      | QStrRef | QStrBuf | QStrEvents => (o, OStr s)
      | QLen => (o, OLen (N.of_nat (length s)))
      | QBool => (o, OBool (negb (str_empty s)))
      end
  | PNum v =>
      match q with
      | QNum => (o, ONum v)
      | QStrRef | QStrEvents => let (o', s) := xn_str_ref o v in (o', OStr s)
      | QStrBuf => (o, OStr (xn_str_buf o v))
      | QLen => let (o', s) := xn_str_ref o v in (o', OLen (N.of_nat (length s)))
      | QBool => (o, OBool (num_bool v))
      end
  | PFrag cs =>
      match q with
      | QNum => let (o', n) := rtf_num o cs in (o', ONum n)
      | QStrRef => let (o', s) := rtf_str_ref o cs in (o', OStr s)
      | QStrBuf | QStrEvents => (o, OStr (rtf_str_buf o cs))
      | QLen => (o, OLen (rtf_len o cs))
      | QBool => (o, OBool true)       (* "Result tree fragments always evaluate to true." *)
      end
  end.

(* ---- XNodeSet::release / set, XString::set, XNumber::set ---- *)
Definition ns_release (o : xobj) : xobj :=
  let o1 := set_pl (PNodes []) o in
  if f_release_clears fl then clear_cached o1 else o1.
Definition ns_set (o : xobj) (vals : list str) : xobj :=
  set_pl (PNodes vals) (if f_set_releases fl then ns_release o else o).
Definition xs_set (o : xobj) (s : str) : xobj :=
  let o1 := set_pl (PStr s) o in if f_xs_set_clears fl then set_cnum dzero o1 else o1.
Definition xn_set (o : xobj) (v : dbl) : xobj :=
  let o1 := set_pl (PNum v) o in if f_xn_set_clears fl then set_cstr [] o1 else o1.

(* the constructors *)
Definition fresh (p : payload) : xobj :=
  match p with
  | PNodes _ => mk_obj p [] (f_bogus fl) None
  | PStr _ => mk_obj p [] dzero None
  | PNum _ => mk_obj p [] dzero None
  | PFrag cs => mk_obj p [] (f_rtf_bogus fl) (single_text_child cs)
  end.

(* ---- the factory: the objects the caller holds + the three stacks (head = back() of the vector) ---- *)
Record world : Type := mk_world { live : list xobj; st_ns : list xobj; st_s : list xobj; st_n : list xobj }.
Definition w0 : world := mk_world [] [] [] [].

Definition create (p : payload) (w : world) : world :=
  match p with
  | PNodes vals =>
      match st_ns w with
      | o :: rest => mk_world (live w ++ [ns_set o vals]) rest (st_s w) (st_n w)
      | [] => mk_world (live w ++ [fresh p]) [] (st_s w) (st_n w)
      end
  | PStr s =>
      match st_s w with
      | o :: rest => mk_world (live w ++ [xs_set o s]) (st_ns w) rest (st_n w)
      | [] => mk_world (live w ++ [fresh p]) (st_ns w) [] (st_n w)
      end
  | PNum v =>
      match st_n w with
      | o :: rest => mk_world (live w ++ [xn_set o v]) (st_ns w) (st_s w) rest
      | [] => mk_world (live w ++ [fresh p]) (st_ns w) (st_s w) []
      end
  | PFrag _ => mk_world (live w ++ [fresh p]) (st_ns w) (st_s w) (st_n w)   (* always the constructor *)
  end.

(* doReturnObject: back to the stack of its kind while that has room, destroyed otherwise *)
Definition give_back (o : xobj) (w : world) : world :=
  match pl o with
  | PNodes _ =>
      if Nat.ltb (length (st_ns w)) (f_max_ns fl)
      then mk_world (live w) ((if f_return_releases fl then ns_release o else o) :: st_ns w) (st_s w) (st_n w)
      else w
  | PStr _ =>
      if Nat.ltb (length (st_s w)) (f_max_s fl)
      then mk_world (live w) (st_ns w) (o :: st_s w) (st_n w) else w
  | PNum _ =>
      if Nat.ltb (length (st_n w)) (f_max_n fl)
      then mk_world (live w) (st_ns w) (st_s w) (o :: st_n w) else w
  | PFrag _ => w      (* returnXResultTreeFrag: release() and destroyed *)
  end.

Definition step (w : world) (x : op) : world * list obs :=
  match x with
  | Create p => (create p w, [])
  | Ask i q =>
      match nth_error (live w) i with
      | Some o => let (o', r) := ask q o in
                  (mk_world (upd (live w) i o') (st_ns w) (st_s w) (st_n w), [r])
      | None => (w, [])
      end
  | Return i =>
      match nth_error (live w) i with
      | Some o => (give_back o (mk_world (del (live w) i) (st_ns w) (st_s w) (st_n w)), [])
      | None => (w, [])
      end
  end.

Fixpoint run (w : world) (ops : list op) : list obs :=
  match ops with
  | [] => []
  | x :: rest => let (w', r) := step w x in r ++ run w' rest
  end.

(* ---- the specification: no caches, no factory; every answer is the XPath conversion of the payload the
        object holds now ---- *)
Definition string_of (p : payload) : str :=
  match p with PNodes vals => first_data vals | PStr s => s | PNum v => num_to_str v | PFrag cs => frag_string cs end.
Definition conv (p : payload) (q : query) : obs :=
  match q with
  | QNum => ONum (match p with PNum v => v | _ => to_num (string_of p) end)
  | QStrRef | QStrBuf | QStrEvents => OStr (string_of p)
  | QLen => OLen (N.of_nat (length (string_of p)))
  | QBool => OBool (match p with
                    | PNodes vals => has_nodes vals
                    | PStr s => negb (str_empty s)
                    | PNum v => num_bool v
                    | PFrag _ => true
                    end)
  end.

Definition ref_step (held : list payload) (x : op) : list payload * list obs :=
  match x with
  | Create p => (held ++ [p], [])
  | Ask i q => match nth_error held i with Some p => (held, [conv p q]) | None => (held, []) end
  | Return i => (del held i, [])
  end.
Fixpoint ref_run (held : list payload) (ops : list op) : list obs :=
  match ops with
  | [] => []
  | x :: rest => let (h', r) := ref_step held x in r ++ ref_run h' rest
  end.

(* ---- the decidable guard of the theorem ---- *)
(* clearCachedValues() on the abstraction (string empty?, number is the sentinel?) *)
Definition abs_simple (a : bool * bool) (s : xo_simple) : bool * bool :=
  match s with XoResetNum => (fst a, true) | XoClearStr => (true, snd a) end.
Definition abs_stmt (a : bool * bool) (st : xo_stmt) : bool * bool :=
  match st with
  | XoDo s => abs_simple a s
  | XoIfStrNonEmpty body => if fst a then a else fold_left abs_simple body a
  end.
Definition abs_clear (a : bool * bool) : bool * bool := fold_left abs_stmt (f_clear fl) a.
Definition clear_resets_both : bool :=
  forallb (fun a => let r := abs_clear a in fst r && snd r) [(true, false); (false, false)].

Definition flags_ok : bool :=
  clear_resets_both && d_eqb (f_bogus fl) (f_bogus fl)
  && f_release_clears fl && (f_set_releases fl || f_return_releases fl)
  && f_xs_set_clears fl && f_xn_set_clears fl
  && f_rtf_text_test fl && f_rtf_sibling_test fl && d_eqb (f_rtf_bogus fl) (f_rtf_bogus fl).

End Machine.

(* ---- this tree ---- *)
Definition gen_flags : xo_flags :=
  let '(a, b, c) := gen_xo_cache_max in
  mk_flags gen_xo_clear_prog (of_bits gen_xo_bogus_bits) gen_xo_release_clears gen_xo_set_releases
           gen_xo_return_releases gen_xo_xstring_set_clears gen_xo_xnumber_set_clears
           (N.to_nat a) (N.to_nat b) (N.to_nat c)
           (of_bits gen_xo_rtf_bogus_bits) gen_xo_rtf_text_test gen_xo_rtf_sibling_test.

(* the seeded shape (seeded/C11_f): reset only when the cached string is non-empty *)
Definition seeded_flags : xo_flags :=
  mk_flags [XoIfStrNonEmpty [XoResetNum; XoClearStr]] (of_bits gen_xo_bogus_bits) true true true true true 40 40 40
           (of_bits gen_xo_rtf_bogus_bits) true true.

(* a plausible broken shape of getSingleTextChildValue: the test that the first child has no sibling is gone *)
Definition no_sibling_test_flags : xo_flags :=
  mk_flags gen_xo_clear_prog (of_bits gen_xo_bogus_bits) true true true true true 40 40 40
           (of_bits gen_xo_rtf_bogus_bits) true false.

(* the extracted model: the machine of this tree with C18's conversions *)
Definition xo_run (ops : list op) : list obs := run string_to_number number_to_string gen_flags (w0) ops.
Definition xo_ref (ops : list op) : list obs := ref_run string_to_number number_to_string [] ops.
Definition xo_flags_ok : bool := flags_ok gen_flags.
