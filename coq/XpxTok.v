(* C02, extension part (family xpx): the tokenizer behind id() (StringTokenizer as FunctionID::execute drives it). *)
From Coq Require Import List NArith ZArith Bool Arith Lia.
From Coq Require Import ZifyBool ZifyNat ZifyN.
Require Import XV.GenXpx XV.XpxDefs XV.XpxModel.
Import ListNotations.
Local Open Scope nat_scope.

Section Tok.
  Variable d : list N.

  Lemma span_nd_app : forall s, fst (span_nd d s) ++ snd (span_nd d s) = s.
  Proof.
    induction s as [|c t IH]; cbn [span_nd]; [reflexivity|]. destruct (is_delim d c); [reflexivity|].
    destruct (span_nd d t) as [a b]. cbn in *. f_equal. exact IH.
  Qed.

  Lemma span_nd_fst_nodelim : forall s c, In c (fst (span_nd d s)) -> is_delim d c = false.
  Proof.
    induction s as [|x t IH]; intros c H; cbn [span_nd] in H; [destruct H|].
    destruct (is_delim d x) eqn:E; [destruct H|]. destruct (span_nd d t) as [a b]. cbn in *.
    destruct H as [H | H]; [subst; exact E | auto].
  Qed.

  Lemma span_nd_snd_start : forall s, starts_with_delim_or_empty d (snd (span_nd d s)).
  Proof.
    induction s as [|x t IH]; cbn [span_nd]; [exact I|]. destruct (is_delim d x) eqn:E; [exact E|].
    destruct (span_nd d t) as [a b]. cbn in *. exact IH.
  Qed.

  Lemma span_nd_snd_length : forall s, length (snd (span_nd d s)) <= length s.
  Proof.
    induction s as [|x t IH]; cbn [span_nd]; [cbn; lia|]. destruct (is_delim d x); [cbn; lia|].
    destruct (span_nd d t) as [a b]. cbn in *. lia.
  Qed.

  Lemma span_nd_cons_nodelim : forall c t, is_delim d c = false ->
    fst (span_nd d (c :: t)) = c :: fst (span_nd d t) /\ snd (span_nd d (c :: t)) = snd (span_nd d t).
  Proof. intros c t E. cbn [span_nd]. rewrite E. destruct (span_nd d t); split; reflexivity. Qed.

  (* the straightforward scan: skip a delimiter; otherwise cut the run before the next delimiter *)
  Fixpoint toks (fuel : nat) (s : list N) : list (list N) :=
    match fuel with
    | O => []
    | S f => match s with
             | [] => []
             | c :: t => if is_delim d c then toks f t
                         else fst (span_nd d s) :: toks f (snd (span_nd d s))
             end
    end.

  Lemma take_tokens_skip : forall n c t, is_delim d c = true -> take_tokens d n (c :: t) = take_tokens d n t.
  Proof.
    intros [|k] c t E; [reflexivity|]. cbn [take_tokens next_token]. rewrite E.
    destruct t as [|c' t']; reflexivity.
  Qed.

  (* countTokens followed by that many nextToken calls returns every run, none twice, none skipped *)
  Lemma take_count : forall fuel s, length s <= fuel ->
    take_tokens d (count_loop d fuel s) s = toks fuel s.
  Proof.
    induction fuel as [|f IH]; intros s Hl.
    - destruct s; [reflexivity | cbn in Hl; lia].
    - destruct s as [|c t]; [reflexivity|]. cbn [count_loop toks]. destruct (is_delim d c) eqn:E.
      + rewrite take_tokens_skip by exact E. apply IH. cbn in Hl. lia.
      + destruct (span_nd_cons_nodelim c t E) as [H1 H2].
        cbn [take_tokens next_token]. rewrite E. cbv beta iota. rewrite H1. cbv beta iota. f_equal. apply IH.
        rewrite H2. pose proof (span_nd_snd_length t). cbn in Hl. lia.
  Qed.

  Lemma count_is_length : forall fuel s, length s <= fuel -> count_loop d fuel s = length (toks fuel s).
  Proof.
    induction fuel as [|f IH]; intros s Hl; [reflexivity|]. destruct s as [|c t]; [reflexivity|].
    cbn [count_loop toks]. destruct (is_delim d c) eqn:E.
    - apply IH. cbn in Hl. lia.
    - cbn [length]. f_equal. apply IH. destruct (span_nd_cons_nodelim c t E) as [_ H2]. rewrite H2.
      pose proof (span_nd_snd_length t). cbn in Hl. lia.
  Qed.

  Lemma tz_delim_cons : forall c s ts, is_delim d c = true -> tokenization d s ts -> tokenization d (c :: s) ts.
  Proof.
    intros c s ts E H. inversion H; subst.
    - apply tz_nil. intros x [Hx | Hx]; [subst; exact E | auto].
    - change (c :: pre ++ t ++ rest) with ((c :: pre) ++ t ++ rest). apply tz_cons; auto.
      intros x [Hx | Hx]; [subst; exact E | auto].
  Qed.

  Lemma toks_tokenization : forall fuel s, length s <= fuel -> tokenization d s (toks fuel s).
  Proof.
    induction fuel as [|f IH]; intros s Hl.
    - destruct s; [|cbn in Hl; lia]. apply tz_nil. intros c [].
    - destruct s as [|c t]; [apply tz_nil; intros x []|]. cbn [toks]. destruct (is_delim d c) eqn:E.
      + apply tz_delim_cons; [exact E|]. apply IH. cbn in Hl. lia.
      + destruct (span_nd_cons_nodelim c t E) as [H1 H2].
        rewrite <- (span_nd_app (c :: t)) at 1.
        change (fst (span_nd d (c :: t)) ++ snd (span_nd d (c :: t)))
          with ([] ++ fst (span_nd d (c :: t)) ++ snd (span_nd d (c :: t))).
        apply tz_cons.
        * intros x [].
        * rewrite H1. discriminate.
        * apply span_nd_fst_nodelim.
        * apply span_nd_snd_start.
        * apply IH. rewrite H2. pose proof (span_nd_snd_length t). cbn in Hl. lia.
  Qed.

  Lemma toks_concat : forall fuel s, length s <= fuel ->
    concat (toks fuel s) = filter (fun c => negb (is_delim d c)) s.
  Proof.
    induction fuel as [|f IH]; intros s Hl.
    - destruct s; [reflexivity | cbn in Hl; lia].
    - destruct s as [|c t]; [reflexivity|]. cbn [toks]. destruct (is_delim d c) eqn:E.
      + cbn [filter]. rewrite E. cbn. apply IH. cbn in Hl. lia.
      + destruct (span_nd_cons_nodelim c t E) as [H1 H2]. cbn [concat].
        rewrite IH by (rewrite H2; pose proof (span_nd_snd_length t); cbn in Hl; lia).
        rewrite <- (span_nd_app (c :: t)) at 3. rewrite filter_app. f_equal.
        remember (fst (span_nd d (c :: t))) as a eqn:Ha. assert (Hnd : forall x, In x a -> is_delim d x = false)
          by (subst a; apply span_nd_fst_nodelim).
        clear - Hnd. induction a as [|x a IHa]; [reflexivity|]. cbn [filter].
        rewrite (Hnd x) by (left; reflexivity). cbn. f_equal. apply IHa. intros y Hy. apply Hnd. right. exact Hy.
  Qed.

  Lemma tokenization_tokens : forall s ts, tokenization d s ts ->
    forall t, In t ts -> t <> [] /\ forall c, In c t -> is_delim d c = false.
  Proof.
    intros s ts H. induction H; intros t0 Hin; [destruct Hin|].
    destruct Hin as [Hin | Hin]; [subst; split; assumption | auto].
  Qed.

  Definition head_nodelim (x : list N) : Prop := match x with c :: _ => is_delim d c = false | [] => False end.

  Lemma delim_prefix_unique : forall pre pre2 x y,
    (forall c, In c pre -> is_delim d c = true) -> (forall c, In c pre2 -> is_delim d c = true) ->
    head_nodelim x -> head_nodelim y -> pre ++ x = pre2 ++ y -> pre = pre2 /\ x = y.
  Proof.
    induction pre as [|p pre IH]; intros pre2 x y H1 H2 Hx Hy Heq.
    - destruct pre2 as [|p2 pre2]; [split; [reflexivity | exact Heq]|].
      exfalso. cbn in Heq. subst x. cbn in Hx. rewrite (H2 p2) in Hx by (left; reflexivity). discriminate.
    - destruct pre2 as [|p2 pre2].
      + exfalso. cbn in Heq. subst y. cbn in Hy. rewrite (H1 p) in Hy by (left; reflexivity). discriminate.
      + cbn in Heq. inversion Heq; subst p2.
        destruct (IH pre2 x y) as [E1 E2]; auto.
        * intros c Hc. apply H1. right. exact Hc.
        * intros c Hc. apply H2. right. exact Hc.
        * split; [congruence | exact E2].
  Qed.

  Lemma run_unique : forall t t2 rest rest2,
    (forall c, In c t -> is_delim d c = false) -> (forall c, In c t2 -> is_delim d c = false) ->
    starts_with_delim_or_empty d rest -> starts_with_delim_or_empty d rest2 ->
    t ++ rest = t2 ++ rest2 -> t = t2 /\ rest = rest2.
  Proof.
    induction t as [|c t IH]; intros t2 rest rest2 H1 H2 Hr Hr2 Heq.
    - destruct t2 as [|c2 t2]; [split; [reflexivity | exact Heq]|].
      exfalso. cbn in Heq. subst rest. cbn in Hr. rewrite (H2 c2) in Hr by (left; reflexivity). discriminate.
    - destruct t2 as [|c2 t2].
      + exfalso. cbn in Heq. subst rest2. cbn in Hr2. rewrite (H1 c) in Hr2 by (left; reflexivity). discriminate.
      + cbn in Heq. inversion Heq; subst c2.
        destruct (IH t2 rest rest2) as [E1 E2]; auto.
        * intros x Hx. apply H1. right. exact Hx.
        * intros x Hx. apply H2. right. exact Hx.
        * split; [congruence | exact E2].
  Qed.

  Lemma head_nodelim_app : forall t rest, t <> [] -> (forall c, In c t -> is_delim d c = false) -> head_nodelim (t ++ rest).
  Proof. intros [|c t] rest Hne H; [congruence|]. cbn. apply H. left. reflexivity. Qed.

  (* the declarative specification determines the token list: maximal runs are unique *)
  Lemma tokenization_unique : forall s ts1, tokenization d s ts1 -> forall ts2, tokenization d s ts2 -> ts1 = ts2.
  Proof.
    intros s ts1 H1. induction H1 as [s Hall | pre t rest ts Hpre Hne Hnd Hst Hrest IH]; intros ts2 H2.
    - inversion H2 as [s' Hall' | pre2 t2 rest2 ts2' Hpre2 Hne2 Hnd2 Hst2 Hrest2 Heq]; subst; [reflexivity|].
      exfalso. destruct t2 as [|c t']; [congruence|].
      assert (is_delim d c = true) by (apply Hall; apply in_or_app; right; left; reflexivity).
      assert (is_delim d c = false) by (apply Hnd2; left; reflexivity). congruence.
    - inversion H2 as [s' Hall' Hs' | pre2 t2 rest2 ts2' Hpre2 Hne2 Hnd2 Hst2 Hrest2 Heq]; subst.
      + exfalso. destruct t as [|c t']; [congruence|].
        assert (is_delim d c = true) by (apply Hall'; apply in_or_app; right; left; reflexivity).
        assert (is_delim d c = false) by (apply Hnd; left; reflexivity). congruence.
      + destruct (delim_prefix_unique pre2 pre (t2 ++ rest2) (t ++ rest)) as [E1 E2]; auto using head_nodelim_app.
        destruct (run_unique t2 t rest2 rest) as [E3 E4]; auto.
        subst. f_equal. apply IH. exact Hrest2.
  Qed.
End Tok.

(* ---------------------------------------------------------------------------------------------- *)
(* id() *)

Lemma id_tokens_toks : forall s, id_tokens s = toks gen_id_delims (length s) s.
Proof. intros s. unfold id_tokens, count_tokens. apply take_count. lia. Qed.

Lemma id_tokens_tokenization : forall s, tokenization gen_id_delims s (id_tokens s).
Proof. intros s. rewrite id_tokens_toks. apply toks_tokenization. lia. Qed.

Lemma id_tokens_only : forall s ts, tokenization gen_id_delims s ts -> id_tokens s = ts.
Proof. intros s ts H. eapply tokenization_unique; [apply id_tokens_tokenization | exact H]. Qed.

Lemma id_tokens_concat : forall s, concat (id_tokens s) = filter (fun c => negb (is_delim gen_id_delims c)) s.
Proof. intros s. rewrite id_tokens_toks. apply toks_concat. lia. Qed.

Lemma id_tokens_clean : forall s t, In t (id_tokens s) -> t <> [] /\ forall c, In c t -> is_delim gen_id_delims c = false.
Proof. intros s t H. eapply tokenization_tokens; [apply id_tokens_tokenization | exact H]. Qed.

Lemma id_count : forall s, count_tokens gen_id_delims s = length (id_tokens s).
Proof. intros s. rewrite id_tokens_toks. unfold count_tokens. apply count_is_length. lia. Qed.

(* the delimiter set is exactly XML white space (S ::= #x20 | #x9 | #xD | #xA) *)
Lemma id_delims_are_xml_space : forall c, is_delim gen_id_delims c = true <-> (c = 32 \/ c = 9 \/ c = 10 \/ c = 13)%N.
Proof.
  intros c. unfold is_delim, gen_id_delims. cbn [existsb]. rewrite !orb_true_iff, !N.eqb_eq. intuition congruence.
Qed.

Definition addopt (f : list N -> option N) (acc : list N) (t : list N) : list N :=
  match f t with Some n => insert n acc | None => acc end.

Lemma addopt_fold_In : forall f ts acc x,
  In x (fold_left (addopt f) ts acc) <-> In x acc \/ exists t, In t ts /\ f t = Some x.
Proof.
  intros f. induction ts as [|a r IH]; intros acc x; cbn [fold_left].
  - split; [auto | intros [H | [t [[] _]]]; exact H].
  - rewrite IH. change (addopt f acc a) with (match f a with Some n => insert n acc | None => acc end).
    destruct (f a) as [n|] eqn:E.
    + rewrite insert_In. split.
      * intros [[H | H] | [t [H1 H2]]]; [subst; right; exists a; split; [left; reflexivity | exact E] | auto | right; exists t; split; [right; exact H1 | exact H2]].
      * intros [H | [t [[H1 | H1] H2]]]; [auto | subst; left; left; congruence | right; exists t; auto].
    + split.
      * intros [H | [t [H1 H2]]]; [auto | right; exists t; split; [right; exact H1 | exact H2]].
      * intros [H | [t [[H1 | H1] H2]]]; [auto | subst; congruence | right; exists t; auto].
Qed.

Lemma addopt_fold_sorted : forall f ts acc, sorted acc -> sorted (fold_left (addopt f) ts acc).
Proof.
  intros f. induction ts as [|a r IH]; intros acc Hs; cbn [fold_left]; [exact Hs|]. apply IH.
  unfold addopt. destruct (f a); [apply insert_sorted|]; exact Hs.
Qed.

(* id(s) = the elements having one of the white-space separated tokens of s as their ID, in document order *)
Lemma id_nodes_spec : forall ids s x,
  In x (id_nodes ids s) <-> exists t, In t (id_tokens s) /\ lookup_id ids t = Some x.
Proof.
  intros. unfold id_nodes. change (fun acc t => match lookup_id ids t with Some n => insert n acc | None => acc end)
    with (addopt (lookup_id ids)). rewrite addopt_fold_In. cbn [In]. tauto.
Qed.

Lemma id_nodes_sorted : forall ids s, sorted (id_nodes ids s).
Proof.
  intros. unfold id_nodes. change (fun acc t => match lookup_id ids t with Some n => insert n acc | None => acc end)
    with (addopt (lookup_id ids)). apply addopt_fold_sorted. exact I.
Qed.
