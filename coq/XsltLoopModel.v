(* C01, mechanism (c): the iterative loop of ElemTemplateElement::execute = structural recursion *)
From Coq Require Import List NArith Arith Lia.
Require Import XV.XsltLoopDefs.
Import ListNotations.

Section TreeInd.
  Variable P : tree -> Prop.
  Hypothesis H : forall id reps ch, Forall P ch -> P (Node id reps ch).
  Fixpoint tree_ind' (t : tree) : P t :=
    match t with
    | Node id reps ch => H id reps ch ((fix go (l : list tree) : Forall P l :=
                                          match l with [] => Forall_nil P | x :: r => Forall_cons x (tree_ind' x) (go r) end) ch)
    end.
End TreeInd.

Lemma run_app : forall a b s,
  run (a + b) s = match run a s with (s1, e1) => match run b s1 with (s2, e2) => (s2, e1 ++ e2) end end.
Proof.
  induction a; intros; simpl.
  - destruct (run b s). reflexivity.
  - destruct (step s) as [s' e]. rewrite IHa. destruct (run a s') as [s1 e1]. destruct (run b s1) as [s2 e2].
    rewrite app_assoc. reflexivity.
Qed.

Lemma run_done : forall f, run f Done = (Done, []).
Proof. induction f; simpl; auto. rewrite IHf. reflexivity. Qed.

(* the state reached by the Inner step of an element whose context is c *)
Definition after (c : list frame) : state :=
  match c with
  | [] => Done
  | (p, all, r, k :: rest) :: c' => Outer k ((p, all, r, rest) :: c')
  | (p, all, r, []) :: c' =>
      match r, all with
      | S r', k :: rest => Outer k ((p, all, r', rest) :: c')
      | _, _ => Inner p c'
      end
  end.

Lemma step_inner : forall id c, step (Inner id c) = (after c, [End id]).
Proof.
  intros. destruct c as [|[[[p all] r] rs] c']; simpl; auto.
  destruct rs; auto. destruct r; auto. destruct all; auto.
Qed.

Definition sum_steps (l : list tree) : nat := fold_right (fun x a => steps x + a) 0 l.

Lemma rep_nil : forall (A : Type) k, rep k (@nil A) = [].
Proof. induction k; simpl; auto. Qed.

Definition treeP (t : tree) : Prop := forall c, run (steps t) (Outer t c) = (after c, exec_rec t).

(* one pass over the siblings k :: l' inside the frame of element id *)
Lemma seq_run : forall l', Forall treeP l' -> forall k, treeP k -> forall id all r c,
  run (sum_steps (k :: l')) (Outer k ((id, all, r, l') :: c)) =
  (after ((id, all, r, []) :: c), flat_map exec_rec (k :: l')).
Proof.
  induction 1 as [|k2 l'' Hk2 Hl IH]; intros k Hk id all r c.
  - simpl. rewrite Nat.add_0_r. rewrite Hk. rewrite app_nil_r. reflexivity.
  - cbn [sum_steps fold_right]. rewrite run_app. rewrite Hk. cbn [after].
    fold (sum_steps l''). change (steps k2 + sum_steps l'') with (sum_steps (k2 :: l'')).
    rewrite (IH k2 Hk2 id all r c). reflexivity.
Qed.

Lemma passes : forall r k rest, Forall treeP (k :: rest) -> forall id c,
  run (S r * sum_steps (k :: rest) + 1) (Outer k ((id, k :: rest, r, rest) :: c)) =
  (after c, rep (S r) (flat_map exec_rec (k :: rest)) ++ [End id]).
Proof.
  induction r; intros k rest HF id c; inversion HF; subst.
  - rewrite Nat.mul_1_l. rewrite run_app. rewrite seq_run by assumption.
    cbn [after]. cbn [run]. rewrite step_inner. cbn [rep]. rewrite !app_nil_r. reflexivity.
  - replace (S (S r) * sum_steps (k :: rest) + 1) with (sum_steps (k :: rest) + (S r * sum_steps (k :: rest) + 1)) by lia.
    rewrite run_app. rewrite seq_run by assumption. cbn [after].
    rewrite (IHr k rest HF id c). cbn [rep]. rewrite <- !app_assoc. reflexivity.
Qed.

Lemma run_S : forall f s,
  run (S f) s = match step s with (s', e) => match run f s' with (s'', e') => (s'', e ++ e') end end.
Proof. reflexivity. Qed.

Lemma step_outer_leaf : forall id reps ch c, reps = 0 \/ ch = [] ->
  step (Outer (Node id reps ch) c) = (Inner id c, [Start id]).
Proof. intros id reps ch c [H | H]; subst; simpl; auto. destruct reps; auto. Qed.

Lemma step_outer_enter : forall id r k rest c,
  step (Outer (Node id (S r) (k :: rest)) c) = (Outer k ((id, k :: rest, r, rest) :: c), [Start id]).
Proof. reflexivity. Qed.

Lemma tree_lemma : forall t, treeP t.
Proof.
  induction t using tree_ind'. intros c. cbn [steps]. fold (sum_steps ch).
  destruct reps as [|r].
  - rewrite Nat.mul_0_l. change (2 + 0) with 2.
    rewrite run_S. rewrite step_outer_leaf by auto. rewrite run_S. rewrite step_inner. cbn [run exec_rec rep app].
    reflexivity.
  - destruct ch as [|k rest].
    + cbn [sum_steps fold_right]. rewrite Nat.mul_0_r. change (2 + 0) with 2.
      rewrite run_S. rewrite step_outer_leaf by auto. rewrite run_S. rewrite step_inner.
      cbn [run exec_rec flat_map app]. rewrite rep_nil. reflexivity.
    + replace (2 + S r * sum_steps (k :: rest)) with (S (S r * sum_steps (k :: rest) + 1)) by lia.
      rewrite run_S. rewrite step_outer_enter. rewrite passes by assumption. cbn [exec_rec app]. reflexivity.
Qed.

(* the loop terminates after exactly steps t steps with the trace of the structural recursion, and more fuel
   changes nothing *)
Theorem iterative_eq_recursive_thm : forall t f, exec_iter (steps t + f) t = (Done, exec_rec t).
Proof.
  intros. unfold exec_iter. rewrite run_app. rewrite tree_lemma. cbn [after]. rewrite run_done.
  rewrite app_nil_r. reflexivity.
Qed.

