# KN8 (apply to <doc/>)
<xsl:stylesheet version="1.0" xmlns:xsl="http://www.w3.org/1999/XSL/Transform" ><xsl:template match="/"><o><w:b xmlns:w="u5" xmlns="u4" xsl:exclude-result-prefixes="#default"/></o></xsl:template></xsl:stylesheet>
