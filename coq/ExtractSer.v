(* Extraction of the C04 model for the correspondence driver. ExtrOcamlBasic only. *)
Require Import ExtrOcamlBasic.
From Coq Require Import ZArith.
Require Import XV.SerDefs XV.XmlParseDefs XV.SerIndentDefs.
(* Z.of_N only so that the type z exists for ocaml/conv.ml *)
Extraction "extracted/ser_model.ml" serialize_fast serialize_other_fast serialize_indent_fast fam_of fam_other rep_all parse_content parse_attr Z.of_N.
