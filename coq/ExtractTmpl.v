(* Extraction of the C10 model for the correspondence driver. ExtrOcamlBasic only. *)
Require Import ExtrOcamlBasic.
Require Import XV.TmplDefs.
Extraction "extracted/tmpl_model.ml"
  compile csubsheet find_template choose rules_of best_5_5 subsheet imported_rules
  uniform_union_priorities filed_where_matching.
