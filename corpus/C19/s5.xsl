<?xml version="1.0"?>
<xsl:stylesheet version="1.0" xmlns:xsl="http://www.w3.org/1999/XSL/Transform">
  <xsl:output method="xml" omit-xml-declaration="yes"/>
  <xsl:key name="e" match="e" use="@k"/>
  <xsl:variable name="tab" select="document('lookup.xml')"/>
  <xsl:variable name="self" select="document('')/*/xsl:variable[@name='tab']/@select"/>
  <xsl:template match="/">
    <out self="{$self}">
      <xsl:for-each select="m/r">
        <xsl:variable name="id" select="@id"/>
        <xsl:for-each select="$tab"><v><xsl:value-of select="key('e', $id)"/></v></xsl:for-each>
      </xsl:for-each>
      <xsl:call-template name="chain"><xsl:with-param name="at" select="'a'"/></xsl:call-template>
    </out>
  </xsl:template>
  <xsl:template name="chain">
    <xsl:param name="at"/>
    <xsl:param name="acc" select="''"/>
    <xsl:choose>
      <xsl:when test="$at = ''"><chain><xsl:value-of select="$acc"/></chain></xsl:when>
      <xsl:otherwise>
        <xsl:call-template name="chain">
          <xsl:with-param name="at" select="string(/m/r[@id = $at]/@ref)"/>
          <xsl:with-param name="acc" select="concat($acc, $at, '>')"/>
        </xsl:call-template>
      </xsl:otherwise>
    </xsl:choose>
  </xsl:template>
</xsl:stylesheet>
