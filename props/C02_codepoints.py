"""C02, part "codepoints" (family xpcp): string-length(), substring() and translate() over CHARACTERS
(XPath 1.0 sections 3.6 / 4.2: a surrogate pair is one character) -- known finding K6 and its repair.

proof           coq/Properties_C02k.v over coq/XpCpDefs.v (the repaired code: XPathCharacters.hpp, the counter of
                FormatterStringLengthCounter, FunctionSubstring, FunctionTranslate) and coq/XpCpTree.v (the functions
                of THIS tree, chosen by the flags translator/gen_xpcp.py regenerates into GenXpCp.v)
correspondence  the extracted functions of this tree (ocaml/xpcp_driver.ml: len / sub / tr / cnt lines, and whole
                expressions through eval_this_tree) against the library (harness/xp.cpp, strings bound to variables so
                that unpaired surrogates reach the functions)
oracle          vlib/xpref.py on Python strings (code points; independent of the Coq model).  While a function's flag
                says "code units" a deviation that the reference reproduces with units=True is the known finding K6;
                once the flag says "characters" every deviation is a VIOLATION.
Hooked from props/C02.py (run_part); stand-alone for development: python3 check.py C02k."""
import os, random, time, struct
from vlib import core, xpgen, xpref

PAIRS = [(0xD835, 0xDCB3), (0xD835, 0xDCB4), (0xD83D, 0xDCB3), (0xD800, 0xDC00), (0xDBFF, 0xDFFF), (0xD83D, 0xDE00)]
HIGHS = [0xD835, 0xD800, 0xDBFF, 0xD83D]
LOWS = [0xDCB3, 0xDC00, 0xDFFF, 0xDCB4]
BMP = [0x61, 0x62, 0x7A, 0x31, 0xE9, 0x20AC, 0xFFFD, 0xD7FF, 0xE000, 0x20]


def u2s(units):
    return b"".join(struct.pack("<H", u) for u in units).decode("utf-16-le", "surrogatepass")


def s2u(s):
    b = s.encode("utf-16-le", "surrogatepass")
    return [b[i] | (b[i + 1] << 8) for i in range(0, len(b), 2)]


def tok(units):
    return "u:" + ",".join("%x" % u for u in units)


def gen_units(r, maxchars, lone=0.25, pair=0.4, kind=None):
    """a string as UTF-16 units: BMP characters, pairs and (with probability `lone`) unpaired surrogates;
    every adjacency (high high low, high low low, low high, high at the end) can occur.  kind = 'high' / 'low':
    only that kind of unpaired surrogate (no operation on such strings can join two halves into a new pair)"""
    out = []
    for _ in range(r.randrange(0, maxchars + 1)):
        k = r.random()
        if k < pair:
            out += list(r.choice(PAIRS if r.random() < 0.7 else PAIRS[:2]))
        elif k < pair + lone:
            out.append(r.choice(HIGHS) if (kind == "high" or (kind is None and r.random() < 0.5)) else r.choice(LOWS))
        else:
            out.append(r.choice(BMP if r.random() < 0.5 else BMP[:3]))
    return out


def nchars(units):
    return len(u2s(units))


DOC0 = [("e", "a", [], [("t", "x")])]


class Stream:
    def __init__(self, prefix):
        self.prefix = prefix
        self.cases = []

    def add(self, cls, e, variables, fn=None, margs=None, top=None, cn=1, cl=None, funcs=()):
        """e: expression tuple (xpgen format); variables: name -> ('str', units) | ('num', float);
        fn/margs: the function-level line for the model (op, args) when the case is ONE call on variables"""
        top = top or DOC0
        cid = "%s%d" % (self.prefix, len(self.cases))
        vf = []
        pyvars = {}
        for name, (t, v) in sorted(variables.items()):
            if t == "str":
                vf.append("%s=s:%s" % (name, tok(v)))
                pyvars[name] = u2s(v)
            else:
                vf.append("%s=n:%s" % (name, "nan" if v != v else xpgen.dbits(v)))
                pyvars[name] = v
        s = xpgen.p_expr(e)
        line = "%s|eval|D:%s|C:%d;%s|V:%s|N:p=%s|X:%s|A:%s" % (
            cid, xpgen.doc_tokens(top), cn, ",".join(map(str, cl or [cn])), ";".join(vf), xpgen.tok("urn:p"), xpgen.tok(s), xpgen.sx_expr(e))
        self.cases.append({"id": cid, "cls": cls, "line": line, "expr": e, "str": s, "top": top, "ctx": cn, "cl": cl or [cn],
                           "vars": pyvars, "fn": fn, "margs": margs, "funcs": set(funcs)})


def V(n):
    return ("var", n)


def F(name, *args):
    return ("fn", name, list(args))


def numlit(x):
    return ("num", x)


def a_values(n):
    vals = [float("nan"), float("-inf"), float("inf"), -1.0, 0.0, 0.49, 0.5, 1.0]
    for k in range(1, n + 2):
        vals += [k + 0.5, float(k + 1)]
    return vals


def b_values(n):
    vals = [None, float("nan"), float("-inf"), float("inf"), -1.0, 0.0, 0.5, 1.0, 1.49]
    for k in range(1, n + 1):
        vals += [k + 0.5, float(k + 1)]
    return vals


def gen_stream(r, prefix, scale, flags_uniform):
    st = Stream(prefix)
    # --- string-length on variables and literals
    strings = [[], [0xD835, 0xDCB3, 0x7A], [0xD835], [0xDCB3], [0xD835, 0xD835, 0xDCB3, 0xDCB3], [0xDCB3, 0xD835], [0x61, 0xD835],
               [0xD835, 0xDCB3, 0xD835], [0xD835, 0xDCB3] * 3]
    strings += [gen_units(r, 6) for _ in range(60 * scale)]
    for u in strings:
        st.add("len:var", F("string-length", V("s")), {"s": ("str", u)}, "len", [tok(u)], funcs=["len"])
    for u in strings[:20 * scale]:
        if 0x27 not in u:
            st.add("len:literal", F("string-length", ("lit", u2s(u))), {}, "len", [tok(u)], funcs=["len"])
    # --- substring: every window over short strings
    shorts = [[0x61, 0xD835, 0xDCB3, 0x7A], [0xD835, 0xDCB3], [0xD835, 0xDCB3, 0xD83D, 0xDE00], [0x61, 0xD835, 0x62, 0xDCB3],
              [0xD835, 0xD835, 0xDCB3], [0xD835, 0xDCB3, 0xDCB3], [0x61, 0x62, 0xD835], [0x31, 0x32, 0x33, 0x34, 0x35]]
    shorts += [gen_units(r, 5) for _ in range(6 * scale)]
    for u in shorts:
        n = nchars(u)
        for a in a_values(n):
            for b in b_values(n):
                if scale == 1 and r.random() < 0.35:
                    continue
                if b is None:
                    st.add("sub:2args", F("substring", V("s"), V("a")), {"s": ("str", u), "a": ("num", a)},
                           "sub", [tok(u), "nan" if a != a else xpgen.dbits(a), "-"], funcs=["sub"])
                else:
                    st.add("sub:3args", F("substring", V("s"), V("a"), V("b")), {"s": ("str", u), "a": ("num", a), "b": ("num", b)},
                           "sub", [tok(u), "nan" if a != a else xpgen.dbits(a), "nan" if b != b else xpgen.dbits(b)], funcs=["sub"])
    # longer strings, random windows (the fast path on strings without a pair included)
    for _ in range(150 * scale):
        u = gen_units(r, 12, lone=r.choice([0.0, 0.25]), pair=r.choice([0.0, 0.3, 0.6]))
        a = r.choice([r.randrange(-2, 14) + r.choice([0.0, 0.5, 0.25]), float("nan"), float("-inf")])
        b = r.choice([None, r.randrange(-1, 14) + r.choice([0.0, 0.5]), float("inf")])
        vs = {"s": ("str", u), "a": ("num", a)}
        if b is None:
            st.add("sub:long", F("substring", V("s"), V("a")), vs, "sub", [tok(u), "nan" if a != a else xpgen.dbits(a), "-"], funcs=["sub"])
        else:
            vs["b"] = ("num", b)
            st.add("sub:long", F("substring", V("s"), V("a"), V("b")), vs, "sub",
                   [tok(u), "nan" if a != a else xpgen.dbits(a), "nan" if b != b else xpgen.dbits(b)], funcs=["sub"])
    # --- translate: pairs in all three arguments, characters sharing a half
    fixed_tr = [([0xD835, 0xDCB3, 0x7A], [0xD835, 0xDCB3, 0x7A], [0x61, 0x62, 0x63]), ([0x61, 0x62], [0x61, 0x62], [0xD835, 0xDCB3, 0x7A]),
                ([0xD835, 0xDCB3], [0xD835, 0xDCB4, 0xD835, 0xDCB3], [0x61, 0x62]), ([0xD835, 0xDCB3], [0xD83D, 0xDCB3, 0xD835, 0xDCB3], [0x61, 0x62]),
                ([0xD835, 0xDCB3, 0xD835], [0xD835], [0x78]), ([0xD835, 0x78, 0xDCB3], [0x78], []), ([0x61], [0x61], [0xD835]),
                ([0x61, 0xD835, 0xDCB3, 0x7A, 0xD835, 0xDCB4], [0x7A, 0x61, 0xD835, 0xDCB4], [0xD835, 0xDCB4])]
    for s, f, t in fixed_tr:
        st.add("tr:fixed", F("translate", V("s"), V("f"), V("t")), {"s": ("str", s), "f": ("str", f), "t": ("str", t)},
               "tr", [tok(s), tok(f), tok(t)], funcs=["tr"])
    for _ in range(300 * scale):
        lone = r.choice([0.0, 0.0, 0.3])
        s = gen_units(r, 7, lone=lone)
        pool = s2u("".join(r.sample(list(u2s(s)), min(len(u2s(s)), r.randrange(0, 4))))) if s else []
        f = pool + gen_units(r, 3, lone=lone)
        if r.random() < 0.3:
            r.shuffle(f)          # (units shuffled: may split pairs of the second argument)
        t = gen_units(r, 5, lone=lone, pair=r.choice([0.0, 0.5]))
        st.add("tr:random", F("translate", V("s"), V("f"), V("t")), {"s": ("str", s), "f": ("str", f), "t": ("str", t)},
               "tr", [tok(s), tok(f), tok(t)], funcs=["tr"])
    # --- string-length of a string-value delivered in several characters() events (one per text node)
    for _ in range(50 * scale):
        chunks = [gen_units(r, 3, lone=0.0, pair=0.6) or [0x78] for _ in range(r.randrange(1, 5))]
        kids = []
        for i, c in enumerate(chunks):
            if i:
                kids.append(("c", "c") if r.random() < 0.5 else ("p", "pi", "d"))
            if r.random() < 0.3:
                kids.append(("e", "b", [], [("t", u2s(c))]))
            else:
                kids.append(("t", u2s(c)))
        top = [("e", "a", [], kids)]
        margs = [";".join(tok(c) for c in chunks)]
        st.add("len:events:context", F("string-length"), {}, "cnt", margs, top=top, funcs=["len"])
        st.add("len:events:nodeset", F("string-length", ("path", None, [], [("root", "root", []), ("child", ("name", None, "a"), [])])), {},
               "cnt", margs, top=top, funcs=["len"])
    # --- whole expressions (eval_this_tree): the three functions inside each other and around concat()
    if flags_uniform:
        for _ in range(250 * scale):
            # (a Python string keeps an unpaired high followed by an unpaired low apart, UTF-16 reads them as a pair: inside
            #  nested calls the reference would need a normalisation after every step, so one kind of unpaired surrogate per case)
            kind = r.choice(["high", "low"])
            s, t2 = gen_units(r, 6, lone=0.2, kind=kind), gen_units(r, 4, lone=0.2, kind=kind)
            f = s2u("".join(r.sample(list(u2s(s)), min(len(u2s(s)), 2)))) if s else [0x61]
            a = float(r.randrange(0, 6)) + r.choice([0.0, 0.5])
            b = float(r.randrange(0, 5))
            vs = {"s": ("str", s), "t": ("str", t2), "f": ("str", f), "a": ("num", a), "b": ("num", b)}
            e = r.choice([
                F("string-length", F("concat", V("s"), V("t"))),
                F("substring", F("concat", V("s"), V("t")), V("a"), V("b")),
                F("string-length", F("substring", V("s"), V("a"))),
                F("translate", F("substring", V("s"), V("a"), V("b")), V("f"), V("t")),
                F("substring", F("translate", V("s"), V("f"), V("t")), V("a")),
                F("concat", F("substring", V("s"), numlit("1"), V("b")), ("lit", "|"), F("substring", V("s"), ("plus", V("b"), numlit("1")))),
                F("string-length", F("translate", V("s"), V("f"), V("t"))),
                ("eq", F("string-length", V("s")), F("string-length", F("translate", V("s"), V("f"), F("substring", V("s"), numlit("1"), numlit("2"))))),
            ])
            st.add("expr:" + e[1] if e[0] == "fn" else "expr:eq", e, vs, funcs=["len", "sub", "tr"])
    # --- the search functions on WELL-FORMED strings: unaffected by the reading of "character"
    for _ in range(100 * scale):
        s = gen_units(r, 7, lone=0.0, pair=0.5)
        cs = list(u2s(s))
        i = r.randrange(0, len(cs) + 1)
        p = s2u("".join(cs[i:i + r.randrange(0, 3)])) if r.random() < 0.8 else gen_units(r, 2, lone=0.0)
        name = r.choice(["contains", "starts-with", "substring-before", "substring-after"])
        st.add("search:" + name, F(name, V("s"), V("p")), {"s": ("str", s), "p": ("str", p)}, funcs=[])
    return st


def ref_value(C02, c, units):
    nodes = xpgen.build_nodes(c["top"])
    ref = xpref.Ref(nodes, c["vars"], units=units)
    pos = (c["cl"].index(c["ctx"]) + 1) if c["ctx"] in c["cl"] else 0
    try:
        v = ref.ev(c["expr"], c["ctx"], pos, len(c["cl"]))
    except xpref.XPathTypeError:
        return "err"
    # a result is a string of UTF-16 units: an unpaired high surrogate that has come to stand in front of an unpaired low one
    # (translate() removed what was between them) IS a pair
    return u2s(s2u(v)) if isinstance(v, str) else v


def model_line(c):
    return "%s|%s|%s" % (c["id"], c["fn"], "|".join(c["margs"]))


def model_value_canon(c, m):
    """the function-level answer of the model in the canonical G form of harness/xp.cpp"""
    if m is None or m.startswith("modelfail"):
        return None
    if c["fn"] in ("len", "cnt"):
        return "n:" + xpgen.dbits(float(int(m)))
    return "s:" + m


def judge(ctx, C02, cases, impl, model, flags, known):
    """returns (correspondence mismatches, oracle failures [(case, text, expect)], K6 hits)"""
    lines = [c["line"] for c in cases]
    rc, res_i, raw = core.run_lines_parallel(impl, lines, sep="|")
    res_m, res_f = {}, {}
    if model:
        rc_m, res_m, raw_m = core.run_lines_parallel(model, lines, sep="|")
        rc_f, res_f, raw_f = core.run_lines_parallel(model, [model_line(c) for c in cases if c["fn"]], sep="|")
    corr, bad, k6 = [], [], 0
    if rc != 0:
        bad.append((None, "xp driver exited with status %d: %s" % (rc, raw[-300:]), "?"))
    for c in cases:
        ctx.cov["evaluations"] += 1
        ctx.count("codepoints:" + c["cls"])
        ri = res_i.get(c["id"])
        if ri is None:
            bad.append((c, "no result from the library (crash?) for %s" % c["str"], "?"))
            continue
        G = ri.split("|")[0]
        G = G[2:] if G.startswith("G:") else G
        got = C02.parse_value(G)
        if model:
            ctx.cov["traces_validated_against_impl"] += 1
            rm = res_m.get(c["id"])
            gm = rm.split("|")[0] if rm else None
            gm = gm[2:] if gm and gm.startswith("G:") else gm
            if gm is None or not ((C02.parse_value(gm) == "err") == (got == "err") and (got == "err" or C02.same(C02.parse_value(gm), got))):
                corr.append({"expr": c["str"], "case": c["line"], "impl": G[:200], "model": (rm or "")[:200], "leg": "eval_this_tree"})
            if c["fn"]:
                mf = model_value_canon(c, res_f.get(c["id"]))
                if mf is None or got == "err" or not C02.same(C02.parse_value(mf), got):
                    corr.append({"expr": c["str"], "case": c["line"], "impl": G[:200], "model": str(res_f.get(c["id"]))[:200],
                                 "leg": c["fn"] + "_this_tree"})
        exp = ref_value(C02, c, False)
        ok = (got == "err" and exp == "err") or (got != "err" and exp != "err" and C02.same_value(got, exp))
        if ok:
            ctx.count("codepoints:agrees-with-code-points")
            continue
        unrepaired = any(not flags.get(f, False) for f in c["funcs"])
        if unrepaired and "K6" in known:
            alt = ref_value(C02, c, True)
            if alt != "err" and got != "err" and C02.same_value(got, alt):
                k6 += 1
                ctx.count("codepoints:K6:" + c["cls"])
                continue
        bad.append((c, "%s: library %r, XPath 1.0 on characters %r" % (c["str"], got, exp), C02.fmt_value(exp)))
    return corr, bad, k6


def counter_stream(ctx, r, scale, counter_exe, model, flags, known):
    """the counter of FormatterStringLengthCounter driven directly (harness/xpcp.cpp): a string-value cut into characters()
    events ANYWHERE, also between the halves of a pair and next to unpaired surrogates.
    returns (correspondence mismatches, oracle failures, K6 hits)"""
    cases = []
    fixed = [[[0x61, 0xD835], [0xDCB3, 0x7A]], [[0xD835], [], [0xDCB3]], [[0xD835], [0xD835], [0xDCB3], [0xDCB3]], [[0xD835, 0xDCB3, 0xD835]],
             [[0xD835], [0x61], [0xDCB3]], [[0xDCB3], [0xD835]], [[]], [[0xD835, 0xDCB3], [0xDCB3]]]
    for ch in fixed:
        cases.append(ch)
    for _ in range(250 * scale):
        u = gen_units(r, 8, lone=r.choice([0.0, 0.3]), pair=0.5)
        cuts = sorted(r.randrange(0, len(u) + 1) for _ in range(r.randrange(0, 5)))
        ch, prev = [], 0
        for c in cuts + [len(u)]:
            ch.append(u[prev:c])
            prev = c
        cases.append(ch)
    lines = ["q%d|cnt|%s" % (i, ";".join(tok(c) for c in ch)) for i, ch in enumerate(cases)]
    rc, res_i, raw = core.run_lines_parallel(counter_exe, lines, sep="|")
    res_m = core.run_lines_parallel(model, lines, sep="|")[1] if model else {}
    corr, bad, k6 = [], [], 0
    for i, ch in enumerate(cases):
        cid = "q%d" % i
        whole = [x for c in ch for x in c]
        ctx.cov["evaluations"] += 1
        ctx.count("codepoints:counter:" + ("pair-split-between-events" if any(a and b and 0xD800 <= a[-1] <= 0xDBFF and 0xDC00 <= b[0] <= 0xDFFF
                                                                              for a, b in zip(ch, ch[1:])) else "other"))
        got = res_i.get(cid)
        if model:
            ctx.cov["traces_validated_against_impl"] += 1
            if res_m.get(cid) != got:
                corr.append({"expr": "FormatterStringLengthCounter: events " + lines[i].split("|")[2], "case": lines[i], "impl": str(got), "model": str(res_m.get(cid)),
                             "leg": "length_of_events_this_tree"})
        exp = str(len(u2s(whole)))
        if got == exp:
            continue
        if not flags.get("len", False) and "K6" in known and got == str(len(whole)):
            k6 += 1
            continue
        bad.append((None, "FormatterStringLengthCounter fed %s: counted %s, the string has %s characters" % (lines[i].split("|")[2], got, exp), "n:" + xpgen.dbits(float(exp)),
                    "# (harness/xpcp.cpp) " + lines[i]))
    return corr, bad, k6


def read_corpus():
    """corpus/C02k/*.txt: '#expect G:<value>  # what' followed by the case line (the K6 inputs and the examples of
    the fix: regression cases once the flags say 'characters')"""
    cdir = os.path.join(core.VERIF, "corpus", "C02k")
    out = []
    for fn in sorted(os.listdir(cdir)) if os.path.isdir(cdir) else []:
        ls = open(os.path.join(cdir, fn), encoding="utf-8").read().split("\n")
        for i, l in enumerate(ls):
            if l.startswith("#expect ") and i + 1 < len(ls) and "|" in ls[i + 1]:
                out.append((fn, l.split()[1], l.partition("# ")[2].strip() or l, ls[i + 1]))
    return out


def run_corpus(ctx, C02, impl, flags, known):
    bad, k6 = [], 0
    rows = read_corpus()
    if not rows:
        ctx.broken.append("codepoints: corpus/C02k is missing or empty")
        return bad, k6
    rc, res, raw = core.run_lines(impl, "\n".join(r[3] for r in rows) + "\n", sep="|")
    repaired = all(flags.get(f, False) for f in ("len", "sub", "tr"))
    for fn, exp, what, line in rows:
        cid = line.split("|")[0]
        got = (res.get(cid) or "crash").split("|")[0]
        ctx.cov["evaluations"] += 1
        ctx.count("codepoints:corpus:" + fn)
        if got != exp:
            if not repaired and "K6" in known:
                k6 += 1
            else:
                bad.append((None, "corpus %s: %s: library %s, XPath 1.0 on characters %s" % (fn, what, got, exp), exp[2:] if exp.startswith("G:") else exp, line))
    return bad, k6


def run_part(ctx):
    t0 = time.time()
    from props import C02          # lazily: props/C02.py imports this module inside run()
    broken_before = len(ctx.broken)
    ctx.assumptions.append(
        "codepoints: XalanDOMChar is a 16-bit unit (the theorems about translate() and encode/decode assume units < 65536); strings reach the "
        "functions through variables bound by harness/xp.cpp, so unpaired surrogates (which no parsed document contains) are exercised; the "
        "division of a string-value into characters() events is one event per text node (DOMServices::getNodeData)")
    rule = ("codepoints: string-length / substring (every window a x b over short strings, NaN, infinities, halves) / translate (pairs in all "
            "three arguments, characters sharing a surrogate half) on strings mixing BMP characters, pairs and unpaired surrogates; distinct = "
            "distinct (expression, bindings) pairs; non-trivial = at least one argument contains a surrogate")
    ctx.notes["rule"] = (ctx.notes.get("rule", "") + " | " + rule) if ctx.notes.get("rule") else rule
    ok_lib, liblog = core.build_lib("plain")
    if not ok_lib:
        ctx.broken.append("codepoints: library does not build from the working tree: " + liblog[-300:])
        return
    proved = ctx.prove(["Properties_C02k.v"], ["GenNum", "GenXpCp"])
    impl, ok_h, hlog = core.build_harness("xp", "plain")
    if not ok_h:
        ctx.broken.append("codepoints: harness xp does not compile against the working tree: " + hlog[-300:])
        return
    model, ok_m, mlog = core.build_model("xpcp")
    if not ok_m:
        ctx.broken.append("codepoints: model extraction/build failed: " + mlog[-500:])
        model = None
    # the flags Coq sees (GenXpCp.v through the extracted model); the translator's own answer when the model is missing
    flags = None
    if model:
        rc, res, raw = core.run_lines(model, "fl|flags\n", sep="|")
        fl = res.get("fl", "")
        if len(fl) == 3 and set(fl) <= {"0", "1"}:
            flags = {"len": fl[0] == "1", "sub": fl[1] == "1", "tr": fl[2] == "1"}
    if flags is None:
        try:
            import srcfacts
            facts = srcfacts.GENERATORS["GenXpCp"]()[1]
            flags = {"len": facts["length_repaired"], "sub": facts["substring_repaired"], "tr": facts["translate_repaired"]}
        except Exception as e:        # AnchorError: already reported by ctx.prove
            flags = {"len": False, "sub": False, "tr": False}
    ctx.notes["codepoints_flags"] = flags
    uniform = len(set(flags.values())) == 1
    known = {k["key"]: k for k in ctx.known.for_property("C02")}

    cbad, k6 = run_corpus(ctx, C02, impl, flags, known)
    r = random.Random("C02k-%s-%s" % (ctx.seed, ctx.tier))
    st = gen_stream(r, "k", 4 if ctx.thorough else 1, uniform)
    corr, bad, k = judge(ctx, C02, st.cases, impl, model, flags, known)
    k6 += k
    n_cases = len(st.cases)
    counter_exe, ok_c, clog = core.build_harness("xpcp", "plain")
    if not ok_c:
        ctx.broken.append("codepoints: harness xpcp does not compile against the working tree: " + clog[-300:])
    else:
        c1, b1, k1 = counter_stream(ctx, r, 4 if ctx.thorough else 1, counter_exe, model, flags, known)
        corr += c1
        bad += b1
        k6 += k1
    if (corr or not proved or not model or len(ctx.broken) > broken_before) and not bad and not cbad and not ctx.thorough:
        # a broken proof / translator anchor / correspondence: widened oracle search
        ctx.escalated = True
        st2 = gen_stream(random.Random("C02k-wide-%s" % ctx.seed), "w", 4, uniform)
        c2, b2, k2 = judge(ctx, C02, st2.cases, impl, model, flags, known)
        corr += c2
        bad += b2
        k6 += k2
        n_cases += len(st2.cases)
        if ok_c:
            c3, b3, k3 = counter_stream(ctx, random.Random("C02k-widec-%s" % ctx.seed), 8, counter_exe, model, flags, known)
            corr += c3
            bad += b3
            k6 += k3
    ctx.cov["distinct_nontrivial"] = ctx.cov.get("distinct_nontrivial", 0) + len({(c["str"], tuple(sorted(map(str, c["vars"].items())))) for c in st.cases
                                                                                 if any(0xD800 <= ord(ch) <= 0xDFFF or ord(ch) > 0xFFFF for v in c["vars"].values() if isinstance(v, str) for ch in v)})
    ctx.cov.setdefault("samples", [])
    ctx.cov["samples"] += [c["str"] for c in st.cases[:3]]
    ctx.notes["codepoints_cases"] = n_cases
    ctx.notes["codepoints_k6_hits"] = k6
    if corr:
        legs = sorted({c["leg"] for c in corr})
        ctx.broken.append("correspondence xpcp: %d of %d cases differ between the model of this tree's string functions (%s) and the library, e.g. %s" % (
            len(corr), n_cases, ", ".join(legs), {k_: corr[0][k_] for k_ in ("expr", "impl", "model", "leg")}))
        ctx.notes["codepoints_mismatches"] = [{k_: c[k_] for k_ in ("expr", "impl", "model", "leg", "case")} for c in corr[:10]]
    allbad = [(c["line"] if c else (x[3] if len(x) > 3 else "(process)"), x[1], x[2]) for x in (cbad + bad) for c in [x[0]]]
    if allbad:
        allbad.sort(key=lambda o: (o[0].startswith("# (harness"), len(o[0])))
        txt = "\n".join("#expect G:%s   # %s\n%s" % (e, C02.oneline(w), l) for l, w, e in allbad[:40])
        ctx.violation("codepoints", "# C02 (characters): string-length / substring / translate deviate from XPath 1.0 read on characters (a surrogate pair is ONE character)\n"
                      "# replay: python3 check.py C02 --replay <this file>  (each case line is preceded by '#expect <value the Recommendation prescribes>')\n" + txt)
    if k6 and "K6" in known and ctx.pid != "C02":
        # inside check.py C02 the line is printed by props/C02.py (corpus/C02/k6.txt deviates as long as the library counts units)
        ctx.known_finding("K6 %s" % known["K6"]["what"])
    ctx.notes["codepoints_wall_s"] = round(time.time() - t0, 1)
