(* SerDefs.v — C04: the XML serializer model, top level (definitions only).
   Layers:  GenSer (generated facts)  ->  SerUtfDefs (buffered writers: state, items, run)
            ->  SerEscDefs (escaping functions, element stack, events)  ->  this file. *)
From Coq Require Import NArith List Bool.
Require Export XV.GenSer XV.SerUtfDefs XV.SerEscDefs.
Import ListNotations.
Local Open Scope N_scope.

(* the writer family XalanXMLSerializerFactory::create selects *)
Inductive encoding_kind : Type := EncUtf8 | EncUtf16 | EncLatin1 | EncAscii.

Definition fam_of (k : encoding_kind) : fam :=
  match k with
  | EncUtf8 => fam_utf8
  | EncUtf16 => fam_utf16
  | EncLatin1 => fam_other rep_latin1
  | EncAscii => fam_other rep_ascii
  end.

(* startDocument; events; endDocument through the staging buffer: the units handed to the Writer
   (bytes for UTF-8, UTF-16 code units otherwise) *)
Definition serialize (k : encoding_kind) (v11 : bool) (version encoding : list N) (es : list event)
  : res (list N) :=
  let F := fam_of k in
  match run (f_kbuf F) (document_items F v11 version encoding es) (wr_init (f_kbuf F)) with
  | Ok w => Ok (all_units w)
  | Oob => Oob
  | Thrown c => Thrown c
  end.

(* the same function with linear-time list reversal: this is what is extracted and run against the
   library (serialize_fast_eq in SerUtfModel2.v: equal to [serialize]) *)
Definition serialize_fast (k : encoding_kind) (v11 : bool) (version encoding : list N) (es : list event)
  : res (list N) :=
  let F := fam_of k in
  match run (f_kbuf F) (document_items F v11 version encoding es) (wr_init (f_kbuf F)) with
  | Ok w => Ok (rev_append (out_rev w) (rev_append (buf_rev w) []))
  | Oob => Oob
  | Thrown c => Thrown c
  end.

(* the transcoder-backed writer with an arbitrary representability predicate (every encoding that is
   neither UTF-8 nor UTF-16 by name: ISO-8859-1, US-ASCII, and with rep_all UTF-32 / UCS-4 / the alias
   "UTF8", which can represent supplementary characters, so that a surrogate pair goes through
   XalanOtherEncodingWriter::write(XalanUnicodeChar) and its `m_bufferRemaining < 2` guard) *)
Definition rep_all (_ : N) : bool := true.

Definition serialize_other (rep : N -> bool) (v11 : bool) (version encoding : list N) (es : list event)
  : res (list N) :=
  let F := fam_other rep in
  match run (f_kbuf F) (document_items F v11 version encoding es) (wr_init (f_kbuf F)) with
  | Ok w => Ok (all_units w)
  | Oob => Oob
  | Thrown c => Thrown c
  end.

Definition serialize_other_fast (rep : N -> bool) (v11 : bool) (version encoding : list N) (es : list event)
  : res (list N) :=
  let F := fam_other rep in
  match run (f_kbuf F) (document_items F v11 version encoding es) (wr_init (f_kbuf F)) with
  | Ok w => Ok (rev_append (out_rev w) (rev_append (buf_rev w) []))
  | Oob => Oob
  | Thrown c => Thrown c
  end.
