(* SerLegacyDefs.v — C04, part "legacy": the second XML serializer of the library,
   xalanc/XMLSupport/FormatterToXML.cpp, as it is coded now.  Definitions only.
   Tables, strings and the two variant flags come from GenSerLegacy.v (translator/gen_serlegacy.py).

   What is modelled: initCharsMap / initAttrCharsMap, accumContentAsChar / accumCharUTF (put),
   accumNameAsChar (name_put), writeNumberedEntityReference, accumDefaultEntity, accumDefaultEscape,
   the loops of characters() and writeAttrString(), writeNormalizedChars() with isCData = true as
   called by cdata(), cdata(), comment(), processingInstruction(), startElement / endElement with
   m_elemStack, startDocument (XML declaration), outputLineSep.
   Not modelled: the 512-unit staging buffer m_charBuf (flushes do not depend on the characters),
   indentation, DOCTYPE, m_stripCData / m_escapeCData / m_nextIsRaw (all false by default).
   Units are 16-bit (XalanDOMChar); the output is the unit sequence handed to the Writer.

   The variant flags select between the two recognised shapes of the source:
     lc_cdfix  = GenSerLegacy.legacy_cdata_cr_referenced         (fixes/C04/10-K-new-7)
     lc_surfix = GenSerLegacy.legacy_detects_lone_low_surrogate  (fixes/C04/11-K-new-4)
   and, as a separate argument chk of the comment / PI / name functions,
     chk       = GenSerLegacy.legacy_checks_comment_pi_names     (fixes/C04/12-K-new-8) *)
From Coq Require Import NArith List Bool.
Require Import XV.GenSerLegacy XV.SerUtfDefs.
Import ListNotations.
Local Open Scope N_scope.

Definition lmem (c : N) (l : list N) : bool := existsb (N.eqb c) l.
Definition in_ranges (c : N) (rs : list (N * N)) : bool :=
  existsb (fun r => (fst r <=? c) && (c <=? snd r)) rs.

(* m_attrCharsMap[c] == 'S' and m_charsMap[c] == 'S', for c < SPECIALSSIZE *)
Definition lg_attr_map (c : N) : bool :=
  lmem c lg_attr_special_chars || lmem c lg_attr_sets || in_ranges c lg_attr_ranges.
Definition lg_chars_map (maxc c : N) : bool :=
  (maxc <=? c) || ((lmem c lg_chars_sets || in_ranges c lg_chars_ranges) && negb (lmem c lg_chars_cleared)).

(* surrogates: the constants of the source are checked by the translator (0xd800, 0xdc00, 0xe000) *)
Definition lg_high (c : N) : bool := (55296 <=? c) && (c <? 56320).
Definition lg_low (c : N) : bool := (56320 <=? c) && (c <? 57344).
Definition lg_sur (c : N) : bool := (55296 <=? c) && (c <? 57344).
Definition lg_decode (hi lo : N) : N := (hi - 55296) * 1024 + lo - 56320 + 65536.

Definition lg_lift (pre : list N) (r : res (list N)) : res (list N) :=
  match r with Ok y => Ok (pre ++ y) | Oob => Oob | Thrown k => Thrown k end.

Fixpoint lg_assoc (c : N) (l : list (N * list N)) : option (list N) :=
  match l with
  | [] => None
  | (k, v) :: r => if k =? c then Some v else lg_assoc c r
  end.

Record lcfg : Type := mklcfg {
  lc_max : N;        (* m_maxCharacter *)
  lc_v11 : bool;     (* m_isXML1_1 *)
  lc_cdfix : bool;
  lc_surfix : bool
}.

Section Legacy.
  Variable g : lcfg.
  Let maxc := lc_max g.
  Let v11 := lc_v11 g.

  (* outputLineSep: m_newlineString of the stream (XalanOutputStream::defaultNewlineString) *)
  Definition lg_newline : list N := [10].

  (* accumContent(XalanDOMChar): accumContentAsChar; accumCharUTF when m_encodingIsUTF (then
     m_maxCharacter = 0xFFFF and no 16-bit unit exceeds it) *)
  Definition lg_put (c : N) : list N := if maxc <? c then charref c else [c].
  (* accumName(XalanDOMChar) *)
  Definition lg_name_put (c : N) : N := if maxc <? c then lg_name_substitute else c.
  Definition lg_name (s : list N) : list N := map lg_name_put s.
  Definition lg_puts (s : list N) : list N := flat_map lg_put s.

  (* accumDefaultEntity *)
  Definition lg_default_entity (escLF : bool) (c : N) : option (list N) :=
    if negb escLF && (c =? 10) then Some lg_newline else lg_assoc c lg_entities.

  (* accumDefaultEscape(ch, i, chars, len, escLF): what is written, and whether chars[i + 1] was
     consumed as well *)
  Definition lg_default_escape (escLF : bool) (c : N) (r : list N) : res (list N) * bool :=
    match lg_default_entity escLF c with
    | Some e => (Ok e, false)
    | None =>
        if lg_high c then
          match r with
          | [] => (Thrown err_surrogate, false)
          | n :: _ =>
              if lg_low n then
                (Ok (if lc_surfix g then (if maxc <? c then charref (lg_decode c n) else lg_put c ++ lg_put n)
                     else charref (lg_decode c n)), true)
              else (Thrown err_surrogate, false)
          end
        else if lc_surfix g && lg_low c then (Thrown err_surrogate, false)
        else if (maxc <? c) || (v11 && (c =? lg_lsep)) then (Ok (charref c), false)
        else if (c <? lg_specials_size) && lg_attr_map c then
          if (c <? lg_control_below) && negb v11 && negb (lmem c lg_control_allowed_1_0)
          then (Thrown err_forbidden, false)
          else (Ok (charref c), false)
        else (Ok (lg_put c), false)
    end.

  (* the test of the loops of characters() / writeAttrString() *)
  Definition lg_special (attr : bool) (c : N) : bool :=
    ((c <? lg_specials_size) && (if attr then lg_attr_map c else lg_chars_map maxc c))
    || (maxc <? c) || (lc_surfix g && lg_sur c) || (v11 && (c =? lg_lsep)).

  (* characters() (attr = false, escLF = false) and writeAttrString() (attr = true, escLF = true); the
     deferred run firstIndex .. i is written here unit by unit, as accumContentArray does *)
  Fixpoint lg_loop (attr : bool) (l : list N) : res (list N) :=
    match l with
    | [] => Ok []
    | c :: r =>
        if lg_special attr c then
          match lg_default_escape attr c r with
          | (Ok e, skip) =>
              lg_lift e (if skip then match r with [] => Ok [] | _ :: r' => lg_loop attr r' end
                         else lg_loop attr r)
          | (Oob, _) => Oob
          | (Thrown k, _) => Thrown k
          end
        else lg_lift (lg_put c) (lg_loop attr r)
    end.

  Definition lg_write_content (s : list N) : res (list N) := lg_loop false s.
  Definition lg_write_attr (s : list N) : res (list N) := lg_loop true s.

  (* isReferenceInCDATA (output format XML); without the repair: c > m_maxCharacter *)
  Definition lg_ref_in_cdata (c : N) : bool :=
    (maxc <? c) ||
    (lc_cdfix g && ((c =? 13) || ((c <? 32) && negb (c =? 9) && negb (c =? 10))
                    || (v11 && ((c =? lg_lsep) || ((127 <=? c) && (c <=? 159)))))).

  Definition lg_nonempty (l : list N) : bool := match l with [] => false | _ => true end.
  Definition lg_reopen (r : list N) : list N := if lg_nonempty r then lg_cdata_open else [].

  (* writeNormalizedChars(ch, 0, length, true); first = (i == 0).  "i < end - 1" = something follows;
     "i < end - 2" (unsigned) = two more units follow, for NUL-terminated input *)
  Fixpoint lg_norm (l : list N) (first : bool) : res (list N) :=
    match l with
    | [] => Ok []
    | c :: r =>
        if (c =? 13) && (match r with n :: _ => n =? 10 | [] => false end)
           && negb (lc_cdfix g && lg_ref_in_cdata c)
        then lg_lift lg_newline (match r with [] => Ok [] | _ :: r' => lg_norm r' false end)
        else if c =? 10 then lg_lift lg_newline (lg_norm r false)
        else if lg_ref_in_cdata c then
          if lc_cdfix g && (c <? 32) && negb (c =? 13) && negb v11 then Thrown err_forbidden
          else
            let close := if first then [] else lg_cdata_close in
            if lg_high c then
              match r with
              | [] => Thrown err_surrogate
              | n :: r' =>
                  if lg_low n then
                    lg_lift (close ++ charref (lg_decode c n) ++ lg_reopen r') (lg_norm r' false)
                  else Thrown err_surrogate
              end
            else if lc_surfix g && lg_low c then Thrown err_surrogate
            else lg_lift (close ++ charref c ++ lg_reopen r) (lg_norm r false)
        else
          let ordinary (_ : unit) :=
            (* c <= m_maxCharacter here *)
            if lc_surfix g && lg_sur c then
              match r with
              | n :: r' => if lg_high c && lg_low n then lg_lift (lg_put c ++ lg_put n) (lg_norm r' false)
                           else Thrown err_surrogate
              | [] => Thrown err_surrogate
              end
            else lg_lift (lg_put c) (lg_norm r false) in
          if c =? 93 then
            match r with
            | a :: b :: r'' =>
                if (a =? 93) && (b =? 62) then lg_lift lg_cdata_split (lg_norm r'' false)
                else ordinary tt
            | _ => ordinary tt
            end
          else ordinary tt
    end.

  Fixpoint lg_last (l : list N) (d : N) : N :=
    match l with [] => d | c :: r => lg_last r c end.

  (* cdata() without writeParentTagEnd *)
  Definition lg_write_cdata (s : list N) : res (list N) :=
    match s with
    | [] => Ok []
    | c :: r =>
        match lg_norm s true with
        | Ok body =>
            Ok ((if lg_ref_in_cdata c then [] else lg_cdata_open) ++ body ++
                (if lg_ref_in_cdata (lg_last r c) then [] else lg_cdata_close))
        | e => e
        end
    end.

  (* comment() / processingInstruction() without writeParentTagEnd: the data is written unit by
     unit through accumContent, with no check at all *)
  Definition lg_write_comment (s : list N) : list N :=
    lg_name lg_comment_open ++ lg_puts s ++ lg_name lg_comment_close.

  Definition lg_is_ws (c : N) : bool := (c =? 32) || (c =? 9) || (c =? 13) || (c =? 10).

  Definition lg_write_pi (target data : list N) : list N :=
    lg_name lg_pi_open ++ lg_name target ++
    (match data with c :: _ => if lg_is_ws c then [] else [lg_name_put lg_pi_sep] | [] => [] end) ++
    lg_puts data ++ lg_name lg_pi_close.

  (* ---- comments, PIs and names with the variant flag chk --------------------------------------- *)
  (* isReferenceOnly *)
  Definition lg_ref_only (c : N) : bool :=
    (c =? 13) || ((c <? 32) && negb (c =? 9) && negb (c =? 10))
    || (v11 && ((c =? lg_lsep) || ((127 <=? c) && (c <=? 159)))).

  (* accumMarkupRun: the units between two line feeds *)
  Fixpoint lg_markup_run (l : list N) : res (list N) :=
    match l with
    | [] => Ok []
    | c :: r =>
        if lg_sur c then
          match r with
          | n :: r' =>
              if lg_high c && lg_low n then
                if maxc <? c then Thrown err_unrepresentable
                else lg_lift (lg_put c ++ lg_put n) (lg_markup_run r')
              else Thrown err_surrogate
          | [] => Thrown err_surrogate
          end
        else if maxc <? c then Thrown err_unrepresentable
        else lg_lift (lg_put c) (lg_markup_run r)
    end.

  (* accumMarkupData: a reference-only character is an error before the pending run is written *)
  Fixpoint lg_markup_loop (l run_rev : list N) : res (list N) :=
    match l with
    | [] => lg_markup_run (rev run_rev)
    | c :: r =>
        if c =? 10 then
          match lg_markup_run (rev run_rev) with
          | Ok o => lg_lift (o ++ lg_put 10) (lg_markup_loop r [])
          | e => e
          end
        else if lg_ref_only c then Thrown err_forbidden
        else lg_markup_loop r (c :: run_rev)
    end.

  Definition lg_markup (chk : bool) (s : list N) : res (list N) :=
    if chk then lg_markup_loop s [] else Ok (lg_puts s).

  (* accumName(name): accumNameAsChar throws for a unit outside the encoding (output method xml) *)
  Definition lg_name_r (chk : bool) (s : list N) : res (list N) :=
    if chk && existsb (fun c => maxc <? c) s then Thrown err_unrepresentable else Ok (lg_name s).

  Definition lg_bind (r : res (list N)) (k : list N -> res (list N)) : res (list N) :=
    match r with Ok x => k x | Oob => Oob | Thrown c => Thrown c end.

  Definition lg_comment (chk : bool) (s : list N) : res (list N) :=
    lg_lift (lg_name lg_comment_open)
      (lg_bind (lg_markup chk s) (fun d => Ok (d ++ lg_name lg_comment_close))).

  Definition lg_pi (chk : bool) (target data : list N) : res (list N) :=
    lg_lift (lg_name lg_pi_open)
      (lg_bind (lg_name_r chk target) (fun t =>
        lg_bind (lg_markup chk data) (fun d =>
          Ok (t ++ (match data with c :: _ => if lg_is_ws c then [] else [lg_name_put lg_pi_sep] | [] => [] end)
                ++ d ++ lg_name lg_pi_close)))).

  (* ---- events ------------------------------------------------------------------------------- *)
  Inductive lg_event : Type :=
  | LStart (name : list N) (attrs : list (list N * list N))
  | LEnd (name : list N)
  | LText (s : list N)
  | LCdata (s : list N)
  | LComment (s : list N)
  | LPI (target data : list N).

  (* writeParentTagEnd *)
  Definition lg_parent_tag_end (st : list bool) : list N * list bool :=
    match st with
    | false :: r => (lg_put 62, true :: r)
    | _ => ([], st)
    end.

  Fixpoint lg_attrs (chk : bool) (l : list (list N * list N)) : res (list N) :=
    match l with
    | [] => Ok []
    | (an, av) :: r =>
        lg_bind (lg_name_r chk an) (fun n =>
          match lg_write_attr av with
          | Ok v => lg_lift (lg_put 32 ++ n ++ lg_put 61 ++ lg_put 34 ++ v ++ lg_put 34) (lg_attrs chk r)
          | e => e
          end)
    end.

  Definition lg_event_out (chk : bool) (e : lg_event) (st : list bool) : res (list N) * list bool :=
    match e with
    | LStart name attrs =>
        let '(p, st1) := lg_parent_tag_end st in
        (lg_bind (lg_name_r chk name) (fun n => lg_lift (p ++ [lg_name_put 60] ++ n) (lg_attrs chk attrs)),
         false :: st1)
    | LEnd name =>
        let '(had, st1) := match st with [] => (false, []) | b :: r => (b, r) end in
        ((if had then lg_bind (lg_name_r chk name) (fun n => Ok ([lg_name_put 60; lg_name_put 47] ++ n ++ [lg_name_put 62]))
          else Ok [lg_name_put 47; lg_name_put 62]), st1)
    | LText s =>
        match s with
        | [] => (Ok [], st)
        | _ => let '(p, st1) := lg_parent_tag_end st in (lg_lift p (lg_write_content s), st1)
        end
    | LCdata s =>
        (* the harness calls cdata() directly, also with length 0 *)
        let '(p, st1) := lg_parent_tag_end st in (lg_lift p (lg_write_cdata s), st1)
    | LComment s => let '(p, st1) := lg_parent_tag_end st in (lg_lift p (lg_comment chk s), st1)
    | LPI t d => let '(p, st1) := lg_parent_tag_end st in (lg_lift p (lg_pi chk t d), st1)
    end.

  (* ---- the raw marker m_nextIsRaw -------------------------------------------------------------
     processingInstruction(s_piTarget, s_piData) writes nothing and sets the flag; the next characters()
     call with length != 0, or the next cdata() call (any length), clears it and writes its text through
     charactersRaw(): writeParentTagEnd, then the units through accumContent, no escaping, no section *)
  Fixpoint lg_list_eqb (a b : list N) : bool :=
    match a, b with
    | [], [] => true
    | x :: a', y :: b' => (x =? y) && lg_list_eqb a' b'
    | _, _ => false
    end.

  Definition lg_is_marker (e : lg_event) : bool :=
    match e with
    | LPI t d => lg_list_eqb t lg_raw_target && lg_list_eqb d lg_raw_data
    | _ => false
    end.

  (* the events that look at the flag (and clear it) *)
  Definition lg_consumes (e : lg_event) : bool :=
    match e with
    | LText (_ :: _) => true
    | LCdata _ => true
    | _ => false
    end.

  Definition lg_event_text (e : lg_event) : list N :=
    match e with LText s => s | LCdata s => s | _ => [] end.

  (* charactersRaw *)
  Definition lg_raw_out (e : lg_event) (st : list bool) : res (list N) * list bool :=
    let '(p, st1) := lg_parent_tag_end st in (Ok (p ++ lg_puts (lg_event_text e)), st1).

  (* one event with the flag: output, element stack, flag afterwards *)
  Definition lg_event_step (chk : bool) (e : lg_event) (st : list bool) (raw : bool)
    : res (list N) * list bool * bool :=
    if lg_is_marker e then (Ok [], st, true)
    else if lg_consumes e then
      (if raw then lg_raw_out e st else lg_event_out chk e st, false)
    else (lg_event_out chk e st, raw).

  Fixpoint lg_events (chk : bool) (es : list lg_event) (st : list bool) (raw : bool) : res (list N) :=
    match es with
    | [] => Ok []
    | e :: r =>
        match lg_event_step chk e st raw with
        | (Ok o, st1, raw1) => lg_lift o (lg_events chk r st1 raw1)
        | (x, _, _) => x
        end
    end.

  (* startDocument: <?xml version="V" encoding="E"?> *)
  Definition lg_header (version encoding : list N) : list N :=
    lg_name [60; 63; 120; 109; 108; 32; 118; 101; 114; 115; 105; 111; 110; 61; 34] ++ lg_name version ++
    lg_name [34; 32; 101; 110; 99; 111; 100; 105; 110; 103; 61; 34] ++ lg_name encoding ++
    lg_name [34; 63; 62].

  Definition lg_document (chk : bool) (version encoding : list N) (es : list lg_event) : res (list N) :=
    lg_lift (lg_header version encoding) (lg_events chk es [] false).
End Legacy.

(* the configuration of this source tree *)
Definition lg_this_tree (maxc : N) (v11 : bool) : lcfg :=
  mklcfg maxc v11 legacy_cdata_cr_referenced legacy_detects_lone_low_surrogate.
Definition lg_chk_this_tree : bool := legacy_checks_comment_pi_names.
